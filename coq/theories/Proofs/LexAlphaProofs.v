(* Proofs about Model/LexAlpha.v (first-generation lexer, src/alpha/lexer.rs).

   0. table cross-check, Examples by vm_compute for every arm of lex_line
   1. decimal_value / hex_value / bin_value / zero_value
   2. suffix_value / suffix_invalid
   3. span_exact_no_cr / span_crlf_refuted
   4. escape_decode and the error forms
   5. whitespace_comment_invariance
   6. the repaired lexer::lex (lex_alpha_fixed): equal to lex_alpha without CR,
      exact spans for every source, whole-source theorems restated *)
From Coq Require Import String Ascii.
From PV Require Import Base.Common Base.IR Base.Tok Model.LexAlpha.

Local Open Scope N_scope.

(* ================================================================== *)
(* 0. Readable test inputs: Coq strings as code point lists (ASCII only). *)

Definition str (s : string) : list N := map N_of_ascii (list_ascii_of_string s).

(* The numeric tables spell what the Rust source spells. *)
Example keyword_table_spelling :
  map fst keyword_table =
  map str ["fn"; "var"; "const"; "if"; "goto"; "loop"; "else"; "cast"; "as"; "import"; "pub";
           "extern"; "struct"; "word8"; "word16"; "word32"; "word64"; "word128"; "_"]%string.
Proof. vm_compute. reflexivity. Qed.

Example bool_table_spelling : map fst bool_table = map str ["true"; "false"]%string.
Proof. vm_compute. reflexivity. Qed.

Example type_table_spelling :
  map fst type_table =
  map str ["void"; "i8"; "i16"; "i32"; "i64"; "i128"; "u8"; "u16"; "u32"; "u64"; "u128";
           "usize"; "char8"; "bool"]%string.
Proof. vm_compute. reflexivity. Qed.

Example suffix_table_spelling :
  map fst suffix_table =
  map str ["i8"; "i16"; "i32"; "i64"; "i128"; "u8"; "u16"; "u32"; "u64"; "u128"; "usize"]%string.
Proof. vm_compute. reflexivity. Qed.

Example escape_table_spelling :
  map fst escape_table = str "nrt\'""0"%string.
Proof. vm_compute. reflexivity. Qed.

(* Payload view of a token list: (kind, value, vtype, bytes). *)
Definition pay (t : tok) : tkind * Z * option tykw * list N := (kind t, value t, vtype t, bytes t).
Definition pos (t : tok) : N * N * N * N := (tstart t, tend t, line t, lstart t).
Definition pays (s : string) := map pay (lex_alpha (str s)).
Definition poss (s : string) := map pos (lex_alpha (str s)).
Definition P (k : tkind) : tkind * Z * option tykw * list N := (k, 0%Z, None, []).
Definition Pv (k : tkind) (v : Z) : tkind * Z * option tykw * list N := (k, v, None, []).
Definition PE (c : Z) : tkind * Z * option tykw * list N := (KError, c, None, []).

(* ---- single / double character arms *)
Example ex_singles :
  pays "(){}[]&^+*%:;," =
  map P [KParenLeft; KParenRight; KBraceLeft; KBraceRight; KBracketLeft; KBracketRight;
         KAmpersand; KCaret; KPlus; KTimes; KModulo; KColon; KSemicolon; KComma].
Proof. vm_compute. reflexivity. Qed.

Example ex_doubles :
  pays "< << <= > >> >= | |: ! != . .. ... = == === - -> / <<<" =
  map P [KAngleLeft; KShiftLeft; KIsLE; KAngleRight; KShiftRight; KIsGE; KPipe; KPipeForType;
         KExclamation; KDoesNotEqual; KDot; KDots; KDots; KDot; KAssignment; KEquals; KEquals;
         KAssignment; KMinus; KArrow; KDivide; KShiftLeft; KAngleLeft].
Proof. vm_compute. reflexivity. Qed.

Example ex_comment : pays "a / b // c d
e" = map P [KIdentifier; KDivide; KIdentifier; KIdentifier].
Proof. vm_compute. reflexivity. Qed.

Example ex_comment_pos : poss "a//x
  b" = [(0, 1, 1, 0); (7, 8, 2, 2)].
Proof. vm_compute. reflexivity. Qed.

(* ---- words *)
Example ex_keywords :
  pays "fn var const if goto loop else cast as import pub extern struct word8 word16 word32 word64 word128 _ return" =
  map P [KFn; KVar; KConst; KIf; KGoto; KLoop; KElse; KCast; KAs; KImport; KPub; KExtern; KStruct;
         KWord8; KWord16; KWord32; KWord64; KWord128; KPlaceholder; KIdentifier (* no return keyword *)].
Proof. vm_compute. reflexivity. Qed.

Example ex_types_bools :
  pays "void i8 u128 usize char8 bool true false i7" =
  [(KType, 0%Z, Some TyVoid, []); (KType, 0%Z, Some (TyPrim Int8), []);
   (KType, 0%Z, Some (TyPrim Uint128), []); (KType, 0%Z, Some (TyPrim Usize), []);
   (KType, 0%Z, Some (TyPrim Char8), []); (KType, 0%Z, Some (TyPrim Bool), []);
   Pv KBool 1; Pv KBool 0; P KIdentifier].
Proof. vm_compute. reflexivity. Qed.

(* a keyword followed by '!' is not a builtin; "__" is an identifier *)
Example ex_builtin :
  pays "print! if! _! __ x9_!= a!!" =
  map P [KBuiltin; KIf; KExclamation; KPlaceholder; KExclamation; KIdentifier;
         KBuiltin; KAssignment; KBuiltin; KExclamation].
Proof. vm_compute. reflexivity. Qed.

Example ex_builtin_pos : poss "ab! c" = [(0, 3, 1, 0); (4, 5, 1, 4)].
Proof. vm_compute. reflexivity. Qed.

(* ---- numbers *)
Example ex_numbers :
  pays "0 7 1_000 1_ 0x1F 0xfF_ 0b101 0x0 0b0 0x_1" =
  [Pv KNakedDecimal 0; Pv KNakedDecimal 7; Pv KNakedDecimal 1000; Pv KNakedDecimal 1;
   Pv KBitInteger 31; Pv KBitInteger 255; Pv KBitInteger 5; Pv KBitInteger 0; Pv KBitInteger 0;
   Pv KBitInteger 1].
Proof. vm_compute. reflexivity. Qed.

Example ex_number_quirks :
  pays "0123 00 0_ 0x 0b 0x_ 0xg 0b2 0b12 0X1 1a 1_a 12u 0u8 0x1u8 0b1i8 0xu8 0xfu8 1e5 0xi8" =
  [PE E141; PE E141; PE E141; PE E141; PE E141; PE E141; PE E141; PE E141; PE E141; PE E141;
   PE E141; PE E141; PE E141;
   (KSuffixedInteger, 0%Z, Some (TyPrim Uint8), []);
   (KSuffixedInteger, 1%Z, Some (TyPrim Uint8), []);
   (KSuffixedInteger, 1%Z, Some (TyPrim Int8), []);
   PE E141; (KSuffixedInteger, 15%Z, Some (TyPrim Uint8), []); PE E141; PE E141].
Proof. vm_compute. reflexivity. Qed.

Example ex_suffixes :
  pays "1i8 2i16 3i32 4i64 5i128 6u8 7u16 8u32 9u64 10u128 11usize 12char8 13bool 1_u8 1u_8 1u8_" =
  [(KSuffixedInteger, 1%Z, Some (TyPrim Int8), []); (KSuffixedInteger, 2%Z, Some (TyPrim Int16), []);
   (KSuffixedInteger, 3%Z, Some (TyPrim Int32), []); (KSuffixedInteger, 4%Z, Some (TyPrim Int64), []);
   (KSuffixedInteger, 5%Z, Some (TyPrim Int128), []); (KSuffixedInteger, 6%Z, Some (TyPrim Uint8), []);
   (KSuffixedInteger, 7%Z, Some (TyPrim Uint16), []); (KSuffixedInteger, 8%Z, Some (TyPrim Uint32), []);
   (KSuffixedInteger, 9%Z, Some (TyPrim Uint64), []); (KSuffixedInteger, 10%Z, Some (TyPrim Uint128), []);
   (KSuffixedInteger, 11%Z, Some (TyPrim Usize), []); PE E141; PE E141;
   (KSuffixedInteger, 1%Z, Some (TyPrim Uint8), []); PE E141; PE E141].
Proof. vm_compute. reflexivity. Qed.

Example ex_u128_limits :
  pays "340282366920938463463374607431768211455 340282366920938463463374607431768211456 0xffffffffffffffffffffffffffffffff 0x100000000000000000000000000000000 0x000000000000000000000000000000000000001 340282366920938463463374607431768211456u8 340282366920938463463374607431768211456zz" =
  [Pv KNakedDecimal (2 ^ 128 - 1); PE E140; Pv KBitInteger (2 ^ 128 - 1); PE E140; Pv KBitInteger 1;
   PE E140; PE E140 (* overflow wins over a bad suffix *)].
Proof. vm_compute. reflexivity. Qed.

Example ex_number_pos : poss "12_u8+0x_f_ 0" = [(0, 5, 1, 0); (5, 6, 1, 5); (6, 11, 1, 6); (12, 13, 1, 12)].
Proof. vm_compute. reflexivity. Qed.

(* ---- quoted literals *)
Example ex_string :
  pays "x = ""a b\n\r\t\\\'\""\0\x41\x7f\xfF\u{41}\u{e9}\u{20AC}\u{1F600}""" =
  [P KIdentifier; P KAssignment;
   (KStringLiteral, 0%Z, None,
    [97; 32; 98; 10; 13; 9; 92; 39; 34; 0; 65; 127; 255; 65; 195; 169; 226; 130; 172; 240; 159; 152; 128])].
Proof. vm_compute. reflexivity. Qed.

(* raw non-ASCII characters are UTF-8 encoded: e-acute, euro sign, U+1F600, U+80, U+10FFFF *)
Example ex_string_nonascii :
  map pay (lex_alpha ([34; 233; 8364; 128512; 128; 1114111; 34])) =
  [(KStringLiteral, 0%Z, None,
    [195; 169; 226; 130; 172; 240; 159; 152; 128; 194; 128; 244; 143; 191; 191])].
Proof. vm_compute. reflexivity. Qed.

Example ex_char_literals :
  pays "'a' ' ' '""' '\'' '\x80' '\u{41}' '' 'ab' '\u{e9}' ""'""" =
  [Pv KCharLiteral 97; Pv KCharLiteral 32; Pv KCharLiteral 34; Pv KCharLiteral 39;
   Pv KCharLiteral 128; Pv KCharLiteral 65; PE E163; PE E163; PE E163;
   (KStringLiteral, 0%Z, None, [39])].
Proof. vm_compute. reflexivity. Qed.

(* a raw non-ASCII char in a char literal is two bytes: E163 *)
Example ex_char_nonascii : map pay (lex_alpha [39; 233; 39]) = [PE E163].
Proof. vm_compute. reflexivity. Qed.

(* errors inside literals: only the first error is reported, the literal is
   consumed up to its closing quote (or the end of the line) *)
Example ex_string_errors :
  pays """\q"" ""\x4"" ""\xg"" ""\u"" ""\u{}"" ""\u{41"" ""\u{d800}"" ""\u{110000}"" ""\u{100000000}"" ""\U{41}"" ""a\qb\x"" 1" =
  [PE E162; PE E162; PE E162; PE E162; PE E162; PE E162; PE E162; PE E162; PE E162; PE E162; PE E162;
   Pv KNakedDecimal 1].
Proof. vm_compute. reflexivity. Qed.

Example ex_string_unterminated : pays "a ""bc + 1" = [P KIdentifier; PE E160].
Proof. vm_compute. reflexivity. Qed.

Example ex_string_trailing_backslash : pays "a ""bc\" = [P KIdentifier; PE E161].
Proof. vm_compute. reflexivity. Qed.

(* the unterminated literal ends at the end of the line; the next line is lexed normally *)
Example ex_string_unterminated_lines : pays "'a
b'" = [PE E160; P KIdentifier; PE E160].
Proof. vm_compute. reflexivity. Qed.

(* tab / control characters / DEL inside a literal: E110 (the literal is still consumed) *)
Example ex_string_control :
  map pay (lex_alpha ([34; 97; 9; 98; 34; 49])) = [PE E110; Pv KNakedDecimal 1].
Proof. vm_compute. reflexivity. Qed.
Example ex_string_del : map pay (lex_alpha ([34; 127; 34])) = [PE E110].
Proof. vm_compute. reflexivity. Qed.

(* positions of in-literal errors: span of the offending character(s),
   line_offset = index of the offending character + 1 *)
Example ex_string_error_pos :
  poss "  ""ab\qcd"" x" = [(5, 7, 1, 6); (11, 12, 1, 11)].
Proof. vm_compute. reflexivity. Qed.
Example ex_string_error_pos_x : poss """\x4g""" = [(1, 4, 1, 2)].
Proof. vm_compute. reflexivity. Qed.
Example ex_string_error_pos_u : poss """a\u{12z""" = [(2, 7, 1, 3)].
Proof. vm_compute. reflexivity. Qed.
(* E160: span of the whole rest of the line, line_offset = its length *)
Example ex_unterminated_pos : poss " ""abc" = [(1, 5, 1, 5)].
Proof. vm_compute. reflexivity. Qed.
Example ex_unterminated_pos_empty : poss " """ = [(1, 2, 1, 2)].
Proof. vm_compute. reflexivity. Qed.
(* E161: the span ends one past the end of the line *)
Example ex_trailing_backslash_pos : poss """ab\" = [(3, 5, 1, 4)].
Proof. vm_compute. reflexivity. Qed.
Example ex_trailing_backslash_next_line :
  poss """\
x" = [(1, 3, 1, 2); (3, 4, 2, 0)].
Proof. vm_compute. reflexivity. Qed.

(* ---- everything else *)
Example ex_unexpected :
  map pay (lex_alpha (str "#$@?~`\" ++ [0; 13; 127; 233; 8364; 128512; 160; 12])) =
  repeat (PE E110) 15.
Proof. vm_compute. reflexivity. Qed.

Example ex_whitespace : map pay (lex_alpha [32; 32; 9; 32; 97; 9; 32]) = [P KIdentifier].
Proof. vm_compute. reflexivity. Qed.

(* ---- lines *)
Example ex_empty : map pay (lex_alpha []) = [PE E101] /\ map pos (lex_alpha []) = [(0, 0, 1, 1)].
Proof. vm_compute. split; reflexivity. Qed.
Example ex_only_newline : lex_alpha [10] = [].
Proof. vm_compute. reflexivity. Qed.

Example ex_lines_of :
  lines_of (str "a" ++ [13; 10] ++ str "b" ++ [13; 13; 10; 10] ++ str "c" ++ [13]) =
  [str "a"; str "b" ++ [13]; []; str "c" ++ [13]].
Proof. vm_compute. reflexivity. Qed.
Example ex_lines_of_2 : lines_of [10; 10] = [[]; []] /\ lines_of [97; 10] = [[97]] /\ lines_of [13] = [[13]].
Proof. vm_compute. repeat split; reflexivity. Qed.

Example ex_lines_pos : poss "a
 bc

d" = [(0, 1, 1, 0); (3, 5, 2, 1); (7, 8, 4, 0)].
Proof. vm_compute. reflexivity. Qed.

(* a bare CR (not before LF) and a CR at the very end are characters of the line: E110 *)
Example ex_bare_cr :
  map pay (lex_alpha (str "a" ++ [13] ++ str "b" ++ [13])) = [P KIdentifier; PE E110; P KIdentifier; PE E110].
Proof. vm_compute. reflexivity. Qed.

(* ================================================================== *)
(* Generic helpers. *)

Ltac b2p :=
  repeat rewrite ?andb_true_iff, ?orb_true_iff, ?andb_false_iff, ?orb_false_iff,
                 ?N.leb_le, ?N.leb_gt, ?N.eqb_eq, ?N.eqb_neq, ?N.ltb_lt, ?N.ltb_ge,
                 ?negb_true_iff, ?negb_false_iff in *.

Ltac unfold_classes :=
  unfold is_ident_cont, is_ident_start, is_hex, is_bin, is_dec, is_nonzero_dec, is_lower, is_upper,
         is_ascii_graphic, is_ascii, in_range in *.

Lemma len_nil : len [] = 0.
Proof. reflexivity. Qed.

Lemma len_cons x l : len (x :: l) = 1 + len l.
Proof. unfold len. cbn [length]. lia. Qed.

Lemma len_app a b : len (a ++ b) = len a + len b.
Proof. unfold len. rewrite app_length. lia. Qed.

(* [rest] does not continue an identifier / number: end of line or a
   character that is not [a-zA-Z0-9_]. *)
Definition stops (rest : list N) : Prop :=
  match rest with [] => True | y :: _ => is_ident_cont y = false end.

Lemma dec_is_cont c : is_dec c = true -> is_ident_cont c = true.
Proof. unfold_classes. b2p. lia. Qed.
Lemma hex_is_cont c : is_hex c = true -> is_ident_cont c = true.
Proof. unfold_classes. b2p. lia. Qed.
Lemma bin_is_cont c : is_bin c = true -> is_ident_cont c = true.
Proof. unfold_classes. b2p. lia. Qed.
Lemma us_is_cont : is_ident_cont 95 = true.
Proof. reflexivity. Qed.

Lemma take_ident_stops rest : stops rest -> take_ident rest = ([], rest).
Proof. destruct rest as [|y r]; cbn [take_ident stops]; [reflexivity|]. now intros ->. Qed.

Lemma take_ident_app s rest :
  forallb is_ident_cont s = true -> stops rest -> take_ident (s ++ rest) = (s, rest).
Proof.
  induction s as [|c s IH]; intros Hs Hr.
  - now apply take_ident_stops.
  - cbn [forallb] in Hs. apply andb_true_iff in Hs. destruct Hs as [Hc Hs].
    cbn [app take_ident]. rewrite Hc, (IH Hs Hr). reflexivity.
Qed.

(* [ds] consists of digits (w.r.t. [isd]) and underscores. *)
Definition digits_us (isd : N -> bool) (ds : list N) : bool :=
  forallb (fun c => isd c || (c =? 95)) ds.

(* The characters that reach the literal: the digits, without the underscores. *)
Definition strip_us (ds : list N) : list N := filter (fun c => negb (c =? 95)) ds.

Lemma take_digits_app isd ds rest :
  isd 95 = false ->
  digits_us isd ds = true ->
  match rest with [] => True | y :: _ => isd y = false /\ y <> 95 end ->
  take_digits isd (ds ++ rest) = (strip_us ds, len ds, rest).
Proof.
  intros H95. induction ds as [|c ds IH]; intros Hds Hr.
  - cbn [app strip_us filter]. destruct rest as [|y r]; [reflexivity|].
    destruct Hr as [Hy Hn]. cbn [take_digits]. rewrite Hy.
    apply N.eqb_neq in Hn. now rewrite Hn.
  - cbn [digits_us forallb] in Hds. apply andb_true_iff in Hds. destruct Hds as [Hc Hds].
    cbn [app take_digits strip_us filter]. fold (strip_us ds). rewrite (IH Hds Hr), len_cons.
    destruct (isd c) eqn:Hi.
    + destruct (c =? 95) eqn:He; [apply N.eqb_eq in He; congruence|]. reflexivity.
    + cbn [orb] in Hc. rewrite Hc. reflexivity.
Qed.

Lemma stops_not_digit isd rest :
  (forall c, isd c = true -> is_ident_cont c = true) ->
  stops rest -> match rest with [] => True | y :: _ => isd y = false /\ y <> 95 end.
Proof.
  intros Himp. destruct rest as [|y r]; [trivial|]. cbn [stops]. intros Hy. split.
  - destruct (isd y) eqn:E; [|reflexivity]. apply Himp in E. congruence.
  - intros ->. now rewrite us_is_cont in Hy.
Qed.

(* ================================================================== *)
(* 1. Values of integer literals. *)

Local Open Scope Z_scope.

(* The mathematical value of a digit string in positional notation. *)
Fixpoint value_of_digits (base : Z) (ds : list N) : Z :=
  match ds with
  | [] => 0
  | d :: r => digit_val d * base ^ Z.of_nat (length r) + value_of_digits base r
  end.

Definition valid_digits (base : Z) (ds : list N) : Prop :=
  Forall (fun d => 0 <= digit_val d < base) ds.

Lemma value_of_digits_nonneg base ds : 0 < base -> valid_digits base ds -> 0 <= value_of_digits base ds.
Proof.
  intros Hb H. induction H as [|d r Hd _ IH]; cbn [value_of_digits]; [lia|].
  assert (0 < base ^ Z.of_nat (length r)) by (apply Z.pow_pos_nonneg; lia). nia.
Qed.

(* The checked multiply-then-add loop computes the mathematical value exactly
   when that value fits, and fails otherwise. *)
Lemma parse_acc_spec limit base : 0 < base ->
  forall ds acc, 0 <= acc < limit -> valid_digits base ds ->
  parse_acc limit base acc ds =
  let v := acc * base ^ Z.of_nat (length ds) + value_of_digits base ds in
  if v <? limit then Some v else None.
Proof.
  intros Hb. induction ds as [|d r IH]; intros acc Hacc Hv.
  - cbn [parse_acc length value_of_digits Z.of_nat]. cbv zeta.
    replace (acc * base ^ 0 + 0) with acc by (rewrite Z.pow_0_r; lia).
    destruct (Z.ltb_spec acc limit); [reflexivity|lia].
  - inversion Hv as [|d' r' Hd Hr]; subst.
    pose proof (value_of_digits_nonneg base r Hb Hr) as Hnn.
    assert (Hp : 0 < base ^ Z.of_nat (length r)) by (apply Z.pow_pos_nonneg; lia).
    cbn [parse_acc]. cbv zeta.
    assert (Hexp : base ^ Z.of_nat (length (d :: r)) = base * base ^ Z.of_nat (length r)).
    { cbn [length]. rewrite Nat2Z.inj_succ, Z.pow_succ_r; lia. }
    rewrite Hexp. cbn [value_of_digits].
    set (pw := base ^ Z.of_nat (length r)) in *.
    set (vr := value_of_digits base r) in *.
    destruct (Z.leb_spec limit (acc * base)) as [Hov|Hok].
    + destruct (Z.ltb_spec (acc * (base * pw) + (digit_val d * pw + vr)) limit); [nia|reflexivity].
    + destruct (Z.leb_spec limit (acc * base + digit_val d)) as [Hov2|Hok2].
      * destruct (Z.ltb_spec (acc * (base * pw) + (digit_val d * pw + vr)) limit); [nia|reflexivity].
      * rewrite IH; [|nia|assumption]. cbv zeta. fold pw. fold vr.
        replace ((acc * base + digit_val d) * pw + vr)
          with (acc * (base * pw) + (digit_val d * pw + vr)) by ring.
        reflexivity.
Qed.

Lemma from_str_radix_spec limit base ds : 0 < base -> 0 < limit ->
  ds <> [] -> valid_digits base ds ->
  from_str_radix limit base ds =
  if value_of_digits base ds <? limit then Some (value_of_digits base ds) else None.
Proof.
  intros Hb Hl Hne Hv. destruct ds as [|d r]; [congruence|].
  unfold from_str_radix. rewrite (parse_acc_spec limit base Hb (d :: r) 0); [|lia|assumption].
  cbv zeta. now rewrite Z.mul_0_l, Z.add_0_l.
Qed.

Lemma dec_valid c : is_dec c = true -> 0 <= digit_val c < 10.
Proof. unfold digit_val. intros H. rewrite H. revert H. unfold_classes. b2p. lia. Qed.
Lemma bin_valid c : is_bin c = true -> 0 <= digit_val c < 2.
Proof.
  unfold digit_val, is_bin. b2p. intros [->| ->]; cbn; lia.
Qed.
Lemma hex_valid c : is_hex c = true -> 0 <= digit_val c < 16.
Proof.
  unfold digit_val. unfold is_hex. intros H.
  destruct (is_dec c) eqn:Hd.
  - revert Hd. unfold_classes. b2p. lia.
  - cbn [orb] in H. destruct (in_range 97 102 c) eqn:Hl.
    + revert Hl. unfold_classes. b2p. lia.
    + cbn [orb] in H. revert H. unfold_classes. b2p. lia.
Qed.

Lemma strip_us_valid isd base ds :
  isd 95%N = false ->
  (forall c, isd c = true -> 0 <= digit_val c < base) ->
  digits_us isd ds = true -> valid_digits base (strip_us ds).
Proof.
  intros H95 Hval. induction ds as [|c ds IH]; intros Hds; [constructor|].
  cbn [digits_us forallb] in Hds. apply andb_true_iff in Hds. destruct Hds as [Hc Hds].
  cbn [strip_us filter]. fold (strip_us ds). destruct (c =? 95)%N eqn:He; cbn [negb].
  - now apply IH.
  - rewrite orb_false_r in Hc. constructor; [now apply Hval|now apply IH].
Qed.

Lemma u128_limit_pos : 0 < U128_LIMIT.
Proof. reflexivity. Qed.

(* ---- decimal: [1-9][0-9_]* followed by something that is not [a-zA-Z0-9_] *)
Theorem decimal_value x ds rest :
  is_nonzero_dec x = true -> digits_us is_dec ds = true -> stops rest ->
  let v := value_of_digits 10 (x :: strip_us ds) in
  lex_step x (ds ++ rest) =
  if v <? 2 ^ 128
  then StTok KNakedDecimal v None [] (1 + len ds) rest
  else StTok KError E140 None [] (1 + len ds) rest.
Proof.
  intros Hx Hds Hr v.
  assert (Hxd : is_dec x = true) by (revert Hx; unfold_classes; b2p; lia).
  assert (Hstep : lex_step x (ds ++ rest) = lex_decimal x (ds ++ rest)).
  { unfold lex_step. revert Hx. unfold_classes. intros Hx.
    repeat match goal with
    | |- context [(x =? ?c)%N] =>
        let E := fresh in destruct (x =? c)%N eqn:E;
        [apply N.eqb_eq in E; subst x; discriminate Hx|]
    end.
    replace ((97 <=? x)%N && (x <=? 122)%N || (65 <=? x)%N && (x <=? 90)%N || false) with false
      by (symmetry; revert Hx; b2p; lia).
    now rewrite Hx. }
  rewrite Hstep. unfold lex_decimal.
  rewrite (take_digits_app is_dec ds rest eq_refl Hds (stops_not_digit _ _ dec_is_cont Hr)).
  rewrite (take_ident_stops rest Hr).
  assert (Hv : valid_digits 10 (x :: strip_us ds)).
  { constructor; [now apply dec_valid|].
    apply (strip_us_valid is_dec 10 ds eq_refl dec_valid Hds). }
  rewrite (from_str_radix_spec U128_LIMIT 10 (x :: strip_us ds)); [|lia|apply u128_limit_pos|discriminate|assumption].
  fold v. change U128_LIMIT with (2 ^ 128).
  rewrite len_nil, N.add_0_r.
  destruct (v <? 2 ^ 128); reflexivity.
Qed.

(* ---- 0x / 0b *)
Lemma lex_radix_value isd base pc ds rest :
  isd 95%N = false ->
  (forall c, isd c = true -> 0 <= digit_val c < base) ->
  (forall c, isd c = true -> is_ident_cont c = true) ->
  0 < base ->
  digits_us isd ds = true -> strip_us ds <> [] -> stops rest ->
  let v := value_of_digits base (strip_us ds) in
  lex_radix isd base pc (ds ++ rest) =
  if v <? 2 ^ 128
  then StTok KBitInteger v None [] (2 + len ds) rest
  else StTok KError E140 None [] (2 + len ds) rest.
Proof.
  intros H95 Hval Hcont Hb Hds Hne Hr v. unfold lex_radix.
  rewrite (take_digits_app isd ds rest H95 Hds (stops_not_digit _ _ Hcont Hr)).
  rewrite (take_ident_stops rest Hr).
  rewrite (from_str_radix_spec U128_LIMIT base (strip_us ds) Hb u128_limit_pos Hne
             (strip_us_valid isd base ds H95 Hval Hds)).
  fold v. change U128_LIMIT with (2 ^ 128). rewrite len_nil, N.add_0_r.
  destruct (v <? 2 ^ 128).
  - unfold finish_number. destruct (strip_us ds) as [|d l] eqn:E; [congruence|].
    cbn [is_nil andb]. rewrite andb_false_r. reflexivity.
  - destruct (strip_us ds) as [|d l] eqn:E; [congruence|]. reflexivity.
Qed.

Theorem hex_value ds rest :
  digits_us is_hex ds = true -> strip_us ds <> [] -> stops rest ->
  let v := value_of_digits 16 (strip_us ds) in
  lex_step 48 (120%N :: ds ++ rest) =
  if v <? 2 ^ 128
  then StTok KBitInteger v None [] (2 + len ds) rest
  else StTok KError E140 None [] (2 + len ds) rest.
Proof.
  intros Hds Hne Hr.
  change (lex_step 48 (120%N :: ds ++ rest)) with (lex_radix is_hex 16 120 (ds ++ rest)).
  apply lex_radix_value; auto using hex_valid, hex_is_cont; lia.
Qed.

Theorem bin_value ds rest :
  digits_us is_bin ds = true -> strip_us ds <> [] -> stops rest ->
  let v := value_of_digits 2 (strip_us ds) in
  lex_step 48 (98%N :: ds ++ rest) =
  if v <? 2 ^ 128
  then StTok KBitInteger v None [] (2 + len ds) rest
  else StTok KError E140 None [] (2 + len ds) rest.
Proof.
  intros Hds Hne Hr.
  change (lex_step 48 (98%N :: ds ++ rest)) with (lex_radix is_bin 2 98 (ds ++ rest)).
  apply lex_radix_value; auto using bin_valid, bin_is_cont; lia.
Qed.

(* "0x" / "0b" followed by no digit at all (only underscores): the prefix
   letter becomes the suffix, which is never valid: E141, not E140. *)
Theorem radix_without_digits ds rest :
  forallb (N.eqb 95) ds = true -> stops rest ->
  lex_step 48 (120%N :: ds ++ rest) = StTok KError E141 None [] (2 + len ds) rest /\
  lex_step 48 (98%N :: ds ++ rest) = StTok KError E141 None [] (2 + len ds) rest.
Proof.
  intros Hds Hr.
  assert (Hs : strip_us ds = []).
  { induction ds as [|c ds IH]; [reflexivity|]. cbn [forallb] in Hds.
    apply andb_true_iff in Hds. destruct Hds as [Hc Hds]. cbn [strip_us filter].
    apply N.eqb_eq in Hc. subst c. cbn. now apply IH. }
  assert (Hd : forall isd, digits_us isd ds = true).
  { intros isd. unfold digits_us. rewrite forallb_forall in *. intros c Hc.
    apply Hds in Hc. apply N.eqb_eq in Hc. subst c. apply orb_true_r. }
  split.
  - change (lex_step 48 (120%N :: ds ++ rest)) with (lex_radix is_hex 16 120 (ds ++ rest)).
    unfold lex_radix.
    rewrite (take_digits_app is_hex ds rest eq_refl (Hd _) (stops_not_digit _ _ hex_is_cont Hr)).
    rewrite (take_ident_stops rest Hr), Hs, len_nil, N.add_0_r. reflexivity.
  - change (lex_step 48 (98%N :: ds ++ rest)) with (lex_radix is_bin 2 98 (ds ++ rest)).
    unfold lex_radix.
    rewrite (take_digits_app is_bin ds rest eq_refl (Hd _) (stops_not_digit _ _ bin_is_cont Hr)).
    rewrite (take_ident_stops rest Hr), Hs, len_nil, N.add_0_r. reflexivity.
Qed.

(* a lone 0 *)
Theorem zero_value rest :
  stops rest -> lex_step 48 rest = StTok KNakedDecimal 0 None [] 1 rest.
Proof.
  intros Hr. change (lex_step 48 rest) with (lex_zero rest). unfold lex_zero.
  rewrite (take_ident_stops rest Hr).
  destruct rest as [|y r]; [reflexivity|]. cbn [stops] in Hr.
  destruct (y =? 120)%N eqn:E1; [apply N.eqb_eq in E1; subst; discriminate|].
  destruct (y =? 98)%N eqn:E2; [apply N.eqb_eq in E2; subst; discriminate|].
  reflexivity.
Qed.

(* 0 followed by more digits ("octal looking") or underscores: E141. *)
Theorem zero_then_digits d rest :
  is_dec d = true \/ d = 95%N ->
  exists n rest', lex_step 48 (d :: rest) = StTok KError E141 None [] n rest'.
Proof.
  intros Hd. change (lex_step 48 (d :: rest)) with (lex_zero (d :: rest)). unfold lex_zero.
  assert (Hc : is_ident_cont d = true) by (destruct Hd as [Hd| ->]; [now apply dec_is_cont|reflexivity]).
  destruct (d =? 120)%N eqn:E1; [apply N.eqb_eq in E1; subst; destruct Hd; discriminate|].
  destruct (d =? 98)%N eqn:E2; [apply N.eqb_eq in E2; subst; destruct Hd; discriminate|].
  cbn [take_ident]. rewrite Hc. destruct (take_ident rest) as [t r'] eqn:Et.
  assert (Hs : parse_integer_suffix (d :: t) = None).
  { unfold parse_integer_suffix, suffix_table. cbn [assoc str_eqb].
    assert (H1 : (d =? 105)%N = false) by (destruct Hd as [Hd| ->]; [|reflexivity]; revert Hd; unfold_classes; b2p; lia).
    assert (H2 : (d =? 117)%N = false) by (destruct Hd as [Hd| ->]; [|reflexivity]; revert Hd; unfold_classes; b2p; lia).
    rewrite H1, H2. reflexivity. }
  unfold finish_number. cbn [is_nil andb]. rewrite andb_false_r, Hs. eauto.
Qed.

Example decimal_value_hyp_ok :
  is_nonzero_dec 49 = true /\ digits_us is_dec (str "_000_") = true /\ stops (str "+1") /\
  value_of_digits 10 (49%N :: strip_us (str "_000_")) = 1000.
Proof. vm_compute. repeat split; reflexivity. Qed.

(* Whole-source corollary: a source consisting of one decimal literal. *)
Lemma no_nl_lines cs : cs <> [] -> forallb (fun c => negb (c =? 10)%N && negb (c =? 13)%N) cs = true ->
  lines_of cs = [cs].
Proof.
  induction cs as [|c cs IH]; [congruence|]. intros _ H. cbn [forallb] in H.
  apply andb_true_iff in H. destruct H as [Hc H]. apply andb_true_iff in Hc. destruct Hc as [Hc1 Hc2].
  apply negb_true_iff in Hc1, Hc2. cbn [lines_of]. rewrite Hc1, Hc2. cbn [andb].
  destruct cs as [|c' cs']; [reflexivity|]. rewrite IH; [reflexivity|discriminate|assumption].
Qed.

Theorem decimal_value_source x ds :
  is_nonzero_dec x = true -> digits_us is_dec ds = true ->
  let v := value_of_digits 10 (x :: strip_us ds) in
  lex_alpha (x :: ds) =
  [if v <? 2 ^ 128
   then mk KNakedDecimal v None [] 0 (1 + len ds) 1 0
   else mk KError E140 None [] 0 (1 + len ds) 1 0].
Proof.
  intros Hx Hds v. unfold lex_alpha. cbn [is_nil].
  assert (Hl : lines_of (x :: ds) = [x :: ds]).
  { apply no_nl_lines; [discriminate|]. cbn [forallb]. apply andb_true_iff. split.
    - revert Hx. unfold_classes. b2p. lia.
    - unfold digits_us in Hds. rewrite forallb_forall in *. intros c Hc. apply Hds in Hc.
      revert Hc. unfold_classes. b2p. lia. }
  rewrite Hl. cbn [lex_lines]. rewrite !app_nil_r. unfold lex_line. cbn [length lex_line_fuel].
  pose proof (decimal_value x ds [] Hx Hds I) as Hstep. rewrite app_nil_r in Hstep.
  cbv zeta in Hstep. fold v in Hstep. rewrite Hstep.
  destruct (v <? 2 ^ 128); destruct ds; reflexivity.
Qed.

(* ================================================================== *)
(* 2. Type suffixes. *)

Lemma lex_step_decimal x rest : is_nonzero_dec x = true -> lex_step x rest = lex_decimal x rest.
Proof.
  intros Hx. unfold lex_step. revert Hx. unfold_classes. intros Hx.
  repeat match goal with
  | |- context [(x =? ?c)%N] =>
      let E := fresh in destruct (x =? c)%N eqn:E;
      [apply N.eqb_eq in E; subst x; discriminate Hx|]
  end.
  replace ((97 <=? x)%N && (x <=? 122)%N || (65 <=? x)%N && (x <=? 90)%N || false) with false
    by (symmetry; revert Hx; b2p; lia).
  now rewrite Hx.
Qed.

(* [suf] can follow the digits [isd]: nonempty, all identifier characters, and
   its first character is neither a digit nor an underscore (else the literal
   loop would have taken it). *)
Definition suffix_shape (isd : N -> bool) (suf : list N) : bool :=
  forallb is_ident_cont suf &&
  match suf with [] => false | y :: _ => negb (isd y) && negb (y =? 95)%N end.

Lemma suffix_shape_head isd suf rest : suffix_shape isd suf = true ->
  match suf ++ rest with [] => True | y :: _ => isd y = false /\ y <> 95%N end.
Proof.
  unfold suffix_shape. intros H. apply andb_true_iff in H. destruct H as [_ H].
  destruct suf as [|y s]; [discriminate|]. cbn [app]. apply andb_true_iff in H.
  destruct H as [H1 H2]. apply negb_true_iff in H1, H2. apply N.eqb_neq in H2. now split.
Qed.

Theorem decimal_suffix x ds suf rest :
  is_nonzero_dec x = true -> digits_us is_dec ds = true ->
  suffix_shape is_dec suf = true -> stops rest ->
  let v := value_of_digits 10 (x :: strip_us ds) in
  let n := (1 + len ds + len suf)%N in
  lex_step x (ds ++ suf ++ rest) =
  if v <? 2 ^ 128
  then match parse_integer_suffix suf with
       | Some p => StTok KSuffixedInteger v (Some (TyPrim p)) [] n rest
       | None => StTok KError E141 None [] n rest
       end
  else StTok KError E140 None [] n rest.
Proof.
  intros Hx Hds Hsuf Hr v n.
  assert (Hxd : is_dec x = true) by (revert Hx; unfold_classes; b2p; lia).
  rewrite (lex_step_decimal x _ Hx). unfold lex_decimal.
  rewrite (take_digits_app is_dec ds (suf ++ rest) eq_refl Hds (suffix_shape_head _ _ _ Hsuf)).
  pose proof Hsuf as Hsuf'. unfold suffix_shape in Hsuf'. apply andb_true_iff in Hsuf'.
  destruct Hsuf' as [Hcont Hhead].
  rewrite (take_ident_app suf rest Hcont Hr).
  assert (Hv : valid_digits 10 (x :: strip_us ds)).
  { constructor; [now apply dec_valid|].
    apply (strip_us_valid is_dec 10 ds eq_refl dec_valid Hds). }
  rewrite (from_str_radix_spec U128_LIMIT 10 (x :: strip_us ds)); [|lia|apply u128_limit_pos|discriminate|assumption].
  fold v. change U128_LIMIT with (2 ^ 128). fold n.
  destruct (v <? 2 ^ 128); [|reflexivity].
  unfold finish_number. cbn [andb]. destruct suf as [|y s]; [discriminate|]. cbn [is_nil].
  destruct (parse_integer_suffix (y :: s)); reflexivity.
Qed.

Lemma suffix_table_shape suf p : In (suf, p) suffix_table ->
  parse_integer_suffix suf = Some p /\ suffix_shape is_hex suf = true /\
  suffix_shape is_dec suf = true /\ suffix_shape is_bin suf = true.
Proof.
  unfold suffix_table. cbn [In]. intros H.
  repeat (destruct H as [H|H]; [inversion H; subst; vm_compute; auto|]). contradiction.
Qed.

(* A decimal literal directly followed by one of i8 i16 i32 i64 i128 u8 u16
   u32 u64 u128 usize. *)
Theorem suffix_value x ds suf p rest :
  is_nonzero_dec x = true -> digits_us is_dec ds = true ->
  In (suf, p) suffix_table -> stops rest ->
  let v := value_of_digits 10 (x :: strip_us ds) in
  let n := (1 + len ds + len suf)%N in
  lex_step x (ds ++ suf ++ rest) =
  if v <? 2 ^ 128
  then StTok KSuffixedInteger v (Some (TyPrim p)) [] n rest
  else StTok KError E140 None [] n rest.
Proof.
  intros Hx Hds Hin Hr v n. destruct (suffix_table_shape suf p Hin) as (Hp & _ & Hs & _).
  pose proof (decimal_suffix x ds suf rest Hx Hds Hs Hr) as H. cbv zeta in H.
  fold v n in H. now rewrite Hp in H.
Qed.

(* Any other run of identifier characters after the digits: E141 (E140 if
   the value overflows as well). *)
Theorem suffix_invalid x ds suf rest :
  is_nonzero_dec x = true -> digits_us is_dec ds = true ->
  suffix_shape is_dec suf = true -> stops rest ->
  (forall p, ~ In (suf, p) suffix_table) ->
  let v := value_of_digits 10 (x :: strip_us ds) in
  let n := (1 + len ds + len suf)%N in
  lex_step x (ds ++ suf ++ rest) =
  if v <? 2 ^ 128 then StTok KError E141 None [] n rest else StTok KError E140 None [] n rest.
Proof.
  intros Hx Hds Hs Hr Hnot v n.
  pose proof (decimal_suffix x ds suf rest Hx Hds Hs Hr) as H. cbv zeta in H. fold v n in H.
  destruct (parse_integer_suffix suf) as [p|] eqn:Hp; [|exact H].
  exfalso. apply (Hnot p). unfold parse_integer_suffix in Hp.
  clear -Hp. induction suffix_table as [|[k q] t IH]; [discriminate|].
  cbn [assoc] in Hp. destruct (str_eqb suf k) eqn:E.
  - left. inversion Hp; subst. f_equal. clear -E. revert k E.
    induction suf as [|a s IHs]; destruct k as [|b k]; cbn [str_eqb]; try discriminate; [reflexivity|].
    intros H. apply andb_true_iff in H. destruct H as [H1 H2]. apply N.eqb_eq in H1. subst.
    f_equal. now apply IHs.
  - right. now apply IH.
Qed.

Example suffix_invalid_hyp_ok :
  suffix_shape is_dec (str "char8") = true /\ (forall p, ~ In (str "char8", p) suffix_table).
Proof.
  split; [reflexivity|]. intros p H. unfold suffix_table in H. cbn [In] in H.
  repeat (destruct H as [H|H]; [discriminate H|]). contradiction.
Qed.

(* The same for 0x / 0b literals and for a plain 0. *)
Theorem radix_suffix_value suf p rest :
  In (suf, p) suffix_table -> stops rest ->
  (forall ds, digits_us is_hex ds = true -> strip_us ds <> [] ->
     let v := value_of_digits 16 (strip_us ds) in
     let n := (2 + len ds + len suf)%N in
     lex_step 48 (120%N :: ds ++ suf ++ rest) =
     if v <? 2 ^ 128 then StTok KSuffixedInteger v (Some (TyPrim p)) [] n rest
     else StTok KError E140 None [] n rest) /\
  (forall ds, digits_us is_bin ds = true -> strip_us ds <> [] ->
     let v := value_of_digits 2 (strip_us ds) in
     let n := (2 + len ds + len suf)%N in
     lex_step 48 (98%N :: ds ++ suf ++ rest) =
     if v <? 2 ^ 128 then StTok KSuffixedInteger v (Some (TyPrim p)) [] n rest
     else StTok KError E140 None [] n rest) /\
  lex_step 48 (suf ++ rest) = StTok KSuffixedInteger 0 (Some (TyPrim p)) [] (1 + len suf) rest.
Proof.
  intros Hin Hr. destruct (suffix_table_shape suf p Hin) as (Hp & Hsh & Hsd & Hsb).
  assert (Hgen : forall isd base pc ds,
    isd 95%N = false -> (forall c, isd c = true -> 0 <= digit_val c < base) -> 0 < base ->
    suffix_shape isd suf = true ->
    digits_us isd ds = true -> strip_us ds <> [] ->
    lex_radix isd base pc (ds ++ suf ++ rest) =
    if value_of_digits base (strip_us ds) <? 2 ^ 128
    then StTok KSuffixedInteger (value_of_digits base (strip_us ds)) (Some (TyPrim p)) []
               (2 + len ds + len suf) rest
    else StTok KError E140 None [] (2 + len ds + len suf) rest).
  { intros isd base pc ds H95 Hval Hb Hs Hds Hne. unfold lex_radix.
    rewrite (take_digits_app isd ds (suf ++ rest) H95 Hds (suffix_shape_head _ _ _ Hs)).
    pose proof Hs as Hs'. unfold suffix_shape in Hs'. apply andb_true_iff in Hs'.
    destruct Hs' as [Hcont _]. rewrite (take_ident_app suf rest Hcont Hr).
    rewrite (from_str_radix_spec U128_LIMIT base (strip_us ds) Hb u128_limit_pos Hne
               (strip_us_valid isd base ds H95 Hval Hds)).
    change U128_LIMIT with (2 ^ 128).
    destruct (strip_us ds) as [|d l] eqn:E; [congruence|]. rewrite <- E.
    destruct (value_of_digits base (strip_us ds) <? 2 ^ 128); [|rewrite E; reflexivity].
    unfold finish_number. rewrite E. cbn [is_nil andb]. rewrite andb_false_r.
    destruct suf as [|y s]; [discriminate|]. cbn [is_nil]. now rewrite Hp. }
  split; [|split].
  - intros ds Hds Hne. cbv zeta.
    change (lex_step 48 (120%N :: ds ++ suf ++ rest)) with (lex_radix is_hex 16 120 (ds ++ suf ++ rest)).
    apply Hgen; auto using hex_valid; lia.
  - intros ds Hds Hne. cbv zeta.
    change (lex_step 48 (98%N :: ds ++ suf ++ rest)) with (lex_radix is_bin 2 98 (ds ++ suf ++ rest)).
    apply Hgen; auto using bin_valid; lia.
  - change (lex_step 48 (suf ++ rest)) with (lex_zero (suf ++ rest)). unfold lex_zero.
    pose proof Hsd as Hs'. unfold suffix_shape in Hs'. apply andb_true_iff in Hs'.
    destruct Hs' as [Hcont _]. rewrite (take_ident_app suf rest Hcont Hr).
    unfold suffix_table in Hin. cbn [In] in Hin.
    repeat (destruct Hin as [Hin|Hin]; [inversion Hin; subst; reflexivity|]). contradiction.
Qed.

(* ================================================================== *)
(* 3. Spans. *)

Local Open Scope N_scope.

(* ---- what every scanning helper consumes is a prefix of its input *)

Lemma take_ident_wf cs : forall t r, take_ident cs = (t, r) -> cs = t ++ r.
Proof.
  induction cs as [|y cs IH]; intros t r H; cbn [take_ident] in H.
  - inversion H. reflexivity.
  - destruct (is_ident_cont y).
    + destruct (take_ident cs) as [t' r'] eqn:E. inversion H; subst.
      cbn [app]. f_equal. now apply IH.
    + inversion H. reflexivity.
Qed.

Lemma take_digits_wf isd cs : forall l k r, take_digits isd cs = (l, k, r) ->
  exists used, cs = used ++ r /\ len used = k.
Proof.
  induction cs as [|y cs IH]; intros l k r H; cbn [take_digits] in H.
  - inversion H. exists []. split; reflexivity.
  - destruct (take_digits isd cs) as [[l' k'] r'] eqn:E.
    destruct (IH _ _ _ eq_refl) as (u & Hu & Hk).
    destruct (isd y); [|destruct (y =? 95)].
    + inversion H; subst. exists (y :: u). split; [reflexivity|now rewrite len_cons].
    + inversion H; subst. exists (y :: u). split; [reflexivity|now rewrite len_cons].
    + inversion H; subst. exists []. split; reflexivity.
Qed.

Lemma take_uhex_wf cs : forall l c k r, take_uhex cs = (l, c, k, r) ->
  exists used, cs = used ++ r /\ len used = k.
Proof.
  induction cs as [|y cs IH]; intros l c k r H; cbn [take_uhex] in H.
  - inversion H. exists []. split; reflexivity.
  - destruct (take_uhex cs) as [[[l' c'] k'] r'] eqn:E.
    destruct (IH _ _ _ _ eq_refl) as (u & Hu & Hk).
    destruct (is_hex y); [|destruct (y =? 125)].
    + inversion H; subst. exists (y :: u). split; [reflexivity|now rewrite len_cons].
    + inversion H; subst. exists [y]. split; reflexivity.
    + inversion H; subst. exists []. split; reflexivity.
Qed.

(* ---- escapes *)

Definition esc_wf (cs : list N) (res : list N * option Z * N * N * list N) : Prop :=
  let '(bs, er, adv, m, r') := res in
  exists used, cs = used ++ r' /\ len used = m /\ er <> Some OOF /\
    (adv = 1 + m \/ (adv = 2 + m /\ r' = [] /\ er = Some E161)).

Lemma esc_step_wf cs : esc_wf cs (esc_step cs).
Proof.
  unfold esc_wf, esc_step.
  destruct cs as [|c r].
  { exists []. repeat split; try discriminate. right. repeat split. }
  destruct (assoc_char c escape_table).
  { exists [c]. repeat split; try discriminate. now left. }
  destruct (c =? 120).
  { destruct r as [|d1 r1].
    { exists [c]. repeat split; try discriminate. now left. }
    destruct (is_hex d1).
    2:{ exists [c]. repeat split; try discriminate. now left. }
    destruct r1 as [|d2 r2].
    { exists [c; d1]. repeat split; try discriminate. now left. }
    destruct (is_hex d2).
    - exists [c; d1; d2]. repeat split; try discriminate. now left.
    - exists [c; d1]. repeat split; try discriminate. now left. }
  destruct (c =? 117).
  { destruct r as [|o r1].
    { exists [c]. repeat split; try discriminate. now left. }
    destruct (o =? 123).
    2:{ exists [c]. repeat split; try discriminate. now left. }
    destruct (take_uhex r1) as [[[lit closed] k] r2] eqn:E.
    destruct (take_uhex_wf _ _ _ _ _ E) as (u & Hu & Hk).
    destruct (parse_unicode (if closed then lit else [])).
    - exists (c :: o :: u). repeat split; try discriminate.
      + now rewrite Hu at 1.
      + rewrite !len_cons. lia.
      + left. lia.
    - exists (c :: o :: u). repeat split; try discriminate.
      + now rewrite Hu at 1.
      + rewrite !len_cons. lia.
      + left. lia. }
  exists [c]. repeat split; try discriminate. now left.
Qed.

(* ---- the string loop *)

Definition str_wf (p e : N) (cs : list N) (r : strres) : Prop :=
  exists used, cs = used ++ sr_rest r /\ len used = sr_chars r /\
    (sr_soe r = p + sr_chars r \/
     (sr_soe r = p + sr_chars r + 1 /\ sr_rest r = [] /\ sr_closed r = false /\ sr_err r <> None)) /\
    (sr_eolo r = e /\ sr_chars r = 0 \/ p + 1 <= sr_eolo r <= p + sr_chars r) /\
    (forall c es ee eo, sr_err r = Some (c, es, ee, eo) ->
       c <> OOF /\ p <= es /\ es < ee /\ ee <= sr_soe r /\ eo = es + 1 /\ es < p + sr_chars r) /\
    (sr_closed r = true -> 1 <= sr_chars r).

Lemma sr_cons_wf p e x r' bs er k adv q' res :
  (* one iteration consuming x and k-1 further characters *)
  forall used0, x :: r' = used0 ++ q' -> len used0 = k -> 1 <= k ->
  adv = k ->
  (forall c es ee eo, er = Some (c, es, ee, eo) -> c <> OOF /\ es = p /\ ee = p + adv /\ eo = p + 1) ->
  str_wf (p + adv) (p + 1) q' res ->
  str_wf p e (x :: r') (sr_cons bs er k res).
Proof.
  intros used0 Hu0 Hk0 Hk1 Hadv Her (u & Hu & Hc & Hsoe & Heolo & Herr & Hcl).
  exists (used0 ++ u). unfold sr_cons. cbn [sr_rest sr_chars sr_soe sr_closed sr_err sr_eolo].
  split; [rewrite <- app_assoc, <- Hu; exact Hu0|].
  split; [rewrite len_app; lia|].
  split.
  { destruct Hsoe as [Hs|(Hs & Hr & Hcf & Hne)]; [left; lia|right].
    repeat split; try assumption; [lia|]. destruct er; [discriminate|assumption]. }
  split.
  { right. destruct Heolo as [[He Hz]|He]; lia. }
  split.
  { intros c es ee eo Hsome. destruct er as [[[[c0 es0] ee0] eo0]|].
    - inversion Hsome; subst. destruct (Her _ _ _ _ eq_refl) as (H1 & H2 & H3 & H4).
      subst. repeat split; try assumption; try lia.
    - destruct (Herr _ _ _ _ Hsome) as (H1 & H2 & H3 & H4 & H5 & H6).
      repeat split; try assumption; lia. }
  intros _. lia.
Qed.

Lemma str_wf_nil p e : str_wf p e [] {| sr_bytes := []; sr_closed := false; sr_err := None;
             sr_soe := p; sr_eolo := e; sr_chars := 0; sr_rest := [] |}.
Proof.
  exists []. cbn [sr_rest sr_chars sr_soe sr_closed sr_err sr_eolo].
  repeat split; try lia; try discriminate.
Qed.

Lemma str_loop_wf : forall fuel q p e cs, (length cs <= fuel)%nat ->
  str_wf p e cs (str_loop fuel q p e cs).
Proof.
  induction fuel as [|f IH]; intros q p e cs Hf.
  - destruct cs as [|x r]; [|cbn [length] in Hf; lia].
    cbn [str_loop]. apply str_wf_nil.
  - destruct cs as [|x r]; [cbn [str_loop]; apply str_wf_nil|].
    cbn [length] in Hf. cbn [str_loop].
    destruct (x =? 92).
    { pose proof (esc_step_wf r) as Hesc. unfold esc_wf in Hesc.
      destruct (esc_step r) as [[[[bs er] adv] m] r'] eqn:E.
      destruct Hesc as (u & Hu & Hm & Hoof & Hadv).
      assert (Hlen : (length r' <= f)%nat).
      { apply (f_equal (@length N)) in Hu. rewrite app_length in Hu. lia. }
      destruct Hadv as [Hadv|(Hadv & Hnil & Her)].
      - eapply (sr_cons_wf p e x r bs _ (1 + m) adv r' _ (x :: u)).
        + cbn [app]. now rewrite Hu at 1.
        + now rewrite len_cons, Hm.
        + lia.
        + exact Hadv.
        + intros c es ee eo Hsome. destruct er as [c0|]; [|discriminate].
          inversion Hsome; subst. repeat split; try reflexivity. congruence.
        + apply IH. exact Hlen.
      - (* backslash at the very end of the line *)
        subst r' er.
        assert (Hrec : str_loop f q (p + adv) (p + 1) [] =
          {| sr_bytes := []; sr_closed := false; sr_err := None;
             sr_soe := p + adv; sr_eolo := p + 1; sr_chars := 0; sr_rest := [] |}) by (destruct f; reflexivity).
        rewrite Hrec. rewrite app_nil_r in Hu. subst r.
        exists (x :: u). unfold sr_cons.
        cbn [sr_rest sr_chars sr_soe sr_closed sr_err sr_eolo].
        split; [now rewrite app_nil_r|].
        split; [rewrite len_cons; lia|].
        split; [right; repeat split; [lia|discriminate]|].
        split; [right; lia|].
        split; [|discriminate].
        intros c es ee eo Hsome; inversion Hsome; subst; repeat split; try lia; discriminate. }
    destruct (x =? q).
    { exists [x]. cbn [sr_rest sr_chars sr_soe sr_closed sr_err sr_eolo].
      repeat split; try lia; try discriminate. }
    assert (Hone : forall bs er,
      (forall c es ee eo, er = Some (c, es, ee, eo) -> c <> OOF /\ es = p /\ ee = p + 1 /\ eo = p + 1) ->
      str_wf p e (x :: r) (sr_cons bs er 1 (str_loop f q (p + 1) (p + 1) r))).
    { intros bs er Her. eapply (sr_cons_wf p e x r bs er 1 1 r _ [x]); try reflexivity; try lia.
      - exact Her.
      - apply IH. lia. }
    destruct (x =? 32); [apply Hone; discriminate|].
    destruct (is_ascii_graphic x); [apply Hone; discriminate|].
    destruct (is_ascii x); [|apply Hone; discriminate].
    apply Hone. intros c es ee eo H. inversion H; subst. repeat split; discriminate.
Qed.

(* ---- every arm of lex_step consumes a nonempty prefix of the line *)

Definition step_wf (x : N) (rest : list N) (s : step) : Prop :=
  match s with
  | StEnd | StSkip => True
  | StTok k v _ _ n rest' =>
      exists used, x :: rest = used ++ rest' /\ len used = n /\ 1 <= n /\ (k = KError -> v <> OOF)
  | StStrErr c es ee eo n m rest' =>
      exists used, x :: rest = used ++ rest' /\ len used = m /\ 1 <= m /\ c <> OOF /\
        es < ee /\ ee <= n /\ 1 <= eo <= m /\ (n = m \/ (n = m + 1 /\ rest' = []))
  end.

Lemma single_wf x rest k : k <> KError -> step_wf x rest (single k rest).
Proof. intros Hk. exists [x]. repeat split; try lia. intros E; congruence. Qed.

Lemma double_wf x rest y k2 k1 : k1 <> KError -> k2 <> KError -> step_wf x rest (double y k2 k1 rest).
Proof.
  intros H1 H2. unfold double. destruct rest as [|z r]; [now apply single_wf|].
  destruct (z =? y); [|now apply single_wf].
  exists [x; z]. repeat split; try lia. intros E; congruence.
Qed.

Lemma finish_number_no_oof z v l s k w ty :
  finish_number z v l s = (k, w, ty) -> k = KError -> w <> OOF.
Proof.
  unfold finish_number. destruct v as [v|]; [|intros H; inversion H; discriminate].
  destruct (z && (v =? 0)%Z && is_nil l && is_nil s); [intros H; inversion H; discriminate|].
  destruct (is_nil s).
  - intros H; inversion H; subst. destruct z; discriminate.
  - destruct (parse_integer_suffix s); intros H; inversion H; discriminate.
Qed.

Lemma lex_word_wf x rest : step_wf x rest (lex_word x rest).
Proof.
  unfold lex_word. destruct (take_ident rest) as [t r] eqn:E.
  apply take_ident_wf in E. subst rest.
  destruct (classify_word (x :: t)) as [[[k v] ty]|] eqn:Ec.
  - exists (x :: t). repeat split; [now rewrite len_cons|lia|].
    intros ->. unfold classify_word in Ec.
    destruct (assoc (x :: t) keyword_table) eqn:E1.
    + inversion Ec; discriminate.
    + destruct (assoc (x :: t) bool_table); [inversion Ec|].
      destruct (assoc (x :: t) type_table); inversion Ec.
  - destruct r as [|y r'].
    + exists (x :: t). repeat split; [now rewrite len_cons|lia|discriminate].
    + destruct (y =? 33).
      * exists (x :: t ++ [y]). repeat split.
        -- cbn [app]. now rewrite <- app_assoc.
        -- rewrite len_cons, len_app, len_cons, len_nil. lia.
        -- lia.
        -- discriminate.
      * exists (x :: t). repeat split; [now rewrite len_cons|lia|discriminate].
Qed.

Lemma lex_radix_wf isd radix pc x y cs : step_wf x (y :: cs) (lex_radix isd radix pc cs).
Proof.
  unfold lex_radix. destruct (take_digits isd cs) as [[lit k] r2] eqn:E1.
  destruct (take_ident r2) as [suf r3] eqn:E2.
  destruct (take_digits_wf _ _ _ _ _ E1) as (u & Hu & Hk). apply take_ident_wf in E2. subst.
  destruct (from_str_radix U128_LIMIT radix lit); [|destruct (is_nil lit)].
  all: match goal with |- context [finish_number ?a ?b ?c ?d] =>
    let H := fresh "Hf" in destruct (finish_number a b c d) as [[kd v] ty] eqn:H;
    pose proof (finish_number_no_oof _ _ _ _ _ _ _ H) end.
  all: exists (x :: y :: u ++ suf); repeat split;
    [cbn [app]; now rewrite <- app_assoc|rewrite !len_cons, len_app; lia|lia|assumption].
Qed.

Lemma lex_zero_wf x rest : step_wf x rest (lex_zero rest).
Proof.
  unfold lex_zero.
  assert (Hplain : step_wf x rest
    (let '(suf, r) := take_ident rest in
     let '(kd, v, ty) := finish_number true (Some 0%Z) [] suf in
     StTok kd v ty [] (1 + len suf) r)).
  { destruct (take_ident rest) as [suf r] eqn:E. apply take_ident_wf in E. subst.
    destruct (finish_number true (Some 0%Z) [] suf) as [[kd v] ty] eqn:Hf.
    pose proof (finish_number_no_oof _ _ _ _ _ _ _ Hf).
    exists (x :: suf). repeat split; [now rewrite len_cons|lia|assumption]. }
  destruct rest as [|y r1]; [exact Hplain|].
  destruct (y =? 120); [apply lex_radix_wf|].
  destruct (y =? 98); [apply lex_radix_wf|]. exact Hplain.
Qed.

Lemma lex_decimal_wf x rest : step_wf x rest (lex_decimal x rest).
Proof.
  unfold lex_decimal. destruct (take_digits is_dec rest) as [[lit k] r2] eqn:E1.
  destruct (take_ident r2) as [suf r3] eqn:E2.
  destruct (take_digits_wf _ _ _ _ _ E1) as (u & Hu & Hk). apply take_ident_wf in E2. subst.
  match goal with |- context [finish_number ?a ?b ?c ?d] =>
    let H := fresh "Hf" in destruct (finish_number a b c d) as [[kd v] ty] eqn:H;
    pose proof (finish_number_no_oof _ _ _ _ _ _ _ H) end.
  exists (x :: u ++ suf). repeat split;
    [cbn [app]; now rewrite <- app_assoc|rewrite !len_cons, len_app; lia|lia|assumption].
Qed.

Lemma lex_quote_wf x rest : step_wf x rest (lex_quote x rest).
Proof.
  unfold lex_quote.
  pose proof (str_loop_wf (length rest) x 1 1 rest (le_n _)) as Hwf.
  set (res := str_loop (length rest) x 1 1 rest) in *.
  destruct Hwf as (u & Hu & Hc & Hsoe & Heolo & Herr & Hcl).
  destruct (sr_err res) as [[[[c es] ee] eo]|] eqn:Ee.
  - destruct (Herr _ _ _ _ eq_refl) as (H1 & H2 & H3 & H4 & H5 & H6).
    exists (x :: u). repeat split; try assumption; try lia.
    + now rewrite Hu at 1.
    + rewrite len_cons. lia.
    + destruct Hsoe as [Hs|(Hs & Hr & _)]; [left; lia|right; split; [lia|assumption]].
  - destruct Hsoe as [Hsoe|(_ & _ & _ & Hne)]; [|congruence].
    destruct (sr_closed res) eqn:Ecl.
    + assert (Hgen : forall k v ty bs, (k = KError -> v <> OOF) ->
        step_wf x rest (StTok k v ty bs (sr_soe res) (sr_rest res))).
      { intros k v ty bs Hk. exists (x :: u). repeat split; [now rewrite Hu at 1|rewrite len_cons; lia|lia|exact Hk]. }
      destruct (x =? 34); [apply Hgen; discriminate|].
      destruct (sr_bytes res) as [|b [|b' bs]]; apply Hgen; discriminate.
    + exists (x :: u). repeat split; try lia; try discriminate.
      * now rewrite Hu at 1.
      * rewrite len_cons. lia.
Qed.

Lemma lex_step_wf x rest : step_wf x rest (lex_step x rest).
Proof.
  unfold lex_step.
  repeat match goal with
  | |- step_wf _ _ (if ?b then _ else _) => destruct b
  | |- step_wf _ _ (single _ _) => apply single_wf; discriminate
  | |- step_wf _ _ (double _ _ _ _) => apply double_wf; discriminate
  | |- step_wf _ _ (match ?l with [] => _ | _ :: _ => _ end) => destruct l
  | |- step_wf _ _ (StTok _ _ _ _ 2 _) => eexists [_; _]; repeat split; try lia; discriminate
  | |- step_wf _ _ (StTok _ _ _ _ 1 _) => eexists [_]; repeat split; try lia; discriminate
  end; try exact I.
  - apply lex_word_wf.
  - apply lex_zero_wf.
  - apply lex_decimal_wf.
  - apply lex_quote_wf.
Qed.

(* ---- one line *)

(* [t] is the token that lex_step yields at column [len pre] of the line [l]
   (line number [ln], first character at source offset [base]), and [used] are
   exactly the characters it consumed:
     - its span is [base + col, base + col + len used), its line_offset is col;
     - for an error inside a quoted literal (first_error_token) the span
       [es,ee) is relative to the opening quote and lies within the literal
       plus at most one position (backslash at the end of the line), and the
       line_offset is col + eo with 1 <= eo <= len used. *)
Definition tok_at (ln base : N) (l : list N) (t : tok) : Prop :=
  exists pre used post, l = pre ++ used ++ post /\ used <> [] /\
    (kind t = KError -> value t <> OOF) /\
    match lex_step (hd 0 used) (tl used ++ post) with
    | StTok k v ty bs n r =>
        t = mk k v ty bs (base + len pre) (base + len pre + len used) ln (len pre) /\
        r = post /\ n = len used
    | StStrErr c es ee eo n m r =>
        t = mk KError c None [] (base + len pre + es) (base + len pre + ee) ln (len pre + eo) /\
        r = post /\ m = len used /\
        es < ee /\ ee <= len used + 1 /\ 1 <= eo <= len used
    | _ => False
    end.

Lemma lex_line_fuel_nil f ln sos lo : lex_line_fuel f ln sos lo [] = [].
Proof. destruct f; reflexivity. Qed.

Lemma len_pos_ne (u : list N) : 1 <= len u -> u <> [].
Proof. intros H ->. cbn in H. lia. Qed.

Lemma lex_line_fuel_spans : forall fuel ln base pre cs, (length cs <= fuel)%nat ->
  Forall (tok_at ln base (pre ++ cs)) (lex_line_fuel fuel ln (base + len pre) (len pre) cs).
Proof.
  induction fuel as [|f IH]; intros ln base pre cs Hf.
  { destruct cs; [constructor|cbn [length] in Hf; lia]. }
  destruct cs as [|x rest]; [constructor|]. cbn [length] in Hf. cbn [lex_line_fuel].
  pose proof (lex_step_wf x rest) as Hwf.
  destruct (lex_step x rest) as [| |k v ty bs n rest'|c es ee eo n m rest'] eqn:E.
  - constructor.
  - replace (pre ++ x :: rest) with ((pre ++ [x]) ++ rest) by (now rewrite <- app_assoc).
    replace (base + len pre + 1) with (base + len (pre ++ [x])) by (rewrite len_app, len_cons, len_nil; lia).
    replace (len pre + 1) with (len (pre ++ [x])) by (rewrite len_app, len_cons, len_nil; lia).
    apply IH. lia.
  - destruct Hwf as (u & Hu & Hn & H1 & Hoof).
    assert (Hlen : (length rest' <= f)%nat).
    { apply (f_equal (@length N)) in Hu. rewrite app_length in Hu. cbn [length] in Hu.
      unfold len in Hn. destruct u; [cbn in Hn; lia|cbn [length] in Hu; lia]. }
    constructor.
    + exists pre, u, rest'. split; [now rewrite <- Hu|]. split; [apply len_pos_ne; lia|].
      split; [exact Hoof|].
      destruct u as [|x' u']; [cbn in Hn; lia|]. cbn [app] in Hu. injection Hu as <- Hrest.
      cbn [hd tl]. rewrite <- Hrest, E. subst n. repeat split.
    + rewrite Hu.
      replace (pre ++ u ++ rest') with ((pre ++ u) ++ rest') by (now rewrite <- app_assoc).
      replace (base + len pre + n) with (base + len (pre ++ u)) by (rewrite len_app; lia).
      replace (len pre + n) with (len (pre ++ u)) by (rewrite len_app; lia).
      now apply IH.
  - destruct Hwf as (u & Hu & Hm & H1 & Hoof & Hes & Hee & Heo & Hnm).
    assert (Hlen : (length rest' <= f)%nat).
    { apply (f_equal (@length N)) in Hu. rewrite app_length in Hu. cbn [length] in Hu.
      unfold len in Hm. destruct u; [cbn in Hm; lia|cbn [length] in Hu; lia]. }
    constructor.
    + exists pre, u, rest'. split; [now rewrite <- Hu|]. split; [apply len_pos_ne; lia|].
      split; [intros _; exact Hoof|].
      destruct u as [|x' u']; [cbn in Hm; lia|]. cbn [app] in Hu. injection Hu as <- Hrest.
      cbn [hd tl]. rewrite <- Hrest, E. subst m. repeat split; try lia.
    + destruct Hnm as [->|(-> & ->)]; [|rewrite lex_line_fuel_nil; constructor].
      rewrite Hu.
      replace (pre ++ u ++ rest') with ((pre ++ u) ++ rest') by (now rewrite <- app_assoc).
      replace (base + len pre + m) with (base + len (pre ++ u)) by (rewrite len_app; lia).
      replace (len pre + m) with (len (pre ++ u)) by (rewrite len_app; lia).
      now apply IH.
Qed.

Lemma lex_line_spans l offset ln : Forall (tok_at ln offset l) (lex_line l offset ln).
Proof.
  unfold lex_line. pose proof (lex_line_fuel_spans (length l) ln offset [] l (le_n _)) as H.
  cbn [app] in H. now rewrite len_nil, N.add_0_r in H.
Qed.

(* ---- lines of a source without carriage returns *)

Inductive Lines : list N -> list (list N) -> Prop :=
| Lines_nil : Lines [] []
| Lines_last l : l <> [] -> ~ In 10 l -> Lines l [l]
| Lines_cons l s ls : ~ In 10 l -> Lines s ls -> Lines (l ++ 10 :: s) (l :: ls).

Lemma Lines_push c r ls : c <> 10 -> Lines r ls ->
  Lines (c :: r) (match ls with [] => [[c]] | l :: ls' => (c :: l) :: ls' end).
Proof.
  intros Hc H. destruct H as [|l Hne Hnl|l s ls Hnl HL].
  - constructor; [discriminate|]. intros [H|[]]. congruence.
  - apply (Lines_last (c :: l)); [discriminate|]. intros [H|H]; [congruence|contradiction].
  - apply (Lines_cons (c :: l) s ls); [|exact HL]. intros [H|H]; [congruence|contradiction].
Qed.

Lemma lines_of_Lines src : ~ In 13 src -> Lines src (lines_of src).
Proof.
  induction src as [|c r IH]; intros Hcr; [constructor|].
  assert (Hr : ~ In 13 r) by (intros H; apply Hcr; now right).
  assert (Hc : c <> 13) by (intros ->; apply Hcr; now left).
  specialize (IH Hr). cbn [lines_of].
  destruct (c =? 10) eqn:E10.
  - apply N.eqb_eq in E10. subst c. apply (Lines_cons [] r (lines_of r)); [intros []|exact IH].
  - apply N.eqb_neq in E10. apply N.eqb_neq in Hc. rewrite Hc. cbn [andb].
    now apply Lines_push.
Qed.

Definition count_nl (s : list N) : N := len (filter (N.eqb 10) s).

Lemma count_nl_app a b : count_nl (a ++ b) = count_nl a + count_nl b.
Proof. unfold count_nl. now rewrite filter_app, len_app. Qed.

Lemma count_nl_free l : ~ In 10 l -> count_nl l = 0.
Proof.
  unfold count_nl. induction l as [|c l IH]; intros H; [reflexivity|].
  cbn [filter]. destruct (10 =? c) eqn:E.
  - apply N.eqb_eq in E. subst. exfalso. apply H. now left.
  - apply IH. intros H'. apply H. now right.
Qed.

(* [before] is a (possibly empty) sequence of complete lines. *)
Definition ends_lines (before : list N) : Prop := before = [] \/ exists b, before = b ++ [10].
Definition starts_line (after : list N) : Prop := after = [] \/ exists a, after = 10 :: a.

(* [t] was lexed from the line [l] that occupies the offsets
   [len before, len before + len l) of [src]. *)
Definition tok_in_source (src : list N) (t : tok) : Prop :=
  exists before l after,
    src = before ++ l ++ after /\ ends_lines before /\ starts_line after /\ ~ In 10 l /\
    tok_at (1 + count_nl before) (len before) l t.

Lemma lex_lines_spans s ls : Lines s ls ->
  forall before, ends_lines before ->
  Forall (tok_in_source (before ++ s)) (lex_lines ls (len before) (count_nl before)).
Proof.
  induction 1 as [|l Hne Hnl|l s ls Hnl HL IH]; intros before Hb.
  - constructor.
  - cbn [lex_lines]. rewrite app_nil_r.
    eapply Forall_impl; [|apply lex_line_spans]. intros t Ht.
    exists before, l, []. rewrite app_nil_r. repeat split; try assumption. now left.
  - cbn [lex_lines]. apply Forall_app. split.
    + eapply Forall_impl; [|apply lex_line_spans]. intros t Ht.
      exists before, l, (10 :: s). repeat split; try assumption. right. now exists s.
    + specialize (IH (before ++ l ++ [10])).
      replace (len (before ++ l ++ [10])) with (len before + (len l + 1)) in IH
        by (rewrite !len_app, len_cons, len_nil; lia).
      replace (count_nl (before ++ l ++ [10])) with (count_nl before + 1) in IH
        by (rewrite !count_nl_app, (count_nl_free l Hnl); reflexivity).
      replace ((before ++ l ++ [10]) ++ s) with (before ++ l ++ 10 :: s) in IH
        by (rewrite <- !app_assoc; reflexivity).
      apply IH. right. exists (before ++ l). now rewrite <- app_assoc.
Qed.

(* MAIN THEOREM 3.  In a source without carriage returns every token was
   produced by lex_step at some column of some line; its span is exactly the
   range of source offsets of the characters that step consumed, its line
   number is 1 + the number of newlines before it, and its line_offset is the
   column (for errors inside quoted literals: see tok_at). *)
Theorem span_exact_no_cr src t :
  ~ In 13 src -> src <> [] -> In t (lex_alpha src) -> tok_in_source src t.
Proof.
  intros Hcr Hne Hin. unfold lex_alpha in Hin.
  destruct src as [|c r]; [congruence|]. cbn [is_nil] in Hin. rewrite app_nil_r in Hin.
  pose proof (lex_lines_spans _ _ (lines_of_Lines _ Hcr) [] (or_introl eq_refl)) as H.
  cbn [app] in H. change (len []) with 0 in H. change (count_nl []) with 0 in H.
  rewrite Forall_forall in H. now apply H.
Qed.

(* ---- a self-contained reading of theorem 3 *)

Definition not_strerr (s : step) : Prop :=
  match s with StStrErr _ _ _ _ _ _ _ => False | _ => True end.

Lemma lex_word_not_strerr x rest : not_strerr (lex_word x rest).
Proof.
  unfold lex_word. destruct (take_ident rest) as [t r].
  destruct (classify_word (x :: t)) as [[[k v] ty]|]; [exact I|].
  destruct r as [|y r']; [exact I|]. destruct (y =? 33); exact I.
Qed.

Lemma lex_radix_not_strerr isd radix pc cs : not_strerr (lex_radix isd radix pc cs).
Proof.
  unfold lex_radix. destruct (take_digits isd cs) as [[lit k] r2].
  destruct (take_ident r2) as [suf r3].
  destruct (from_str_radix U128_LIMIT radix lit); [|destruct (is_nil lit)].
  all: match goal with |- context [finish_number ?a ?b ?c ?d] =>
    destruct (finish_number a b c d) as [[kd v] ty] end; exact I.
Qed.

Lemma lex_zero_not_strerr rest : not_strerr (lex_zero rest).
Proof.
  unfold lex_zero.
  assert (Hplain : not_strerr
    (let '(suf, r) := take_ident rest in
     let '(kd, v, ty) := finish_number true (Some 0%Z) [] suf in
     StTok kd v ty [] (1 + len suf) r)).
  { destruct (take_ident rest) as [suf r].
    destruct (finish_number true (Some 0%Z) [] suf) as [[kd v] ty]. exact I. }
  destruct rest as [|y r1]; [exact Hplain|].
  destruct (y =? 120); [apply lex_radix_not_strerr|].
  destruct (y =? 98); [apply lex_radix_not_strerr|]. exact Hplain.
Qed.

Lemma lex_decimal_not_strerr x rest : not_strerr (lex_decimal x rest).
Proof.
  unfold lex_decimal. destruct (take_digits is_dec rest) as [[lit k] r2].
  destruct (take_ident r2) as [suf r3].
  match goal with |- context [finish_number ?a ?b ?c ?d] =>
    destruct (finish_number a b c d) as [[kd v] ty] end. exact I.
Qed.

(* Errors of the first_error_token kind only come from the quote arm. *)
Lemma strerr_is_quote x rest c es ee eo n m r :
  lex_step x rest = StStrErr c es ee eo n m r -> x = 34 \/ x = 39.
Proof.
  unfold lex_step, single, double.
  repeat match goal with
  | |- (if ?b then _ else _) = _ -> _ => destruct b eqn:?
  | |- (match ?l with [] => _ | _ :: _ => _ end) = _ -> _ => destruct l
  | |- StTok _ _ _ _ _ _ = _ -> _ => discriminate
  | |- single _ _ = _ -> _ => unfold single; discriminate
  | |- StEnd = _ -> _ => discriminate
  | |- StSkip = _ -> _ => discriminate
  end.
  - intros H. pose proof (lex_word_not_strerr x rest) as W. now rewrite H in W.
  - intros H. pose proof (lex_zero_not_strerr rest) as W. now rewrite H in W.
  - intros H. pose proof (lex_decimal_not_strerr x rest) as W. now rewrite H in W.
  - intros _. b2p. lia.
Qed.

Lemma not_in_app_l {A} (x : A) a b : ~ In x (a ++ b) -> ~ In x a.
Proof. intros H Hi. apply H. apply in_or_app. now left. Qed.
Lemma not_in_app_r {A} (x : A) a b : ~ In x (a ++ b) -> ~ In x b.
Proof. intros H Hi. apply H. apply in_or_app. now right. Qed.

(* Theorem 3 spelled out.  Either
   (a) t is an ordinary token: the source splits as A ++ used ++ B where
       [used] (nonempty, within one line) are the characters lex_step consumed
       for it, the span is [len A, len A + len used), the line number is
       1 + the number of newlines in A, and the line_offset is the number of
       characters of A after its last newline; or
   (b) t is the first error found inside a quoted literal [used] (which starts
       with a quote character at offset len A): its span is a nonempty
       subrange of [len A, len A + len used + 1) and its line_offset lies in
       (column of the quote, column of the quote + len used]. *)
Theorem span_exact_no_cr_explicit src t :
  ~ In 13 src -> src <> [] -> In t (lex_alpha src) ->
  exists A0 A1 used B0 B1,
    src = (A0 ++ A1) ++ used ++ (B0 ++ B1) /\
    ends_lines A0 /\ starts_line B1 /\ ~ In 10 A1 /\ ~ In 10 used /\ ~ In 10 B0 /\ used <> [] /\
    line t = 1 + count_nl (A0 ++ A1) /\
    ((tstart t = len (A0 ++ A1) /\ tend t = len (A0 ++ A1) + len used /\ lstart t = len A1 /\
      lex_step (hd 0 used) (tl used ++ B0) =
        StTok (kind t) (value t) (vtype t) (bytes t) (len used) B0)
     \/
     (kind t = KError /\ (hd 0 used = 34 \/ hd 0 used = 39) /\
      len (A0 ++ A1) <= tstart t /\ tstart t < tend t /\ tend t <= len (A0 ++ A1) + len used + 1 /\
      len A1 < lstart t <= len A1 + len used)).
Proof.
  intros Hcr Hne Hin.
  destruct (span_exact_no_cr src t Hcr Hne Hin) as (before & l & after & Hsrc & Hb & Ha & Hnl & Hat).
  destruct Hat as (pre & used & post & Hl & Hu & Hoof & Hstep).
  exists before, pre, used, post, after. subst l.
  assert (Hn1 : ~ In 10 pre) by (eapply not_in_app_l; exact Hnl).
  assert (Hn2 : ~ In 10 used) by (eapply not_in_app_l, not_in_app_r; exact Hnl).
  assert (Hn3 : ~ In 10 post) by (eapply not_in_app_r, not_in_app_r; exact Hnl).
  split; [rewrite Hsrc, <- !app_assoc; reflexivity|].
  repeat (split; [assumption|]).
  assert (Hcnt : count_nl (before ++ pre) = count_nl before)
    by (rewrite count_nl_app, (count_nl_free pre Hn1); lia).
  destruct (lex_step (hd 0 used) (tl used ++ post)) as [| |k v ty bs n r|c es ee eo n m r] eqn:E;
    try contradiction.
  - destruct Hstep as (-> & -> & ->). cbn [line mk]. split; [now rewrite Hcnt|]. left.
    cbn [tstart tend lstart kind value vtype bytes mk]. rewrite len_app.
    repeat split; lia.
  - destruct Hstep as (-> & -> & -> & H1 & H2 & H3). cbn [line mk]. split; [now rewrite Hcnt|]. right.
    cbn [tstart tend lstart kind mk]. rewrite len_app.
    split; [reflexivity|]. split; [eapply strerr_is_quote; exact E|]. lia.
Qed.

(* With CRLF line ends the statement is false: lex() adds chars().count() + 1
   per line although the line end was two characters long, so every token
   after the first CRLF is reported too far left (by one per preceding CRLF).
   Witness "a\r\nb": the identifier b is at offset 3 but gets the span [2,3),
   which is the '\n'. *)
Theorem span_crlf_refuted :
  exists src t,
    In t (lex_alpha src) /\ kind t = KIdentifier /\
    tstart t = 2 /\ tend t = 3 /\ line t = 2 /\ lstart t = 0 /\
    nth 2 src 0 = 10 /\ nth 3 src 0 = 98 /\
    ~ tok_in_source src t.
Proof.
  exists [97; 13; 10; 98], (mk KIdentifier 0%Z None [] 2 3 2 0).
  split; [vm_compute; auto|]. repeat (split; [reflexivity|]).
  intros (before & l & after & Hsrc & Hb & Ha & Hnl & pre & used & post & Hl & Hu & _ & Hstep).
  (* the line containing offset 2 would have to contain the newline *)
  destruct (lex_step (hd 0 used) (tl used ++ post)) as [| |k v ty bs n r|c es ee eo n m r] eqn:E;
    try contradiction.
  - destruct Hstep as (Ht & _ & _). inversion Ht as [[Hk Hv Hty Hbs Hs He Hln Hlo]].
    assert (Hpre : pre = []) by (destruct pre; [reflexivity|rewrite len_cons in Hlo; lia]).
    subst pre. rewrite len_nil, N.add_0_r in Hs.
    assert (Hused : len used = 1) by lia.
    (* before has length 2: it is [97;13], which does not end a line *)
    destruct before as [|b0 [|b1 [|b2 before]]]; try (cbn in Hs; lia).
    cbn [app] in Hsrc. injection Hsrc as <- <- Hrest.
    destruct Hb as [Hb|[b Hb]]; [discriminate|].
    destruct b as [|b0' [|b1' [|b2' b]]]; discriminate.
  - destruct Hstep as (Ht & _). inversion Ht.
Qed.

(* The out-of-fuel marker never appears. *)
Theorem lex_alpha_no_oof src t : In t (lex_alpha src) -> kind t = KError -> value t <> OOF.
Proof.
  unfold lex_alpha. intros Hin. apply in_app_or in Hin. destruct Hin as [Hin|Hin].
  - assert (Hgen : forall ls off i, In t (lex_lines ls off i) -> kind t = KError -> value t <> OOF).
    { induction ls as [|l ls IH]; intros off i Hin'; [contradiction|].
      cbn [lex_lines] in Hin'. apply in_app_or in Hin'. destruct Hin' as [Hin'|Hin'].
      + pose proof (lex_line_spans l off (1 + i)) as H. rewrite Forall_forall in H.
        destruct (H _ Hin') as (? & ? & ? & _ & _ & Hoof & _). exact Hoof.
      + eapply IH. exact Hin'. }
    eapply Hgen. exact Hin.
  - destruct (is_nil src); [|contradiction]. destruct Hin as [<-|[]]. discriminate.
Qed.

(* ================================================================== *)
(* 4. Escapes. *)

(* ---- UTF-8: an independent decoder inverts [utf8] *)

Definition is_cont_byte (b : N) : bool := in_range 128 191 b.

Definition utf8_decode (bs : list N) : option N :=
  match bs with
  | [a] => if a <? 128 then Some a else None
  | [a; b] =>
      if in_range 192 223 a && is_cont_byte b then Some ((a - 192) * 64 + (b - 128)) else None
  | [a; b; c] =>
      if in_range 224 239 a && is_cont_byte b && is_cont_byte c
      then Some ((a - 224) * 4096 + (b - 128) * 64 + (c - 128)) else None
  | [a; b; c; d] =>
      if in_range 240 247 a && is_cont_byte b && is_cont_byte c && is_cont_byte d
      then Some ((a - 240) * 262144 + (b - 128) * 4096 + (c - 128) * 64 + (d - 128)) else None
  | _ => None
  end.

Theorem utf8_roundtrip c : c < 1114112 ->
  utf8_decode (utf8 c) = Some c /\ Forall (fun b => b < 256) (utf8 c) /\
  len (utf8 c) = (if c <? 128 then 1 else if c <? 2048 then 2 else if c <? 65536 then 3 else 4).
Proof.
  intros Hc. unfold utf8.
  destruct (N.ltb_spec c 128) as [H1|H1].
  2: destruct (N.ltb_spec c 2048) as [H2|H2].
  3: destruct (N.ltb_spec c 65536) as [H3|H3].
  - cbn [utf8_decode]. destruct (N.ltb_spec c 128); [|lia].
    repeat split. repeat constructor. lia.
  - cbn [utf8_decode]. unfold is_cont_byte, in_range.
    assert (Hd : c / 64 < 32) by (apply N.div_lt_upper_bound; lia).
    assert (Hm : c mod 64 < 64) by (apply N.mod_lt; lia).
    pose proof (N.div_mod c 64 ltac:(lia)) as Hdm.
    set (q := c / 64) in *. set (m := c mod 64) in *. clearbody q m.
    replace ((192 <=? 192 + q) && (192 + q <=? 223) &&
             ((128 <=? 128 + m) && (128 + m <=? 191))) with true
      by (symmetry; repeat (apply andb_true_iff; split); apply N.leb_le; lia).
    repeat split; [f_equal; lia|repeat constructor; lia].
  - cbn [utf8_decode]. unfold is_cont_byte, in_range.
    assert (Hd : c / 4096 < 16) by (apply N.div_lt_upper_bound; lia).
    assert (Hm1 : (c / 64) mod 64 < 64) by (apply N.mod_lt; lia).
    assert (Hm : c mod 64 < 64) by (apply N.mod_lt; lia).
    pose proof (N.div_mod c 64 ltac:(lia)) as Hdm.
    pose proof (N.div_mod (c / 64) 64 ltac:(lia)) as Hdm2.
    assert (Hdd : c / 64 / 64 = c / 4096) by (rewrite N.div_div; [reflexivity|lia|lia]).
    rewrite Hdd in Hdm2.
    set (q2 := c / 4096) in *. set (m1 := (c / 64) mod 64) in *. set (q1 := c / 64) in *.
    set (m := c mod 64) in *. clearbody q2 m1 q1 m.
    replace ((224 <=? 224 + q2) && (224 + q2 <=? 239) &&
             ((128 <=? 128 + m1) && (128 + m1 <=? 191)) &&
             ((128 <=? 128 + m) && (128 + m <=? 191))) with true
      by (symmetry; repeat (apply andb_true_iff; split); apply N.leb_le; lia).
    repeat split; [f_equal; lia|repeat constructor; lia].
  - cbn [utf8_decode]. unfold is_cont_byte, in_range.
    assert (Hd : c / 262144 < 8) by (apply N.div_lt_upper_bound; lia).
    assert (Hm2 : (c / 4096) mod 64 < 64) by (apply N.mod_lt; lia).
    assert (Hm1 : (c / 64) mod 64 < 64) by (apply N.mod_lt; lia).
    assert (Hm : c mod 64 < 64) by (apply N.mod_lt; lia).
    pose proof (N.div_mod c 64 ltac:(lia)) as Hdm.
    pose proof (N.div_mod (c / 64) 64 ltac:(lia)) as Hdm2.
    pose proof (N.div_mod (c / 4096) 64 ltac:(lia)) as Hdm3.
    assert (Hdd : c / 64 / 64 = c / 4096) by (rewrite N.div_div; [reflexivity|lia|lia]).
    assert (Hdd2 : c / 4096 / 64 = c / 262144) by (rewrite N.div_div; [reflexivity|lia|lia]).
    rewrite Hdd in Hdm2. rewrite Hdd2 in Hdm3.
    set (q3 := c / 262144) in *. set (m2 := (c / 4096) mod 64) in *. set (q2 := c / 4096) in *.
    set (m1 := (c / 64) mod 64) in *. set (q1 := c / 64) in *.
    set (m := c mod 64) in *. clearbody q3 m2 q2 m1 q1 m.
    replace ((240 <=? 240 + q3) && (240 + q3 <=? 247) &&
             ((128 <=? 128 + m2) && (128 + m2 <=? 191)) &&
             ((128 <=? 128 + m1) && (128 + m1 <=? 191)) &&
             ((128 <=? 128 + m) && (128 + m <=? 191))) with true
      by (symmetry; repeat (apply andb_true_iff; split); apply N.leb_le; lia).
    repeat split; [f_equal; lia|repeat constructor; lia].
Qed.

(* ---- what follows a backslash (esc_step): valid forms *)

(* backslash followed by one of n r t backslash quote double-quote 0 *)
Theorem escape_simple c b r : In (c, b) escape_table -> esc_step (c :: r) = ([b], None, 2, 1, r).
Proof.
  unfold escape_table. cbn [In]. intros H.
  repeat (destruct H as [H|H]; [inversion H; subst; reflexivity|]). contradiction.
Qed.

Example escape_table_bytes :
  escape_table = [(110, 10); (114, 13); (116, 9); (92, 92); (39, 39); (34, 34); (48, 0)].
Proof. reflexivity. Qed.

(* \xHH: exactly two hex digits, one byte *)
Theorem escape_hex h1 h2 r : is_hex h1 = true -> is_hex h2 = true ->
  esc_step (120 :: h1 :: h2 :: r) = ([Z.to_N (value_of_digits 16 [h1; h2])], None, 4, 3, r) /\
  (0 <= value_of_digits 16 [h1; h2] < 256)%Z.
Proof.
  intros H1 H2. split.
  - unfold esc_step. change (assoc_char 120 escape_table) with (@None N). cbv iota beta.
    change (120 =? 120) with true. cbv iota. rewrite H1, H2. do 5 f_equal.
    f_equal. cbn [value_of_digits length]. change (Z.of_nat 1) with 1%Z.
    change (Z.of_nat 0) with 0%Z. rewrite Z.pow_1_r, Z.pow_0_r. lia.
  - apply hex_valid in H1, H2. cbn [value_of_digits length]. change (Z.of_nat 1) with 1%Z.
    change (Z.of_nat 0) with 0%Z. rewrite Z.pow_1_r, Z.pow_0_r. lia.
Qed.

Lemma take_uhex_closed ds r : forallb is_hex ds = true ->
  take_uhex (ds ++ 125 :: r) = (ds, true, 1 + len ds, r).
Proof.
  induction ds as [|d ds IH]; intros H; [reflexivity|].
  cbn [forallb] in H. apply andb_true_iff in H. destruct H as [Hd H].
  cbn [app take_uhex]. rewrite Hd, (IH H), len_cons. reflexivity.
Qed.

Lemma hex_digits_valid ds : forallb is_hex ds = true -> valid_digits 16 ds.
Proof.
  induction ds as [|d ds IH]; intros H; [constructor|].
  cbn [forallb] in H. apply andb_true_iff in H. destruct H as [Hd H].
  constructor; [now apply hex_valid|now apply IH].
Qed.

Lemma parse_unicode_spec ds : ds <> [] -> forallb is_hex ds = true ->
  parse_unicode ds =
  if is_scalar (value_of_digits 16 ds) then Some (Z.to_N (value_of_digits 16 ds)) else None.
Proof.
  intros Hne Hds. unfold parse_unicode.
  rewrite (from_str_radix_spec U32_LIMIT 16 ds); [|lia|reflexivity|assumption|now apply hex_digits_valid].
  destruct (Z.ltb_spec (value_of_digits 16 ds) U32_LIMIT) as [Hlt|Hge]; [reflexivity|].
  unfold is_scalar. unfold U32_LIMIT in Hge.
  destruct (Z.ltb_spec (value_of_digits 16 ds) 55296); [lia|].
  destruct (Z.ltb_spec (value_of_digits 16 ds) 1114112); [lia|].
  now rewrite andb_false_r.
Qed.

(* \u{H..H}: any number of hex digits (leading zeros allowed); the value must
   be a Unicode scalar value; the UTF-8 encoding is pushed. *)
Theorem escape_unicode ds r : ds <> [] -> forallb is_hex ds = true ->
  let v := value_of_digits 16 ds in
  esc_step (117 :: 123 :: ds ++ 125 :: r) =
  if is_scalar v then (utf8 (Z.to_N v), None, 4 + len ds, 3 + len ds, r)
  else ([], Some E162, 4 + len ds, 3 + len ds, r).
Proof.
  intros Hne Hds v. unfold esc_step. change (assoc_char 117 escape_table) with (@None N).
  cbv iota beta. change (117 =? 120) with false. change (117 =? 117) with true.
  change (123 =? 123) with true. cbv iota. rewrite (take_uhex_closed ds r Hds).
  rewrite (parse_unicode_spec ds Hne Hds). fold v.
  replace (3 + (1 + len ds)) with (4 + len ds) by lia.
  replace (2 + (1 + len ds)) with (3 + len ds) by lia.
  destruct (is_scalar v); reflexivity.
Qed.

Lemma is_scalar_bound v : is_scalar v = true -> (0 <= v)%Z -> Z.to_N v < 1114112.
Proof.
  unfold is_scalar. intros H Hv.
  destruct (Z.ltb_spec v 55296); [lia|]. cbn [orb] in H.
  apply andb_true_iff in H. destruct H as [_ H]. apply Z.ltb_lt in H. lia.
Qed.

(* ---- invalid forms *)

Definition not_hex_head (r : list N) : Prop := match r with [] => True | y :: _ => is_hex y = false end.

Theorem escape_invalid :
  (* backslash at the end of the line *)
  esc_step [] = ([], Some E161, 2, 0, []) /\
  (* \x followed by no hex digit / by a single hex digit *)
  (forall r, not_hex_head r -> esc_step (120 :: r) = ([], Some E162, 2, 1, r)) /\
  (forall h r, is_hex h = true -> not_hex_head r -> esc_step (120 :: h :: r) = ([], Some E162, 3, 2, r)) /\
  (* \u not followed by an opening brace *)
  (forall r, match r with [] => True | y :: _ => y <> 123 end ->
     esc_step (117 :: r) = ([], Some E162, 2, 1, r)) /\
  (* \u{ds without a closing brace: the digits are consumed *)
  (forall ds r, forallb is_hex ds = true ->
     match r with [] => True | y :: _ => is_hex y = false /\ y <> 125 end ->
     esc_step (117 :: 123 :: ds ++ r) = ([], Some E162, 3 + len ds, 2 + len ds, r)) /\
  (* \u{} *)
  (forall r, esc_step (117 :: 123 :: 125 :: r) = ([], Some E162, 4, 3, r)) /\
  (* any other character *)
  (forall c r, assoc_char c escape_table = None -> c <> 120 -> c <> 117 ->
     esc_step (c :: r) = ([], Some E162, 2, 1, r)).
Proof.
  split; [reflexivity|]. split; [|split; [|split; [|split; [|split]]]].
  - intros r Hr. unfold esc_step. change (assoc_char 120 escape_table) with (@None N).
    cbv iota beta. change (120 =? 120) with true. cbv iota.
    destruct r as [|y r']; [reflexivity|]. cbn [not_hex_head] in Hr. now rewrite Hr.
  - intros h r Hh Hr. unfold esc_step. change (assoc_char 120 escape_table) with (@None N).
    cbv iota beta. change (120 =? 120) with true. cbv iota. rewrite Hh.
    destruct r as [|y r']; [reflexivity|]. cbn [not_hex_head] in Hr. now rewrite Hr.
  - intros r Hr. unfold esc_step. change (assoc_char 117 escape_table) with (@None N).
    cbv iota beta. change (117 =? 120) with false. change (117 =? 117) with true. cbv iota.
    destruct r as [|y r']; [reflexivity|]. apply N.eqb_neq in Hr. now rewrite Hr.
  - intros ds r Hds Hr. unfold esc_step. change (assoc_char 117 escape_table) with (@None N).
    cbv iota beta. change (117 =? 120) with false. change (117 =? 117) with true.
    change (123 =? 123) with true. cbv iota.
    assert (Ht : take_uhex (ds ++ r) = (ds, false, len ds, r)).
    { clear -Hds Hr. induction ds as [|d ds IH].
      - cbn [app]. destruct r as [|y r']; [reflexivity|]. destruct Hr as [Hy Hn].
        cbn [take_uhex]. rewrite Hy. apply N.eqb_neq in Hn. now rewrite Hn.
      - cbn [forallb] in Hds. apply andb_true_iff in Hds. destruct Hds as [Hd Hds].
        cbn [app take_uhex]. rewrite Hd, (IH Hds), len_cons. reflexivity. }
    rewrite Ht. reflexivity.
  - intros r. reflexivity.
  - intros c r Hc H1 H2. unfold esc_step. rewrite Hc.
    apply N.eqb_neq in H1, H2. now rewrite H1, H2.
Qed.

(* ---- whole literals: a literal is a sequence of items *)

Inductive sitem :=
| IChar (c : N)            (* a character standing for itself *)
| ISimple (c b : N)        (* backslash c, pushing the byte b *)
| IHex (h1 h2 : N)         (* backslash x h1 h2 *)
| IUni (ds : list N).      (* backslash u { ds } *)

Definition render (i : sitem) : list N :=
  match i with
  | IChar c => [c]
  | ISimple c _ => [92; c]
  | IHex h1 h2 => [92; 120; h1; h2]
  | IUni ds => 92 :: 117 :: 123 :: ds ++ [125]
  end.

(* The bytes an item stands for. *)
Definition decode (i : sitem) : list N :=
  match i with
  | IChar c => utf8 c
  | ISimple _ b => [b]
  | IHex h1 h2 => [Z.to_N (value_of_digits 16 [h1; h2])]
  | IUni ds => utf8 (Z.to_N (value_of_digits 16 ds))
  end.

(* Items the lexer accepts inside a literal delimited by [q]. *)
Definition item_ok (q : N) (i : sitem) : bool :=
  match i with
  | IChar c =>
      negb (c =? 92) && negb (c =? q) && ((c =? 32) || is_ascii_graphic c || negb (is_ascii c))
  | ISimple c b => match assoc_char c escape_table with Some b' => b =? b' | None => false end
  | IHex h1 h2 => is_hex h1 && is_hex h2
  | IUni ds => forallb is_hex ds && negb (is_nil ds) && is_scalar (value_of_digits 16 ds)
  end.

Definition renders (items : list sitem) : list N := flat_map render items.
Definition decodes (items : list sitem) : list N := flat_map decode items.

Lemma utf8_ascii c : is_ascii c = true -> utf8 c = [c].
Proof. unfold is_ascii, utf8. intros H. apply N.leb_le in H. destruct (N.ltb_spec c 128); [reflexivity|lia]. Qed.

Lemma assoc_char_In c b t : assoc_char c t = Some b -> In (c, b) t.
Proof.
  induction t as [|[k v] t IH]; cbn [assoc_char]; [discriminate|].
  destruct (c =? k) eqn:E.
  - apply N.eqb_eq in E. intros H. inversion H; subst. now left.
  - intros H. right. now apply IH.
Qed.

(* One valid item in front of the loop: it pushes its bytes, records no
   error, and the loop continues behind it. *)
Lemma str_loop_item q i : item_ok q i = true ->
  forall fuel p e tail, (length (render i ++ tail) <= fuel)%nat ->
  exists fuel' e', (length tail <= fuel')%nat /\
    str_loop fuel q p e (render i ++ tail) =
    sr_cons (decode i) None (len (render i)) (str_loop fuel' q (p + len (render i)) e' tail).
Proof.
  intros Hok fuel p e tail Hf.
  destruct fuel as [|f]; [destruct i; cbn in Hf; lia|].
  destruct i as [c|c b|h1 h2|ds]; cbn [item_ok] in Hok.
  - (* plain character *)
    apply andb_true_iff in Hok. destruct Hok as [Hok Hcls]. apply andb_true_iff in Hok.
    destruct Hok as [H92 Hq]. apply negb_true_iff in H92, Hq.
    cbn [render app length] in *. exists f, (p + 1). split; [lia|].
    cbn [str_loop]. rewrite H92, Hq. change (len [c]) with 1. cbn [decode].
    destruct (c =? 32) eqn:E32.
    { apply N.eqb_eq in E32. subst c. reflexivity. }
    destruct (is_ascii_graphic c) eqn:Eg.
    { rewrite utf8_ascii; [reflexivity|]. revert Eg. unfold_classes. b2p. lia. }
    cbn [orb] in Hcls. apply negb_true_iff in Hcls. rewrite Hcls. reflexivity.
  - (* simple escape *)
    destruct (assoc_char c escape_table) as [b'|] eqn:Ea; [|discriminate].
    apply N.eqb_eq in Hok. subst b'. apply assoc_char_In in Ea.
    cbn [render app length] in *. exists f, (p + 1). split; [lia|].
    cbn [str_loop]. change (92 =? 92) with true. cbv iota.
    rewrite (escape_simple c b tail Ea). change (len [92; c]) with 2. reflexivity.
  - (* hex escape *)
    apply andb_true_iff in Hok. destruct Hok as [H1 H2].
    cbn [render app length] in *. exists f, (p + 1). split; [lia|].
    cbn [str_loop]. change (92 =? 92) with true. cbv iota.
    destruct (escape_hex h1 h2 tail H1 H2) as [-> _]. change (len [92; 120; h1; h2]) with 4.
    reflexivity.
  - (* unicode escape *)
    apply andb_true_iff in Hok. destruct Hok as [Hok Hsc]. apply andb_true_iff in Hok.
    destruct Hok as [Hds Hne]. assert (Hne' : ds <> []) by (destruct ds; [discriminate|discriminate]).
    cbn [render decode]. exists f, (p + 1). split.
    { cbn [render app length] in Hf. rewrite <- app_assoc in Hf. rewrite !app_length in Hf.
      cbn [length app] in Hf. lia. }
    cbn [app]. rewrite <- app_assoc. cbn [app]. cbn [str_loop]. change (92 =? 92) with true. cbv iota.
    pose proof (escape_unicode ds tail Hne' Hds) as He. cbv zeta in He. rewrite Hsc in He.
    rewrite He.
    replace (len (92 :: 117 :: 123 :: ds ++ [125])) with (4 + len ds)
      by (rewrite !len_cons, len_app, len_cons, len_nil; lia).
    replace (1 + (3 + len ds)) with (4 + len ds) by lia. reflexivity.
Qed.

Lemma sr_cons_nil r : sr_cons [] None 0 r = r.
Proof. destruct r. unfold sr_cons. cbn. reflexivity. Qed.

Lemma sr_cons_cons b1 k1 b2 k2 r :
  sr_cons b1 None k1 (sr_cons b2 None k2 r) = sr_cons (b1 ++ b2) None (k1 + k2) r.
Proof. unfold sr_cons. cbn. rewrite app_assoc, N.add_assoc. reflexivity. Qed.

Lemma str_loop_items q items : forallb (item_ok q) items = true ->
  forall (fuel : nat) (p e : N) (tail : list N), (length (renders items ++ tail) <= fuel)%nat ->
  exists (fuel' : nat) (e' : N), (length tail <= fuel')%nat /\
    str_loop fuel q p e (renders items ++ tail) =
    sr_cons (decodes items) None (len (renders items))
            (str_loop fuel' q (p + len (renders items)) e' tail).
Proof.
  induction items as [|i items IH]; intros Hok fuel p e tail Hf.
  - exists fuel, e. split; [exact Hf|]. cbn [renders decodes flat_map app].
    now rewrite sr_cons_nil, len_nil, N.add_0_r.
  - cbn [forallb] in Hok. apply andb_true_iff in Hok. destruct Hok as [Hi Hok].
    unfold renders, decodes in *. cbn [flat_map] in *. rewrite <- app_assoc in Hf.
    rewrite <- app_assoc.
    destruct (str_loop_item q i Hi fuel p e _ Hf) as (f1 & e1 & Hf1 & ->).
    destruct (IH Hok f1 (p + len (render i)) e1 tail Hf1) as (f2 & e2 & Hf2 & ->).
    exists f2, e2. split; [exact Hf2|]. rewrite sr_cons_cons, len_app, N.add_assoc. reflexivity.
Qed.

(* MAIN THEOREM 4.  A string literal made of valid items lexes to the
   concatenation of the bytes of its items. *)
Theorem escape_decode items rest :
  forallb (item_ok 34) items = true ->
  lex_step 34 (renders items ++ 34 :: rest) =
  StTok KStringLiteral 0%Z None (decodes items) (2 + len (renders items)) rest.
Proof.
  intros Hok. change (lex_step 34 (renders items ++ 34 :: rest))
    with (lex_quote 34 (renders items ++ 34 :: rest)). unfold lex_quote.
  destruct (str_loop_items 34 items Hok _ 1 1 (34 :: rest) (le_n _)) as (f & e & Hf & ->).
  destruct f as [|f]; [cbn in Hf; lia|]. cbn [str_loop]. change (34 =? 92) with false.
  change (34 =? 34) with true. cbv iota. unfold sr_cons.
  cbn [sr_err sr_closed sr_bytes sr_soe sr_rest sr_chars]. rewrite app_nil_r.
  replace (1 + len (renders items) + 1) with (2 + len (renders items)) by lia. reflexivity.
Qed.

(* The same items between single quotes: a char literal iff they decode to
   exactly one byte, E163 otherwise. *)
Theorem escape_decode_char items rest :
  forallb (item_ok 39) items = true ->
  lex_step 39 (renders items ++ 39 :: rest) =
  match decodes items with
  | [b] => StTok KCharLiteral (Z.of_N b) None [] (2 + len (renders items)) rest
  | _ => StTok KError E163 None [] (2 + len (renders items)) rest
  end.
Proof.
  intros Hok. change (lex_step 39 (renders items ++ 39 :: rest))
    with (lex_quote 39 (renders items ++ 39 :: rest)). unfold lex_quote.
  destruct (str_loop_items 39 items Hok _ 1 1 (39 :: rest) (le_n _)) as (f & e & Hf & ->).
  destruct f as [|f]; [cbn in Hf; lia|]. cbn [str_loop]. change (39 =? 92) with false.
  change (39 =? 39) with true. cbv iota. unfold sr_cons.
  cbn [sr_err sr_closed sr_bytes sr_soe sr_rest sr_chars]. rewrite app_nil_r.
  replace (1 + len (renders items) + 1) with (2 + len (renders items)) by lia.
  change (39 =? 34) with false. cbv iota. reflexivity.
Qed.

(* The first invalid escape after valid items determines the error token:
   its code, its span (the backslash up to where the escape scanner stopped)
   and its line_offset (index of the backslash + 1). *)
Theorem escape_error_first q items cs bs c adv m r' :
  forallb (item_ok q) items = true ->
  esc_step cs = (bs, Some c, adv, m, r') ->
  exists n k rest',
    lex_quote q (renders items ++ 92 :: cs) =
    StStrErr c (1 + len (renders items)) (1 + len (renders items) + adv)
             (2 + len (renders items)) n k rest'.
Proof.
  intros Hok Hesc. unfold lex_quote.
  destruct (str_loop_items q items Hok _ 1 1 (92 :: cs) (le_n _)) as (f & e & Hf & ->).
  destruct f as [|f]; [cbn in Hf; lia|]. cbn [str_loop]. change (92 =? 92) with true.
  cbv iota. rewrite Hesc. unfold sr_cons.
  cbn [sr_err sr_closed sr_bytes sr_soe sr_rest sr_chars].
  replace (1 + len (renders items) + 1) with (2 + len (renders items)) by lia.
  eexists _, _, _. reflexivity.
Qed.

(* A literal of valid items that is not closed on its line: E160, spanning
   everything up to the end of the line. *)
Theorem missing_closing_quote q items :
  forallb (item_ok q) items = true ->
  exists eo,
    lex_quote q (renders items) =
    StStrErr E160 0 (1 + len (renders items)) eo
             (1 + len (renders items)) (1 + len (renders items)) [].
Proof.
  intros Hok. unfold lex_quote.
  pose proof (str_loop_items q items Hok (length (renders items)) 1 1 []) as H.
  rewrite app_nil_r in H. destruct (H (le_n _)) as (f & e & Hf & ->).
  assert (Hnil : str_loop f q (1 + len (renders items)) e [] =
    {| sr_bytes := []; sr_closed := false; sr_err := None; sr_soe := 1 + len (renders items);
       sr_eolo := e; sr_chars := 0; sr_rest := [] |}) by (destruct f; reflexivity).
  rewrite Hnil. unfold sr_cons. cbn [sr_err sr_closed sr_bytes sr_soe sr_rest sr_chars sr_eolo].
  rewrite N.add_0_r. exists e. reflexivity.
Qed.

Example escape_decode_hyp_ok :
  forallb (item_ok 34)
    [IChar 97; IChar 32; IChar 233; ISimple 110 10; IHex 52 49; IUni (str "1F600"); IChar 39] = true.
Proof. vm_compute. reflexivity. Qed.

(* ================================================================== *)
(* 5. Whitespace and comments between tokens. *)

(* ---- locality: a token depends only on the characters it consumes and on
   the (single) character it peeks at behind them *)

Definition headQ (Q : N -> bool) (r : list N) : Prop :=
  match r with [] => True | h :: _ => Q h = false end.

(* [r2] may replace [r1] behind a token starting with [x]: it is empty, or
   starts with a blank, or with a slash (unless the token starts with a slash
   itself), or with the same character as [r1]. *)
Definition quiet (x : N) (r1 r2 : list N) : Prop :=
  match r2 with
  | [] => True
  | h :: _ => h = 32 \/ h = 9 \/ (h = 47 /\ x <> 47) \/ (exists t, r1 = h :: t)
  end.

Lemma quiet_headQ x r1 r2 Q : quiet x r1 r2 ->
  Q 32 = false -> Q 9 = false -> (x <> 47 -> Q 47 = false) -> headQ Q r1 -> headQ Q r2.
Proof.
  intros Hq H32 H9 H47 H1. destruct r2 as [|h t]; [exact I|]. cbn [quiet headQ] in *.
  destruct Hq as [->|[->|[[-> Hx]|[t' ->]]]]; auto.
Qed.

Lemma stops_headQ r : stops r <-> headQ is_ident_cont r.
Proof. destruct r; cbn; tauto. Qed.

Lemma take_ident_all cs : forall t r, take_ident cs = (t, r) ->
  forallb is_ident_cont t = true /\ stops r.
Proof.
  induction cs as [|y cs IH]; intros t r H; cbn [take_ident] in H.
  - inversion H. split; [reflexivity|exact I].
  - destruct (is_ident_cont y) eqn:E.
    + destruct (take_ident cs) as [t' r'] eqn:E'. inversion H; subst.
      destruct (IH _ _ eq_refl) as [H1 H2]. split; [cbn [forallb]; now rewrite E, H1|exact H2].
    + inversion H; subst. split; [reflexivity|exact E].
Qed.

Lemma take_ident_local cs t r : take_ident cs = (t, r) ->
  cs = t ++ r /\ stops r /\ forall r2, stops r2 -> take_ident (t ++ r2) = (t, r2).
Proof.
  intros H. destruct (take_ident_all _ _ _ H) as [Ha Hs].
  split; [now apply take_ident_wf|]. split; [exact Hs|].
  intros r2 H2. now apply take_ident_app.
Qed.

Definition digit_stop (isd : N -> bool) (h : N) : bool := isd h || (h =? 95).

Lemma take_digits_local isd cs : forall l k r, take_digits isd cs = (l, k, r) ->
  exists u, cs = u ++ r /\ headQ (digit_stop isd) r /\
    forall r2, headQ (digit_stop isd) r2 -> take_digits isd (u ++ r2) = (l, k, r2).
Proof.
  induction cs as [|y cs IH]; intros l k r H; cbn [take_digits] in H.
  - inversion H; subst. exists []. split; [reflexivity|]. split; [exact I|].
    intros r2 H2. destruct r2 as [|h t]; [reflexivity|]. cbn [headQ] in H2. unfold digit_stop in H2.
    apply orb_false_iff in H2. destruct H2 as [Ha Hb]. cbn [app take_digits]. now rewrite Ha, Hb.
  - destruct (take_digits isd cs) as [[l' k'] r'] eqn:E.
    destruct (IH _ _ _ eq_refl) as (u & Hu & Hh & Hloc).
    destruct (isd y) eqn:Ey; [|destruct (y =? 95) eqn:E95].
    + inversion H; subst. exists (y :: u). split; [reflexivity|]. split; [exact Hh|].
      intros r2 H2. cbn [app take_digits]. now rewrite Ey, (Hloc r2 H2).
    + inversion H; subst. exists (y :: u). split; [reflexivity|]. split; [exact Hh|].
      intros r2 H2. cbn [app take_digits]. now rewrite Ey, E95, (Hloc r2 H2).
    + inversion H; subst. exists []. split; [reflexivity|].
      split; [cbn [headQ]; unfold digit_stop; now rewrite Ey, E95|].
      intros r2 H2. destruct r2 as [|h t]; [reflexivity|]. cbn [headQ] in H2. unfold digit_stop in H2.
      apply orb_false_iff in H2. destruct H2 as [Ha Hb]. cbn [app take_digits]. now rewrite Ha, Hb.
Qed.

Definition with_rest (s : step) (r : list N) : step :=
  match s with
  | StTok k v ty bs n _ => StTok k v ty bs n r
  | StStrErr c es ee eo n m _ => StStrErr c es ee eo n m r
  | _ => s
  end.

Definition rest_of (s : step) : option (list N) :=
  match s with
  | StTok _ _ _ _ _ r => Some r
  | StStrErr _ _ _ _ _ _ r => Some r
  | _ => None
  end.


Lemma quiet_stops x r1 r2 : quiet x r1 r2 -> stops r1 -> stops r2.
Proof.
  intros Hq H1. apply stops_headQ. apply stops_headQ in H1.
  apply (quiet_headQ x r1 r2 is_ident_cont Hq); auto.
Qed.

Lemma lex_word_local x rest :
  exists u r1, rest = u ++ r1 /\ rest_of (lex_word x rest) = Some r1 /\
    forall r2, quiet x r1 r2 -> lex_word x (u ++ r2) = with_rest (lex_word x rest) r2.
Proof.
  unfold lex_word. destruct (take_ident rest) as [t r] eqn:E.
  destruct (take_ident_local _ _ _ E) as (Hrest & Hs & Hloc).
  destruct (classify_word (x :: t)) as [[[k v] ty]|] eqn:Ec.
  - exists t, r. split; [exact Hrest|]. split; [reflexivity|].
    intros r2 Hq. rewrite (Hloc r2 (quiet_stops _ _ _ Hq Hs)), Ec. reflexivity.
  - destruct r as [|y r'].
    + exists t, []. split; [exact Hrest|]. split; [reflexivity|].
      intros r2 Hq. rewrite (Hloc r2 (quiet_stops _ _ _ Hq Hs)), Ec.
      pose proof (quiet_headQ x [] r2 (fun h => h =? 33) Hq eq_refl eq_refl (fun _ => eq_refl) I) as H33.
      destruct r2 as [|h t2]; [reflexivity|]. cbn [headQ] in H33. now rewrite H33.
    + destruct (y =? 33) eqn:E33.
      * apply N.eqb_eq in E33. subst y. exists (t ++ [33]), r'.
        split; [rewrite <- app_assoc; exact Hrest|]. split; [reflexivity|].
        intros r2 _. rewrite <- app_assoc. cbn [app].
        rewrite (Hloc (33 :: r2) eq_refl), Ec. reflexivity.
      * exists t, (y :: r'). split; [exact Hrest|]. split; [reflexivity|].
        intros r2 Hq. rewrite (Hloc r2 (quiet_stops _ _ _ Hq Hs)), Ec.
        pose proof (quiet_headQ x (y :: r') r2 (fun h => h =? 33) Hq eq_refl eq_refl (fun _ => eq_refl) E33) as H33.
        destruct r2 as [|h t2]; [reflexivity|]. cbn [headQ] in H33. now rewrite H33.
Qed.

Lemma stops_digit_stop isd r :
  (forall c, isd c = true -> is_ident_cont c = true) -> stops r -> headQ (digit_stop isd) r.
Proof.
  intros Himp. destruct r as [|h t]; [trivial|]. cbn [stops headQ]. intros Hh. unfold digit_stop.
  apply orb_false_iff. split.
  - destruct (isd h) eqn:E; [apply Himp in E; congruence|reflexivity].
  - destruct (h =? 95) eqn:E; [apply N.eqb_eq in E; subst; discriminate|reflexivity].
Qed.

(* digits, then suffix *)
Lemma number_scan_local isd cs lit k ra suf rb :
  (forall c, isd c = true -> is_ident_cont c = true) ->
  take_digits isd cs = (lit, k, ra) -> take_ident ra = (suf, rb) ->
  exists u, cs = u ++ rb /\ stops rb /\
    forall r2, stops r2 ->
      exists ra2, take_digits isd (u ++ r2) = (lit, k, ra2) /\ take_ident ra2 = (suf, r2).
Proof.
  intros Himp Hd Hi.
  destruct (take_digits_local _ _ _ _ _ Hd) as (u1 & Hu1 & Hh & Hloc1).
  destruct (take_ident_local _ _ _ Hi) as (Hra & Hs & Hloc2).
  exists (u1 ++ suf). split; [rewrite <- app_assoc, <- Hra; exact Hu1|]. split; [exact Hs|].
  intros r2 H2. exists (suf ++ r2). split; [|now apply Hloc2].
  rewrite <- app_assoc. apply Hloc1.
  destruct suf as [|h suf'].
  - cbn [app]. now apply stops_digit_stop.
  - subst ra. exact Hh.
Qed.

Lemma lex_radix_local isd radix pc x cs :
  (forall c, isd c = true -> is_ident_cont c = true) ->
  exists u r1, cs = u ++ r1 /\ rest_of (lex_radix isd radix pc cs) = Some r1 /\
    forall r2, quiet x r1 r2 ->
      lex_radix isd radix pc (u ++ r2) = with_rest (lex_radix isd radix pc cs) r2.
Proof.
  intros Himp. unfold lex_radix.
  destruct (take_digits isd cs) as [[lit k] ra] eqn:E1.
  destruct (take_ident ra) as [suf rb] eqn:E2.
  destruct (number_scan_local _ _ _ _ _ _ _ Himp E1 E2) as (u & Hu & Hs & Hloc).
  exists u, rb. split; [exact Hu|].
  destruct (from_str_radix U128_LIMIT radix lit) eqn:Ef; [|destruct (is_nil lit) eqn:En].
  all: match goal with |- context [finish_number ?a ?b ?c ?d] =>
    destruct (finish_number a b c d) as [[kd v] ty] eqn:Hfin end.
  all: split; [reflexivity|]; intros r2 Hq;
    destruct (Hloc r2 (quiet_stops _ _ _ Hq Hs)) as (ra2 & -> & ->); rewrite Ef, ?En, Hfin; reflexivity.
Qed.

Lemma lex_decimal_local x rest :
  exists u r1, rest = u ++ r1 /\ rest_of (lex_decimal x rest) = Some r1 /\
    forall r2, quiet x r1 r2 -> lex_decimal x (u ++ r2) = with_rest (lex_decimal x rest) r2.
Proof.
  unfold lex_decimal.
  destruct (take_digits is_dec rest) as [[lit k] ra] eqn:E1.
  destruct (take_ident ra) as [suf rb] eqn:E2.
  destruct (number_scan_local _ _ _ _ _ _ _ dec_is_cont E1 E2) as (u & Hu & Hs & Hloc).
  exists u, rb. split; [exact Hu|].
  match goal with |- context [finish_number ?a ?b ?c ?d] =>
    destruct (finish_number a b c d) as [[kd v] ty] eqn:Hfin end.
  split; [reflexivity|]. intros r2 Hq.
  destruct (Hloc r2 (quiet_stops _ _ _ Hq Hs)) as (ra2 & -> & ->). rewrite Hfin. reflexivity.
Qed.

Definition plain_zero (rest : list N) : step :=
  let '(suf, r) := take_ident rest in
  let '(kd, v, ty) := finish_number true (Some 0%Z) [] suf in
  StTok kd v ty [] (1 + len suf) r.

Lemma lex_zero_plain cs :
  match cs with [] => True | y :: _ => (y =? 120) = false /\ (y =? 98) = false end ->
  lex_zero cs = plain_zero cs.
Proof.
  unfold lex_zero, plain_zero. destruct cs as [|y r]; [reflexivity|]. intros [-> ->]. reflexivity.
Qed.

Lemma lex_zero_local x rest :
  exists u r1, rest = u ++ r1 /\ rest_of (lex_zero rest) = Some r1 /\
    forall r2, quiet x r1 r2 -> lex_zero (u ++ r2) = with_rest (lex_zero rest) r2.
Proof.
  assert (Hplain : forall cs,
    match cs with [] => True | y :: _ => (y =? 120) = false /\ (y =? 98) = false end ->
    exists u r1, cs = u ++ r1 /\ rest_of (plain_zero cs) = Some r1 /\
      forall r2, quiet x r1 r2 -> lex_zero (u ++ r2) = with_rest (plain_zero cs) r2).
  { intros cs Hcs. unfold plain_zero. destruct (take_ident cs) as [suf r] eqn:E.
    destruct (take_ident_local _ _ _ E) as (Hc & Hs & Hloc).
    destruct (finish_number true (Some 0%Z) [] suf) as [[kd v] ty] eqn:Hfin.
    exists suf, r. split; [exact Hc|]. split; [reflexivity|]. intros r2 Hq.
    pose proof (quiet_stops _ _ _ Hq Hs) as H2.
    rewrite lex_zero_plain.
    - unfold plain_zero. rewrite (Hloc r2 H2), Hfin. reflexivity.
    - destruct suf as [|h suf'].
      + cbn [app]. destruct r2 as [|h t]; [exact I|]. cbn [stops] in H2.
        split; (destruct (h =? _) eqn:Eh; [apply N.eqb_eq in Eh; subst; discriminate|reflexivity]).
      + subst cs. exact Hcs. }
  unfold lex_zero. fold (plain_zero rest).
  destruct rest as [|y r1].
  { apply (Hplain [] I). }
  destruct (y =? 120) eqn:E120.
  { destruct (lex_radix_local is_hex 16%Z 120 x r1 hex_is_cont) as (u & r & Hu & Hr & Hloc).
    exists (y :: u), r. split; [now rewrite Hu|]. split; [exact Hr|].
    intros r2 Hq. cbn [app]. unfold lex_zero. rewrite E120. now apply Hloc. }
  destruct (y =? 98) eqn:E98.
  { destruct (lex_radix_local is_bin 2%Z 98 x r1 bin_is_cont) as (u & r & Hu & Hr & Hloc).
    exists (y :: u), r. split; [now rewrite Hu|]. split; [exact Hr|].
    intros r2 Hq. cbn [app]. unfold lex_zero. rewrite E120, E98. now apply Hloc. }
  apply (Hplain (y :: r1)). now split.
Qed.

(* ---- quoted literals: a closed literal does not look behind its closing quote *)

Lemma take_uhex_local cs : forall l c k z w, take_uhex cs = (l, c, k, z :: w) ->
  exists u, cs = u ++ z :: w /\ forall w', take_uhex (u ++ z :: w') = (l, c, k, z :: w').
Proof.
  induction cs as [|y cs IH]; intros l c k z w H; cbn [take_uhex] in H; [inversion H|].
  destruct (is_hex y) eqn:Ey; [|destruct (y =? 125) eqn:E125].
  - destruct (take_uhex cs) as [[[l' c'] k'] r'] eqn:E. inversion H; subst.
    destruct (IH _ _ _ _ _ eq_refl) as (u & Hu & Hloc).
    exists (y :: u). split; [now rewrite Hu|]. intros w'. cbn [app take_uhex].
    now rewrite Ey, Hloc.
  - inversion H; subst. exists [y]. split; [reflexivity|]. intros w'. cbn [app take_uhex].
    now rewrite Ey, E125.
  - inversion H; subst. exists []. split; [reflexivity|]. intros w'. cbn [app take_uhex].
    now rewrite Ey, E125.
Qed.

Lemma esc_step_local cs bs er adv m z w : esc_step cs = (bs, er, adv, m, z :: w) ->
  exists u, cs = u ++ z :: w /\ forall w', esc_step (u ++ z :: w') = (bs, er, adv, m, z :: w').
Proof.
  unfold esc_step. destruct cs as [|c r]; [intros H; inversion H|].
  destruct (assoc_char c escape_table) eqn:Ea.
  { intros H; inversion H; subst. exists [c]. split; [reflexivity|]. intros w'. cbn [app].
    now rewrite Ea. }
  destruct (c =? 120) eqn:Ex.
  { destruct r as [|d1 r1]; [intros H; inversion H|].
    destruct (is_hex d1) eqn:E1.
    2:{ intros H; inversion H; subst. exists [c]. split; [reflexivity|]. intros w'. cbn [app].
        now rewrite Ea, Ex, E1. }
    destruct r1 as [|d2 r2]; [intros H; inversion H|].
    destruct (is_hex d2) eqn:E2.
    - intros H; inversion H; subst. exists [c; d1; d2]. split; [reflexivity|]. intros w'. cbn [app].
      now rewrite Ea, Ex, E1, E2.
    - intros H; inversion H; subst. exists [c; d1]. split; [reflexivity|]. intros w'. cbn [app].
      now rewrite Ea, Ex, E1, E2. }
  destruct (c =? 117) eqn:Eu.
  { destruct r as [|o r1]; [intros H; inversion H|].
    destruct (o =? 123) eqn:Eo.
    2:{ intros H; inversion H; subst. exists [c]. split; [reflexivity|]. intros w'. cbn [app].
        now rewrite Ea, Ex, Eu, Eo. }
    destruct (take_uhex r1) as [[[lit closed] k] r2] eqn:Et.
    destruct (parse_unicode (if closed then lit else [])) eqn:Ep.
    all: intros H; inversion H; subst;
      destruct (take_uhex_local _ _ _ _ _ _ Et) as (u & Hu & Hloc);
      exists (c :: o :: u); (split; [now rewrite Hu|]); intros w'; cbn [app];
      rewrite Ea, Ex, Eu, Eo, Hloc, Ep; reflexivity. }
  intros H; inversion H; subst. exists [c]. split; [reflexivity|]. intros w'. cbn [app].
  now rewrite Ea, Ex, Eu.
Qed.

Definition sr_with_rest (r : strres) (t : list N) : strres :=
  {| sr_bytes := sr_bytes r; sr_closed := sr_closed r; sr_err := sr_err r; sr_soe := sr_soe r;
     sr_eolo := sr_eolo r; sr_chars := sr_chars r; sr_rest := t |}.

Lemma sr_cons_with_rest bs er k r t :
  sr_with_rest (sr_cons bs er k r) t = sr_cons bs er k (sr_with_rest r t).
Proof. reflexivity. Qed.

Lemma str_loop_local : forall fuel q p e cs,
  sr_closed (str_loop fuel q p e cs) = true ->
  exists u, cs = u ++ sr_rest (str_loop fuel q p e cs) /\ u <> [] /\
    forall tail fuel', (length (u ++ tail) <= fuel')%nat ->
      str_loop fuel' q p e (u ++ tail) = sr_with_rest (str_loop fuel q p e cs) tail.
Proof.
  induction fuel as [|f IH]; intros q p e cs Hcl.
  { destruct cs; cbn [str_loop sr_closed] in Hcl; discriminate. }
  destruct cs as [|x r]; [cbn [str_loop sr_closed] in Hcl; discriminate|].
  cbn [str_loop] in *.
  destruct (x =? 92) eqn:E92.
  { destruct (esc_step r) as [[[[bs er] adv] m] r'] eqn:Ee.
    cbn [sr_cons sr_closed] in Hcl.
    destruct (IH q (p + adv) (p + 1) r' Hcl) as (u1 & Hu1 & Hne & Hloc).
    destruct u1 as [|z u1']; [congruence|].
    cbn [app] in Hu1. rewrite Hu1 in Ee.
    destruct (esc_step_local _ _ _ _ _ _ _ Ee) as (ue & Hue & Hloce).
    exists (x :: ue ++ z :: u1'). cbn [sr_cons sr_rest].
    split; [cbn [app]; rewrite <- app_assoc; cbn [app]; now rewrite Hue|].
    split; [discriminate|].
    intros tail fuel' Hf'. destruct fuel' as [|f']; [cbn in Hf'; lia|].
    cbn [app]. rewrite <- app_assoc. cbn [app str_loop]. rewrite E92, Hloce.
    rewrite sr_cons_with_rest. f_equal.
    change (z :: u1' ++ tail) with ((z :: u1') ++ tail). apply Hloc.
    cbn [app length] in Hf' |- *. repeat rewrite app_length in Hf'.
    cbn [length] in Hf'. repeat rewrite app_length. cbn [length]. lia. }
  destruct (x =? q) eqn:Eq.
  { exists [x]. cbn [sr_rest]. split; [reflexivity|]. split; [discriminate|].
    intros tail fuel' Hf'. destruct fuel' as [|f']; [cbn in Hf'; lia|].
    cbn [app str_loop]. rewrite E92, Eq. reflexivity. }
  assert (Hone : forall bs er,
    sr_closed (sr_cons bs er 1 (str_loop f q (p + 1) (p + 1) r)) = true ->
    exists u, x :: r = u ++ sr_rest (sr_cons bs er 1 (str_loop f q (p + 1) (p + 1) r)) /\ u <> [] /\
      forall tail fuel', (length (u ++ tail) <= fuel')%nat ->
        match fuel' with
        | O => True
        | S f' => sr_cons bs er 1 (str_loop f' q (p + 1) (p + 1) (tl u ++ tail)) =
                  sr_with_rest (sr_cons bs er 1 (str_loop f q (p + 1) (p + 1) r)) tail
        end /\ hd 0 u = x).
  { intros bs er Hc. cbn [sr_cons sr_closed] in Hc.
    destruct (IH q (p + 1) (p + 1) r Hc) as (u1 & Hu1 & Hne & Hloc).
    exists (x :: u1). cbn [sr_cons sr_rest]. split; [now rewrite Hu1 at 1|]. split; [discriminate|].
    intros tail fuel' Hf'. split; [|reflexivity]. destruct fuel' as [|f']; [exact I|].
    cbn [tl]. rewrite sr_cons_with_rest. f_equal. apply Hloc. cbn [app length] in Hf'. lia. }
  assert (Hfin : forall bs er,
    (forall f' t, str_loop (S f') q p e (x :: t) = sr_cons bs er 1 (str_loop f' q (p + 1) (p + 1) t)) ->
    sr_closed (sr_cons bs er 1 (str_loop f q (p + 1) (p + 1) r)) = true ->
    exists u, x :: r = u ++ sr_rest (sr_cons bs er 1 (str_loop f q (p + 1) (p + 1) r)) /\ u <> [] /\
      forall tail fuel', (length (u ++ tail) <= fuel')%nat ->
        str_loop fuel' q p e (u ++ tail) =
        sr_with_rest (sr_cons bs er 1 (str_loop f q (p + 1) (p + 1) r)) tail).
  { intros bs er Hstep Hc. destruct (Hone bs er Hc) as (u & Hu & Hne & Hloc).
    exists u. split; [exact Hu|]. split; [exact Hne|]. intros tail fuel' Hf'.
    destruct (Hloc tail fuel' Hf') as [H1 H2].
    destruct u as [|x' u']; [congruence|]. cbn [hd] in H2. subst x'.
    destruct fuel' as [|f']; [cbn in Hf'; lia|]. cbn [app]. rewrite Hstep. exact H1. }
  destruct (x =? 32) eqn:E32.
  { apply Hfin; [|exact Hcl]. intros f' t. cbn [str_loop]. now rewrite E92, Eq, E32. }
  destruct (is_ascii_graphic x) eqn:Eg.
  { apply Hfin; [|exact Hcl]. intros f' t. cbn [str_loop]. now rewrite E92, Eq, E32, Eg. }
  destruct (is_ascii x) eqn:Ea.
  { apply Hfin; [|exact Hcl]. intros f' t. cbn [str_loop]. now rewrite E92, Eq, E32, Eg, Ea. }
  apply Hfin; [|exact Hcl]. intros f' t. cbn [str_loop]. now rewrite E92, Eq, E32, Eg, Ea.
Qed.

Lemma str_loop_unclosed_rest : forall fuel q p e cs, (length cs <= fuel)%nat ->
  sr_closed (str_loop fuel q p e cs) = false -> sr_rest (str_loop fuel q p e cs) = [].
Proof.
  induction fuel as [|f IH]; intros q p e cs Hf Hcl.
  { destruct cs; [reflexivity|cbn [length] in Hf; lia]. }
  destruct cs as [|x r]; [reflexivity|]. cbn [length] in Hf. cbn [str_loop] in *.
  destruct (x =? 92).
  { pose proof (esc_step_wf r) as Hw. unfold esc_wf in Hw.
    destruct (esc_step r) as [[[[bs er] adv] m] r'].
    destruct Hw as (u & Hu & _). cbn [sr_cons sr_closed sr_rest] in *.
    apply IH; [|exact Hcl]. apply (f_equal (@length N)) in Hu. rewrite app_length in Hu. lia. }
  destruct (x =? q); [cbn [sr_closed] in Hcl; discriminate|].
  destruct (x =? 32); [cbn [sr_cons sr_closed sr_rest] in *; apply IH; [lia|exact Hcl]|].
  destruct (is_ascii_graphic x); [cbn [sr_cons sr_closed sr_rest] in *; apply IH; [lia|exact Hcl]|].
  destruct (is_ascii x); cbn [sr_cons sr_closed sr_rest] in *; (apply IH; [lia|exact Hcl]).
Qed.

(* What lex_quote makes of the result of the loop. *)
Definition quote_result (q : N) (res : strres) : step :=
  let first_error :=
    match sr_err res with
    | Some e => Some e
    | None => if sr_closed res then None else Some (E160, 0, sr_soe res, sr_eolo res)
    end in
  match first_error with
  | Some (c, es, ee, eo) => StStrErr c es ee eo (sr_soe res) (1 + sr_chars res) (sr_rest res)
  | None =>
      if q =? 34 then StTok KStringLiteral 0%Z None (sr_bytes res) (sr_soe res) (sr_rest res)
      else match sr_bytes res with
           | [b] => StTok KCharLiteral (Z.of_N b) None [] (sr_soe res) (sr_rest res)
           | _ => StTok KError E163 None [] (sr_soe res) (sr_rest res)
           end
  end.

Lemma lex_quote_result q rest : lex_quote q rest = quote_result q (str_loop (length rest) q 1 1 rest).
Proof. reflexivity. Qed.

Lemma quote_result_rest q res : rest_of (quote_result q res) = Some (sr_rest res).
Proof.
  unfold quote_result. destruct (sr_err res) as [[[[c es] ee] eo]|]; [reflexivity|].
  destruct (sr_closed res); [|reflexivity]. destruct (q =? 34); [reflexivity|].
  destruct (sr_bytes res) as [|b [|b' l]]; reflexivity.
Qed.

Lemma quote_result_with_rest q res t :
  quote_result q (sr_with_rest res t) = with_rest (quote_result q res) t.
Proof.
  unfold quote_result, sr_with_rest.
  cbn [sr_err sr_closed sr_soe sr_eolo sr_chars sr_rest sr_bytes].
  destruct (sr_err res) as [[[[c es] ee] eo]|]; [reflexivity|].
  destruct (sr_closed res); [|reflexivity]. destruct (q =? 34); [reflexivity|].
  destruct (sr_bytes res) as [|b [|b' l]]; reflexivity.
Qed.

(* A literal that ends before the end of the line is closed, and nothing
   behind the closing quote matters. *)
Lemma lex_quote_local q rest r1 :
  rest_of (lex_quote q rest) = Some r1 -> r1 <> [] ->
  exists u, rest = u ++ r1 /\ forall r2, lex_quote q (u ++ r2) = with_rest (lex_quote q rest) r2.
Proof.
  rewrite lex_quote_result, quote_result_rest. intros H Hne. injection H as <-.
  destruct (sr_closed (str_loop (length rest) q 1 1 rest)) eqn:Ecl.
  2:{ rewrite (str_loop_unclosed_rest _ _ _ _ _ (le_n _) Ecl) in Hne. congruence. }
  destruct (str_loop_local _ _ _ _ _ Ecl) as (u & Hu & _ & Hloc).
  exists u. split; [exact Hu|]. intros r2.
  rewrite !lex_quote_result, (Hloc r2 _ (le_n _)). apply quote_result_with_rest.
Qed.

(* ---- all arms *)

Definition arm_local (x : N) (F : list N -> step) (rest : list N) : Prop :=
  forall r1, rest_of (F rest) = Some r1 ->
  exists u, rest = u ++ r1 /\ forall r2, quiet x r1 r2 -> F (u ++ r2) = with_rest (F rest) r2.

Lemma single_local x k rest : arm_local x (single k) rest.
Proof.
  intros r1 H. inversion H; subst. exists []. split; [reflexivity|]. intros r2 _. reflexivity.
Qed.

(* a two-way peek: [Q] tells which next characters are consumed *)
Lemma peek_local x (Q : N -> bool) (F : list N -> step) rest :
  Q 32 = false -> Q 9 = false -> (x <> 47 -> Q 47 = false) ->
  (forall z, Q z = true -> exists k v ty bs n, forall r', F (z :: r') = StTok k v ty bs n r') ->
  (forall r, headQ Q r -> exists k v ty bs n, forall r', headQ Q r' -> F r' = StTok k v ty bs n r') ->
  arm_local x F rest.
Proof.
  intros H32 H9 H47 Hyes Hno r1 H.
  destruct rest as [|z r].
  - destruct (Hno [] I) as (k & v & ty & bs & n & HF). rewrite (HF [] I) in H. inversion H; subst.
    exists []. split; [reflexivity|]. intros r2 Hq. cbn [app].
    rewrite (HF [] I). cbn [with_rest]. apply HF.
    apply (quiet_headQ x [] r2 Q Hq H32 H9 H47 I).
  - destruct (Q z) eqn:Ez.
    + destruct (Hyes z Ez) as (k & v & ty & bs & n & HF). rewrite HF in H. inversion H; subst.
      exists [z]. split; [reflexivity|]. intros r2 _. cbn [app]. rewrite !HF. reflexivity.
    + destruct (Hno (z :: r) Ez) as (k & v & ty & bs & n & HF).
      rewrite (HF (z :: r) Ez) in H. inversion H; subst.
      exists []. split; [reflexivity|]. intros r2 Hq. cbn [app].
      rewrite (HF (z :: r) Ez). cbn [with_rest]. apply HF.
      apply (quiet_headQ x (z :: r) r2 Q Hq H32 H9 H47 Ez).
Qed.

Lemma double_local x y k2 k1 rest :
  y <> 32 -> y <> 9 -> y <> 47 -> arm_local x (double y k2 k1) rest.
Proof.
  intros H32 H9 H47.
  apply (peek_local x (fun h => h =? y)).
  - apply N.eqb_neq; congruence.
  - apply N.eqb_neq; congruence.
  - intros _. apply N.eqb_neq; congruence.
  - intros z Hz. exists k2, 0%Z, None, [], 2. intros r'. unfold double. now rewrite Hz.
  - intros r Hr. exists k1, 0%Z, None, [], 1. intros r' Hr'. unfold double, single.
    destruct r' as [|h t]; [reflexivity|]. cbn [headQ] in Hr'. now rewrite Hr'.
Qed.

Lemma arm_of_exists x (F : list N -> step) rest :
  (exists u r1, rest = u ++ r1 /\ rest_of (F rest) = Some r1 /\
     forall r2, quiet x r1 r2 -> F (u ++ r2) = with_rest (F rest) r2) ->
  arm_local x F rest.
Proof.
  intros (u & r1 & Hu & Hr & Hloc) r1' H. rewrite Hr in H. inversion H; subst r1'.
  exists u. split; [exact Hu|exact Hloc].
Qed.

(* LOCALITY.  Behind the characters a token consumed, the rest of the line may
   be replaced by anything "quiet" without changing the token; for quoted
   literals provided the literal ended before the end of the line. *)
Theorem lex_step_local x rest r1 :
  rest_of (lex_step x rest) = Some r1 ->
  (r1 <> [] \/ (x <> 34 /\ x <> 39)) ->
  exists u, rest = u ++ r1 /\
    forall r2, quiet x r1 r2 -> lex_step x (u ++ r2) = with_rest (lex_step x rest) r2.
Proof.
  intros H Hcond. revert r1 H Hcond. unfold lex_step.
  repeat match goal with
  | |- forall r1, rest_of (if ?b then _ else _) = _ -> _ => destruct b eqn:?
  | |- forall r1, rest_of (single ?k _) = _ -> _ =>
      intros r1 H _; revert r1 H; apply (single_local x k rest)
  | |- forall r1, rest_of (double ?y ?k2 ?k1 _) = _ -> _ =>
      intros r1 H _; revert r1 H; apply (double_local x y k2 k1 rest); discriminate
  end.
  - (* < *)
    intros r1 H _; revert r1 H.
    apply (peek_local x (fun h => (h =? 60) || (h =? 61))
      (fun rest => match rest with
                   | [] => single KAngleLeft rest
                   | z :: r => if z =? 60 then StTok KShiftLeft 0%Z None [] 2 r
                               else if z =? 61 then StTok KIsLE 0%Z None [] 2 r
                               else single KAngleLeft rest
                   end) rest); try reflexivity.
    + intros z Hz. destruct (z =? 60) eqn:E1.
      * exists KShiftLeft, 0%Z, None, [], 2. intros r'. cbv beta iota. rewrite ?E1. reflexivity.
      * cbn [orb] in Hz. exists KIsLE, 0%Z, None, [], 2. intros r'. cbv beta iota. rewrite ?E1, ?Hz. reflexivity.
    + intros r _. exists KAngleLeft, 0%Z, None, [], 1. intros r' Hr'.
      destruct r' as [|h t]; [reflexivity|]. cbn [headQ] in Hr'. apply orb_false_iff in Hr'.
      destruct Hr' as [E1 E2]. cbv beta iota. rewrite ?E1, ?E2. reflexivity.
  - (* > *)
    intros r1 H _; revert r1 H.
    apply (peek_local x (fun h => (h =? 62) || (h =? 61))
      (fun rest => match rest with
                   | [] => single KAngleRight rest
                   | z :: r => if z =? 62 then StTok KShiftRight 0%Z None [] 2 r
                               else if z =? 61 then StTok KIsGE 0%Z None [] 2 r
                               else single KAngleRight rest
                   end) rest); try reflexivity.
    + intros z Hz. destruct (z =? 62) eqn:E1.
      * exists KShiftRight, 0%Z, None, [], 2. intros r'. cbv beta iota. rewrite ?E1. reflexivity.
      * cbn [orb] in Hz. exists KIsGE, 0%Z, None, [], 2. intros r'. cbv beta iota. rewrite ?E1, ?Hz. reflexivity.
    + intros r _. exists KAngleRight, 0%Z, None, [], 1. intros r' Hr'.
      destruct r' as [|h t]; [reflexivity|]. cbn [headQ] in Hr'. apply orb_false_iff in Hr'.
      destruct Hr' as [E1 E2]. cbv beta iota. rewrite ?E1, ?E2. reflexivity.
  - (* / *)
    intros r1 H _. assert (Hx : x = 47) by now apply N.eqb_eq. revert r1 H.
    intros r1 H. destruct rest as [|z r].
    + inversion H; subst. exists []. split; [reflexivity|]. intros r2 Hq. cbn [app].
      destruct r2 as [|h t]; [reflexivity|]. cbn [quiet] in Hq.
      destruct Hq as [->|[->|[[-> Hc]|[t' Hc]]]]; try reflexivity; congruence.
    + destruct (z =? 47) eqn:Ez; [discriminate|]. inversion H; subst.
      exists []. split; [reflexivity|]. intros r2 Hq. cbn [app].
      destruct r2 as [|h t]; [reflexivity|]. cbn [quiet] in Hq.
      destruct Hq as [->|[->|[[-> Hc]|[t' Hc]]]]; try reflexivity; try congruence.
      inversion Hc; subst. now rewrite Ez.
  - (* words *)
    intros r1 H _; revert r1 H. apply (arm_of_exists x (lex_word x)), lex_word_local.
  - (* 0 *)
    intros r1 H _; revert r1 H. apply (arm_of_exists x lex_zero), lex_zero_local.
  - (* 1-9 *)
    intros r1 H _; revert r1 H. apply (arm_of_exists x (lex_decimal x)), lex_decimal_local.
  - (* quotes *)
    intros r1 H [Hne|[H34 H39]].
    + destruct (lex_quote_local x rest r1 H Hne) as (u & Hu & Hloc).
      exists u. split; [exact Hu|]. intros r2 _. apply Hloc.
    + exfalso. match goal with Hq : (x =? 34) || (x =? 39) = true |- _ =>
        apply orb_true_iff in Hq; destruct Hq as [E|E]; apply N.eqb_eq in E; congruence end.
  - (* blanks *) discriminate.
  - (* anything else *)
    intros r1 H _. inversion H; subst. exists []. split; [reflexivity|]. intros r2 _. reflexivity.
Qed.

(* ---- payload sequence of a line, without positions *)

Definition payl : Type := tkind * Z * option tykw * list N.

Fixpoint pay_line (fuel : nat) (cs : list N) : list payl :=
  match cs with
  | [] => []
  | x :: rest =>
      match fuel with
      | O => [(KError, OOF, None, [])]
      | S f =>
          match lex_step x rest with
          | StEnd => []
          | StSkip => pay_line f rest
          | StTok k v ty bs _ rest' => (k, v, ty, bs) :: pay_line f rest'
          | StStrErr c _ _ _ _ _ rest' => (KError, c, None, []) :: pay_line f rest'
          end
      end
  end.

Lemma pay_line_eq : forall fuel ln sos lo cs,
  map pay (lex_line_fuel fuel ln sos lo cs) = pay_line fuel cs.
Proof.
  induction fuel as [|f IH]; intros ln sos lo cs; destruct cs as [|x rest]; try reflexivity.
  cbn [lex_line_fuel pay_line].
  destruct (lex_step x rest); cbn [map]; try reflexivity; try apply IH; f_equal; apply IH.
Qed.

Lemma step_rest_shorter x rest r : rest_of (lex_step x rest) = Some r -> (length r <= length rest)%nat.
Proof.
  intros H. pose proof (lex_step_wf x rest) as Hw.
  destruct (lex_step x rest) as [| |k v ty bs n r'|c es ee eo n m r']; try discriminate.
  - inversion H; subst. destruct Hw as (u & Hu & Hn & H1 & _).
    apply (f_equal (@length N)) in Hu. rewrite app_length in Hu. cbn [length] in Hu.
    destruct u; [cbn in Hn; lia|cbn [length] in Hu; lia].
  - inversion H; subst. destruct Hw as (u & Hu & Hn & H1 & _).
    apply (f_equal (@length N)) in Hu. rewrite app_length in Hu. cbn [length] in Hu.
    destruct u; [cbn in Hn; lia|cbn [length] in Hu; lia].
Qed.

Lemma pay_line_fuel : forall f1 f2 cs, (length cs <= f1)%nat -> (length cs <= f2)%nat ->
  pay_line f1 cs = pay_line f2 cs.
Proof.
  induction f1 as [|f1 IH]; intros f2 cs H1 H2.
  { destruct cs; [destruct f2; reflexivity|cbn [length] in H1; lia]. }
  destruct cs as [|x rest]; [destruct f2; reflexivity|].
  destruct f2 as [|f2]; [cbn [length] in H2; lia|]. cbn [length] in H1, H2. cbn [pay_line].
  pose proof (step_rest_shorter x rest) as Hs.
  destruct (lex_step x rest) as [| |k v ty bs n r'|c es ee eo n m r']; try reflexivity.
  - apply IH; lia.
  - specialize (Hs r' eq_refl). f_equal. apply IH; lia.
  - specialize (Hs r' eq_refl). f_equal. apply IH; lia.
Qed.

Definition pays_of (cs : list N) : list payl := pay_line (length cs) cs.

Lemma lex_line_pays l off ln : map pay (lex_line l off ln) = pays_of l.
Proof. apply pay_line_eq. Qed.

Definition step_payload (s : step) : list payl :=
  match s with
  | StTok k v ty bs _ _ => [(k, v, ty, bs)]
  | StStrErr c _ _ _ _ _ _ => [(KError, c, None, [])]
  | _ => []
  end.

Lemma pays_of_cons x rest :
  pays_of (x :: rest) =
  match lex_step x rest with
  | StEnd => []
  | StSkip => pays_of rest
  | s => step_payload s ++ match rest_of s with Some r => pays_of r | None => [] end
  end.
Proof.
  unfold pays_of. cbn [length pay_line]. pose proof (step_rest_shorter x rest) as Hs.
  destruct (lex_step x rest) as [| |k v ty bs n r'|c es ee eo n m r']; try reflexivity.
  - cbn [step_payload rest_of app]. apply f_equal. apply pay_line_fuel; [apply Hs; reflexivity|lia].
  - cbn [step_payload rest_of app]. apply f_equal. apply pay_line_fuel; [apply Hs; reflexivity|lia].
Qed.

(* ---- token boundaries *)

Definition blank (w : N) : Prop := w = 32 \/ w = 9.

(* [boundary a b]: when the line [a ++ b] is lexed, the scanner is between two
   tokens (at the head of the outer loop) when it reaches [b]. *)
Inductive boundary : list N -> list N -> Prop :=
| Bd_nil b : boundary [] b
| Bd_skip w a b : blank w -> boundary a b -> boundary (w :: a) b
| Bd_tok x u a b :
    rest_of (lex_step x (u ++ a ++ b)) = Some (a ++ b) ->
    boundary a b -> boundary (x :: u ++ a) b.

Lemma blank_step w rest : blank w -> lex_step w rest = StSkip.
Proof. intros [->| ->]; reflexivity. Qed.

Lemma with_rest_payload s r : step_payload (with_rest s r) = step_payload s.
Proof. destruct s; reflexivity. Qed.

Lemma with_rest_rest s r r0 : rest_of s = Some r0 -> rest_of (with_rest s r) = Some r.
Proof. destruct s; cbn; intros H; try discriminate; reflexivity. Qed.

(* The tokens of the part before a boundary do not depend on what follows,
   as long as what follows is quiet. *)
Lemma boundary_pays a b : boundary a b -> b <> [] ->
  exists ta, forall b', (forall x, quiet x b b') -> pays_of (a ++ b') = ta ++ pays_of b'.
Proof.
  intros Hb Hne. induction Hb as [b|w a b Hw Hb IH|x u a b Hstep Hb IH].
  - exists []. intros b' _. reflexivity.
  - destruct (IH Hne) as (ta & Hta). exists ta. intros b' Hq. cbn [app].
    rewrite pays_of_cons, (blank_step w _ Hw). now apply Hta.
  - destruct (IH Hne) as (ta & Hta).
    assert (Hab : a ++ b <> []) by (destruct a; [exact Hne|discriminate]).
    destruct (lex_step_local x (u ++ a ++ b) (a ++ b) Hstep (or_introl Hab)) as (u0 & Hu0 & Hloc).
    apply app_inv_tail in Hu0. subst u0.
    exists (step_payload (lex_step x (u ++ a ++ b)) ++ ta). intros b' Hq.
    assert (Hq' : quiet x (a ++ b) (a ++ b')).
    { destruct a as [|h t]; [apply Hq|]. cbn [app quiet]. right. right. right. now exists (t ++ b). }
    specialize (Hloc (a ++ b') Hq').
    cbn [app]. rewrite <- app_assoc. rewrite pays_of_cons, Hloc.
    destruct (lex_step x (u ++ a ++ b)) as [| |k v ty bs n r'|c es ee eo n m r'] eqn:E;
      try discriminate; cbn [with_rest step_payload rest_of]; rewrite (Hta b' Hq); reflexivity.
Qed.

Lemma quiet_blank x b w t : blank w -> quiet x b (w :: t).
Proof. intros [->| ->]; cbn; tauto. Qed.

(* MAIN THEOREM 5a.  A blank inserted between two tokens (anywhere the outer
   loop is at its head, with something following on the line) does not change
   the sequence of (kind, value, vtype, bytes). *)
Theorem whitespace_invariance a b w : boundary a b -> b <> [] -> blank w ->
  pays_of (a ++ w :: b) = pays_of (a ++ b).
Proof.
  intros Hb Hne Hw. destruct (boundary_pays a b Hb Hne) as (ta & Hta).
  rewrite (Hta (w :: b)); [|intros x; now apply quiet_blank].
  rewrite (Hta b).
  - f_equal. now rewrite pays_of_cons, (blank_step w b Hw).
  - intros x. destruct b as [|h t]; [congruence|]. cbn. right. right. right. now exists t.
Qed.

(* MAIN THEOREM 5b.  A blank, a comment and a line break inserted between two
   tokens: the first line yields the tokens before, the second the tokens
   after. *)
Theorem comment_invariance a b w c : boundary a b -> b <> [] -> blank w ->
  pays_of (a ++ w :: 47 :: 47 :: c) ++ pays_of b = pays_of (a ++ b).
Proof.
  intros Hb Hne Hw. destruct (boundary_pays a b Hb Hne) as (ta & Hta).
  rewrite (Hta (w :: 47 :: 47 :: c)); [|intros x; now apply quiet_blank].
  rewrite (Hta b).
  - rewrite pays_of_cons, (blank_step w _ Hw). rewrite pays_of_cons.
    change (lex_step 47 (47 :: c)) with StEnd. now rewrite app_nil_r.
  - intros x. destruct b as [|h t]; [congruence|]. cbn. right. right. right. now exists t.
Qed.

(* Without the blank the statement is false directly behind a division sign:
   "1/2" against "1///c" + "2" -- the slash joins the comment. *)
Theorem comment_directly_after_slash_refuted :
  exists a b c, boundary a b /\ b <> [] /\
    pays_of (a ++ 47 :: 47 :: c) ++ pays_of b <> pays_of (a ++ b).
Proof.
  exists [49; 47], [50], [99]. split; [|split; [discriminate|vm_compute; discriminate]].
  apply (Bd_tok 49 [] [47] [50]); [reflexivity|].
  apply (Bd_tok 47 [] [] [50]); [reflexivity|]. constructor.
Qed.

(* At the end of the line a blank can change the payload: a backslash that
   ended the line (E161) becomes an invalid escape (E162). *)
Theorem whitespace_at_end_refuted :
  exists a w, boundary a [] /\ blank w /\ pays_of (a ++ [w]) <> pays_of a.
Proof.
  exists [34; 92], 32. split; [|split; [now left|vm_compute; discriminate]].
  apply (Bd_tok 34 [92] [] []); [reflexivity|constructor].
Qed.

Example boundary_ok :
  boundary (str "x =") (str "1") /\ boundary (str "f(""a b""") (str ")").
Proof.
  split.
  - apply (Bd_tok 120 [] (str " =") (str "1")); [reflexivity|].
    apply Bd_skip; [now left|]. apply (Bd_tok 61 [] [] (str "1")); [reflexivity|constructor].
  - apply (Bd_tok 102 [] (str "(""a b""") (str ")")); [reflexivity|].
    apply (Bd_tok 40 [] (str """a b""") (str ")")); [reflexivity|].
    apply (Bd_tok 34 (str "a b""") [] (str ")")); [reflexivity|constructor].
Qed.

(* Source-level reading for a one-line source. *)
Lemma lex_alpha_single_line cs : cs <> [] ->
  forallb (fun c => negb (c =? 10) && negb (c =? 13)) cs = true ->
  lex_alpha cs = lex_line cs 0 1.
Proof.
  intros Hne Hnl. unfold lex_alpha. rewrite (no_nl_lines cs Hne Hnl). cbn [lex_lines].
  destruct cs; [congruence|]. cbn [is_nil]. now rewrite !app_nil_r.
Qed.

Theorem whitespace_invariance_source a b w :
  boundary a b -> b <> [] -> blank w ->
  forallb (fun c => negb (c =? 10) && negb (c =? 13)) (a ++ b) = true ->
  map pay (lex_alpha (a ++ w :: b)) = map pay (lex_alpha (a ++ b)).
Proof.
  intros Hb Hne Hw Hnl.
  rewrite !lex_alpha_single_line, !lex_line_pays.
  - now apply whitespace_invariance.
  - destruct a; [exact Hne|discriminate].
  - exact Hnl.
  - destruct a; discriminate.
  - rewrite forallb_app in *. apply andb_true_iff in Hnl. destruct Hnl as [H1 H2].
    apply andb_true_iff. split; [exact H1|]. cbn [forallb]. rewrite H2.
    destruct Hw as [->| ->]; reflexivity.
Qed.

(* ================================================================== *)
Print Assumptions decimal_value.
Print Assumptions decimal_value_source.
Print Assumptions hex_value.
Print Assumptions bin_value.
Print Assumptions radix_without_digits.
Print Assumptions zero_value.
Print Assumptions zero_then_digits.
Print Assumptions suffix_value.
Print Assumptions suffix_invalid.
Print Assumptions radix_suffix_value.
Print Assumptions span_exact_no_cr.
Print Assumptions span_exact_no_cr_explicit.
Print Assumptions span_crlf_refuted.
Print Assumptions lex_alpha_no_oof.
Print Assumptions utf8_roundtrip.
Print Assumptions escape_simple.
Print Assumptions escape_hex.
Print Assumptions escape_unicode.
Print Assumptions escape_invalid.
Print Assumptions escape_decode.
Print Assumptions escape_decode_char.
Print Assumptions escape_error_first.
Print Assumptions missing_closing_quote.
Print Assumptions lex_step_local.
Print Assumptions whitespace_invariance.
Print Assumptions whitespace_invariance_source.
Print Assumptions comment_invariance.
Print Assumptions comment_directly_after_slash_refuted.
Print Assumptions whitespace_at_end_refuted.

(* ================================================================== *)
(* 6. The repaired lexer::lex (lex_alpha_fixed). *)

Lemma lines_term_fst s : map fst (lines_term s) = lines_of s.
Proof.
  induction s as [|c r IH]; [reflexivity|]. cbn [lines_term lines_of].
  destruct (c =? 10); [cbn [map fst]; now rewrite IH|].
  destruct ((c =? 13) && match r with n :: _ => n =? 10 | [] => false end).
  - rewrite <- IH. destruct (lines_term r) as [|[l t] ls]; reflexivity.
  - rewrite <- IH. destruct (lines_term r) as [|[l t] ls]; reflexivity.
Qed.

Example ex_lines_term :
  lines_term (str "a" ++ [13; 10] ++ str "b" ++ [13; 13; 10; 10] ++ str "c" ++ [13]) =
  [(str "a", 2); (str "b" ++ [13], 2); ([], 1); (str "c" ++ [13], 0)] /\
  lines_term [10] = [([], 1)] /\ lines_term [13; 10] = [([], 2)] /\ lines_term [13] = [([13], 0)] /\
  lines_term [97; 10] = [([97], 1)] /\ lines_term [] = [].
Proof. vm_compute. repeat split; reflexivity. Qed.

(* A line that is terminated by a bare LF does not end with CR (that CR would
   belong to the terminator). *)
Definition no_cr_end (l : list N) : Prop := l = [] \/ last l 0 <> 13.

(* Lines with their terminators. *)
Inductive LinesT : list N -> list (list N * N) -> Prop :=
| LinesT_nil : LinesT [] []
| LinesT_last l : l <> [] -> ~ In 10 l -> LinesT l [(l, 0)]
| LinesT_lf l s ls : ~ In 10 l -> no_cr_end l -> LinesT s ls -> LinesT (l ++ 10 :: s) ((l, 1) :: ls)
| LinesT_crlf l s ls : ~ In 10 l -> LinesT s ls -> LinesT (l ++ 13 :: 10 :: s) ((l, 2) :: ls).

Lemma LinesT_push c r lts : c <> 10 ->
  (c = 13 -> match r with 10 :: _ => False | _ => True end) ->
  LinesT r lts ->
  LinesT (c :: r) (match lts with [] => [([c], 0)] | (l, t) :: ls => (c :: l, t) :: ls end).
Proof.
  intros Hc Hcr H. destruct H as [|l Hne Hnl|l s ls Hnl Hend HL|l s ls Hnl HL].
  - constructor; [discriminate|]. intros [H|[]]. congruence.
  - apply (LinesT_last (c :: l)); [discriminate|]. intros [H|H]; [congruence|contradiction].
  - apply (LinesT_lf (c :: l) s ls); [| |exact HL].
    + intros [H|H]; [congruence|contradiction].
    + right. destruct l as [|h l'].
      * cbn [last]. intros ->. now apply Hcr.
      * destruct Hend as [Hend|Hend]; [discriminate|]. exact Hend.
  - apply (LinesT_crlf (c :: l) s ls); [|exact HL]. intros [H|H]; [congruence|contradiction].
Qed.

Lemma lines_term_LinesT_aux : forall n s, (length s <= n)%nat -> LinesT s (lines_term s).
Proof.
  induction n as [|n IH]; intros s Hn.
  { destruct s; [constructor|cbn [length] in Hn; lia]. }
  destruct s as [|c r]; [constructor|]. cbn [length] in Hn. cbn [lines_term].
  destruct (c =? 10) eqn:E10.
  { apply N.eqb_eq in E10. subst c. apply (LinesT_lf [] r); [intros []|now left|]. apply IH. lia. }
  apply N.eqb_neq in E10.
  destruct (c =? 13) eqn:E13; cbn [andb].
  - destruct r as [|n0 r']; [apply (LinesT_push c [] [] E10); [trivial|constructor]|].
    destruct (n0 =? 10) eqn:En.
    + apply N.eqb_eq in E13, En. subst c n0. cbn [lines_term]. change (10 =? 10) with true. cbv iota.
      apply (LinesT_crlf [] r'); [intros []|]. apply IH. cbn [length] in Hn. lia.
    + apply LinesT_push; [exact E10| |apply IH; lia].
      intros _. apply N.eqb_neq in En. destruct n0 as [|p]; [exact I|].
      do 4 (destruct p as [p|p|]; try exact I). congruence.
  - apply LinesT_push; [exact E10| |apply IH; lia].
    intros ->. discriminate.
Qed.

Lemma lines_term_LinesT s : LinesT s (lines_term s).
Proof. apply (lines_term_LinesT_aux (length s)). lia. Qed.

(* ---- 6a. without carriage returns nothing changes *)

Lemma lex_lines_fixed_no_cr s lts : LinesT s lts -> ~ In 13 s ->
  forall off i, lex_lines_fixed lts off i = lex_lines (map fst lts) off i.
Proof.
  induction 1 as [|l Hne Hnl|l s ls Hnl Hend HL IH|l s ls Hnl HL IH]; intros Hcr off i.
  - reflexivity.
  - reflexivity.
  - cbn [lex_lines_fixed lex_lines map fst]. f_equal.
    rewrite IH; [|intros H; apply Hcr; apply in_or_app; right; now right].
    f_equal. lia.
  - exfalso. apply Hcr. apply in_or_app. right. now left.
Qed.

Theorem lex_alpha_fixed_no_cr src : ~ In 13 src -> lex_alpha_fixed src = lex_alpha src.
Proof.
  intros Hcr. unfold lex_alpha_fixed, lex_alpha. f_equal.
  rewrite (lex_lines_fixed_no_cr src _ (lines_term_LinesT src) Hcr). now rewrite lines_term_fst.
Qed.

(* For every source: same tokens, same payloads, same line numbers and line
   offsets; only the spans can differ. *)
Definition pay_lo (t : tok) := (pay t, line t, lstart t).

Lemma lex_line_fuel_shift : forall fuel ln sos sos' lo cs,
  map pay_lo (lex_line_fuel fuel ln sos lo cs) = map pay_lo (lex_line_fuel fuel ln sos' lo cs).
Proof.
  induction fuel as [|f IH]; intros ln sos sos' lo cs; destruct cs as [|x rest]; try reflexivity.
  cbn [lex_line_fuel]. destruct (lex_step x rest); cbn [map]; try reflexivity; try apply IH.
  - f_equal. apply IH.
  - f_equal. apply IH.
Qed.

Theorem lex_alpha_fixed_same_but_spans src :
  map pay_lo (lex_alpha_fixed src) = map pay_lo (lex_alpha src).
Proof.
  unfold lex_alpha_fixed, lex_alpha. rewrite !map_app. f_equal.
  rewrite <- lines_term_fst. generalize 0 at 2 4. generalize 0 at 1. generalize 0 at 1.
  induction (lines_term src) as [|[l t] ls IH]; intros o1 o2 i; [reflexivity|].
  cbn [lex_lines_fixed lex_lines map fst]. rewrite !map_app. f_equal.
  - unfold lex_line. apply lex_line_fuel_shift.
  - apply IH.
Qed.

(* ---- 6b. exact spans for every source *)

(* What follows the line [l]: nothing, LF (then [l] does not end with CR), or CR LF. *)
Definition line_end (l after : list N) : Prop :=
  after = [] \/ (exists a, after = 10 :: a /\ no_cr_end l) \/ (exists a, after = 13 :: 10 :: a).

(* [t] was lexed from the line [l] that occupies the offsets
   [len before, len before + len l) of [src]; [before] consists of complete
   lines (it is empty or ends with LF), [after] starts with the terminator of
   the line.  A CR inside [l] is an ordinary character of the line. *)
Definition tok_in_source_fixed (src : list N) (t : tok) : Prop :=
  exists before l after,
    src = before ++ l ++ after /\ ends_lines before /\ line_end l after /\ ~ In 10 l /\
    tok_at (1 + count_nl before) (len before) l t.

Lemma lex_lines_fixed_spans s lts : LinesT s lts ->
  forall before, ends_lines before ->
  Forall (tok_in_source_fixed (before ++ s)) (lex_lines_fixed lts (len before) (count_nl before)).
Proof.
  induction 1 as [|l Hne Hnl|l s ls Hnl Hend HL IH|l s ls Hnl HL IH]; intros before Hb.
  - constructor.
  - cbn [lex_lines_fixed]. rewrite app_nil_r.
    eapply Forall_impl; [|apply lex_line_spans]. intros t Ht.
    exists before, l, []. rewrite app_nil_r. repeat split; try assumption. now left.
  - cbn [lex_lines_fixed]. apply Forall_app. split.
    + eapply Forall_impl; [|apply lex_line_spans]. intros t Ht.
      exists before, l, (10 :: s). repeat split; try assumption. right. left. exists s. now split.
    + specialize (IH (before ++ l ++ [10])).
      replace (len (before ++ l ++ [10])) with (len before + len l + 1) in IH
        by (rewrite !len_app, len_cons, len_nil; lia).
      replace (count_nl (before ++ l ++ [10])) with (count_nl before + 1) in IH
        by (rewrite !count_nl_app, (count_nl_free l Hnl); reflexivity).
      replace ((before ++ l ++ [10]) ++ s) with (before ++ l ++ 10 :: s) in IH
        by (rewrite <- !app_assoc; reflexivity).
      apply IH. right. exists (before ++ l). now rewrite <- app_assoc.
  - cbn [lex_lines_fixed]. apply Forall_app. split.
    + eapply Forall_impl; [|apply lex_line_spans]. intros t Ht.
      exists before, l, (13 :: 10 :: s). repeat split; try assumption. right. right. now exists s.
    + specialize (IH (before ++ l ++ [13; 10])).
      replace (len (before ++ l ++ [13; 10])) with (len before + len l + 2) in IH
        by (rewrite !len_app, !len_cons, len_nil; lia).
      replace (count_nl (before ++ l ++ [13; 10])) with (count_nl before + 1) in IH
        by (rewrite !count_nl_app, (count_nl_free l Hnl); reflexivity).
      replace ((before ++ l ++ [13; 10]) ++ s) with (before ++ l ++ 13 :: 10 :: s) in IH
        by (rewrite <- !app_assoc; reflexivity).
      apply IH. right. exists (before ++ l ++ [13]). rewrite <- !app_assoc. reflexivity.
Qed.

(* MAIN THEOREM 6.  For EVERY source (LF, CR LF, bare CR, mixed) every token of
   the repaired lexer was produced by lex_step at some column of some line, its
   span is exactly the range of source offsets of the characters that step
   consumed, its line number is 1 + the number of LF before it, and its
   line_offset is the column. *)
Theorem span_exact_fixed src t :
  src <> [] -> In t (lex_alpha_fixed src) -> tok_in_source_fixed src t.
Proof.
  intros Hne Hin. unfold lex_alpha_fixed in Hin.
  destruct src as [|c r]; [congruence|]. cbn [is_nil] in Hin. rewrite app_nil_r in Hin.
  pose proof (lex_lines_fixed_spans _ _ (lines_term_LinesT (c :: r)) [] (or_introl eq_refl)) as H.
  cbn [app] in H. change (len []) with 0 in H. change (count_nl []) with 0 in H.
  rewrite Forall_forall in H. now apply H.
Qed.

Theorem span_exact_fixed_explicit src t :
  src <> [] -> In t (lex_alpha_fixed src) ->
  exists A0 A1 used B0 B1,
    src = (A0 ++ A1) ++ used ++ (B0 ++ B1) /\
    ends_lines A0 /\ line_end (A1 ++ used ++ B0) B1 /\ ~ In 10 A1 /\ ~ In 10 used /\ ~ In 10 B0 /\ used <> [] /\
    line t = 1 + count_nl (A0 ++ A1) /\
    ((tstart t = len (A0 ++ A1) /\ tend t = len (A0 ++ A1) + len used /\ lstart t = len A1 /\
      lex_step (hd 0 used) (tl used ++ B0) =
        StTok (kind t) (value t) (vtype t) (bytes t) (len used) B0)
     \/
     (kind t = KError /\ (hd 0 used = 34 \/ hd 0 used = 39) /\
      len (A0 ++ A1) <= tstart t /\ tstart t < tend t /\ tend t <= len (A0 ++ A1) + len used + 1 /\
      len A1 < lstart t <= len A1 + len used)).
Proof.
  intros Hne Hin.
  destruct (span_exact_fixed src t Hne Hin) as (before & l & after & Hsrc & Hb & Ha & Hnl & Hat).
  destruct Hat as (pre & used & post & Hl & Hu & Hoof & Hstep).
  exists before, pre, used, post, after. subst l.
  assert (Hn1 : ~ In 10 pre) by (eapply not_in_app_l; exact Hnl).
  assert (Hn2 : ~ In 10 used) by (eapply not_in_app_l, not_in_app_r; exact Hnl).
  assert (Hn3 : ~ In 10 post) by (eapply not_in_app_r, not_in_app_r; exact Hnl).
  split; [rewrite Hsrc, <- !app_assoc; reflexivity|].
  repeat (split; [assumption|]).
  assert (Hcnt : count_nl (before ++ pre) = count_nl before)
    by (rewrite count_nl_app, (count_nl_free pre Hn1); lia).
  destruct (lex_step (hd 0 used) (tl used ++ post)) as [| |k v ty bs n r|c es ee eo n m r] eqn:E;
    try contradiction.
  - destruct Hstep as (-> & -> & ->). cbn [line mk]. split; [now rewrite Hcnt|]. left.
    cbn [tstart tend lstart kind value vtype bytes mk]. rewrite len_app.
    repeat split; lia.
  - destruct Hstep as (-> & -> & -> & H1 & H2 & H3). cbn [line mk]. split; [now rewrite Hcnt|]. right.
    cbn [tstart tend lstart kind mk]. rewrite len_app.
    split; [reflexivity|]. split; [eapply strerr_is_quote; exact E|]. lia.
Qed.

(* ---- 6c. the witness that refuted the old bookkeeping *)
Example span_crlf_fixed_example :
  map pos (lex_alpha_fixed [97; 13; 10; 98]) = [(0, 1, 1, 0); (3, 4, 2, 0)] /\
  map pos (lex_alpha [97; 13; 10; 98]) = [(0, 1, 1, 0); (2, 3, 2, 0)] /\
  nth 3 [97; 13; 10; 98] 0 = 98.
Proof. vm_compute. repeat split; reflexivity. Qed.

(* mixed terminators, a bare CR inside a line, a CR at the very end *)
Example span_mixed_fixed_example :
  map pos (lex_alpha_fixed (str "a" ++ [13; 10] ++ str "b" ++ [13] ++ str "c" ++ [10; 13; 10] ++ str "d" ++ [13])) =
  [(0, 1, 1, 0); (3, 4, 2, 0); (4, 5, 2, 1); (5, 6, 2, 2); (9, 10, 4, 0); (10, 11, 4, 1)].
Proof. vm_compute. reflexivity. Qed.

(* ---- 6d. the whole-source theorems for the repaired lexer *)

Theorem lex_alpha_fixed_pays src : map pay (lex_alpha_fixed src) = map pay (lex_alpha src).
Proof.
  pose proof (lex_alpha_fixed_same_but_spans src) as H.
  apply (f_equal (map (fun p : payl * N * N => fst (fst p)))) in H.
  rewrite !map_map in H. exact H.
Qed.

Theorem lex_alpha_fixed_no_oof src t :
  In t (lex_alpha_fixed src) -> kind t = KError -> value t <> OOF.
Proof.
  intros Hin Hk. apply (in_map pay) in Hin. rewrite lex_alpha_fixed_pays in Hin.
  apply in_map_iff in Hin. destruct Hin as (t' & Hp & Hin'). unfold pay in Hp.
  injection Hp as H1 H2 H3 H4. rewrite <- H2. apply (lex_alpha_no_oof src t' Hin'). congruence.
Qed.

Lemma no_nl_cr_not_in cs :
  forallb (fun c => negb (c =? 10) && negb (c =? 13)) cs = true -> ~ In 13 cs.
Proof.
  intros H Hin. rewrite forallb_forall in H. specialize (H _ Hin). discriminate.
Qed.

Lemma lex_alpha_fixed_single_line cs : cs <> [] ->
  forallb (fun c => negb (c =? 10) && negb (c =? 13)) cs = true ->
  lex_alpha_fixed cs = lex_line cs 0 1.
Proof.
  intros Hne Hnl. rewrite (lex_alpha_fixed_no_cr cs (no_nl_cr_not_in cs Hnl)).
  now apply lex_alpha_single_line.
Qed.

Theorem decimal_value_source_fixed x ds :
  is_nonzero_dec x = true -> digits_us is_dec ds = true ->
  let v := value_of_digits 10 (x :: strip_us ds) in
  lex_alpha_fixed (x :: ds) =
  [if (v <? 2 ^ 128)%Z
   then mk KNakedDecimal v None [] 0 (1 + len ds) 1 0
   else mk KError E140 None [] 0 (1 + len ds) 1 0].
Proof.
  intros Hx Hds v. rewrite lex_alpha_fixed_no_cr; [now apply decimal_value_source|].
  intros [H|H].
  - subst x. discriminate.
  - unfold digits_us in Hds. rewrite forallb_forall in Hds. specialize (Hds _ H). discriminate.
Qed.

Theorem whitespace_invariance_source_fixed a b w :
  boundary a b -> b <> [] -> blank w ->
  forallb (fun c => negb (c =? 10) && negb (c =? 13)) (a ++ b) = true ->
  map pay (lex_alpha_fixed (a ++ w :: b)) = map pay (lex_alpha_fixed (a ++ b)).
Proof.
  intros Hb Hne Hw Hnl. rewrite !lex_alpha_fixed_pays. now apply whitespace_invariance_source.
Qed.

(* The line-level theorems (decimal_value, hex_value, bin_value, suffix_value,
   escape_decode, whitespace_invariance, comment_invariance, ...) are about
   lex_step / lex_line, which the repair did not touch; they apply to both
   lexers.  What a line contributes to the repaired lexer: *)
Theorem lex_alpha_fixed_lines src :
  map pay (lex_alpha_fixed src) =
  flat_map pays_of (lines_of src) ++ (if is_nil src then [(KError, E101, None, [])] else []).
Proof.
  assert (Hl : forall lts o i, map pay (lex_lines_fixed lts o i) = flat_map pays_of (map fst lts)).
  { induction lts as [|[l t] ls IH]; intros o i; [reflexivity|].
    cbn [lex_lines_fixed map fst flat_map]. rewrite map_app, lex_line_pays, IH. reflexivity. }
  unfold lex_alpha_fixed. rewrite map_app, Hl, lines_term_fst.
  destruct src; reflexivity.
Qed.

(* Blank + comment + line break between two tokens of a line, as a source. *)
Theorem comment_invariance_source_fixed a b w c :
  boundary a b -> b <> [] -> blank w ->
  forallb (fun c => negb (c =? 10) && negb (c =? 13)) (a ++ b) = true ->
  forallb (fun c => negb (c =? 10) && negb (c =? 13)) c = true ->
  map pay (lex_alpha_fixed ((a ++ w :: 47 :: 47 :: c) ++ 10 :: b)) = map pay (lex_alpha_fixed (a ++ b)).
Proof.
  intros Hb Hne Hw Hab Hc.
  rewrite forallb_app in Hab. apply andb_true_iff in Hab. destruct Hab as [Ha Hbb].
  assert (Hl1 : forallb (fun c => negb (c =? 10) && negb (c =? 13)) (a ++ w :: 47 :: 47 :: c) = true).
  { rewrite forallb_app, Ha. cbn [forallb andb]. rewrite Hc. destruct Hw as [->| ->]; reflexivity. }
  assert (Hlines : lines_of ((a ++ w :: 47 :: 47 :: c) ++ 10 :: b) = [a ++ w :: 47 :: 47 :: c; b]).
  { generalize (a ++ w :: 47 :: 47 :: c) Hl1. intros l Hl. induction l as [|h l IH].
    - cbn [app lines_of]. change (10 =? 10) with true. cbv iota.
      rewrite (no_nl_lines b Hne Hbb). reflexivity.
    - cbn [forallb] in Hl. apply andb_true_iff in Hl. destruct Hl as [Hh Hl].
      apply andb_true_iff in Hh. destruct Hh as [H1 H2]. apply negb_true_iff in H1, H2.
      cbn [app lines_of]. rewrite H1, H2. cbn [andb]. rewrite (IH Hl). reflexivity. }
  rewrite !lex_alpha_fixed_lines, Hlines.
  rewrite (no_nl_lines (a ++ b)); [|destruct a; [exact Hne|discriminate]|rewrite forallb_app, Ha, Hbb; reflexivity].
  cbn [flat_map]. rewrite !app_nil_r.
  replace (is_nil ((a ++ w :: 47 :: 47 :: c) ++ 10 :: b)) with false by (destruct a; reflexivity).
  replace (is_nil (a ++ b)) with false by (destruct a; [destruct b; [congruence|reflexivity]|reflexivity]).
  rewrite !app_nil_r. now apply comment_invariance.
Qed.

Print Assumptions lines_term_fst.
Print Assumptions lex_alpha_fixed_no_cr.
Print Assumptions lex_alpha_fixed_same_but_spans.
Print Assumptions span_exact_fixed.
Print Assumptions span_exact_fixed_explicit.
Print Assumptions span_crlf_fixed_example.
Print Assumptions lex_alpha_fixed_pays.
Print Assumptions lex_alpha_fixed_no_oof.
Print Assumptions decimal_value_source_fixed.
Print Assumptions whitespace_invariance_source_fixed.
Print Assumptions lex_alpha_fixed_lines.
Print Assumptions comment_invariance_source_fixed.
