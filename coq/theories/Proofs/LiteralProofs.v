(* Literals mean what they say: materialisation yields the value modulo 2^width,
   and the truncation lint is raised exactly for values outside the type's range. *)
From Coq Require Import ZArith Lia Bool.
From PV Require Import Base.Common Base.IR Base.Bits Model.Literal.
Open Scope Z_scope.

(* closed powers of two as numerals, so that lia can use them *)
Ltac norm_pow :=
  change (2 ^ 127) with 170141183460469231731687303715884105728 in *;
  change (2 ^ 128) with 340282366920938463463374607431768211456 in *;
  change (2 ^ 64) with 18446744073709551616 in *;
  change (2 ^ 63) with 9223372036854775808 in *;
  change (2 ^ 32) with 4294967296 in *; change (2 ^ 31) with 2147483648 in *;
  change (2 ^ 16) with 65536 in *; change (2 ^ 15) with 32768 in *;
  change (2 ^ 8) with 256 in *; change (2 ^ 7) with 128 in *.

Lemma repr_repr_le w1 w2 v : 0 <= w1 <= w2 -> repr w1 (repr w2 v) = repr w1 v.
Proof. intros. rewrite <- (cast_trunc w2 w1 v) by lia. reflexivity. Qed.

Definition width_ok (w : Z) : Prop := w = 1 \/ w = 8 \/ w = 16 \/ w = 32 \/ w = 64 \/ w = 128.

Lemma sext64 w v : 0 < w -> in_s 64 v -> repr w (sgn 64 (repr 64 v)) = repr w v.
Proof. intros. now rewrite sgn_repr by (lia || assumption). Qed.

(* SignedIntegerLiteral arm *)
Lemma materialise_signed_correct w v : width_ok w -> - 2 ^ 127 <= v < 2 ^ 127 ->
  materialise_signed w v = repr w v.
Proof.
  intros Hw Hv. unfold materialise_signed, signed_lit_small_min, signed_lit_small_max, const_int.
  norm_pow.
  assert (Hw0 : 0 < w) by (destruct Hw as [->|[->|[->|[->|[->| ->]]]]]; lia).
  repeat match goal with |- context [?a <=? ?b] => destruct (Z.leb_spec a b) end; cbn [andb]; try lia.
  - apply sext64; [assumption|]. unfold in_s. change (2 ^ (64 - 1)) with 9223372036854775808. lia.
  - rewrite (repr_small 64 v) by (unfold in_u; norm_pow; lia). reflexivity.
  - destruct Hw as [->|[->|[->|[->|[->| ->]]]]]; apply repr_repr_le; lia.
  - destruct Hw as [->|[->|[->|[->|[->| ->]]]]]; apply repr_repr_le; lia.
Qed.

(* BitIntegerLiteral arm, for the types it can be given *)
Lemma materialise_bit_correct usize_bits t v :
  usize_bits = 32 \/ usize_bits = 64 -> bit_lit_usize_mask = None ->
  0 <= v < 2 ^ 128 ->
  materialise_bit t (vt_bits usize_bits t) v = repr (vt_bits usize_bits t) v.
Proof.
  intros Hu Hm Hv. unfold materialise_bit, const_int.
  destruct t; cbn [vt_bits];
    try (destruct (Z.leb_spec v (2 ^ 64 - 1)); [reflexivity | apply repr_repr_le; lia]).
  rewrite Hm. cbn [masked]. destruct Hu as [-> | ->]; apply repr_repr_le; lia.
Qed.

(* What the pinned commit did to usize literals (D2). *)
Lemma materialise_bit_masked_refuted :
  repr 64 (repr 64 (masked (Some 4294967295) 4294967296)) <> repr 64 4294967296.
Proof. vm_compute. discriminate. Qed.

(* ---- the truncation lint ------------------------------------------------------- *)
(* With the repaired parser: for every spelling (sign, magnitude < 2^128) of a
   literal that ends up with integer type t and is admissible there (a negated
   unfolded literal needs a signed type), the lint is raised iff the
   mathematical value lies outside [min t, max t]. *)
Definition admissible (l : lit) (t : prim) : Prop :=
  match l with LNeg _ => vt_is_signed t = true | _ => True end.

Lemma vt_range_facts t : vt_is_integral t = true ->
  vt_min t <= 0 /\ 0 < vt_max t /\ vt_max t < 2 ^ 128 /\ - 2 ^ 127 <= vt_min t /\
  (vt_is_signed t = true -> vt_min t = - vt_max t - 1 /\ vt_max t <= 2 ^ 127 - 1) /\
  (vt_is_signed t = false -> vt_min t = 0).
Proof. destruct t; cbn; intros H; try discriminate H; norm_pow; repeat split; intros; try lia; try discriminate. Qed.

Lemma lint_max_64 t : lint_max 64 t = vt_max t.
Proof. destruct t; reflexivity. Qed.

(* the same facts for the range of the type on either target *)
Lemma lint_max_range_facts ub t : ub = 32 \/ ub = 64 -> vt_is_integral t = true ->
  vt_min t <= 0 /\ 0 < lint_max ub t /\ lint_max ub t < 2 ^ 128 /\ - 2 ^ 127 <= vt_min t /\
  (vt_is_signed t = true -> vt_min t = - lint_max ub t - 1 /\ lint_max ub t <= 2 ^ 127 - 1) /\
  (vt_is_signed t = false -> vt_min t = 0).
Proof.
  intros [-> | ->] H.
  - destruct t; cbn in *; try discriminate H; norm_pow; repeat split; intros; try lia; try discriminate.
  - rewrite lint_max_64. apply vt_range_facts; exact H.
Qed.

(* The only false positive left: a negated literal that was parsed as a
   bit-integer literal (0x.., 0b.., or a suffixed unsigned one) whose magnitude is
   exactly max t + 1, so that its negation is min t (e.g. `-0x80` as i8). *)
Definition false_positive_on (ub : Z) (neg : bool) (tok : itok) (t : prim) : Prop :=
  neg = true /\ exists v, fst (parse_primary tok) = LBit v /\ v = lint_max ub t + 1 /\ v <> 2 ^ 127.
Definition false_positive (neg : bool) (tok : itok) (t : prim) : Prop :=
  neg = true /\ exists v, fst (parse_primary tok) = LBit v /\ v = vt_max t + 1 /\ v <> 2 ^ 127.

Lemma parse_primary_cases tok :
  (fst (parse_primary tok) = LSigned (magnitude tok) /\ magnitude tok <= i128_max) \/
  (fst (parse_primary tok) = LBit (magnitude tok)).
Proof.
  destruct tok as [v|v|v ty]; cbn [parse_primary magnitude fst].
  - destruct (Z.leb_spec v i128_max); auto.
  - auto.
  - destruct (vt_is_signed ty && (v <=? i128_max)) eqn:Ev; auto.
    left. apply andb_true_iff in Ev. destruct Ev as [_ Ev]. apply Z.leb_le in Ev. auto.
Qed.

Theorem lint_on_characterisation : forall ub neg tok t,
  ub = 32 \/ ub = 64 ->
  0 <= magnitude tok < 2 ^ 128 -> vt_is_integral t = true ->
  let l := fst (source_literal true neg tok) in
  admissible l t ->
  (lint_on ub l t = true <-> ~ (vt_min t <= math_value neg tok <= lint_max ub t)).
Proof.
  intros ub neg tok t Hub Hm Ht l Hadm. subst l.
  destruct (lint_max_range_facts ub t Hub Ht) as (A & B & Cc & D & E & F).
  set (mx := lint_max ub t) in *.
  unfold source_literal, math_value in *.
  norm_pow.
  pose proof (parse_primary_cases tok) as Hp.
  destruct (parse_primary tok) as [l0 s] eqn:Ep. cbn [fst] in *.
  set (m := magnitude tok) in *. unfold i128_max, i128_min in *. norm_pow.
  destruct neg; cbn [fst].
  - destruct Hp as [[-> Hle] | ->]; cbn [fold_minus] in *.
    + (* signed literal: folded when positive *)
      destruct (Z.ltb_spec 0 m).
      * cbn [lint_on]; fold mx. destruct (Z.ltb_spec (- m) 0); [|lia]. rewrite Z.ltb_lt. split; intros Hq; lia.
      * cbn [lint_on]; fold mx. assert (m = 0) by lia.
        destruct (Z.ltb_spec m 0); [lia|]. rewrite Z.ltb_lt. split; intros Hq; lia.
    + cbn [andb] in *. unfold i128_max in *. norm_pow.
      destruct (Z.eqb_spec m (170141183460469231731687303715884105728 - 1 + 1)) as [Em|Em].
      * (* magnitude 2^127: folded into i128::MIN *)
        cbn [lint_on]; fold mx. unfold i128_min. norm_pow.
        change (- (170141183460469231731687303715884105728) <? 0) with true. cbv iota. rewrite Z.ltb_lt. split.
        -- intros Hq. lia.
        -- intros Hq. destruct (vt_is_signed t) eqn:S.
           ++ destruct (E eq_refl). lia.
           ++ rewrite (F eq_refl) in *. lia.
      * (* unfolded negation of a bit-integer literal: needs a signed type; the Unary arm allows max + 1 *)
        cbn [admissible] in Hadm. destruct (E Hadm) as [E1 E2].
        cbn [lint_on]; fold mx. rewrite Hadm. rewrite Z.ltb_lt. split; intros Hq; lia.
  - destruct Hp as [[-> Hle] | ->]; cbn [lint_on]; fold mx.
    + destruct (Z.ltb_spec m 0); [lia|]. rewrite Z.ltb_lt. split; intros Hq; lia.
    + rewrite Z.ltb_lt. split; intros Hq; lia.
Qed.

(* the host target (64-bit usize): the statement as it stood before the target became a parameter *)
Theorem lint_characterisation : forall neg tok t,
  0 <= magnitude tok < 2 ^ 128 -> vt_is_integral t = true ->
  let l := fst (source_literal true neg tok) in
  admissible l t ->
  (lint l t = true <-> ~ (vt_min t <= math_value neg tok <= vt_max t)).
Proof.
  intros neg tok t Hm Ht l Hadm.
  pose proof (lint_on_characterisation 64 neg tok t (or_intror eq_refl) Hm Ht Hadm) as H.
  rewrite lint_max_64 in H. exact H.
Qed.

(* Corollary on either target: a literal that raises no lint lies in the range its type has on that
   target - in particular a usize literal compiled for WebAssembly fits 32 bits. *)
Corollary no_lint_in_range_on : forall ub neg tok t,
  ub = 32 \/ ub = 64 ->
  0 <= magnitude tok < 2 ^ 128 -> vt_is_integral t = true ->
  admissible (fst (source_literal true neg tok)) t ->
  lint_on ub (fst (source_literal true neg tok)) t = false ->
  vt_min t <= math_value neg tok <= lint_max ub t.
Proof.
  intros ub neg tok t Hub Hm Ht Hadm Hl.
  pose proof (lint_on_characterisation ub neg tok t Hub Hm Ht Hadm) as [_ H].
  destruct (Z_le_dec (vt_min t) (math_value neg tok)); destruct (Z_le_dec (math_value neg tok) (lint_max ub t)); try lia;
    (rewrite H in Hl; [discriminate | lia]).
Qed.

Lemma lint_max_is_target_range ub t : ub = 32 \/ ub = 64 -> vt_is_integral t = true -> vt_is_signed t = false ->
  lint_max ub t = 2 ^ vt_bits ub t - 1.
Proof. intros [-> | ->] H S; destruct t; cbn in *; try discriminate; reflexivity. Qed.

(* D54 (repaired): the 64-bit range applied on the 32-bit target let `4294967296` through as a usize *)
Lemma lint_wasm_usize_pinned_refuted :
  lint_on 64 (fst (source_literal true false (TNaked (2 ^ 32)))) Usize = false /\
  ~ (math_value false (TNaked (2 ^ 32)) <= 2 ^ vt_bits 32 Usize - 1) /\
  lint_on 32 (fst (source_literal true false (TNaked (2 ^ 32)))) Usize = true.
Proof. vm_compute. split; [reflexivity | split; [intros H; apply H; reflexivity | reflexivity]]. Qed.


(* Corollary: a literal that raises no lint has exactly its mathematical value
   (never silently altered), on both targets for types other than usize, and for
   usize on the 64-bit target. *)
Corollary no_lint_in_range : forall neg tok t,
  0 <= magnitude tok < 2 ^ 128 -> vt_is_integral t = true ->
  admissible (fst (source_literal true neg tok)) t ->
  lint (fst (source_literal true neg tok)) t = false ->
  vt_min t <= math_value neg tok <= vt_max t.
Proof.
  intros neg tok t Hm Ht Hadm Hl.
  pose proof (lint_characterisation neg tok t Hm Ht Hadm) as [_ H].
  destruct (Z_le_dec (vt_min t) (math_value neg tok)); destruct (Z_le_dec (math_value neg tok) (vt_max t)); try lia;
    (rewrite H in Hl; [discriminate | lia]).
Qed.

(* The pinned commit (no folding of 2^127): i128::MIN written in decimal raised the lint. *)
Lemma lint_i128_min_refuted :
  lint_pinned (fst (source_literal false true (TNaked (2 ^ 127)))) Int128 = true /\
  vt_min Int128 <= math_value true (TNaked (2 ^ 127)) <= vt_max Int128.
Proof. vm_compute. split; [reflexivity | split; discriminate]. Qed.

(* and the class that remained until D22 was repaired: the pinned linter flagged `-0x80` as i8; the current one does not *)
Lemma lint_negated_bits_false_positive :
  lint_pinned (fst (source_literal true true (TBits 128))) Int8 = true /\
  lint (fst (source_literal true true (TBits 128))) Int8 = false /\
  vt_min Int8 <= math_value true (TBits 128) <= vt_max Int8.
Proof. vm_compute. split; [reflexivity | split; [reflexivity | split; discriminate]]. Qed.

(* ---- value of a literal --------------------------------------------------------- *)
Theorem bits_of_correct : forall usize_bits neg tok t,
  usize_bits = 32 \/ usize_bits = 64 -> bit_lit_usize_mask = None ->
  0 <= magnitude tok < 2 ^ 128 -> vt_is_integral t = true ->
  bits_of usize_bits (fst (source_literal true neg tok)) t
  = repr (vt_bits usize_bits t) (math_value neg tok).
Proof.
  intros ub neg tok t Hu Hmask Hm Ht.
  assert (Hw : width_ok (vt_bits ub t)).
  { unfold width_ok. destruct t, Hu as [-> | ->]; cbn; try discriminate Ht; tauto. }
  assert (Hw0 : 0 <= vt_bits ub t) by (destruct Hw as [->|[->|[->|[->|[->| ->]]]]]; lia).
  unfold source_literal, math_value.
  pose proof (parse_primary_cases tok) as Hp.
  destruct (parse_primary tok) as [l0 s]. cbn [fst] in *. set (m := magnitude tok) in *.
  unfold i128_max, i128_min in *. norm_pow.
  destruct neg; cbn [fst].
  - destruct Hp as [[-> Hle] | ->]; cbn [fold_minus].
    + destruct (Z.ltb_spec 0 m); cbn [bits_of].
      * apply materialise_signed_correct; [assumption | norm_pow; lia].
      * rewrite materialise_signed_correct by (assumption || (norm_pow; lia)). now rewrite repr_opp.
    + cbn [andb]. unfold i128_max. norm_pow.
      destruct (Z.eqb_spec m (170141183460469231731687303715884105728 - 1 + 1)) as [Em|Em]; cbn [bits_of].
      * unfold i128_min. norm_pow. rewrite materialise_signed_correct by (assumption || (norm_pow; lia)). f_equal. lia.
      * rewrite materialise_bit_correct by assumption. now rewrite repr_opp.
  - destruct Hp as [[-> Hle] | ->]; cbn [bits_of].
    + apply materialise_signed_correct; [assumption | norm_pow; lia].
    + now apply materialise_bit_correct.
Qed.
