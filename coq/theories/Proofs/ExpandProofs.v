(* Proofs about Model/Expand.v (src/alpha/expander.rs):
   importing a file exposes exactly its public declarations (as signatures),
   never private items, never transitively imported items; the order in which the
   set of (includer, includee) pairs is processed only permutes the spliced groups. *)
From PV Require Import Base.Common Model.Expand.
From Coq Require Import Permutation Sorted.

(* ------------------------------------------------------------------ *)
(* Specification vocabulary                                            *)
(* ------------------------------------------------------------------ *)

(* Only the four flag-carrying kinds can be public. *)
Definition is_public (d : decl) : bool :=
  match d_kind d with
  | KConstant | KFunction | KFunctionHead | KStructure => f_public (d_flags d)
  | _ => false
  end.

(* The signature of a declaration: body dropped, Public cleared, rest kept. *)
Definition strip (d : decl) : decl :=
  mkDecl (match d_kind d with KFunction => KFunctionHead | k => k end)
         (d_payload d)
         (match d_kind d with KFunction | KFunctionHead => None | _ => d_body d end)
         (mkFlags false (f_external (d_flags d)) (f_main (d_flags d))
                  (f_forward (d_flags d)) (f_opaque (d_flags d))).

Definition nonimports (ds : list decl) : list decl :=
  filter (fun d => negb (is_import d)) ds.

(* What module j offers to its importers. *)
Definition public_sigs (ds : list decl) : list decl :=
  map strip (filter is_public (nonimports ds)).

Lemma export_spec d : export d = if is_public d then Some (strip d) else None.
Proof.
  unfold export, is_public, strip, extract_public.
  destruct d as [k p b fl]; cbn [d_kind d_flags d_payload d_body].
  destruct k; destruct (f_public fl); reflexivity.
Qed.

Lemma exports_spec ds : exports ds = map strip (filter is_public ds).
Proof.
  induction ds as [|d r IH]; [reflexivity|].
  cbn [exports filter]. rewrite export_spec.
  destruct (is_public d); cbn [map]; now rewrite IH.
Qed.

Lemma is_public_strip d : is_public (strip d) = false.
Proof.
  unfold is_public, strip. destruct d as [k p b fl]; cbn [d_kind d_flags f_public].
  destruct k; reflexivity.
Qed.

Lemma export_export d d' : export d = Some d' -> export d' = None.
Proof.
  rewrite export_spec. destruct (is_public d); [|discriminate].
  intros H; injection H as <-. now rewrite export_spec, is_public_strip.
Qed.

Lemma exports_app a b : exports (a ++ b) = exports a ++ exports b.
Proof. rewrite !exports_spec, filter_app, map_app. reflexivity. Qed.

Lemma exports_exports ds : exports (exports ds) = [].
Proof.
  rewrite (exports_spec ds). induction (filter is_public ds) as [|d r IH]; [reflexivity|].
  cbn [map exports]. rewrite export_spec, is_public_strip. exact IH.
Qed.

Lemma exports_flat_exports (g : nat -> list decl) js :
  exports (flat_map (fun j => exports (g j)) js) = [].
Proof.
  induction js as [|j r IH]; [reflexivity|].
  cbn [flat_map]. now rewrite exports_app, exports_exports, IH.
Qed.

Lemma is_public_not_import d : is_public d = true -> is_import d = false.
Proof. unfold is_public, is_import. destruct (d_kind d); congruence. Qed.

Lemma exports_nonimports ds : exports (nonimports ds) = exports ds.
Proof.
  rewrite !exports_spec. f_equal. unfold nonimports.
  induction ds as [|d r IH]; [reflexivity|].
  cbn [filter]. destruct (is_import d) eqn:Hi; cbn [negb filter].
  - destruct (is_public d) eqn:Hp; [|exact IH].
    apply is_public_not_import in Hp. congruence.
  - now rewrite IH.
Qed.

(* ------------------------------------------------------------------ *)
(* Stable sort, partition point                                        *)
(* ------------------------------------------------------------------ *)

Lemma insert_stable_import d l : is_import d = true -> insert_stable d l = d :: l.
Proof.
  intros Hd. destruct l as [|y r]; [reflexivity|].
  cbn [insert_stable]. unfold import_key. rewrite Hd.
  destruct (is_import y); reflexivity.
Qed.

Lemma insert_stable_other d a b :
  is_import d = false ->
  Forall (fun x => is_import x = true) a ->
  Forall (fun x => is_import x = false) b ->
  insert_stable d (a ++ b) = a ++ d :: b.
Proof.
  intros Hd Ha Hb. induction Ha as [|x a Hx Ha IH].
  - cbn [app]. destruct b as [|y r]; [reflexivity|].
    cbn [insert_stable]. unfold import_key. rewrite Hd.
    inversion Hb as [|? ? Hy _]; subst. now rewrite Hy.
  - cbn [app insert_stable]. unfold import_key at 1 2. rewrite Hd, Hx.
    cbn [Z.leb Z.compare]. now rewrite IH.
Qed.

Lemma filter_Forall_true {A} (p : A -> bool) l : Forall (fun x => p x = true) (filter p l).
Proof.
  apply Forall_forall. intros x Hx. apply filter_In in Hx. tauto.
Qed.

Lemma nonimports_Forall ds : Forall (fun x => is_import x = false) (nonimports ds).
Proof.
  apply Forall_forall. intros x Hx. apply filter_In in Hx.
  destruct Hx as [_ Hx]. now destruct (is_import x).
Qed.

(* The stable sort moves the imports to the front and keeps both relative orders. *)
Lemma sort_imports_first_spec ds :
  sort_imports_first ds = filter is_import ds ++ nonimports ds.
Proof.
  unfold sort_imports_first, nonimports.
  induction ds as [|d r IH]; [reflexivity|].
  cbn [fold_right filter]. rewrite IH. destruct (is_import d) eqn:Hd; cbn [negb].
  - now rewrite insert_stable_import.
  - apply insert_stable_other; [assumption|apply filter_Forall_true|apply nonimports_Forall].
Qed.

Lemma partition_point_spec a b :
  Forall (fun x => is_import x = true) a ->
  Forall (fun x => is_import x = false) b ->
  partition_point is_import (a ++ b) = length a.
Proof.
  intros Ha Hb. induction Ha as [|x a Hx Ha IH].
  - destruct b as [|y r]; [reflexivity|]. cbn [app partition_point].
    inversion Hb as [|? ? Hy _]; subst. now rewrite Hy.
  - cbn [app partition_point length]. now rewrite Hx, IH.
Qed.

Lemma firstn_length_app {A} (a b : list A) : firstn (length a) (a ++ b) = a.
Proof. induction a as [|x a IH]; [destruct b; reflexivity|]. cbn. now rewrite IH. Qed.

Lemma skipn_length_app {A} (a b : list A) : skipn (length a) (a ++ b) = b.
Proof. induction a as [|x a IH]; [reflexivity|]. exact IH. Qed.

(* ------------------------------------------------------------------ *)
(* update_nth / splice                                                 *)
(* ------------------------------------------------------------------ *)

Lemma update_nth_length n f l : length (update_nth n f l) = length l.
Proof.
  revert n. induction l as [|x r IH]; intros n; [reflexivity|].
  destruct n; cbn [update_nth length]; [reflexivity|]. now rewrite IH.
Qed.

Lemma update_nth_eq n f l : n < length l -> nth n (update_nth n f l) dmod = f (nth n l dmod).
Proof.
  revert n. induction l as [|x r IH]; intros n Hn; cbn [length] in Hn; [lia|].
  destruct n; cbn [update_nth nth]; [reflexivity|]. apply IH. lia.
Qed.

Lemma update_nth_neq n m f l : n <> m -> nth m (update_nth n f l) dmod = nth m l dmod.
Proof.
  revert n m. induction l as [|x r IH]; intros n m Hnm; [reflexivity|].
  destruct n, m; cbn [update_nth nth]; try reflexivity; try lia.
  apply IH. lia.
Qed.

Lemma splice_one_length p mods : length (splice_one p mods) = length mods.
Proof. unfold splice_one. apply update_nth_length. Qed.

Lemma splice_all_snoc ps p mods :
  splice_all (ps ++ [p]) mods = splice_one p (splice_all ps mods).
Proof. unfold splice_all. now rewrite fold_left_app. Qed.

Lemma decls_of_overflow mods i : length mods <= i -> decls_of mods i = [].
Proof. intros H. unfold decls_of. now rewrite nth_overflow. Qed.

(* The groups spliced in front of module i after processing [ps] in order:
   each splice prepends, so the last processed pair comes first. *)
Definition includees (ps : list (nat * nat)) (i : nat) : list nat :=
  rev (map snd (filter (fun p => Nat.eqb (fst p) i) ps)).

Lemma includees_snoc ps a b i :
  includees (ps ++ [(a, b)]) i = if Nat.eqb a i then b :: includees ps i else includees ps i.
Proof.
  unfold includees. rewrite filter_app. cbn [filter fst].
  destruct (Nat.eqb a i).
  - now rewrite map_app, rev_app_distr.
  - now rewrite app_nil_r.
Qed.

(* Core invariant of the third loop, for ANY list of pairs: module i becomes
   [its groups ++ its old declarations], each group being the exports of the
   ORIGINAL declarations of the includee -- spliced declarations are never
   re-exported because [export] clears Public. *)
Lemma splice_all_inv ps mods :
  length (splice_all ps mods) = length mods /\
  (forall i, i < length mods ->
     nth i (splice_all ps mods) dmod =
     (key_of mods i,
      flat_map (fun j => exports (decls_of mods j)) (includees ps i) ++ decls_of mods i)) /\
  (forall j, exports (decls_of (splice_all ps mods) j) = exports (decls_of mods j)).
Proof.
  induction ps as [|[a b] ps IH] using rev_ind.
  - cbn [splice_all fold_left]. split; [reflexivity|]. split; [|reflexivity].
    intros i Hi. unfold includees, key_of, decls_of. cbn [filter map rev flat_map app].
    now destruct (nth i mods dmod).
  - destruct IH as (IHL & IHS & IHE).
    rewrite splice_all_snoc.
    assert (HS : forall i, i < length mods ->
              nth i (splice_one (a, b) (splice_all ps mods)) dmod =
              (key_of mods i,
               flat_map (fun j => exports (decls_of mods j)) (includees (ps ++ [(a, b)]) i)
                        ++ decls_of mods i)).
    { intros i Hi. rewrite includees_snoc. unfold splice_one. cbn [fst snd].
      destruct (Nat.eqb a i) eqn:Hai.
      - apply Nat.eqb_eq in Hai. subst a.
        rewrite update_nth_eq by lia. rewrite IHS by assumption. cbn [fst snd flat_map].
        rewrite IHE. now rewrite app_assoc.
      - apply Nat.eqb_neq in Hai. rewrite update_nth_neq by assumption. now apply IHS. }
    split; [now rewrite splice_one_length|]. split; [exact HS|].
    intros j. destruct (Nat.lt_ge_cases j (length mods)) as [Hj|Hj].
    + unfold decls_of at 1. rewrite HS by assumption. cbn [snd].
      now rewrite exports_app, exports_flat_exports.
    + rewrite !decls_of_overflow; [reflexivity|assumption|].
      rewrite splice_one_length. lia.
Qed.

(* ------------------------------------------------------------------ *)
(* Pairs: dedup, set membership                                        *)
(* ------------------------------------------------------------------ *)

Lemma pair_eqb_eq p q : pair_eqb p q = true <-> p = q.
Proof.
  unfold pair_eqb. destruct p as [a b], q as [c d]. cbn [fst snd].
  rewrite andb_true_iff, !Nat.eqb_eq. split; [intros [-> ->]; reflexivity|].
  intros H; injection H as -> ->. split; reflexivity.
Qed.

Lemma mem_pair_In p l : mem_pair p l = true <-> In p l.
Proof.
  unfold mem_pair. rewrite existsb_exists. split.
  - intros [x [Hx He]]. apply pair_eqb_eq in He. now subst.
  - intros H. exists p. split; [assumption|now apply pair_eqb_eq].
Qed.

Lemma dedup_In p l : In p (dedup l) <-> In p l.
Proof.
  induction l as [|q r IH]; [reflexivity|].
  cbn [dedup]. destruct (mem_pair q r) eqn:Hm.
  - rewrite IH. apply mem_pair_In in Hm. cbn [In]. split; [tauto|].
    intros [->|H]; assumption.
  - cbn [In]. now rewrite IH.
Qed.

Lemma dedup_NoDup l : NoDup (dedup l).
Proof.
  induction l as [|q r IH]; [constructor|].
  cbn [dedup]. destruct (mem_pair q r) eqn:Hm; [assumption|].
  constructor; [|assumption]. rewrite dedup_In, <- mem_pair_In. congruence.
Qed.

Lemma import_set_NoDup l : NoDup (import_set l).
Proof. unfold import_set. apply NoDup_filter, dedup_NoDup. Qed.

Lemma import_set_In a b l : In (a, b) (import_set l) <-> a <> b /\ In (a, b) l.
Proof.
  unfold import_set. rewrite filter_In, dedup_In. cbn [fst snd].
  rewrite negb_true_iff, Nat.eqb_neq. tauto.
Qed.

Lemma includees_In ps i j : In j (includees ps i) <-> In (i, j) ps.
Proof.
  unfold includees. rewrite <- in_rev, in_map_iff. split.
  - intros [[a b] [Hb Hf]]. apply filter_In in Hf. cbn [fst snd] in *.
    destruct Hf as [Hin He]. apply Nat.eqb_eq in He. now subst.
  - intros H. exists (i, j). split; [reflexivity|]. apply filter_In.
    split; [assumption|]. cbn [fst]. apply Nat.eqb_refl.
Qed.

Lemma includees_NoDup ps i : NoDup ps -> NoDup (includees ps i).
Proof.
  intros Hnd. unfold includees. apply NoDup_rev.
  induction Hnd as [|[a b] r Hnin Hnd IH]; [constructor|].
  cbn [filter fst]. destruct (Nat.eqb a i) eqn:Hai; [|assumption].
  apply Nat.eqb_eq in Hai. subst a. cbn [map snd]. constructor; [|assumption].
  intros Hin. apply Hnin. apply in_map_iff in Hin. destruct Hin as [[c d] [Hd Hf]].
  apply filter_In in Hf. cbn [fst snd] in *. destruct Hf as [Hin He].
  apply Nat.eqb_eq in He. now subst.
Qed.

Lemma includees_Permutation ps qs i :
  Permutation ps qs -> Permutation (includees ps i) (includees qs i).
Proof.
  intros H. unfold includees. rewrite <- !Permutation_rev.
  apply Permutation_map.
  induction H as [|x l l' H IH|x y l|l l' l'' H1 IH1 H2 IH2].
  - constructor.
  - cbn [filter]. destruct (Nat.eqb (fst x) i); [now constructor|assumption].
  - cbn [filter]. destruct (Nat.eqb (fst x) i), (Nat.eqb (fst y) i);
      try apply Permutation_refl. constructor.
  - now transitivity (filter (fun p => Nat.eqb (fst p) i) l').
Qed.

(* ------------------------------------------------------------------ *)
(* First and second loop                                               *)
(* ------------------------------------------------------------------ *)

Section Spec.
  Variable resolve : N -> N -> option nat.
  Variable hint : N -> bool.

  Definition unresolved (path : N) (d : decl) : bool :=
    match d_kind d with
    | KImport f => match resolve path f with None => true | Some _ => false end
    | _ => false
    end.

  Definition import_code (f : N) : code := if hint f then E477 else E470.

  Definition poison_import (d : decl) : decl :=
    match d_kind d with
    | KImport f => poison_of (import_code f) d
    | _ => d
    end.

  (* The declarations of a module after the first two loops: the unresolved
     imports, poisoned, come FIRST (the stable sort moved them there), then the
     non-import declarations in their original order. *)
  Definition own_final (path : N) (ds : list decl) : list decl :=
    map poison_import (filter (unresolved path) ds) ++ nonimports ds.

  Definition pairs_of (i : nat) (path : N) (ds : list decl) : list (nat * nat) :=
    flat_map (fun d => match d_kind d with
                       | KImport f => match resolve path f with
                                      | Some j => [(i, j)]
                                      | None => []
                                      end
                       | _ => []
                       end) ds.

  Fixpoint all_pairs (n : nat) (mods : list pmodule) : list (nat * nat) :=
    match mods with
    | [] => []
    | m :: r => pairs_of n (fst m) (snd m) ++ all_pairs (S n) r
    end.

  Definition base (mods : list pmodule) : list pmodule :=
    map (fun m => (fst m, own_final (fst m) (snd m))) mods.

  Definition import_pairs (mods : list pmodule) : list (nat * nat) :=
    import_set (all_pairs 0 mods).

  Definition resolved_import (mods : list pmodule) (i j : nat) : Prop :=
    exists d f, In d (decls_of mods i) /\ d_kind d = KImport f /\
                resolve (key_of mods i) f = Some j.

  Definition group (mods : list pmodule) (j : nat) : list decl :=
    public_sigs (decls_of mods j).

  Definition own_part (mods : list pmodule) (i : nat) : list decl :=
    own_final (key_of mods i) (decls_of mods i).

  Definition order_ok (order : list (nat * nat) -> list (nat * nat)) : Prop :=
    forall s, NoDup s -> Permutation (order s) s.

  Definition groups_of (order : list (nat * nat) -> list (nat * nat))
             (mods : list pmodule) (i : nat) : list nat :=
    includees (order (import_pairs mods)) i.

  Lemma process_imports_spec i path ds :
    process_imports resolve hint i path ds =
    (map (fun d => fst (process_import resolve hint i path d)) ds,
     flat_map (fun d => snd (process_import resolve hint i path d)) ds).
  Proof.
    induction ds as [|d r IH]; [reflexivity|].
    cbn [process_imports map flat_map]. rewrite IH.
    now destruct (process_import resolve hint i path d).
  Qed.

  (* The [unreachable!()] arm is never taken: the processed prefix contains
     only import declarations. *)
  Lemma process_unreachable_never ds :
    let s := sort_imports_first ds in
    Forall (fun d => is_import d = true) (firstn (partition_point is_import s) s).
  Proof.
    cbn zeta. rewrite sort_imports_first_spec.
    rewrite partition_point_spec by (apply filter_Forall_true || apply nonimports_Forall).
    rewrite firstn_length_app. apply filter_Forall_true.
  Qed.

  Lemma phase1_module_spec i path ds :
    phase1_module resolve hint i (path, ds) =
    ((path, map (fun d => fst (process_import resolve hint i path d)) (filter is_import ds)
            ++ nonimports ds),
     pairs_of i path ds).
  Proof.
    unfold phase1_module. rewrite sort_imports_first_spec.
    rewrite partition_point_spec by (apply filter_Forall_true || apply nonimports_Forall).
    rewrite firstn_length_app, skipn_length_app, process_imports_spec.
    f_equal. unfold pairs_of.
    induction ds as [|d r IH]; [reflexivity|].
    cbn [filter flat_map]. rewrite <- IH. unfold is_import.
    destruct (d_kind d) eqn:Hk; try reflexivity.
    cbn [flat_map]. unfold process_import at 1. rewrite Hk.
    destruct (resolve path file); reflexivity.
  Qed.

  Lemma unresolved_is_import path d : unresolved path d = true -> is_import d = true.
  Proof. unfold unresolved, is_import. destruct (d_kind d); congruence. Qed.

  Lemma process_import_fst i path d :
    fst (process_import resolve hint i path d) =
    if unresolved path d then poison_import d else d.
  Proof.
    unfold process_import, unresolved, poison_import.
    destruct (d_kind d); try reflexivity. destruct (resolve path file); reflexivity.
  Qed.

  Lemma poison_import_not_import path d :
    unresolved path d = true -> is_import (poison_import d) = false.
  Proof.
    unfold unresolved, poison_import. destruct (d_kind d); try discriminate. reflexivity.
  Qed.

  Lemma retain_own_final i path ds :
    filter (fun d => negb (is_import d))
           (map (fun d => fst (process_import resolve hint i path d)) (filter is_import ds)
                ++ nonimports ds)
    = own_final path ds.
  Proof.
    rewrite filter_app. unfold own_final. f_equal.
    - induction ds as [|d r IH]; [reflexivity|].
      cbn [filter]. destruct (is_import d) eqn:Hd.
      + cbn [map filter]. rewrite process_import_fst.
        destruct (unresolved path d) eqn:Hu.
        * rewrite (poison_import_not_import path d Hu). cbn [negb map]. now rewrite IH.
        * rewrite Hd. cbn [negb]. exact IH.
      + destruct (unresolved path d) eqn:Hu; [|exact IH].
        apply unresolved_is_import in Hu. congruence.
    - unfold nonimports. induction ds as [|d r IH]; [reflexivity|].
      cbn [filter]. destruct (is_import d) eqn:Hd; cbn [negb filter]; [exact IH|].
      rewrite Hd. cbn [negb]. now rewrite IH.
  Qed.

  Lemma phase1_spec n mods :
    retain_nonimports (fst (phase1 resolve hint n mods)) = base mods /\
    snd (phase1 resolve hint n mods) = all_pairs n mods.
  Proof.
    revert n. induction mods as [|[path ds] r IH]; intros n; [split; reflexivity|].
    cbn [phase1]. rewrite phase1_module_spec.
    destruct (IH (S n)) as [IH1 IH2].
    destruct (phase1 resolve hint (S n) r) as [r' ps'] eqn:Hr. cbn [fst snd] in *.
    split.
    - unfold retain_nonimports, base in *. cbn [map fst snd].
      now rewrite retain_own_final, IH1.
    - cbn [all_pairs fst snd]. now rewrite IH2.
  Qed.

  Lemma expand_order_unfold order mods :
    expand_order resolve hint order mods = splice_all (order (import_pairs mods)) (base mods).
  Proof.
    unfold expand_order, import_pairs. destruct (phase1_spec 0 mods) as [H1 H2].
    destruct (phase1 resolve hint 0 mods) as [m1 ps]. cbn [fst snd] in *. now rewrite H1, H2.
  Qed.

  Lemma nth_base mods i :
    nth i (base mods) dmod = (key_of mods i, own_part mods i).
  Proof.
    unfold own_part, key_of, decls_of, base. revert i.
    induction mods as [|m r IH]; intros i.
    - destruct i; reflexivity.
    - destruct i; [reflexivity|]. cbn [map nth]. apply IH.
  Qed.

  Lemma base_length mods : length (base mods) = length mods.
  Proof. unfold base. apply map_length. Qed.

  Lemma poison_import_not_public path d :
    unresolved path d = true -> is_public (poison_import d) = false.
  Proof.
    unfold unresolved, poison_import. destruct (d_kind d); try discriminate. reflexivity.
  Qed.

  Lemma exports_own_final path ds : exports (own_final path ds) = public_sigs ds.
  Proof.
    unfold own_final, public_sigs. rewrite exports_app, <- exports_spec. 
    replace (exports (map poison_import (filter (unresolved path) ds))) with (@nil decl);
      [reflexivity|].
    rewrite exports_spec.
    assert (H := filter_Forall_true (unresolved path) ds).
    induction H as [|d l Hd Hl IH]; [reflexivity|].
    cbn [map filter]. now rewrite (poison_import_not_public path d Hd).
  Qed.

  Lemma all_pairs_In a b n mods :
    In (a, b) (all_pairs n mods) <->
    exists k, a = n + k /\ k < length mods /\ resolved_import mods k b.
  Proof using resolve.
    clear hint. revert n. induction mods as [|m r IH]; intros n.
    - cbn [all_pairs In length]. split; [tauto|]. intros [k [_ [Hk _]]]. lia.
    - cbn [all_pairs]. rewrite in_app_iff, IH. split.
      + intros [H|[k [-> [Hk Hr]]]].
        * unfold pairs_of in H. apply in_flat_map in H. destruct H as [d [Hd Hin]].
          destruct (d_kind d) eqn:Hkd; try contradiction.
          destruct (resolve (fst m) file) eqn:Hres; [|contradiction].
          destruct Hin as [Heq|[]]. injection Heq as <- <-.
          exists 0. split; [lia|]. split; [cbn [length]; lia|].
          exists d, file. unfold decls_of, key_of. cbn [nth]. tauto.
        * exists (S k). split; [lia|]. split; [cbn [length]; lia|]. exact Hr.
      + intros [k [-> [Hk Hr]]]. destruct k as [|k].
        * left. destruct Hr as [d [f [Hd [Hkd Hres]]]].
          unfold decls_of, key_of in *. cbn [nth] in *.
          unfold pairs_of. apply in_flat_map. exists d. split; [assumption|].
          rewrite Hkd, Hres. left. f_equal. lia.
        * right. exists k. split; [lia|]. split; [cbn [length] in Hk; lia|]. exact Hr.
  Qed.

  Lemma import_pairs_In mods i j :
    In (i, j) (import_pairs mods) <-> i <> j /\ i < length mods /\ resolved_import mods i j.
  Proof using resolve.
    clear hint. unfold import_pairs. rewrite import_set_In, all_pairs_In. split.
    - intros [Hne [k [-> [Hk Hr]]]]. cbn [plus] in *. tauto.
    - intros [Hne [Hi Hr]]. split; [assumption|]. exists i. tauto.
  Qed.

  (* ---------------------------------------------------------------- *)
  (* 1. Main theorem                                                   *)
  (* ---------------------------------------------------------------- *)

  (* For ANY processing list (no hypothesis on [order]): the shape. *)
  Lemma expand_order_shape order mods :
    length (expand_order resolve hint order mods) = length mods /\
    forall i, i < length mods ->
      nth i (expand_order resolve hint order mods) dmod =
      (key_of mods i, flat_map (group mods) (groups_of order mods i) ++ own_part mods i).
  Proof.
    rewrite expand_order_unfold.
    destruct (splice_all_inv (order (import_pairs mods)) (base mods)) as (HL & HS & _).
    rewrite base_length in *. split; [assumption|].
    intros i Hi. rewrite HS by assumption. unfold key_of at 1, decls_of at 2.
    rewrite nth_base. cbn [fst snd]. f_equal. f_equal.
    unfold groups_of. apply flat_map_ext. intros j.
    unfold decls_of at 1. rewrite nth_base. cbn [snd]. unfold own_part, group.
    apply exports_own_final.
  Qed.

  Theorem imported_exactly_public order mods i :
    order_ok order -> i < length mods ->
    nth i (expand_order resolve hint order mods) dmod =
      (key_of mods i, flat_map (group mods) (groups_of order mods i) ++ own_part mods i)
    /\ NoDup (groups_of order mods i)
    /\ (forall j, In j (groups_of order mods i) <-> j <> i /\ resolved_import mods i j).
  Proof.
    intros Hok Hi. split; [now apply expand_order_shape|].
    assert (HP : Permutation (order (import_pairs mods)) (import_pairs mods))
      by (apply Hok, import_set_NoDup).
    unfold groups_of. split.
    - apply includees_NoDup. apply (Permutation_NoDup (Permutation_sym HP)).
      apply import_set_NoDup.
    - intros j. rewrite includees_In. split.
      + intros H. apply (Permutation_in _ HP) in H. apply import_pairs_In in H.
        destruct H as (Hne & _ & Hr). split; [congruence|assumption].
      + intros [Hne Hr]. apply (Permutation_in _ (Permutation_sym HP)).
        apply import_pairs_In. repeat split; [congruence|assumption|assumption].
  Qed.
End Spec.

(* ------------------------------------------------------------------ *)
(* Small list facts                                                    *)
(* ------------------------------------------------------------------ *)

Lemma NoDup_app_disjoint {A} (l l' : list A) x :
  NoDup (l ++ l') -> In x l -> In x l' -> False.
Proof.
  induction l as [|a l IH]; intros Hnd Hl Hl'; [contradiction|].
  cbn [app] in Hnd. inversion Hnd as [|? ? Hnin Hnd']; subst.
  destruct Hl as [->|Hl].
  - apply Hnin. apply in_or_app. now right.
  - now apply IH.
Qed.

Lemma NoDup_app_l {A} (l l' : list A) : NoDup (l ++ l') -> NoDup l.
Proof.
  induction l as [|a l IH]; intros Hnd; [constructor|].
  cbn [app] in Hnd. inversion Hnd as [|? ? Hnin Hnd']; subst.
  constructor; [|now apply IH]. intros H. apply Hnin, in_or_app. now left.
Qed.

Lemma NoDup_app_r {A} (l l' : list A) : NoDup (l ++ l') -> NoDup l'.
Proof.
  induction l as [|a l IH]; intros Hnd; [assumption|].
  cbn [app] in Hnd. inversion Hnd; subst. now apply IH.
Qed.

Lemma NoDup_map_inj_in {A B} (f : A -> B) l a b :
  NoDup (map f l) -> In a l -> In b l -> f a = f b -> a = b.
Proof.
  induction l as [|x l IH]; intros Hnd Ha Hb Hf; [contradiction|].
  cbn [map] in Hnd. inversion Hnd as [|? ? Hnin Hnd']; subst.
  destruct Ha as [->|Ha], Hb as [->|Hb].
  - reflexivity.
  - exfalso. apply Hnin. rewrite Hf. now apply in_map.
  - exfalso. apply Hnin. rewrite <- Hf. now apply in_map.
  - now apply IH.
Qed.

Lemma NoDup_singleton_iff {A} (l : list A) a :
  NoDup l -> (forall x, In x l <-> x = a) -> l = [a].
Proof.
  intros Hnd H. destruct l as [|x r].
  - exfalso. apply (H a). reflexivity.
  - assert (x = a) by (apply H; now left). subst x. f_equal.
    destruct r as [|y r]; [reflexivity|]. exfalso.
    inversion Hnd as [|? ? Hnin _]; subst. apply Hnin.
    assert (y = a) by (apply H; right; now left). subst y. now left.
Qed.

(* Every payload id names one declaration of one module. *)
Definition payloads_unique (mods : list pmodule) : Prop :=
  NoDup (flat_map (fun m => map d_payload (snd m)) mods).

Lemma payloads_unique_loc mods a b d1 d2 :
  payloads_unique mods -> a < length mods -> b < length mods ->
  In d1 (decls_of mods a) -> In d2 (decls_of mods b) ->
  d_payload d1 = d_payload d2 -> a = b /\ d1 = d2.
Proof.
  unfold payloads_unique, decls_of. revert a b.
  induction mods as [|m r IH]; intros a b Hnd Ha Hb H1 H2 Hp; cbn [length] in *; [lia|].
  cbn [flat_map] in Hnd.
  assert (Hin : forall k d, k < length r -> In d (snd (nth k r dmod)) ->
                            In (d_payload d) (flat_map (fun m => map d_payload (snd m)) r)).
  { intros k d Hk Hd. apply in_flat_map. exists (nth k r dmod).
    split; [now apply nth_In|now apply in_map]. }
  destruct a as [|a], b as [|b]; cbn [nth] in *.
  - split; [reflexivity|]. apply NoDup_app_l in Hnd.
    eapply NoDup_map_inj_in; eauto.
  - exfalso. apply (NoDup_app_disjoint _ _ (d_payload d1) Hnd); [now apply in_map|].
    rewrite Hp. apply (Hin b); [lia|assumption].
  - exfalso. apply (NoDup_app_disjoint _ _ (d_payload d2) Hnd); [now apply in_map|].
    rewrite <- Hp. apply (Hin a); [lia|assumption].
  - apply NoDup_app_r in Hnd.
    destruct (IH a b Hnd) as [-> ->]; try assumption; try lia. split; reflexivity.
Qed.

(* ------------------------------------------------------------------ *)
(* Corollaries of the main theorem                                     *)
(* ------------------------------------------------------------------ *)

Lemma own_part_unfold resolve hint mods i :
  own_part resolve hint mods i = own_final resolve hint (key_of mods i) (decls_of mods i).
Proof. reflexivity. Qed.

Lemma groups_of_unfold resolve order mods i :
  groups_of resolve order mods i = includees (order (import_pairs resolve mods)) i.
Proof. reflexivity. Qed.

Section Corollaries.
  Variable resolve : N -> N -> option nat.
  Variable hint : N -> bool.

  Notation expand := (expand_order resolve hint).
  Notation own_part := (own_part resolve hint).
  Notation resolved_import := (resolved_import resolve).
  Notation groups_of := (groups_of resolve).

  Lemma group_In mods j d :
    In d (group mods j) <->
    exists d0, In d0 (decls_of mods j) /\ is_import d0 = false /\ is_public d0 = true /\
               d = strip d0.
  Proof.
    unfold group, public_sigs, nonimports. rewrite in_map_iff. split.
    - intros [d0 [Hs Hf]]. apply filter_In in Hf. destruct Hf as [Hf Hp].
      apply filter_In in Hf. destruct Hf as [Hin Hi]. apply negb_true_iff in Hi.
      exists d0. auto.
    - intros [d0 (Hin & Hi & Hp & ->)]. exists d0. split; [reflexivity|].
      apply filter_In. split; [|assumption]. apply filter_In. split; [assumption|].
      now rewrite Hi.
  Qed.

  Lemma own_part_payload mods i d :
    In d (own_part mods i) ->
    exists d1, In d1 (decls_of mods i) /\ d_payload d = d_payload d1.
  Proof.
    rewrite own_part_unfold. unfold own_final. rewrite in_app_iff, in_map_iff.
    intros [[d1 [Hd Hf]]|H].
    - apply filter_In in Hf. destruct Hf as [Hin Hu]. exists d1. split; [assumption|].
      subst d. unfold poison_import. now destruct (d_kind d1).
    - apply filter_In in H. exists d. tauto.
  Qed.

  (* Provenance of every declaration of module i after expansion. *)
  Theorem expand_provenance order mods i d :
    order_ok order -> i < length mods ->
    In d (decls_of (expand order mods) i) ->
    In d (own_part mods i) \/
    exists j d0, j <> i /\ resolved_import mods i j /\ In d0 (decls_of mods j) /\
                 is_import d0 = false /\ is_public d0 = true /\ d = strip d0.
  Proof.
    intros Hok Hi Hd. unfold decls_of at 1 in Hd.
    destruct (imported_exactly_public resolve hint order mods i Hok Hi) as (Heq & _ & Hjs).
    rewrite Heq in Hd. cbn [snd] in Hd. apply in_app_iff in Hd.
    destruct Hd as [Hd|Hd]; [|now left]. right.
    apply in_flat_map in Hd. destruct Hd as [j [Hj Hd]].
    apply Hjs in Hj. destruct Hj as [Hne Hr]. apply group_In in Hd.
    destruct Hd as [d0 (H1 & H2 & H3 & H4)]. exists j, d0. auto 10.
  Qed.

  (* With unique payload ids: a declaration of module j can only show up in
     another module i if i imports j DIRECTLY and the declaration is public,
     and then what shows up is its signature. *)
  Theorem visible_only_direct_public order mods i j d d0 :
    payloads_unique mods -> order_ok order ->
    i < length mods -> j < length mods -> j <> i ->
    In d (decls_of (expand order mods) i) ->
    In d0 (decls_of mods j) -> d_payload d = d_payload d0 ->
    resolved_import mods i j /\ is_public d0 = true /\ d = strip d0.
  Proof.
    intros Hu Hok Hi Hj Hne Hd Hd0 Hp.
    destruct (expand_provenance order mods i d Hok Hi Hd) as [Hown|[j' [d1 H]]].
    - exfalso. apply own_part_payload in Hown. destruct Hown as [d1 [Hd1 Hp1]].
      destruct (payloads_unique_loc mods i j d1 d0 Hu Hi Hj Hd1 Hd0) as [Hij _];
        [congruence|]. congruence.
    - destruct H as (Hne' & Hr & Hd1 & _ & Hpub & ->).
      assert (Hj' : j' < length mods).
      { destruct (Nat.lt_ge_cases j' (length mods)) as [H|H]; [assumption|].
        rewrite decls_of_overflow in Hd1 by assumption. contradiction. }
      destruct (payloads_unique_loc mods j' j d1 d0 Hu Hj' Hj Hd1 Hd0) as [-> ->];
        [exact Hp|]. auto.
  Qed.

  (* 1a *)
  Corollary private_never_visible order mods i j d d0 :
    payloads_unique mods -> order_ok order ->
    i < length mods -> j < length mods -> j <> i ->
    In d0 (decls_of mods j) -> is_public d0 = false ->
    In d (decls_of (expand order mods) i) -> d_payload d <> d_payload d0.
  Proof.
    intros Hu Hok Hi Hj Hne Hd0 Hpriv Hd Hp.
    destruct (visible_only_direct_public order mods i j d d0) as (_ & H & _); try assumption.
    congruence.
  Qed.

  (* 1b, first form: nothing of j is visible in a module k that does not import j
     directly -- whatever k's includees imported themselves. *)
  Corollary no_transitive_import order mods k j d d0 :
    payloads_unique mods -> order_ok order ->
    k < length mods -> j < length mods -> j <> k ->
    ~ resolved_import mods k j ->
    In d0 (decls_of mods j) ->
    In d (decls_of (expand order mods) k) -> d_payload d <> d_payload d0.
  Proof.
    intros Hu Hok Hk Hj Hne Hnr Hd0 Hd Hp.
    destruct (visible_only_direct_public order mods k j d d0) as (H & _); try assumption.
    contradiction.
  Qed.

  (* 1b, second form: a module k whose only (non-self) import is i gets exactly the
     public signatures of i's OWN declarations, nothing i imported. *)
  Corollary imports_only_one order mods k i :
    order_ok order -> k < length mods -> i <> k ->
    resolved_import mods k i ->
    (forall j, j <> k -> resolved_import mods k j -> j = i) ->
    decls_of (expand order mods) k = public_sigs (decls_of mods i) ++ own_part mods k.
  Proof.
    intros Hok Hk Hne Hr Honly.
    destruct (imported_exactly_public resolve hint order mods k Hok Hk) as (Heq & Hnd & Hjs).
    unfold decls_of at 1. rewrite Heq. cbn [snd]. f_equal.
    rewrite (NoDup_singleton_iff (groups_of order mods k) i Hnd).
    - cbn [flat_map]. apply app_nil_r.
    - intros j. rewrite Hjs. split.
      + intros [H1 H2]. now apply Honly.
      + intros ->. auto.
  Qed.

  (* 1b, third form: the declarations that i receives from j are the same whether
     j's own imports are spliced before or after -- for ANY module list. *)
  Lemma splice_before_after mods i j k :
    i <> j -> i < length mods ->
    nth i (splice_one (i, j) (splice_one (j, k) mods)) dmod =
    nth i (splice_one (j, k) (splice_one (i, j) mods)) dmod.
  Proof.
    intros Hne Hi.
    change (splice_one (i, j) (splice_one (j, k) mods)) with (splice_all [(j, k); (i, j)] mods).
    change (splice_one (j, k) (splice_one (i, j) mods)) with (splice_all [(i, j); (j, k)] mods).
    destruct (splice_all_inv [(j, k); (i, j)] mods) as (_ & H1 & _).
    destruct (splice_all_inv [(i, j); (j, k)] mods) as (_ & H2 & _).
    rewrite H1, H2 by assumption. unfold includees. cbn [filter fst].
    rewrite Nat.eqb_refl. apply Nat.eqb_neq in Hne. rewrite Nat.eqb_sym in Hne.
    rewrite Hne. reflexivity.
  Qed.

  (* 1c *)
  Corollary bodies_dropped order mods i d :
    i < length mods ->
    In d (flat_map (group mods) (groups_of order mods i)) ->
    d_kind d <> KFunction /\ (d_kind d = KFunctionHead -> d_body d = None).
  Proof.
    intros _ Hd. apply in_flat_map in Hd. destruct Hd as [j [_ Hd]].
    apply group_In in Hd. destruct Hd as [d0 (_ & _ & _ & ->)].
    unfold strip. cbn [d_kind d_body]. destruct (d_kind d0); split; congruence.
  Qed.

  Corollary public_cleared order mods i d :
    i < length mods ->
    In d (flat_map (group mods) (groups_of order mods i)) ->
    f_public (d_flags d) = false /\ is_public d = false /\ export d = None.
  Proof.
    intros _ Hd. apply in_flat_map in Hd. destruct Hd as [j [_ Hd]].
    apply group_In in Hd. destruct Hd as [d0 (_ & _ & _ & ->)].
    split; [reflexivity|]. split; [apply is_public_strip|].
    now rewrite export_spec, is_public_strip.
  Qed.

  (* [strip] keeps the payload and every flag except Public. *)
  Lemma strip_keeps d :
    d_payload (strip d) = d_payload d /\
    f_external (d_flags (strip d)) = f_external (d_flags d) /\
    f_main (d_flags (strip d)) = f_main (d_flags d) /\
    f_forward (d_flags (strip d)) = f_forward (d_flags d) /\
    f_opaque (d_flags (strip d)) = f_opaque (d_flags d).
  Proof. repeat split. Qed.

  (* ---------------------------------------------------------------- *)
  (* 2. The processing order only permutes the spliced groups          *)
  (* ---------------------------------------------------------------- *)

  Theorem expand_set_order_invariant o1 o2 mods :
    order_ok o1 -> order_ok o2 ->
    length (expand o1 mods) = length mods /\ length (expand o2 mods) = length mods /\
    forall i, i < length mods ->
      exists js1 js2,
        Permutation js1 js2 /\
        nth i (expand o1 mods) dmod =
          (key_of mods i, flat_map (group mods) js1 ++ own_part mods i) /\
        nth i (expand o2 mods) dmod =
          (key_of mods i, flat_map (group mods) js2 ++ own_part mods i).
  Proof.
    intros H1 H2.
    destruct (expand_order_shape resolve hint o1 mods) as [L1 S1].
    destruct (expand_order_shape resolve hint o2 mods) as [L2 S2].
    split; [assumption|]. split; [assumption|]. intros i Hi.
    exists (groups_of o1 mods i), (groups_of o2 mods i).
    split; [|split; [now apply S1|now apply S2]].
    rewrite !groups_of_unfold. apply includees_Permutation.
    transitivity (import_pairs resolve mods).
    - apply H1, import_set_NoDup.
    - apply Permutation_sym, H2, import_set_NoDup.
  Qed.

  Corollary expand_order_Permutation o1 o2 mods i :
    order_ok o1 -> order_ok o2 ->
    key_of (expand o1 mods) i = key_of (expand o2 mods) i /\
    Permutation (decls_of (expand o1 mods) i) (decls_of (expand o2 mods) i).
  Proof.
    intros H1 H2.
    destruct (expand_set_order_invariant o1 o2 mods H1 H2) as (L1 & L2 & H).
    destruct (Nat.lt_ge_cases i (length mods)) as [Hi|Hi].
    - destruct (H i Hi) as (js1 & js2 & HP & E1 & E2).
      unfold key_of, decls_of. rewrite E1, E2. cbn [fst snd]. split; [reflexivity|].
      apply Permutation_app_tail. now apply Permutation_flat_map.
    - unfold key_of, decls_of. rewrite !nth_overflow by lia. split; reflexivity.
  Qed.
End Corollaries.

(* ------------------------------------------------------------------ *)
(* 4. The sorted (BTreeSet) order                                      *)
(* ------------------------------------------------------------------ *)

Definition pair_le (p q : nat * nat) : Prop := pair_leb p q = true.

Lemma pair_leb_iff p q :
  pair_leb p q = true <-> fst p < fst q \/ (fst p = fst q /\ snd p <= snd q).
Proof.
  unfold pair_leb. rewrite orb_true_iff, andb_true_iff, Nat.ltb_lt, Nat.eqb_eq, Nat.leb_le.
  reflexivity.
Qed.

Lemma pair_leb_total p q : pair_leb p q = false -> pair_le q p.
Proof.
  intros H. unfold pair_le. apply pair_leb_iff.
  destruct (pair_leb p q) eqn:E; [discriminate|].
  assert (Hn : ~ (fst p < fst q \/ (fst p = fst q /\ snd p <= snd q))).
  { intros Hc. apply pair_leb_iff in Hc. congruence. }
  lia.
Qed.

Lemma pair_le_trans p q r : pair_le p q -> pair_le q r -> pair_le p r.
Proof. unfold pair_le. rewrite !pair_leb_iff. lia. Qed.

Lemma pair_le_antisym p q : pair_le p q -> pair_le q p -> p = q.
Proof.
  unfold pair_le. rewrite !pair_leb_iff. destruct p, q. cbn [fst snd].
  intros H1 H2. f_equal; lia.
Qed.

Lemma insert_pair_perm p l : Permutation (insert_pair p l) (p :: l).
Proof.
  induction l as [|q r IH]; [apply Permutation_refl|].
  cbn [insert_pair]. destruct (pair_leb p q); [apply Permutation_refl|].
  etransitivity; [apply perm_skip, IH|apply perm_swap].
Qed.

Lemma sort_pairs_perm l : Permutation (sort_pairs l) l.
Proof.
  induction l as [|p r IH]; [constructor|].
  unfold sort_pairs in *. cbn [fold_right].
  etransitivity; [apply insert_pair_perm|now apply perm_skip].
Qed.

Lemma insert_pair_sorted p l :
  StronglySorted pair_le l -> StronglySorted pair_le (insert_pair p l).
Proof.
  intros Hs. induction Hs as [|q r Hs IH Hq].
  - cbn [insert_pair]. constructor; constructor.
  - cbn [insert_pair]. destruct (pair_leb p q) eqn:E.
    + constructor; [now constructor|]. constructor; [exact E|].
      eapply Forall_impl; [|exact Hq]. intros x Hx. now apply (pair_le_trans p q x).
    + constructor; [assumption|].
      apply Forall_forall. intros x Hx.
      apply (Permutation_in _ (insert_pair_perm p r)) in Hx. destruct Hx as [<-|Hx].
      * now apply pair_leb_total.
      * rewrite Forall_forall in Hq. now apply Hq.
Qed.

Lemma sort_pairs_sorted l : StronglySorted pair_le (sort_pairs l).
Proof.
  induction l as [|p r IH]; [constructor|].
  unfold sort_pairs in *. cbn [fold_right]. now apply insert_pair_sorted.
Qed.

Lemma sorted_snoc {A} (R : A -> A -> Prop) l a :
  StronglySorted R l -> Forall (fun x => R x a) l -> StronglySorted R (l ++ [a]).
Proof.
  intros Hs. induction Hs as [|x l Hs IH Hx]; intros Ha.
  - cbn [app]. constructor; constructor.
  - inversion Ha as [|? ? Hxa Ha']; subst. cbn [app]. constructor; [now apply IH|].
    apply Forall_app. split; [assumption|]. now constructor.
Qed.

Lemma sorted_rev {A} (R : A -> A -> Prop) l :
  StronglySorted R l -> StronglySorted (fun a b => R b a) (rev l).
Proof.
  intros Hs. induction Hs as [|x l Hs IH Hx]; [constructor|].
  cbn [rev]. apply sorted_snoc; [assumption|].
  apply Forall_forall. intros y Hy. apply in_rev in Hy.
  rewrite Forall_forall in Hx. now apply Hx.
Qed.

Lemma sorted_filter_snd ps i :
  StronglySorted pair_le ps -> NoDup ps ->
  StronglySorted lt (map snd (filter (fun p => Nat.eqb (fst p) i) ps)).
Proof.
  intros Hs. induction Hs as [|[a b] r Hs IH Hp]; intros Hnd; [constructor|].
  inversion Hnd as [|? ? Hnin Hnd']; subst.
  cbn [filter fst]. destruct (Nat.eqb a i) eqn:Hai; [|now apply IH].
  apply Nat.eqb_eq in Hai. subst a. cbn [map snd]. constructor; [now apply IH|].
  apply Forall_forall. intros c Hc. apply in_map_iff in Hc.
  destruct Hc as [[a' c'] [Hc Hf]]. cbn [snd] in Hc. subst c'.
  apply filter_In in Hf. destruct Hf as [Hin He]. cbn [fst] in He.
  apply Nat.eqb_eq in He. subst a'.
  rewrite Forall_forall in Hp. specialize (Hp _ Hin).
  unfold pair_le in Hp. apply pair_leb_iff in Hp. cbn [fst snd] in Hp.
  assert (b <> c) by (intros ->; contradiction). lia.
Qed.

(* A strictly sorted list is determined by its elements. *)
Lemma sorted_strict_unique {A} (R : A -> A -> Prop) :
  (forall x y, R x y -> R y x -> False) ->
  forall l1 l2, StronglySorted R l1 -> StronglySorted R l2 ->
                (forall x, In x l1 <-> In x l2) -> l1 = l2.
Proof.
  intros Hasym l1. induction l1 as [|a t1 IH]; intros l2 H1 H2 Hiff.
  - destruct l2 as [|b t2]; [reflexivity|]. exfalso. apply (Hiff b). now left.
  - destruct l2 as [|b t2]; [exfalso; apply (Hiff a); now left|].
    inversion H1 as [|? ? H1t H1a]; subst. inversion H2 as [|? ? H2t H2b]; subst.
    rewrite Forall_forall in H1a, H2b.
    assert (Hab : a = b).
    { assert (Ha : In a (b :: t2)) by (apply Hiff; now left).
      assert (Hb : In b (a :: t1)) by (apply Hiff; now left).
      destruct Ha as [Ha|Ha]; [now symmetry|]. destruct Hb as [Hb|Hb]; [assumption|].
      exfalso. apply (Hasym a b); [now apply H1a|now apply H2b]. }
    subst b. f_equal. apply IH; try assumption.
    intros x. split; intros Hx.
    + assert (Hx' : In x (a :: t2)) by (apply Hiff; now right).
      destruct Hx' as [<-|Hx']; [|assumption]. exfalso.
      apply (Hasym a a); now apply H1a.
    + assert (Hx' : In x (a :: t1)) by (apply Hiff; now right).
      destruct Hx' as [<-|Hx']; [|assumption]. exfalso.
      apply (Hasym a a); now apply H2b.
Qed.

Definition pair_lt (p q : nat * nat) : Prop := pair_le p q /\ p <> q.

Lemma sorted_le_lt l : StronglySorted pair_le l -> NoDup l -> StronglySorted pair_lt l.
Proof.
  intros Hs. induction Hs as [|p r Hs IH Hp]; intros Hnd; [constructor|].
  inversion Hnd as [|? ? Hnin Hnd']; subst. constructor; [now apply IH|].
  rewrite Forall_forall in *. intros x Hx. split; [now apply Hp|].
  intros ->. contradiction.
Qed.

(* The sorted iteration order depends on the SET of pairs only. *)
Lemma sort_pairs_canonical l1 l2 :
  NoDup l1 -> NoDup l2 -> (forall x, In x l1 <-> In x l2) -> sort_pairs l1 = sort_pairs l2.
Proof.
  intros N1 N2 Hiff.
  apply (sorted_strict_unique pair_lt).
  - intros x y [H1 Hne] [H2 _]. apply Hne. now apply pair_le_antisym.
  - apply sorted_le_lt; [apply sort_pairs_sorted|].
    apply (Permutation_NoDup (Permutation_sym (sort_pairs_perm l1)) N1).
  - apply sorted_le_lt; [apply sort_pairs_sorted|].
    apply (Permutation_NoDup (Permutation_sym (sort_pairs_perm l2)) N2).
  - intros x. split; intros Hx.
    + apply (Permutation_in _ (Permutation_sym (sort_pairs_perm l2))), Hiff.
      now apply (Permutation_in _ (sort_pairs_perm l1)).
    + apply (Permutation_in _ (Permutation_sym (sort_pairs_perm l1))), Hiff.
      now apply (Permutation_in _ (sort_pairs_perm l2)).
Qed.

Lemma sort_pairs_order_ok : order_ok sort_pairs.
Proof. intros s _. apply sort_pairs_perm. Qed.

(* A strictly descending list of offsets is determined by its elements. *)
Lemma descending_unique (l1 l2 : list nat) :
  StronglySorted (fun a b => b < a) l1 -> StronglySorted (fun a b => b < a) l2 ->
  (forall x, In x l1 <-> In x l2) -> l1 = l2.
Proof. apply sorted_strict_unique. intros x y. lia. Qed.

Section Sorted.
  Variable resolve : N -> N -> option nat.
  Variable hint : N -> bool.

  Theorem expand_sorted_deterministic mods :
    expand_sorted resolve hint mods = expand_order resolve hint sort_pairs mods.
  Proof. reflexivity. Qed.

  (* Sorting after any hash order gives the sorted order: the BTreeSet version does
     not depend on anything unspecified. *)
  Theorem expand_sorted_canonical order mods :
    order_ok order ->
    expand_order resolve hint (fun s => sort_pairs (order s)) mods = expand_sorted resolve hint mods.
  Proof.
    intros Hok. unfold expand_sorted. rewrite !expand_order_unfold. f_equal.
    assert (HP := Hok _ (import_set_NoDup (all_pairs resolve 0 mods))).
    apply sort_pairs_canonical.
    - apply (Permutation_NoDup (Permutation_sym HP)), import_set_NoDup.
    - apply import_set_NoDup.
    - intros x. split; [apply (Permutation_in _ HP)|apply (Permutation_in _ (Permutation_sym HP))].
  Qed.

  (* The exact result of the sorted order: the groups of module i appear in
     strictly DEscending order of includee offset (each splice prepends). *)
  Theorem expand_sorted_spec mods i :
    i < length mods ->
    let js := groups_of resolve sort_pairs mods i in
    nth i (expand_sorted resolve hint mods) dmod =
      (key_of mods i, flat_map (group mods) js ++ own_part resolve hint mods i)
    /\ StronglySorted (fun a b => b < a) js
    /\ (forall j, In j js <-> j <> i /\ resolved_import resolve mods i j).
  Proof.
    intros Hi js.
    destruct (imported_exactly_public resolve hint sort_pairs mods i sort_pairs_order_ok Hi)
      as (Heq & _ & Hjs).
    split; [exact Heq|]. split; [|exact Hjs].
    unfold js, groups_of, includees. apply sorted_rev. apply sorted_filter_snd.
    - apply sort_pairs_sorted.
    - apply (Permutation_NoDup (Permutation_sym (sort_pairs_perm _))), import_set_NoDup.
  Qed.

  (* -------------------------------------------------------------- *)
  (* 5. expand_one                                                   *)
  (* -------------------------------------------------------------- *)

  Theorem expand_one_no_imports order path ds :
    order_ok order ->
    (forall d f j, In d ds -> d_kind d = KImport f -> resolve path f = Some j -> j = 0) ->
    expand_one resolve hint order path ds = own_final resolve hint path ds.
  Proof.
    intros Hok Hself. unfold expand_one. rewrite expand_order_unfold.
    assert (HS : import_pairs resolve [(path, ds)] = []).
    { destruct (import_pairs resolve [(path, ds)]) as [|[a b] r] eqn:E; [reflexivity|].
      exfalso. assert (Hin : In (a, b) (import_pairs resolve [(path, ds)]))
        by (rewrite E; now left).
      apply import_pairs_In in Hin. destruct Hin as (Hne & Ha & d & f & Hd & Hk & Hr).
      cbn [length] in Ha. assert (a = 0) by lia. subst a.
      unfold decls_of, key_of in *. cbn [nth fst snd] in *.
      specialize (Hself d f b Hd Hk Hr). congruence. }
    rewrite HS. assert (HP := Hok [] (NoDup_nil _)).
    apply Permutation_sym, Permutation_nil in HP. rewrite HP. reflexivity.
  Qed.

  Corollary expand_one_unresolvable order path ds :
    order_ok order ->
    (forall d f, In d ds -> d_kind d = KImport f -> resolve path f = None) ->
    expand_one resolve hint order path ds =
    map (poison_import hint) (filter is_import ds) ++ nonimports ds.
  Proof.
    intros Hok Hnone. rewrite expand_one_no_imports; [|assumption|].
    - unfold own_final. f_equal. f_equal. apply filter_ext_in. intros d Hd.
      unfold unresolved, is_import. destruct (d_kind d) eqn:Hk; try reflexivity.
      now rewrite (Hnone d file Hd Hk).
    - intros d f j Hd Hk Hr. rewrite (Hnone d f Hd Hk) in Hr. discriminate.
  Qed.
End Sorted.

(* ------------------------------------------------------------------ *)
(* 3. The pinned code (HashSet order) is not deterministic as lists    *)
(* ------------------------------------------------------------------ *)

Definition mk (k : kind) (p : N) (b : option N) (pub : bool) : decl :=
  mkDecl k p b (mkFlags pub false false false false).

(* main.pn imports a.pn and b.pn; a.pn imports b.pn (transitively irrelevant). *)
Definition ex_resolve : N -> N -> option nat :=
  resolve_alist [((10%N, 11%N), 1); ((10%N, 12%N), 2); ((11%N, 12%N), 2); ((12%N, 12%N), 2)].
Definition ex_hint : N -> bool := hint_list [99%N].

Definition ex_mods : list pmodule :=
  [ (10%N, [ mk KFunction 100 (Some 1%N) false;      (* fn main *)
             mk (KImport 11) 101 None false;
             mk (KImport 12) 102 None false;
             mk (KImport 77) 103 None false;          (* unresolved *)
             mk (KImport 99) 104 None false;          (* unresolved, hinted *)
             mk KConstant 105 None false ]);
    (11%N, [ mk (KImport 12) 110 None false;
             mk KFunction 111 (Some 2%N) true;        (* pub fn a *)
             mk KFunction 112 (Some 3%N) false;       (* fn a_private *)
             mk KStructure 113 None true ]);          (* pub struct *)
    (12%N, [ mk KConstant 120 None true;              (* pub const *)
             mk (KImport 12) 121 None false;          (* self import *)
             mk KFunctionHead 122 None true;          (* pub extern-like head *)
             mk (KPoison 300) 123 None true ]) ]%N.

Example ex_sorted :
  expand_sorted ex_resolve ex_hint ex_mods =
  [ (10%N, [ mk KConstant 120 None false; mk KFunctionHead 122 None false;    (* from b *)
             mk KFunctionHead 111 None false; mk KStructure 113 None false;   (* from a *)
             mk (KPoison 470) 103 None false; mk (KPoison 477) 104 None false;
             mk KFunction 100 (Some 1%N) false; mk KConstant 105 None false ]);
    (11%N, [ mk KConstant 120 None false; mk KFunctionHead 122 None false;    (* from b *)
             mk KFunction 111 (Some 2%N) true; mk KFunction 112 (Some 3%N) false;
             mk KStructure 113 None true ]);
    (12%N, [ mk KConstant 120 None true; mk KFunctionHead 122 None true;
             mk (KPoison 300) 123 None true ]) ]%N.
Proof. vm_compute. reflexivity. Qed.

Example ex_payloads_unique : payloads_unique ex_mods.
Proof.
  unfold payloads_unique. cbn [ex_mods flat_map map snd app mk d_payload].
  repeat (constructor; [cbn [In]; intros H; repeat (destruct H as [H|H]; [discriminate H|]);
                        exact H|]).
  constructor.
Qed.

Example ex_order_ok_id : order_ok (fun s => s).
Proof. intros s _. apply Permutation_refl. Qed.

Example ex_order_ok_rev : order_ok (@rev (nat * nat)).
Proof. intros s _. apply Permutation_sym, Permutation_rev. Qed.

(* A single module that imports itself (offset 0) and an unknown file. *)
Example ex_single :
  expand_one_sorted (resolve_alist [((12%N, 12%N), 0)]) ex_hint 12%N (decls_of ex_mods 2) =
  [ mk KConstant 120 None true; mk KFunctionHead 122 None true;
    mk (KPoison 300) 123 None true ]%N.
Proof. vm_compute. reflexivity. Qed.

Theorem expand_order_refuted :
  exists resolve hint mods o1 o2,
    order_ok o1 /\ order_ok o2 /\
    expand_order resolve hint o1 mods <> expand_order resolve hint o2 mods.
Proof.
  exists ex_resolve, ex_hint, ex_mods, (fun s => s), (@rev (nat * nat)).
  split; [exact ex_order_ok_id|]. split; [exact ex_order_ok_rev|].
  vm_compute. discriminate.
Qed.

(* A smaller witness: one module importing two others. *)
Theorem expand_order_refuted_small :
  exists mods,
    expand_order (resolve_alist [((1%N, 2%N), 1); ((1%N, 3%N), 2)]) (fun _ => false) (fun s => s) mods
    <> expand_order (resolve_alist [((1%N, 2%N), 1); ((1%N, 3%N), 2)]) (fun _ => false)
                    (@rev (nat * nat)) mods.
Proof.
  exists [ (1%N, [mk (KImport 2) 1 None false; mk (KImport 3) 2 None false]);
           (2%N, [mk KConstant 3 None true]);
           (3%N, [mk KConstant 4 None true]) ]%N.
  vm_compute. discriminate.
Qed.


Print Assumptions imported_exactly_public.
Print Assumptions expand_provenance.
Print Assumptions visible_only_direct_public.
Print Assumptions private_never_visible.
Print Assumptions no_transitive_import.
Print Assumptions imports_only_one.
Print Assumptions splice_before_after.
Print Assumptions bodies_dropped.
Print Assumptions public_cleared.
Print Assumptions expand_set_order_invariant.
Print Assumptions expand_order_Permutation.
Print Assumptions expand_order_refuted.
Print Assumptions expand_sorted_spec.
Print Assumptions expand_sorted_canonical.
Print Assumptions expand_one_no_imports.
Print Assumptions expand_one_unresolvable.

(* ---- import path resolution ------------------------------------------------------------ *)
Lemma path_eqb_eq a : forall b, path_eqb a b = true <-> a = b.
Proof.
  induction a as [|x a IH]; intros [|y b]; cbn [path_eqb]; split; intros H; try reflexivity; try discriminate.
  - apply andb_prop in H as [H1 H2]. apply N.eqb_eq in H1. apply IH in H2. now subst.
  - injection H as -> ->. rewrite N.eqb_refl. now apply IH.
Qed.

Lemma position_of_nth p keys i : position_of p keys = Some i -> nth_error keys i = Some p.
Proof.
  revert i. induction keys as [|k r IH]; intros i; cbn [position_of]; [discriminate|].
  destruct (path_eqb k p) eqn:E.
  - intros H. injection H as <-. apply path_eqb_eq in E. now subst.
  - destruct (position_of p r) as [j|]; [|discriminate]. intros H. injection H as <-. cbn [nth_error]. now apply IH.
Qed.

Lemma position_of_first p keys i :
  position_of p keys = Some i -> forall j, (j < i)%nat -> nth_error keys j <> Some p.
Proof.
  revert i. induction keys as [|k r IH]; intros i; cbn [position_of]; [discriminate|].
  destruct (path_eqb k p) eqn:E.
  - intros H. injection H as <-. intros j Hj. inversion Hj.
  - destruct (position_of p r) as [i'|] eqn:Er; [|discriminate]. intros H. injection H as <-.
    intros [|j] Hj; cbn [nth_error].
    + intros Hk. injection Hk as ->. assert (path_eqb p p = true) by now apply path_eqb_eq. congruence.
    + apply (IH i' eq_refl). lia.
Qed.

Lemma position_of_none p keys : position_of p keys = None -> ~ In p keys.
Proof.
  induction keys as [|k r IH]; cbn [position_of]; [intros _ []|].
  destruct (path_eqb k p) eqn:E; [discriminate|].
  destruct (position_of p r); [discriminate|]. intros _ [H|H].
  - subst. assert (path_eqb p p = true) by now apply path_eqb_eq. congruence.
  - now apply IH.
Qed.

(* An import resolves to a module whose path is EXACTLY the written path, or exactly
   the written path relative to the directory of the importing file - never to a
   module that merely ends with it; the exact path wins; an unmatched import is
   unresolved. *)
Theorem get_key_offset_sound file keys includer i :
  get_key_offset file keys includer = Some i ->
  nth_error keys i = Some file
  \/ (~ In file keys /\ exists dir, parent_of includer = Some dir /\ nth_error keys i = Some (dir ++ file)).
Proof.
  unfold get_key_offset. destruct (position_of file keys) as [j|] eqn:E.
  - intros H. injection H as <-. left. now apply position_of_nth.
  - destruct (parent_of includer) as [dir|]; [|discriminate]. intros H. right.
    split; [now apply position_of_none|]. exists dir. split; [reflexivity|now apply position_of_nth].
Qed.

Theorem get_key_offset_complete file keys includer :
  get_key_offset file keys includer = None ->
  ~ In file keys /\ forall dir, parent_of includer = Some dir -> ~ In (dir ++ file) keys.
Proof.
  unfold get_key_offset. destruct (position_of file keys) as [j|] eqn:E; [discriminate|].
  split; [now apply position_of_none|]. intros dir Hd. rewrite Hd in H. now apply position_of_none.
Qed.

Print Assumptions get_key_offset_sound.
