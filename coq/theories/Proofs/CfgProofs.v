(* Proofs about Model/Cfg.v (control-flow lowering of src/alpha/generator.rs).

   Main results
     lower_body_panics_iff   the generator's `unreachable!()` is hit iff some `loop`
                             is not the last statement of a block
     lower_cfg_wf            labels unique + every goto names a declared label =>
                             the emitted CFG is well formed (cfg_wf / cfg_wfb)
     lower_simulates         labels unique => a structured run that terminates
                             normally is reproduced by the CFG (same final state)
     lower_simulates_trace   the same for the sequence of executed actions
     lower_branch_targets    no branch targets entry / unreachable-after-goto /
                             after-looped-block (the latter two are always dead)
     accepted_not_stuck      on accepted bodies the structured semantics is never stuck
     accepted_compiles       summary for bodies passing the boolean test [accepted]
     stages_accept           Model/Syntax.v + Model/LabelScope.v verdicts imply [accepted]

   Structure: observations of builder states (nb/cur/lk/tg/ins) with rewriting
   lemmas for the primitive operations; the invariant [Inv]; the per-statement
   summary [Step] with its sequencing lemma; the predicate [code] "the code of s
   sits between positions p and q"; [lower_stmt_step] (one induction giving both);
   the simulation [sim_all] by induction on the structured fuel. *)
From PV Require Import Base.Common Model.Cfg.
From PV Require Model.LabelScope Model.Syntax.
Open Scope N_scope.

(* ---- induction principle --------------------------------------------------- *)
Section stmt_ind2.
  Variable P : stmt -> Prop.
  Hypothesis HA : forall a, P (SAct a).
  Hypothesis HG : forall l, P (SGoto l).
  Hypothesis HL : forall l, P (SLabel l).
  Hypothesis HI1 : forall c t, P t -> P (SIf c t None).
  Hypothesis HI2 : forall c t e, P t -> P e -> P (SIf c t (Some e)).
  Hypothesis HB : forall b, Forall P b -> P (SBlock b).
  Hypothesis HO : P SLoop.
  Fixpoint stmt_ind2 (s : stmt) : P s :=
    match s with
    | SAct a => HA a
    | SGoto l => HG l
    | SLabel l => HL l
    | SIf c t None => HI1 c t (stmt_ind2 t)
    | SIf c t (Some e) => HI2 c t e (stmt_ind2 t) (stmt_ind2 e)
    | SBlock b => HB b ((fix go (l : list stmt) : Forall P l :=
                           match l with
                           | [] => Forall_nil P
                           | x :: xs => Forall_cons x (stmt_ind2 x) (go xs)
                           end) b)
    | SLoop => HO
    end.
End stmt_ind2.

(* ---- statement lists --------------------------------------------------------- *)
Lemma ends_in_loop_snoc ss : ends_in_loop ss = true -> ss = removelast ss ++ [SLoop].
Proof.
  induction ss as [|s r IH]; [discriminate|].
  destruct r as [|s' r'].
  - cbn [ends_in_loop removelast app]. destruct s; cbn [is_loop]; try discriminate. reflexivity.
  - intros H. change (ends_in_loop (s :: s' :: r')) with (ends_in_loop (s' :: r')) in H.
    change (removelast (s :: s' :: r')) with (s :: removelast (s' :: r')).
    cbn [app]. f_equal. now apply IH.
Qed.

Lemma ends_in_loop_app_loop ss : ends_in_loop (ss ++ [SLoop]) = true.
Proof.
  induction ss as [|s r IH]; [reflexivity|].
  cbn [app ends_in_loop]. destruct (r ++ [SLoop]) eqn:E; [destruct r; discriminate|exact IH].
Qed.

Lemma labels_block ss : labels_of (SBlock ss) = labels_list ss.
Proof. cbn [labels_of]. induction ss as [|s r IH]; [reflexivity|]. cbn [labels_list]. now rewrite IH. Qed.

Lemma gotos_block ss : gotos_of (SBlock ss) = gotos_list ss.
Proof. cbn [gotos_of]. induction ss as [|s r IH]; [reflexivity|]. cbn [gotos_list]. now rewrite IH. Qed.

Lemma labels_list_app a b : labels_list (a ++ b) = labels_list a ++ labels_list b.
Proof. induction a as [|s r IH]; [reflexivity|]. cbn [app labels_list]. now rewrite IH, app_assoc. Qed.

Lemma gotos_list_app a b : gotos_list (a ++ b) = gotos_list a ++ gotos_list b.
Proof. induction a as [|s r IH]; [reflexivity|]. cbn [app gotos_list]. now rewrite IH, app_assoc. Qed.

Lemma labels_strip ss : labels_list (strip_loop ss) = labels_list ss.
Proof.
  unfold strip_loop. destruct (ends_in_loop ss) eqn:E; [|reflexivity].
  rewrite (ends_in_loop_snoc ss E) at 2. rewrite labels_list_app. cbn. now rewrite app_nil_r.
Qed.

Lemma gotos_strip ss : gotos_list (strip_loop ss) = gotos_list ss.
Proof.
  unfold strip_loop. destruct (ends_in_loop ss) eqn:E; [|reflexivity].
  rewrite (ends_in_loop_snoc ss E) at 2. rewrite gotos_list_app. cbn. now rewrite app_nil_r.
Qed.

(* the local fix of [lower_stmt (SBlock _)] *)
Definition lower_go : list stmt -> bstate -> option bstate :=
  fix go (ss : list stmt) (b : bstate) {struct ss} : option bstate :=
    match ss with
    | [] => Some b
    | s :: r =>
        if is_loop s && is_nil r then Some b else
        match lower_stmt s b with
        | None => None
        | Some b1 => go r b1
        end
    end.

Lemma lower_list_cons s r b :
  lower_list (s :: r) b = match lower_stmt s b with None => None | Some b1 => lower_list r b1 end.
Proof. reflexivity. Qed.

Lemma lower_go_strip ss b : lower_go ss b = lower_list (strip_loop ss) b.
Proof.
  revert b. induction ss as [|s r IH]; intros b; [reflexivity|].
  unfold strip_loop. destruct r as [|s' r'].
  - cbn [lower_go ends_in_loop is_nil]. rewrite andb_true_r.
    destruct (is_loop s); [reflexivity|]. cbn [lower_list]. destruct (lower_stmt s b); reflexivity.
  - change (ends_in_loop (s :: s' :: r')) with (ends_in_loop (s' :: r')).
    change (removelast (s :: s' :: r')) with (s :: removelast (s' :: r')).
    change (lower_go (s :: s' :: r') b) with
      (if is_loop s && false then Some b else
         match lower_stmt s b with None => None | Some b1 => lower_go (s' :: r') b1 end).
    rewrite andb_false_r.
    assert (E : forall b1, lower_go (s' :: r') b1 =
              lower_list (if ends_in_loop (s' :: r') then removelast (s' :: r') else s' :: r') b1)
      by (intros; apply IH).
    destruct (ends_in_loop (s' :: r')); rewrite lower_list_cons; destruct (lower_stmt s b); auto.
Qed.

Lemma lower_block ss b :
  lower_stmt (SBlock ss) b =
  if ends_in_loop ss then
    match lower_list (removelast ss)
            (set_cur (next_id (blocks b))
               (emit_at (cur b) (IBr (next_id (blocks b))) (snd (append_block Looped b)))) with
    | None => None
    | Some b2 =>
        Some (set_cur (next_id (blocks (emit (IBr (next_id (blocks b))) b2)))
                (snd (append_block AfterLooped (emit (IBr (next_id (blocks b))) b2))))
    end
  else lower_list ss b.
Proof.
  change (lower_stmt (SBlock ss) b) with
    (if ends_in_loop ss then
       let '(lp, b1) := append_block Looped b in
       match lower_go ss (set_cur lp (emit_at (cur b) (IBr lp) b1)) with
       | None => None
       | Some b2 =>
           let b3 := emit (IBr lp) b2 in
           let '(al, b4) := append_block AfterLooped b3 in
           Some (set_cur al b4)
       end
     else lower_go ss b).
  destruct (ends_in_loop ss) eqn:E.
  - cbn [append_block snd]. rewrite lower_go_strip. unfold strip_loop. rewrite E. reflexivity.
  - rewrite lower_go_strip. unfold strip_loop. now rewrite E.
Qed.

(* ---- observations of a builder state ------------------------------------------ *)
Definition nb (b : bstate) : N := next_id (blocks b).
Definition lk (b : bstate) (l : N) : option N := lookup_label l (lmap b).
Definition insl (bs : list block) (i : N) : list instr :=
  match get_block bs i with Some blk => binstrs blk | None => [] end.
Definition ins (b : bstate) (i : N) : list instr := insl (blocks b) i.
Definition tagl (bs : list block) (i : N) : option tag :=
  match get_block bs i with Some blk => Some (btag blk) | None => None end.
Definition tg (b : bstate) (i : N) : option tag := tagl (blocks b) i.

(* append_block / find_or_append as state transformers *)
Definition apb (t : tag) (b : bstate) : bstate := snd (append_block t b).
Definition bind_label (l i : N) (b : bstate) : bstate :=
  {| blocks := blocks b; cur := cur b; lmap := (l, i) :: lmap b |}.

Lemma get_block_none bs i : next_id bs <= i -> get_block bs i = None.
Proof. unfold next_id, get_block. intros H. apply nth_error_None. lia. Qed.

Lemma get_block_some bs i : i < next_id bs -> exists blk, get_block bs i = Some blk.
Proof.
  unfold next_id, get_block. intros H.
  destruct (nth_error bs (N.to_nat i)) eqn:E; [eauto|]. apply nth_error_None in E. lia.
Qed.

Lemma ins_oob b i : nb b <= i -> ins b i = [].
Proof. intros H. unfold ins, insl. now rewrite get_block_none. Qed.

Lemma tg_oob b i : nb b <= i -> tg b i = None.
Proof. intros H. unfold tg, tagl. now rewrite get_block_none. Qed.

Lemma tg_some b i t : tg b i = Some t -> i < nb b.
Proof.
  intros H. destruct (N.ltb_spec i (nb b)) as [|Hge]; [assumption|].
  rewrite tg_oob in H by assumption. discriminate.
Qed.

Lemma tg_inb b i : i < nb b -> exists t, tg b i = Some t.
Proof. intros H. unfold tg, tagl. destruct (get_block_some _ _ H) as [blk ->]. eauto. Qed.

(* emit_nth *)
Lemma emit_nth_length n x bs : length (emit_nth n x bs) = length bs.
Proof.
  revert n. induction bs as [|b r IH]; intros n; [reflexivity|].
  destruct n; cbn [emit_nth length]; [reflexivity|]. now rewrite IH.
Qed.

Lemma emit_nth_same n x bs blk :
  nth_error bs n = Some blk ->
  nth_error (emit_nth n x bs) n = Some {| btag := btag blk; binstrs := binstrs blk ++ [x] |}.
Proof.
  revert n. induction bs as [|b r IH]; intros n H; [destruct n; discriminate|].
  destruct n; cbn [emit_nth nth_error] in *; [now inversion H|]. now apply IH.
Qed.

Lemma emit_nth_other n m x bs : n <> m -> nth_error (emit_nth n x bs) m = nth_error bs m.
Proof.
  revert n m. induction bs as [|b r IH]; intros n m H; [reflexivity|].
  destruct n, m; cbn [emit_nth nth_error]; try reflexivity; try congruence.
  apply IH. congruence.
Qed.

(* emit_at *)
Lemma nb_emit_at j x b : nb (emit_at j x b) = nb b.
Proof. unfold nb, next_id, emit_at. cbn [blocks]. now rewrite emit_nth_length. Qed.
Lemma cur_emit_at j x b : cur (emit_at j x b) = cur b.
Proof. reflexivity. Qed.
Lemma lk_emit_at j x b l : lk (emit_at j x b) l = lk b l.
Proof. reflexivity. Qed.

Lemma tg_emit_at j x b i : tg (emit_at j x b) i = tg b i.
Proof.
  unfold tg, tagl, get_block, emit_at. cbn [blocks].
  destruct (N.eq_dec i j) as [->|Hne].
  - destruct (nth_error (blocks b) (N.to_nat j)) eqn:E.
    + now rewrite (emit_nth_same _ _ _ _ E).
    + assert (H : nth_error (emit_nth (N.to_nat j) x (blocks b)) (N.to_nat j) = None).
      { apply nth_error_None. rewrite emit_nth_length. now apply nth_error_None. }
      now rewrite H.
  - rewrite emit_nth_other; [reflexivity|]. intros H. apply Hne. now apply N2Nat.inj.
Qed.

Lemma ins_emit_at j x b i :
  ins (emit_at j x b) i = if (i =? j) && (j <? nb b) then ins b i ++ [x] else ins b i.
Proof.
  unfold ins, insl, get_block, emit_at. cbn [blocks].
  destruct (N.eqb_spec i j) as [->|Hne]; cbn [andb].
  - destruct (N.ltb_spec j (nb b)) as [Hlt|Hge].
    + destruct (get_block_some _ _ Hlt) as [blk E]. unfold get_block in E.
      now rewrite (emit_nth_same _ _ _ _ E), E.
    + assert (E : nth_error (blocks b) (N.to_nat j) = None)
        by (apply nth_error_None; unfold nb, next_id in Hge; lia).
      assert (H : nth_error (emit_nth (N.to_nat j) x (blocks b)) (N.to_nat j) = None).
      { apply nth_error_None. rewrite emit_nth_length. now apply nth_error_None. }
      now rewrite H, E.
  - rewrite emit_nth_other; [reflexivity|]. intros H. apply Hne. now apply N2Nat.inj.
Qed.

Lemma nb_emit x b : nb (emit x b) = nb b.
Proof. apply nb_emit_at. Qed.
Lemma cur_emit x b : cur (emit x b) = cur b.
Proof. reflexivity. Qed.
Lemma lk_emit x b l : lk (emit x b) l = lk b l.
Proof. reflexivity. Qed.
Lemma tg_emit x b i : tg (emit x b) i = tg b i.
Proof. apply tg_emit_at. Qed.
Lemma ins_emit x b i :
  ins (emit x b) i = if (i =? cur b) && (cur b <? nb b) then ins b i ++ [x] else ins b i.
Proof. apply ins_emit_at. Qed.

(* set_cur *)
Lemma nb_set_cur j b : nb (set_cur j b) = nb b. Proof. reflexivity. Qed.
Lemma cur_set_cur j b : cur (set_cur j b) = j. Proof. reflexivity. Qed.
Lemma lk_set_cur j b l : lk (set_cur j b) l = lk b l. Proof. reflexivity. Qed.
Lemma tg_set_cur j b i : tg (set_cur j b) i = tg b i. Proof. reflexivity. Qed.
Lemma ins_set_cur j b i : ins (set_cur j b) i = ins b i. Proof. reflexivity. Qed.

(* append_block *)
Lemma append_block_eq t b : append_block t b = (nb b, apb t b).
Proof. reflexivity. Qed.

Lemma nb_apb t b : nb (apb t b) = N.succ (nb b).
Proof.
  unfold nb, next_id, apb, append_block. cbn [snd blocks]. rewrite app_length. cbn [length]. lia.
Qed.
Lemma cur_apb t b : cur (apb t b) = cur b. Proof. reflexivity. Qed.
Lemma lk_apb t b l : lk (apb t b) l = lk b l. Proof. reflexivity. Qed.

Lemma get_block_apb t b i :
  get_block (blocks (apb t b)) i =
  if i =? nb b then Some {| btag := t; binstrs := [] |} else get_block (blocks b) i.
Proof.
  unfold get_block, apb, append_block, nb, next_id. cbn [snd blocks].
  destruct (N.eqb_spec i (N.of_nat (length (blocks b)))) as [->|Hne].
  - rewrite Nat2N.id, nth_error_app2, Nat.sub_diag by lia. reflexivity.
  - destruct (Nat.lt_ge_cases (N.to_nat i) (length (blocks b))) as [Hlt|Hge].
    + now rewrite nth_error_app1.
    + assert (E : nth_error (blocks b) (N.to_nat i) = None) by now apply nth_error_None.
      rewrite E. apply nth_error_None. rewrite app_length. cbn [length]. lia.
Qed.

Lemma tg_apb t b i : tg (apb t b) i = if i =? nb b then Some t else tg b i.
Proof. unfold tg, tagl. rewrite get_block_apb. now destruct (i =? nb b). Qed.

Lemma ins_apb t b i : ins (apb t b) i = ins b i.
Proof.
  unfold ins, insl. rewrite get_block_apb. destruct (N.eqb_spec i (nb b)) as [->|]; [|reflexivity].
  unfold nb. rewrite get_block_none by lia. reflexivity.
Qed.

(* bind_label *)
Lemma nb_bind l i b : nb (bind_label l i b) = nb b. Proof. reflexivity. Qed.
Lemma cur_bind l i b : cur (bind_label l i b) = cur b. Proof. reflexivity. Qed.
Lemma tg_bind l i b j : tg (bind_label l i b) j = tg b j. Proof. reflexivity. Qed.
Lemma ins_bind l i b j : ins (bind_label l i b) j = ins b j. Proof. reflexivity. Qed.
Lemma lk_bind l i b l' : lk (bind_label l i b) l' = if l' =? l then Some i else lk b l'.
Proof. reflexivity. Qed.

Lemma foa_cases l b :
  (exists i, lk b l = Some i /\ find_or_append l b = (i, b)) \/
  (lk b l = None /\ find_or_append l b = (nb b, bind_label l (nb b) (apb (Lbl l) b))).
Proof.
  unfold find_or_append, lk. destruct (lookup_label l (lmap b)) as [i|]; [left; eauto|right].
  split; reflexivity.
Qed.

Global Hint Rewrite nb_emit_at cur_emit_at lk_emit_at tg_emit_at ins_emit_at
  nb_emit cur_emit lk_emit tg_emit ins_emit
  nb_set_cur cur_set_cur lk_set_cur tg_set_cur ins_set_cur
  nb_apb cur_apb lk_apb tg_apb ins_apb
  nb_bind cur_bind tg_bind ins_bind lk_bind : obs.

(* case analysis on the N comparisons left by the rewriting *)
Ltac nsplit :=
  repeat match goal with
  | |- context [N.eqb ?a ?b] => destruct (N.eqb_spec a b)
  | |- context [N.ltb ?a ?b] => destruct (N.ltb_spec a b)
  | H : context [N.eqb ?a ?b] |- _ => destruct (N.eqb_spec a b)
  | H : context [N.ltb ?a ?b] |- _ => destruct (N.ltb_spec a b)
  end; cbn [andb orb negb] in *.

Ltac obs := autorewrite with obs in *.

(* ---- open and closed blocks ------------------------------------------------------ *)
Definition nonterm (x : instr) : Prop := is_term x = false.
Definition openl (l : list instr) : Prop := Forall nonterm l.
Definition closedl (n : N) (l : list instr) : Prop :=
  exists body t, l = body ++ [t] /\ openl body /\ is_term t = true /\ target_ok n t = true.

Lemma target_ok_mono n n' t : target_ok n t = true -> n <= n' -> target_ok n' t = true.
Proof.
  destruct t; cbn [target_ok]; intros H Hle; try reflexivity.
  - apply N.ltb_lt in H. apply N.ltb_lt. lia.
  - apply andb_true_iff in H. destruct H as [H1 H2]. apply N.ltb_lt in H1, H2.
    apply andb_true_iff. split; apply N.ltb_lt; lia.
Qed.

Lemma closedl_mono n n' l : closedl n l -> n <= n' -> closedl n' l.
Proof.
  intros (body & t & -> & Ho & Ht & Hk) Hle. exists body, t. repeat split; auto.
  eapply target_ok_mono; eauto.
Qed.

Lemma closedl_snoc n l t : openl l -> is_term t = true -> target_ok n t = true -> closedl n (l ++ [t]).
Proof. intros. exists l, t. auto. Qed.

Lemma closed_not_open n l : closedl n l -> openl l -> False.
Proof.
  intros (body & t & -> & _ & Ht & _) Ho. unfold openl in Ho. rewrite Forall_app in Ho.
  destruct Ho as [_ Ho]. inversion Ho as [|? ? Hn _]. unfold nonterm in Hn. congruence.
Qed.

Lemma closedl_nonnil n l : closedl n l -> l <> [].
Proof. intros (body & t & -> & _). destruct body; discriminate. Qed.

Lemma openl_nil : openl [].
Proof. constructor. Qed.

Lemma openl_snoc l x : openl l -> is_term x = false -> openl (l ++ [x]).
Proof. intros Ho Hx. unfold openl. rewrite Forall_app. split; [assumption|]. now repeat constructor. Qed.

(* ---- invariant of the builder ------------------------------------------------------
   [P] = the labels whose Label statement has not been generated yet. *)
Record Inv (b : bstate) (P : N -> Prop) : Prop := {
  inv_cur : cur b < nb b;
  inv_lk : forall l i, lk b l = Some i -> i < nb b /\ tg b i = Some (Lbl l);
  inv_tg : forall i l, tg b i = Some (Lbl l) -> lk b l = Some i;
  inv_pend : forall l i, P l -> lk b l = Some i -> ins b i = [] /\ i <> cur b;
  inv_open : openl (ins b (cur b));
  inv_entry : forall i, tg b i = Some Entry <-> i = 0
}.

Lemma Inv_weaken b (P Q : N -> Prop) : (forall l, Q l -> P l) -> Inv b P -> Inv b Q.
Proof. intros H [H1 H2 H3 H4 H5 H6]. constructor; auto. intros l i HQ. apply H4. auto. Qed.

Lemma Inv_lk_inj b P l l' i : Inv b P -> lk b l = Some i -> lk b l' = Some i -> l = l'.
Proof.
  intros HI H1 H2. apply (inv_lk _ _ HI) in H1, H2. destruct H1 as [_ H1], H2 as [_ H2]. congruence.
Qed.

(* ---- extension ---------------------------------------------------------------------- *)
Record Ext (b b' : bstate) : Prop := {
  ext_nb : nb b <= nb b';
  ext_tg : forall i, i < nb b -> tg b' i = tg b i;
  ext_ins : forall i, exists suf, ins b' i = ins b i ++ suf;
  ext_lk : forall l i, lk b l = Some i -> lk b' l = Some i
}.

Lemma Ext_refl b : Ext b b.
Proof. constructor; auto; try lia. intros i. exists []. now rewrite app_nil_r. Qed.

Lemma Ext_trans a b c : Ext a b -> Ext b c -> Ext a c.
Proof.
  intros [A1 A2 A3 A4] [B1 B2 B3 B4]. constructor.
  - lia.
  - intros i Hi. rewrite B2 by lia. now apply A2.
  - intros i. destruct (A3 i) as [s1 E1], (B3 i) as [s2 E2]. exists (s1 ++ s2).
    now rewrite E2, E1, app_assoc.
  - auto.
Qed.

Lemma Ext_emit_at j x b : Ext b (emit_at j x b).
Proof.
  constructor; intros; obs; auto; try lia.
  destruct ((i =? j) && (j <? nb b)); [eauto|]. exists []. now rewrite app_nil_r.
Qed.

Lemma Ext_set_cur j b : Ext b (set_cur j b).
Proof. constructor; intros; obs; auto; try lia. exists []. now rewrite app_nil_r. Qed.

Lemma Ext_apb t b : Ext b (apb t b).
Proof.
  constructor; intros; obs; auto; try lia.
  - nsplit; [lia|reflexivity].
  - exists []. now rewrite app_nil_r.
Qed.

Lemma Ext_bind l j b : lk b l = None -> Ext b (bind_label l j b).
Proof.
  intros Hn. constructor; intros; obs; auto; try lia.
  - exists []. now rewrite app_nil_r.
  - nsplit; [congruence|assumption].
Qed.

Lemma Ext_foa l b : Ext b (snd (find_or_append l b)).
Proof.
  destruct (foa_cases l b) as [(i & _ & ->)|[Hn ->]]; cbn [snd]; [apply Ext_refl|].
  eapply Ext_trans; [apply Ext_apb|]. apply Ext_bind. now obs.
Qed.

(* ---- positions and the "code of s sits at p .. q" predicate -------------------------- *)
Definition pos : Type := N * nat.
Definition iat (g : bstate) (p : pos) : option instr := nth_error (ins g (fst p)) (snd p).
Definition curpos (b : bstate) : pos := (cur b, length (ins b (cur b))).

Section Code.
Variable g : bstate.

Fixpoint code (s : stmt) (p q : pos) {struct s} : Prop :=
  match s with
  | SAct a => iat g p = Some (IAct a) /\ q = (fst p, S (snd p))
  | SGoto l => exists lb, iat g p = Some (IBr lb) /\ lk g l = Some lb
  | SLabel l => exists lb, iat g p = Some (IBr lb) /\ lk g l = Some lb /\ q = (lb, O)
  | SIf c t e =>
      match e with
      | None =>
          exists th af pe,
            iat g p = Some (ICmp c) /\ iat g (fst p, S (snd p)) = Some (ICondBr c th af) /\
            code t (th, O) pe /\ iat g pe = Some (IBr af) /\ q = (af, O)
      | Some e' =>
          exists th el af pe pe',
            iat g p = Some (ICmp c) /\ iat g (fst p, S (snd p)) = Some (ICondBr c th el) /\
            code t (th, O) pe /\ iat g pe = Some (IBr af) /\
            code e' (el, O) pe' /\ iat g pe' = Some (IBr af) /\ q = (af, O)
      end
  | SBlock ss =>
      let fix go (ss : list stmt) (p q : pos) {struct ss} : Prop :=
        match ss with
        | [] => p = q
        | s :: r => if is_loop s && is_nil r then p = q else exists m, code s p m /\ go r m q
        end in
      if ends_in_loop ss then
        exists lp pe, iat g p = Some (IBr lp) /\ go ss (lp, O) pe /\ iat g pe = Some (IBr lp)
      else go ss p q
  | SLoop => False
  end.

Fixpoint code_list (ss : list stmt) (p q : pos) : Prop :=
  match ss with
  | [] => p = q
  | s :: r => exists m, code s p m /\ code_list r m q
  end.

Definition code_go : list stmt -> pos -> pos -> Prop :=
  fix go (ss : list stmt) (p q : pos) {struct ss} : Prop :=
    match ss with
    | [] => p = q
    | s :: r => if is_loop s && is_nil r then p = q else exists m, code s p m /\ go r m q
    end.

Lemma code_go_strip ss p q : code_go ss p q <-> code_list (strip_loop ss) p q.
Proof.
  revert p. induction ss as [|s r IH]; intros p; [reflexivity|].
  unfold strip_loop. destruct r as [|s' r'].
  - cbn [code_go ends_in_loop is_nil]. rewrite andb_true_r.
    destruct (is_loop s); [reflexivity|]. cbn [code_list]. reflexivity.
  - change (ends_in_loop (s :: s' :: r')) with (ends_in_loop (s' :: r')).
    change (removelast (s :: s' :: r')) with (s :: removelast (s' :: r')).
    change (code_go (s :: s' :: r') p q) with
      (if is_loop s && false then p = q else exists m, code s p m /\ code_go (s' :: r') m q).
    rewrite andb_false_r.
    assert (E : forall m, code_go (s' :: r') m q <->
              code_list (if ends_in_loop (s' :: r') then removelast (s' :: r') else s' :: r') m q)
      by (intros; apply IH).
    destruct (ends_in_loop (s' :: r'));
      (change (code_list (s :: ?x) p q) with (exists m, code s p m /\ code_list x m q));
      split; intros (m & H1 & H2); exists m; (split; [assumption|]); now apply E.
Qed.

Lemma code_block ss p q :
  code (SBlock ss) p q <->
  if ends_in_loop ss then
    exists lp pe, iat g p = Some (IBr lp) /\ code_list (removelast ss) (lp, O) pe /\
                  iat g pe = Some (IBr lp)
  else code_list ss p q.
Proof.
  change (code (SBlock ss) p q) with
    (if ends_in_loop ss then
       exists lp pe, iat g p = Some (IBr lp) /\ code_go ss (lp, O) pe /\ iat g pe = Some (IBr lp)
     else code_go ss p q).
  destruct (ends_in_loop ss) eqn:E.
  - split; intros (lp & pe & H1 & H2 & H3); exists lp, pe; (split; [assumption|]);
      (split; [|assumption]); apply code_go_strip in H2 || apply code_go_strip;
      unfold strip_loop in *; rewrite E in *; assumption.
  - rewrite code_go_strip. unfold strip_loop. now rewrite E.
Qed.
End Code.

Lemma iat_ext b b' p x : Ext b b' -> iat b p = Some x -> iat b' p = Some x.
Proof.
  intros HE H. unfold iat in *. destruct (ext_ins _ _ HE (fst p)) as [suf ->].
  rewrite nth_error_app1; [assumption|]. apply nth_error_Some. congruence.
Qed.

Lemma iat_snoc b i l x : ins b i = l ++ [x] -> iat b (i, length l) = Some x.
Proof.
  intros H. unfold iat. cbn [fst snd]. rewrite H, nth_error_app2, Nat.sub_diag by lia. reflexivity.
Qed.

Lemma code_ext b b' : Ext b b' -> forall s p q, code b s p q -> code b' s p q.
Proof.
  intros HE. induction s as [a|l|l|c t IHt|c t e IHt IHe|ss IHss|] using stmt_ind2; intros p q H.
  - destruct H as [H ->]. split; [eapply iat_ext; eauto|reflexivity].
  - destruct H as (lb & H1 & H2). exists lb. split; [eapply iat_ext; eauto|].
    eapply ext_lk; eauto.
  - destruct H as (lb & H1 & H2 & ->). exists lb. repeat split; [eapply iat_ext; eauto|].
    eapply ext_lk; eauto.
  - destruct H as (th & af & pe & H1 & H2 & H3 & H4 & ->). exists th, af, pe.
    repeat split; eauto using iat_ext.
  - destruct H as (th & el & af & pe & pe' & H1 & H2 & H3 & H4 & H5 & H6 & ->).
    exists th, el, af, pe, pe'. repeat split; eauto using iat_ext.
  - assert (HL : forall ss', Forall (fun s => forall p q, code b s p q -> code b' s p q) ss' ->
                 forall p q, code_list b ss' p q -> code_list b' ss' p q).
    { induction 1 as [|s r Hs _ IH]; intros p0 q0 H0; [exact H0|].
      destruct H0 as (m & H1 & H2). exists m. split; auto. }
    apply code_block in H. apply code_block. destruct (ends_in_loop ss) eqn:E.
    + destruct H as (lp & pe & H1 & H2 & H3). exists lp, pe. repeat split; eauto using iat_ext.
      apply HL; [|assumption]. rewrite (ends_in_loop_snoc ss E) in IHss.
      apply Forall_app in IHss. tauto.
    + now apply HL.
  - destruct H.
Qed.

Lemma code_list_ext b b' : Ext b b' -> forall ss p q, code_list b ss p q -> code_list b' ss p q.
Proof.
  intros HE. induction ss as [|s r IH]; intros p q H; [exact H|].
  destruct H as (m & H1 & H2). exists m. split; [eapply code_ext; eauto|auto].
Qed.

Definition minus (P : N -> Prop) (ls : list N) : N -> Prop := fun l => P l /\ ~ In l ls.
Definition lblk (b : bstate) (ls : list N) (i : N) : Prop := exists l, In l ls /\ lk b l = Some i.

Record Step (ls gs : list N) (P : N -> Prop) (b b' : bstate) : Prop := {
  st_ext : Ext b b';
  st_inv : Inv b' (minus P ls);
  st_frame : forall i, i < nb b -> i <> cur b -> ~ lblk b ls i -> ins b' i = ins b i;
  st_newlk : forall l i, lk b l = None -> lk b' l = Some i -> nb b <= i;
  st_cur : cur b' = cur b \/ nb b <= cur b' \/ lblk b ls (cur b');
  st_bound : forall l, In l ls -> lk b' l <> None;
  st_close_cur : cur b' <> cur b -> closedl (nb b') (ins b' (cur b));
  st_new : (forall l, In l gs -> In l ls \/ P l \/ lk b l <> None) ->
           forall i, nb b <= i -> i < nb b' -> i <> cur b' ->
           closedl (nb b') (ins b' i) \/ (exists l, lk b' l = Some i /\ minus P ls l);
  st_lblk : forall i, lblk b ls i -> i = cur b' \/ closedl (nb b') (ins b' i)
}.

Lemma lblk_nil b i : ~ lblk b [] i.
Proof. intros (l & [] & _). Qed.

Lemma step_act a b P : Inv b P -> Step [] [] P b (emit (IAct a) b).
Proof.
  intros HI. pose proof (inv_cur _ _ HI) as Hc. constructor.
  - apply Ext_emit_at.
  - constructor; intros; obs.
    + assumption.
    + now apply (inv_lk _ _ HI).
    + now apply (inv_tg _ _ HI).
    + destruct H as [HP _]. destruct (inv_pend _ _ HI l i HP H0) as [H1 H2].
      nsplit; try lia. auto.
    + nsplit; try lia. apply openl_snoc; [apply (inv_open _ _ HI)|reflexivity].
    + apply (inv_entry _ _ HI).
  - intros i Hi Hn _. obs. nsplit; try lia; reflexivity.
  - intros l i H1 H2. obs. congruence.
  - left. reflexivity.
  - intros l [].
  - obs. congruence.
  - intros _ i H1 H2. obs. lia.
  - intros i H. now apply lblk_nil in H.
Qed.

Ltac sat :=
  repeat match goal with
  | HI : Inv ?b _, H : lk ?b ?l = Some ?i |- _ =>
      lazymatch goal with _ : tg b i = Some (Lbl l) |- _ => fail | _ => idtac end;
      let H1 := fresh "Hlt" in let H2 := fresh "Htg" in
      destruct (inv_lk _ _ HI l i H) as [H1 H2]
  | HI : Inv ?b ?P, H : lk ?b ?l = Some ?i, HP : ?P ?l |- _ =>
      lazymatch goal with _ : ins b i = [] |- _ => fail | _ => idtac end;
      let H1 := fresh "Hemp" in let H2 := fresh "Hnc" in
      destruct (inv_pend _ _ HI l i HP H) as [H1 H2]
  | HI : Inv ?b _, H : tg ?b ?i = Some (Lbl ?l) |- _ =>
      lazymatch goal with _ : lk b l = Some i |- _ => fail | _ => idtac end;
      let H1 := fresh "Hlk" in pose proof (inv_tg _ _ HI i l H) as H1
  end.

Ltac inj := repeat match goal with H : Some _ = Some _ |- _ => inversion H; clear H; subst end.
Ltac fin1 :=
  first [ lia | congruence | assumption | reflexivity | discriminate
        | (rewrite ins_oob by lia; first [reflexivity | apply openl_nil])
        | match goal with HI : Inv ?b _ |- tg ?b _ = Some Entry <-> _ => apply (inv_entry _ _ HI) end
        | match goal with HI : Inv ?b _ |- lk ?b _ = Some _ => apply (inv_tg _ _ HI); assumption end
        | (split; [discriminate | intros; lia]) ].
Ltac fin := try solve [ inj; sat; subst; first [ fin1 | repeat split; fin1 ] ].

Lemma lower_goto l b :
  lower_stmt (SGoto l) b =
  Some (set_cur (nb b) (emit_at (cur b) (IBr (fst (find_or_append l (apb Unreachable b))))
                          (snd (find_or_append l (apb Unreachable b))))).
Proof.
  change (lower_stmt (SGoto l) b) with
    (let '(u, b1) := append_block Unreachable b in
     let '(lb, b2) := find_or_append l b1 in
     Some (set_cur u (emit_at (cur b) (IBr lb) b2))).
  rewrite append_block_eq. destruct (find_or_append l (apb Unreachable b)). reflexivity.
Qed.

Lemma step_goto l b P lb b2 :
  Inv b P -> find_or_append l (apb Unreachable b) = (lb, b2) ->
  let b' := set_cur (nb b) (emit_at (cur b) (IBr lb) b2) in
  Step [] [l] P b b' /\ code b' (SGoto l) (curpos b) (curpos b').
Proof.
  intros HI Hf b'. pose proof (inv_cur _ _ HI) as Hc.
  pose proof (inv_open _ _ HI) as Ho.
  assert (HE : Ext b b').
  { subst b'. eapply Ext_trans; [apply (Ext_apb Unreachable)|].
    eapply Ext_trans; [apply (Ext_foa l)|]. rewrite Hf. cbn [snd].
    eapply Ext_trans; [apply Ext_emit_at|apply Ext_set_cur]. }
  destruct (foa_cases l (apb Unreachable b)) as [(i & Hl & E)|[Hl E]];
    rewrite E in Hf; inversion Hf; subst lb b2; clear Hf E; obs.
  - (* the label already has a block *)
    sat. subst b'. split; [constructor|].
    + exact HE.
    + constructor; intros; obs.
      * lia.
      * nsplit; fin.
      * nsplit; fin.
      * destruct H as [HP _]. nsplit; fin.
      * nsplit; fin.
      * nsplit; fin. 
    + intros j Hj Hn _. obs. nsplit; fin.
    + intros l' j H1 H2. obs. congruence.
    + right. left. obs. lia.
    + intros l' [].
    + intros _. obs. nsplit; try lia. apply closedl_snoc; auto.
      cbn [target_ok]. apply N.ltb_lt. lia.
    + intros _ j H1 H2 H3. obs. lia.
    + intros j H. now apply lblk_nil in H.
    + exists i. obs. split; [|assumption]. unfold curpos. nsplit; try lia.
      apply iat_snoc. obs. nsplit; try lia. reflexivity.
  - (* a fresh block for the label *)
    subst b'. split; [constructor|].
    + exact HE.
    + constructor; intros; obs.
      * lia.
      * nsplit; fin.
      * nsplit; fin.
      * destruct H as [HP _]. nsplit; fin.
      * nsplit; fin.
      * nsplit; fin.
    + intros j Hj Hn _. obs. nsplit; fin.
    + intros l' j H1 H2. obs. nsplit; fin.
    + right. left. obs. lia.
    + intros l' [].
    + intros _. obs. nsplit; try lia. apply closedl_snoc; auto.
      cbn [target_ok]. apply N.ltb_lt. lia.
    + intros Hg j H1 H2 H3. obs. right. exists l. obs. rewrite N.eqb_refl.
      split; [f_equal; lia|]. split; [|intros []].
      destruct (Hg l (or_introl eq_refl)) as [[]|[HP|Hn]]; [assumption|congruence].
    + intros j H. now apply lblk_nil in H.
    + exists (N.succ (nb b)). obs. rewrite N.eqb_refl. split; [|reflexivity].
      unfold curpos. apply iat_snoc. obs. nsplit; try lia. reflexivity.
Qed.

Lemma lower_label l b :
  lower_stmt (SLabel l) b =
  Some (set_cur (fst (find_or_append l b))
          (emit_at (cur b) (IBr (fst (find_or_append l b))) (snd (find_or_append l b)))).
Proof.
  change (lower_stmt (SLabel l) b) with
    (let '(lb, b1) := find_or_append l b in Some (set_cur lb (emit_at (cur b) (IBr lb) b1))).
  destruct (find_or_append l b). reflexivity.
Qed.

Lemma lblk_one b l i : lblk b [l] i <-> lk b l = Some i.
Proof.
  split.
  - intros (l' & [<-|[]] & H). exact H.
  - intros H. exists l. split; [now left|assumption].
Qed.

Lemma step_label l b P lb b1 :
  Inv b P -> P l -> find_or_append l b = (lb, b1) ->
  let b' := set_cur lb (emit_at (cur b) (IBr lb) b1) in
  Step [l] [] P b b' /\ code b' (SLabel l) (curpos b) (curpos b').
Proof.
  intros HI HP Hf b'. pose proof (inv_cur _ _ HI) as Hc.
  pose proof (inv_open _ _ HI) as Ho.
  assert (HE : Ext b b').
  { subst b'. eapply Ext_trans; [apply (Ext_foa l)|]. rewrite Hf. cbn [snd].
    eapply Ext_trans; [apply Ext_emit_at|apply Ext_set_cur]. }
  destruct (foa_cases l b) as [(i & Hl & E)|[Hl E]];
    rewrite E in Hf; inversion Hf; subst lb b1; clear Hf E; obs.
  - (* the block was created by an earlier goto *)
    sat. subst b'. split; [constructor|].
    + exact HE.
    + constructor; intros; obs.
      * lia.
      * nsplit; fin.
      * nsplit; fin.
      * destruct H as [HP' Hn]. nsplit; fin. sat. split; [assumption|]. intros ->.
        apply Hn. left. eapply Inv_lk_inj; eauto.
      * nsplit; fin. rewrite Hemp. apply openl_nil.
      * nsplit; fin.
    + intros j Hj Hn _. obs. nsplit; fin.
    + intros l' j H1 H2. obs. congruence.
    + right. right. obs. now apply lblk_one.
    + intros l' [<-|[]]. obs. congruence.
    + intros _. obs. nsplit; try lia. apply closedl_snoc; auto.
      cbn [target_ok]. apply N.ltb_lt. lia.
    + intros _ j H1 H2 H3. obs. lia.
    + intros j H. apply lblk_one in H. left. obs. congruence.
    + exists i. obs. repeat split; [|assumption|].
      * unfold curpos. apply iat_snoc. obs. nsplit; try lia. reflexivity.
      * unfold curpos. obs. nsplit; fin. now rewrite Hemp.
  - (* a fresh block *)
    subst b'. split; [constructor|].
    + exact HE.
    + constructor; intros; obs.
      * lia.
      * nsplit; fin.
      * nsplit; fin.
      * destruct H as [HP' Hn]. nsplit; fin. subst. exfalso. apply Hn. now left.
      * nsplit; fin.
      * nsplit; fin.
    + intros j Hj Hn _. obs. nsplit; fin.
    + intros l' j H1 H2. obs. nsplit; fin.
    + right. left. obs. lia.
    + intros l' [<-|[]]. obs. now rewrite N.eqb_refl.
    + intros _. obs. nsplit; try lia. apply closedl_snoc; auto.
      cbn [target_ok]. apply N.ltb_lt. lia.
    + intros _ j H1 H2 H3. obs. lia.
    + intros j H. apply lblk_one in H. congruence.
    + exists (nb b). obs. rewrite N.eqb_refl. repeat split.
      * unfold curpos. apply iat_snoc. obs. nsplit; try lia. reflexivity.
      * unfold curpos. obs. nsplit; fin.
Qed.

Lemma minus_app P ls1 ls2 l : minus P (ls1 ++ ls2) l <-> minus (minus P ls1) ls2 l.
Proof. unfold minus. rewrite in_app_iff. tauto. Qed.

Lemma lk_cases b l : lk b l = None \/ exists i, lk b l = Some i.
Proof. destruct (lk b l); eauto. Qed.

Lemma Step_seq ls1 gs1 ls2 gs2 P b b1 b2 :
  Inv b P -> (forall l, In l (ls1 ++ ls2) -> P l) -> NoDup (ls1 ++ ls2) ->
  Step ls1 gs1 P b b1 -> Step ls2 gs2 (minus P ls1) b1 b2 ->
  Step (ls1 ++ ls2) (gs1 ++ gs2) P b b2.
Proof.
  intros HI HP Hnd S1 S2.
  pose proof (st_inv _ _ _ _ _ S1) as I1. pose proof (st_inv _ _ _ _ _ S2) as I2.
  pose proof (st_ext _ _ _ _ _ S1) as E1. pose proof (st_ext _ _ _ _ _ S2) as E2.
  pose proof (ext_nb _ _ E1) as N1. pose proof (ext_nb _ _ E2) as N2.
  pose proof (inv_cur _ _ HI) as Hc.
  assert (HP2 : forall l, In l ls2 -> minus P ls1 l).
  { intros l Hl. split; [apply HP, in_or_app; now right|].
    intros Hl1.
    clear -Hnd Hl Hl1. induction ls1 as [|x xs IH]; [destruct Hl1|].
    cbn [app] in Hnd. inversion Hnd as [|? ? Hx Hr]; subst. destruct Hl1 as [->|Hl1].
    - apply Hx, in_or_app. now right.
    - now apply IH. }
  (* old label blocks: labels of the second part seen from [b] *)
  assert (HL2 : forall i, lblk b1 ls2 i -> lblk b ls2 i \/ nb b <= i).
  { intros i (l & Hl & Hk). destruct (lk_cases b l) as [Hn|[j Hj]].
    - right. eapply st_newlk; eauto.
    - left. exists l. split; [assumption|]. rewrite (ext_lk _ _ E1 _ _ Hj) in Hk. congruence. }
  (* closed blocks stay closed through the second part *)
  assert (K : forall i, i < nb b1 -> closedl (nb b1) (ins b1 i) -> closedl (nb b2) (ins b2 i)).
  { intros i Hi Hcl.
    assert (Hn : i <> cur b1).
    { intros ->. eapply closed_not_open; [exact Hcl|apply (inv_open _ _ I1)]. }
    rewrite (st_frame _ _ _ _ _ S2 i Hi Hn); [eapply closedl_mono; eauto|].
    intros (l & Hl & Hk). destruct (inv_pend _ _ I1 l i (HP2 l Hl) Hk) as [Hemp _].
    apply closedl_nonnil in Hcl. congruence. }
  constructor.
  - eapply Ext_trans; eauto.
  - eapply Inv_weaken; [|exact I2]. intros l. apply minus_app.
  - intros i Hi Hn Hnl.
    rewrite <- (st_frame _ _ _ _ _ S1 i Hi Hn).
    + apply (st_frame _ _ _ _ _ S2); [lia| |].
      * destruct (st_cur _ _ _ _ _ S1) as [H|[H|H]]; [congruence|lia|].
        intros ->. apply Hnl. destruct H as (l & Hl & Hk). exists l.
        split; [apply in_or_app; now left|assumption].
      * intros H. destruct (HL2 i H) as [(l & Hl & Hk)|H']; [|lia].
        apply Hnl. exists l. split; [apply in_or_app; now right|assumption].
    + intros (l & Hl & Hk). apply Hnl. exists l. split; [apply in_or_app; now left|assumption].
  - intros l i Hn Hk. destruct (lk_cases b1 l) as [Hn1|[j Hj]].
    + pose proof (st_newlk _ _ _ _ _ S2 l i Hn1 Hk). lia.
    + rewrite (ext_lk _ _ E2 _ _ Hj) in Hk. inversion Hk; subst.
      eapply st_newlk; eauto.
  - destruct (st_cur _ _ _ _ _ S2) as [H|[H|H]].
    + rewrite H. destruct (st_cur _ _ _ _ _ S1) as [H1|[H1|H1]]; [now left|right; now left|].
      right. right. destruct H1 as (l & Hl & Hk). exists l. split; [apply in_or_app; now left|assumption].
    + right. left. lia.
    + destruct (HL2 _ H) as [(l & Hl & Hk)|H']; [|right; now left].
      right. right. exists l. split; [apply in_or_app; now right|assumption].
  - intros l Hl. apply in_app_or in Hl. destruct Hl as [Hl|Hl].
    + pose proof (st_bound _ _ _ _ _ S1 l Hl) as Hb. destruct (lk b1 l) as [j|] eqn:Hj; [|congruence].
      rewrite (ext_lk _ _ E2 _ _ Hj). discriminate.
    + now apply (st_bound _ _ _ _ _ S2).
  - intros Hne. destruct (N.eq_dec (cur b1) (cur b)) as [He|Hne1].
    + rewrite <- He. apply (st_close_cur _ _ _ _ _ S2). congruence.
    + apply K; [lia|]. now apply (st_close_cur _ _ _ _ _ S1).
  - intros Hg i Hi1 Hi2 Hn.
    assert (Hg1 : forall l, In l gs1 -> In l ls1 \/ P l \/ lk b l <> None).
    { intros l Hl. destruct (Hg l (in_or_app _ _ _ (or_introl Hl))) as [H|H]; [|now right].
      apply in_app_or in H. destruct H as [H|H]; [now left|]. right. left. apply HP, in_or_app. now right. }
    assert (Hg2 : forall l, In l gs2 -> In l ls2 \/ minus P ls1 l \/ lk b1 l <> None).
    { intros l Hl.
      assert (Hb : In l ls1 -> lk b1 l <> None) by apply (st_bound _ _ _ _ _ S1).
      destruct (Hg l (in_or_app _ _ _ (or_intror Hl))) as [H|[H|H]].
      - apply in_app_or in H. destruct H as [H|H]; [right; right; auto|now left].
      - destruct (in_dec N.eq_dec l ls1) as [Hi|Hni]; [right; right; auto|].
        right. left. split; assumption.
      - right. right. destruct (lk b l) as [j|] eqn:Hj; [|congruence].
        rewrite (ext_lk _ _ E1 _ _ Hj). discriminate. }
    destruct (N.ltb_spec i (nb b1)) as [Hlt|Hge].
    + destruct (N.eq_dec i (cur b1)) as [->|Hn1].
      * left. apply (st_close_cur _ _ _ _ _ S2). congruence.
      * destruct (st_new _ _ _ _ _ S1 Hg1 i Hi1 Hlt Hn1) as [Hcl|(l & Hk & Hm)].
        -- left. now apply K.
        -- destruct (in_dec N.eq_dec l ls2) as [Hi|Hni].
           ++ destruct (st_lblk _ _ _ _ _ S2 i) as [H|H]; [exists l; auto|congruence|now left].
           ++ right. exists l. split; [eapply ext_lk; eauto|]. apply minus_app. split; assumption.
    + destruct (st_new _ _ _ _ _ S2 Hg2 i Hge Hi2 Hn) as [Hcl|(l & Hk & Hm)]; [now left|].
      right. exists l. split; [assumption|]. now apply minus_app.
  - intros i (l & Hl & Hk). apply in_app_or in Hl. destruct Hl as [Hl|Hl].
    + destruct (st_lblk _ _ _ _ _ S1 i) as [H|H]; [exists l; auto| |].
      * subst i. destruct (N.eq_dec (cur b2) (cur b1)) as [He|Hne]; [now left|].
        right. now apply (st_close_cur _ _ _ _ _ S2).
      * right. apply K; [|assumption]. destruct (inv_lk _ _ HI _ _ Hk). lia.
    + apply (st_lblk _ _ _ _ _ S2). exists l. split; [assumption|]. eapply ext_lk; eauto.
Qed.

(* entering a fresh block *)
Lemma Inv_enter b P b' :
  Inv b P -> nb b' = N.succ (nb b) -> cur b' = nb b ->
  (forall l, lk b' l = lk b l) ->
  (forall i, i < nb b -> tg b' i = tg b i) ->
  (forall l, tg b' (nb b) <> Some (Lbl l)) -> tg b' (nb b) <> Some Entry ->
  (forall i, i <> cur b -> ins b' i = ins b i) ->
  Inv b' P.
Proof.
  intros HI Hn Hc Hl Ht Hnl Hne Hi. pose proof (inv_cur _ _ HI) as Hcb. constructor.
  - lia.
  - intros l i H. rewrite Hl in H. sat. split; [lia|]. now rewrite Ht.
  - intros i l H. rewrite Hl. destruct (N.eq_dec i (nb b)) as [->|Hn'].
    + now apply Hnl in H.
    + assert (Hlt : i < nb b') by (eapply tg_some; eauto).
      rewrite Ht in H by lia. now apply (inv_tg _ _ HI).
  - intros l i HP H. rewrite Hl in H. sat. rewrite Hi by assumption. split; [assumption|lia].
  - rewrite Hc, Hi by lia. rewrite ins_oob by lia. apply openl_nil.
  - intros i. destruct (N.eq_dec i (nb b)) as [->|Hn'].
    + split; [intros H; now apply Hne in H|intros H; lia].
    + destruct (N.ltb_spec i (nb b)).
      * rewrite Ht by assumption. apply (inv_entry _ _ HI).
      * split; [|intros ->; lia]. intros H'. apply tg_some in H'. lia.
Qed.

(* blocks that no pending label can reach and that are not current are left alone *)
Definition prot (P : N -> Prop) (b : bstate) (i : N) : Prop :=
  i < nb b /\ i <> cur b /\ forall l, P l -> lk b l <> Some i.

Lemma prot_step ls gs P b b' i :
  Step ls gs P b b' -> (forall l, In l ls -> P l) -> prot P b i ->
  ins b' i = ins b i /\ cur b' <> i /\ prot (minus P ls) b' i.
Proof.
  intros S HP (H1 & H2 & H3).
  assert (Hnl : ~ lblk b ls i) by (intros (l & Hl & Hk); eapply H3; eauto).
  assert (Hc : cur b' <> i).
  { destruct (st_cur _ _ _ _ _ S) as [H|[H|H]]; [congruence|lia|]. intros <-. auto. }
  split; [now apply (st_frame _ _ _ _ _ S)|]. split; [assumption|].
  pose proof (ext_nb _ _ (st_ext _ _ _ _ _ S)). repeat split; [lia|congruence|].
  intros l [HPl _] Hk. destruct (lk_cases b l) as [Hn|[j Hj]].
  - pose proof (st_newlk _ _ _ _ _ S l i Hn Hk). lia.
  - rewrite (ext_lk _ _ (st_ext _ _ _ _ _ S) _ _ Hj) in Hk. inversion Hk; subst. eapply H3; eauto.
Qed.

Lemma closed_stable ls gs P b b' i :
  Step ls gs P b b' -> Inv b P -> (forall l, In l ls -> P l) ->
  i < nb b -> closedl (nb b) (ins b i) -> closedl (nb b') (ins b' i).
Proof.
  intros S HI HP Hi Hcl.
  assert (Hn : i <> cur b).
  { intros ->. eapply closed_not_open; [exact Hcl|apply (inv_open _ _ HI)]. }
  rewrite (st_frame _ _ _ _ _ S i Hi Hn).
  - eapply closedl_mono; [eassumption|]. apply (ext_nb _ _ (st_ext _ _ _ _ _ S)).
  - intros (l & Hl & Hk). destruct (inv_pend _ _ HI l i (HP l Hl) Hk) as [Hemp _].
    apply closedl_nonnil in Hcl. congruence.
Qed.

Lemma iat_snoc2 b i l x y :
  ins b i = (l ++ [x]) ++ [y] ->
  iat b (i, length l) = Some x /\ iat b (i, S (length l)) = Some y.
Proof.
  intros H. unfold iat. cbn [fst snd]. rewrite H, <- app_assoc. cbn [app]. split.
  - rewrite nth_error_app2, Nat.sub_diag by lia. reflexivity.
  - rewrite nth_error_app2 by lia. replace (S (length l) - length l)%nat with 1%nat by lia. reflexivity.
Qed.

Lemma snoc_not_nil {A} (l : list A) x : l ++ [x] <> [].
Proof. destruct l; discriminate. Qed.

Definition enter (t : tag) (b : bstate) : bstate := set_cur (nb b) (apb t b).

Lemma Inv_enter_emit b P t x :
  Inv b P -> (forall l, t <> Lbl l) -> t <> Entry ->
  Inv (enter t (emit x b)) P.
Proof.
  intros HI Ht1 Ht2. pose proof (inv_cur _ _ HI). unfold enter.
  apply (Inv_enter b P); auto; intros; obs; nsplit; fin.
Qed.

(* if without else *)
Lemma step_if1 c t ls gs P b b2 :
  Inv b P -> (forall l, In l ls -> P l) ->
  let bs := enter Then_ (emit (ICmp c) b) in
  Step ls gs P bs b2 -> code b2 t (curpos bs) (curpos b2) ->
  let b' := set_cur (nb b2) (emit_at (cur b) (ICondBr c (nb b) (nb b2))
                               (emit_at (cur b2) (IBr (nb b2)) (apb After b2))) in
  Step ls gs P b b' /\ code b' (SIf c t None) (curpos b) (curpos b').
Proof.
  intros HI HP bs S Hcode b'.
  pose proof (inv_cur _ _ HI) as Hc. pose proof (inv_open _ _ HI) as Ho.
  assert (Is : Inv bs P) by (apply Inv_enter_emit; [assumption|discriminate|discriminate]).
  pose proof (st_inv _ _ _ _ _ S) as I2. pose proof (st_ext _ _ _ _ _ S) as E2.
  pose proof (ext_nb _ _ E2) as N2. pose proof (inv_cur _ _ I2) as Hc2.
  pose proof (inv_open _ _ I2) as Ho2.
  assert (Hnbs : nb bs = N.succ (nb b)) by (subst bs; unfold enter; now obs).
  assert (Hcbs : cur bs = nb b) by (subst bs; unfold enter; now obs).
  assert (Hlks : forall l, lk bs l = lk b l) by reflexivity.
  assert (Hins : forall i, ins bs i = if i =? cur b then ins b i ++ [ICmp c] else ins b i).
  { intros i. subst bs. unfold enter. obs. nsplit; fin. }
  assert (Pcb : prot P bs (cur b)).
  { repeat split; [lia|lia|]. intros l Hl Hk. rewrite Hlks in Hk. sat. congruence. }
  destruct (prot_step _ _ _ _ _ _ S HP Pcb) as (A2 & A3 & _).
  rewrite Hins, N.eqb_refl in A2.
  assert (HE : Ext b b').
  { subst b' bs. unfold enter in *.
    eapply Ext_trans; [apply Ext_emit_at|]. eapply Ext_trans; [apply (Ext_apb Then_)|].
    eapply Ext_trans; [apply Ext_set_cur|]. eapply Ext_trans; [exact E2|].
    eapply Ext_trans; [apply (Ext_apb After)|]. eapply Ext_trans; [apply Ext_emit_at|].
    eapply Ext_trans; [apply Ext_emit_at|apply Ext_set_cur]. }
  assert (HE2 : Ext b2 b').
  { subst b'. eapply Ext_trans; [apply (Ext_apb After)|]. eapply Ext_trans; [apply Ext_emit_at|].
    eapply Ext_trans; [apply Ext_emit_at|apply Ext_set_cur]. }
  (* the blocks of b' in terms of b2 *)
  assert (Hins' : forall i, ins b' i =
            if i =? cur b then ins b2 i ++ [ICondBr c (nb b) (nb b2)]
            else if i =? cur b2 then ins b2 i ++ [IBr (nb b2)] else ins b2 i).
  { intros i. subst b'. obs. nsplit; fin. }
  assert (Hnb' : nb b' = N.succ (nb b2)) by (subst b'; now obs).
  assert (Hcur' : cur b' = nb b2) by (subst b'; now obs).
  assert (Hlk' : forall l, lk b' l = lk b2 l) by reflexivity.
  assert (Htg' : forall i, tg b' i = if i =? nb b2 then Some After else tg b2 i).
  { intros i. subst b'. now obs. }
  assert (Hclose_te : closedl (nb b') (ins b' (cur b2))).
  { rewrite Hins'. nsplit; try congruence. apply closedl_snoc; [assumption|reflexivity|].
    cbn [target_ok]. apply N.ltb_lt. lia. }
  assert (Kc : forall i, closedl (nb b2) (ins b2 i) -> closedl (nb b') (ins b' i)).
  { intros i Hcl. rewrite Hins'. nsplit.
    - exfalso. subst i. rewrite A2 in Hcl. eapply closed_not_open; [exact Hcl|].
      apply openl_snoc; [assumption|reflexivity].
    - exfalso. subst i. eapply closed_not_open; eauto.
    - eapply closedl_mono; [eassumption|lia]. }
  clearbody b' bs. split; [constructor|].
  - exact HE.
  - constructor; intros.
    + lia.
    + rewrite Hlk' in H. rewrite Htg'. sat. nsplit; fin.
    + rewrite Htg' in H. rewrite Hlk'. nsplit; fin.
    + rewrite Hlk' in H0. sat. rewrite Hins'. nsplit.
      * exfalso. subst i. rewrite A2 in Hemp. now apply snoc_not_nil in Hemp.
      * congruence.
      * split; [assumption|lia].
    + rewrite Hcur', Hins'. nsplit; fin.
    + rewrite Htg'. nsplit; fin.
  - intros i Hi Hn Hnl.
    assert (Hnl' : ~ lblk bs ls i).
    { intros (l & Hl & Hk). apply Hnl. exists l. rewrite <- Hlks. auto. }
    assert (Hne2 : i <> cur b2).
    { destruct (st_cur _ _ _ _ _ S) as [H|[H|H]]; [lia|lia|]. intros ->. auto. }
    rewrite Hins'. nsplit; try congruence.
    rewrite (st_frame _ _ _ _ _ S) by (auto; lia). rewrite Hins. nsplit; congruence.
  - intros l i Hn Hk. rewrite Hlk' in Hk. rewrite <- Hlks in Hn.
    pose proof (st_newlk _ _ _ _ _ S l i Hn Hk). lia.
  - right. left. lia.
  - intros l Hl. rewrite Hlk'. now apply (st_bound _ _ _ _ _ S).
  - intros _. rewrite Hins', N.eqb_refl, A2. apply closedl_snoc.
    + apply openl_snoc; [assumption|reflexivity].
    + reflexivity.
    + cbn [target_ok]. apply andb_true_iff. split; apply N.ltb_lt; lia.
  - intros Hg i Hi1 Hi2 Hn. rewrite Hcur' in Hn.
    destruct (N.eq_dec i (cur b2)) as [->|Hne2]; [now left|].
    destruct (N.eq_dec i (nb b)) as [->|Hne].
    + left. apply Kc. rewrite <- Hcbs. apply (st_close_cur _ _ _ _ _ S). congruence.
    + assert (Hg' : forall l, In l gs -> In l ls \/ P l \/ lk bs l <> None).
      { intros l Hl. rewrite Hlks. auto. }
      destruct (st_new _ _ _ _ _ S Hg' i) as [Hcl|(l & Hk & Hm)]; try lia.
      * left. now apply Kc.
      * right. exists l. now rewrite Hlk'.
  - intros i Hl.
    assert (Hl' : lblk bs ls i).
    { destruct Hl as (l & Hl & Hk). exists l. rewrite Hlks. auto. }
    destruct (st_lblk _ _ _ _ _ S i Hl') as [->|Hcl]; right; [assumption|now apply Kc].
  - exists (nb b), (nb b2), (curpos b2).
    assert (X : ins b' (cur b) = (ins b (cur b) ++ [ICmp c]) ++ [ICondBr c (nb b) (nb b2)]).
    { now rewrite Hins', N.eqb_refl, A2. }
    destruct (iat_snoc2 _ _ _ _ _ X) as [X1 X2]. unfold curpos at 1 2. cbn [fst snd].
    split; [exact X1|]. split; [exact X2|]. split; [|split].
    + eapply code_ext; [exact HE2|]. replace (nb b, 0%nat) with (curpos bs); [assumption|].
      unfold curpos. rewrite Hcbs, Hins. nsplit; try lia. now rewrite ins_oob by lia.
    + unfold curpos. apply iat_snoc. rewrite Hins'. nsplit; congruence.
    + unfold curpos. rewrite Hcur', Hins'. nsplit; try lia. now rewrite ins_oob by lia.
Qed.

(* a block ending in `loop` *)
Lemma step_loop body ls gs P b b2 :
  Inv b P -> (forall l, In l ls -> P l) ->
  let bs := set_cur (nb b) (emit_at (cur b) (IBr (nb b)) (apb Looped b)) in
  Step ls gs P bs b2 -> code_list b2 body (curpos bs) (curpos b2) ->
  let b' := set_cur (nb b2) (apb AfterLooped (emit (IBr (nb b)) b2)) in
  Step ls gs P b b' /\
  iat b' (curpos b) = Some (IBr (nb b)) /\
  code_list b' body (nb b, O) (curpos b2) /\
  iat b' (curpos b2) = Some (IBr (nb b)).
Proof.
  intros HI HP bs S Hcode b'.
  pose proof (inv_cur _ _ HI) as Hc. pose proof (inv_open _ _ HI) as Ho.
  assert (Hnbs : nb bs = N.succ (nb b)) by (subst bs; now obs).
  assert (Hcbs : cur bs = nb b) by (subst bs; now obs).
  assert (Hlks : forall l, lk bs l = lk b l) by reflexivity.
  assert (Hins : forall i, ins bs i = if i =? cur b then ins b i ++ [IBr (nb b)] else ins b i).
  { intros i. subst bs. obs. nsplit; fin. }
  assert (Is : Inv bs P).
  { apply (Inv_enter b P); auto; intros; try rewrite Hins; subst bs; obs; nsplit; fin. }
  pose proof (st_inv _ _ _ _ _ S) as I2. pose proof (st_ext _ _ _ _ _ S) as E2.
  pose proof (ext_nb _ _ E2) as N2. pose proof (inv_cur _ _ I2) as Hc2.
  pose proof (inv_open _ _ I2) as Ho2.
  assert (Pcb : prot P bs (cur b)).
  { repeat split; [lia|lia|]. intros l Hl Hk. rewrite Hlks in Hk. sat. congruence. }
  destruct (prot_step _ _ _ _ _ _ S HP Pcb) as (A2 & A3 & _).
  rewrite Hins, N.eqb_refl in A2.
  assert (HE : Ext b b').
  { subst b' bs.
    eapply Ext_trans; [apply (Ext_apb Looped)|]. eapply Ext_trans; [apply Ext_emit_at|].
    eapply Ext_trans; [apply Ext_set_cur|]. eapply Ext_trans; [exact E2|].
    eapply Ext_trans; [apply Ext_emit_at|]. eapply Ext_trans; [apply (Ext_apb AfterLooped)|].
    apply Ext_set_cur. }
  assert (HE2 : Ext b2 b').
  { subst b'. eapply Ext_trans; [apply Ext_emit_at|]. eapply Ext_trans; [apply (Ext_apb AfterLooped)|].
    apply Ext_set_cur. }
  assert (Hins' : forall i, ins b' i =
            if i =? cur b2 then ins b2 i ++ [IBr (nb b)] else ins b2 i).
  { intros i. subst b'. obs. nsplit; fin. }
  assert (Hnb' : nb b' = N.succ (nb b2)) by (subst b'; now obs).
  assert (Hcur' : cur b' = nb b2) by (subst b'; now obs).
  assert (Hlk' : forall l, lk b' l = lk b2 l) by reflexivity.
  assert (Htg' : forall i, tg b' i = if i =? nb b2 then Some AfterLooped else tg b2 i).
  { intros i. subst b'. now obs. }
  assert (Hclose_te : closedl (nb b') (ins b' (cur b2))).
  { rewrite Hins'. nsplit; try congruence. apply closedl_snoc; [assumption|reflexivity|].
    cbn [target_ok]. apply N.ltb_lt. lia. }
  assert (Kc : forall i, closedl (nb b2) (ins b2 i) -> closedl (nb b') (ins b' i)).
  { intros i Hcl. rewrite Hins'. nsplit.
    - exfalso. subst i. eapply closed_not_open; eauto.
    - eapply closedl_mono; [eassumption|lia]. }
  clearbody b' bs. split; [constructor|].
  - exact HE.
  - constructor; intros.
    + lia.
    + rewrite Hlk' in H. rewrite Htg'. sat. nsplit; fin.
    + rewrite Htg' in H. rewrite Hlk'. nsplit; fin.
    + rewrite Hlk' in H0. sat. rewrite Hins'. nsplit.
      * congruence.
      * split; [assumption|lia].
    + rewrite Hcur', Hins'. nsplit; fin.
    + rewrite Htg'. nsplit; fin.
  - intros i Hi Hn Hnl.
    assert (Hnl' : ~ lblk bs ls i).
    { intros (l & Hl & Hk). apply Hnl. exists l. rewrite <- Hlks. auto. }
    assert (Hne2 : i <> cur b2).
    { destruct (st_cur _ _ _ _ _ S) as [H|[H|H]]; [lia|lia|]. intros ->. auto. }
    rewrite Hins'. nsplit; try congruence.
    rewrite (st_frame _ _ _ _ _ S) by (auto; lia). rewrite Hins. nsplit; congruence.
  - intros l i Hn Hk. rewrite Hlk' in Hk. rewrite <- Hlks in Hn.
    pose proof (st_newlk _ _ _ _ _ S l i Hn Hk). lia.
  - right. left. lia.
  - intros l Hl. rewrite Hlk'. now apply (st_bound _ _ _ _ _ S).
  - intros _. rewrite Hins'. nsplit; try congruence. rewrite A2. apply closedl_snoc.
    + assumption.
    + reflexivity.
    + cbn [target_ok]. apply N.ltb_lt. lia.
  - intros Hg i Hi1 Hi2 Hn. rewrite Hcur' in Hn.
    destruct (N.eq_dec i (cur b2)) as [->|Hne2]; [now left|].
    destruct (N.eq_dec i (nb b)) as [->|Hne].
    + left. apply Kc. rewrite <- Hcbs. apply (st_close_cur _ _ _ _ _ S). congruence.
    + assert (Hg' : forall l, In l gs -> In l ls \/ P l \/ lk bs l <> None).
      { intros l Hl. rewrite Hlks. auto. }
      destruct (st_new _ _ _ _ _ S Hg' i) as [Hcl|(l & Hk & Hm)]; try lia.
      * left. now apply Kc.
      * right. exists l. now rewrite Hlk'.
  - intros i Hl.
    assert (Hl' : lblk bs ls i).
    { destruct Hl as (l & Hl & Hk). exists l. rewrite Hlks. auto. }
    destruct (st_lblk _ _ _ _ _ S i Hl') as [->|Hcl]; right; [assumption|now apply Kc].
  - split; [|split].
    + unfold curpos. apply iat_snoc. rewrite Hins'. nsplit; try congruence.
    + eapply code_list_ext; [exact HE2|]. replace (nb b, 0%nat) with (curpos bs); [assumption|].
      unfold curpos. rewrite Hcbs, Hins. nsplit; try lia. now rewrite ins_oob by lia.
    + unfold curpos. apply iat_snoc. rewrite Hins'. nsplit; congruence.
Qed.

Lemma Inv_enter_plain b P t :
  Inv b P -> (forall l, t <> Lbl l) -> t <> Entry -> Inv (enter t b) P.
Proof.
  intros HI Ht1 Ht2. pose proof (inv_cur _ _ HI). unfold enter.
  apply (Inv_enter b P); auto; intros; obs; nsplit; fin.
Qed.

Lemma nodup_app_minus (P : N -> Prop) ls1 ls2 :
  (forall l, In l (ls1 ++ ls2) -> P l) -> NoDup (ls1 ++ ls2) ->
  forall l, In l ls2 -> minus P ls1 l.
Proof.
  intros HP Hnd l Hl. split; [apply HP, in_or_app; now right|].
  intros Hl1. induction ls1 as [|x xs IH]; [destruct Hl1|].
  cbn [app] in Hnd. inversion Hnd as [|? ? Hx Hr]; subst. destruct Hl1 as [->|Hl1].
  - apply Hx, in_or_app. now right.
  - apply IH; auto. intros l' Hl'. apply HP. now right.
Qed.

(* if with else *)
Lemma step_if2 c t e lt gt le ge P b b2 b4 :
  Inv b P -> (forall l, In l (lt ++ le) -> P l) -> NoDup (lt ++ le) ->
  let bs := enter Then_ (emit (ICmp c) b) in
  Step lt gt P bs b2 -> code b2 t (curpos bs) (curpos b2) ->
  let bs' := enter Else_ b2 in
  Step le ge (minus P lt) bs' b4 -> code b4 e (curpos bs') (curpos b4) ->
  let b' := set_cur (nb b4)
              (emit_at (cur b) (ICondBr c (nb b) (nb b2))
                 (emit_at (cur b4) (IBr (nb b4)) (emit_at (cur b2) (IBr (nb b4)) (apb After b4)))) in
  Step (lt ++ le) (gt ++ ge) P b b' /\ code b' (SIf c t (Some e)) (curpos b) (curpos b').
Proof.
  intros HI HP Hnd bs S1 Hcode1 bs' S2 Hcode2 b'.
  pose proof (inv_cur _ _ HI) as Hc. pose proof (inv_open _ _ HI) as Ho.
  assert (HP1 : forall l, In l lt -> P l) by (intros; apply HP, in_or_app; now left).
  pose proof (nodup_app_minus P lt le HP Hnd) as HP2.
  assert (Is : Inv bs P) by (apply Inv_enter_emit; [assumption|discriminate|discriminate]).
  pose proof (st_inv _ _ _ _ _ S1) as I2. pose proof (st_ext _ _ _ _ _ S1) as E2.
  pose proof (ext_nb _ _ E2) as N2. pose proof (inv_cur _ _ I2) as Hc2.
  pose proof (inv_open _ _ I2) as Ho2.
  assert (Is' : Inv bs' (minus P lt)) by (apply Inv_enter_plain; [assumption|discriminate|discriminate]).
  pose proof (st_inv _ _ _ _ _ S2) as I4. pose proof (st_ext _ _ _ _ _ S2) as E4.
  pose proof (ext_nb _ _ E4) as N4. pose proof (inv_cur _ _ I4) as Hc4.
  pose proof (inv_open _ _ I4) as Ho4.
  assert (Hnbs : nb bs = N.succ (nb b)) by (subst bs; unfold enter; now obs).
  assert (Hcbs : cur bs = nb b) by (subst bs; unfold enter; now obs).
  assert (Hlks : forall l, lk bs l = lk b l) by reflexivity.
  assert (Hins : forall i, ins bs i = if i =? cur b then ins b i ++ [ICmp c] else ins b i).
  { intros i. subst bs. unfold enter. obs. nsplit; fin. }
  assert (Hnbs' : nb bs' = N.succ (nb b2)) by (subst bs'; unfold enter; now obs).
  assert (Hcbs' : cur bs' = nb b2) by (subst bs'; unfold enter; now obs).
  assert (Hlks' : forall l, lk bs' l = lk b2 l) by reflexivity.
  assert (Hinss' : forall i, ins bs' i = ins b2 i).
  { intros i. subst bs'. unfold enter. now obs. }
  (* the condition block and the end of the then-branch are left alone *)
  assert (Pcb : prot P bs (cur b)).
  { repeat split; [lia|lia|]. intros l Hl Hk. rewrite Hlks in Hk. sat. congruence. }
  destruct (prot_step _ _ _ _ _ _ S1 HP1 Pcb) as (A2 & A3 & Pcb2).
  rewrite Hins, N.eqb_refl in A2.
  assert (Pcb' : prot (minus P lt) bs' (cur b)).
  { destruct Pcb2 as (X1 & X2 & X3). repeat split; [lia|lia|]. intros l Hl. rewrite Hlks'. auto. }
  destruct (prot_step _ _ _ _ _ _ S2 HP2 Pcb') as (A4 & A6a & _).
  rewrite Hinss', A2 in A4.
  assert (Pte : prot (minus P lt) bs' (cur b2)).
  { repeat split; [lia|lia|]. intros l Hl Hk. rewrite Hlks' in Hk. sat. congruence. }
  destruct (prot_step _ _ _ _ _ _ S2 HP2 Pte) as (A5 & A6b & Pte4).
  rewrite Hinss' in A5.
  assert (HE4 : Ext b4 b').
  { subst b'. eapply Ext_trans; [apply (Ext_apb After)|]. eapply Ext_trans; [apply Ext_emit_at|].
    eapply Ext_trans; [apply Ext_emit_at|]. eapply Ext_trans; [apply Ext_emit_at|apply Ext_set_cur]. }
  assert (HE2 : Ext b2 b').
  { eapply Ext_trans; [|exact HE4]. eapply Ext_trans; [|exact E4]. subst bs'. unfold enter.
    eapply Ext_trans; [apply (Ext_apb Else_)|apply Ext_set_cur]. }
  assert (HE : Ext b b').
  { eapply Ext_trans; [|exact HE2]. eapply Ext_trans; [|exact E2]. subst bs. unfold enter.
    eapply Ext_trans; [apply Ext_emit_at|]. eapply Ext_trans; [apply (Ext_apb Then_)|apply Ext_set_cur]. }
  assert (Hins' : forall i, ins b' i =
            if i =? cur b then ins b4 i ++ [ICondBr c (nb b) (nb b2)]
            else if i =? cur b4 then ins b4 i ++ [IBr (nb b4)]
            else if i =? cur b2 then ins b4 i ++ [IBr (nb b4)] else ins b4 i).
  { intros i. subst b'. obs. nsplit; fin. }
  assert (Hnb' : nb b' = N.succ (nb b4)) by (subst b'; now obs).
  assert (Hcur' : cur b' = nb b4) by (subst b'; now obs).
  assert (Hlk' : forall l, lk b' l = lk b4 l) by reflexivity.
  assert (Htg' : forall i, tg b' i = if i =? nb b4 then Some After else tg b4 i).
  { intros i. subst b'. now obs. }
  assert (Cte : closedl (nb b') (ins b' (cur b2))).
  { rewrite Hins'. nsplit; try congruence. rewrite A5. apply closedl_snoc; [assumption|reflexivity|].
    cbn [target_ok]. apply N.ltb_lt. lia. }
  assert (Cee : closedl (nb b') (ins b' (cur b4))).
  { rewrite Hins'. nsplit; try congruence. apply closedl_snoc; [assumption|reflexivity|].
    cbn [target_ok]. apply N.ltb_lt. lia. }
  assert (Kc : forall i, closedl (nb b4) (ins b4 i) -> closedl (nb b') (ins b' i)).
  { intros i Hcl. rewrite Hins'. nsplit.
    - exfalso. subst i. rewrite A4 in Hcl. eapply closed_not_open; [exact Hcl|].
      apply openl_snoc; [assumption|reflexivity].
    - exfalso. subst i. eapply closed_not_open; eauto.
    - exfalso. subst i. rewrite A5 in Hcl. eapply closed_not_open; eauto.
    - eapply closedl_mono; [eassumption|lia]. }
  assert (K2 : forall i, i < nb b2 -> closedl (nb b2) (ins b2 i) -> closedl (nb b') (ins b' i)).
  { intros i Hi Hcl. apply Kc. apply (closed_stable _ _ _ _ _ _ S2 Is' HP2); [lia|].
    rewrite Hinss'. eapply closedl_mono; [eassumption|lia]. }
  (* label blocks of the else-branch seen from b *)
  assert (HL2 : forall i, lblk bs' le i -> lblk b le i \/ nb bs <= i).
  { intros i (l & Hl & Hk). rewrite Hlks' in Hk. destruct (lk_cases bs l) as [Hn|[j Hj]].
    - right. eapply st_newlk; eauto.
    - left. exists l. split; [assumption|]. rewrite (ext_lk _ _ E2 _ _ Hj) in Hk.
      rewrite <- Hlks. congruence. }
  clearbody b' bs bs'. split; [constructor|].
  - exact HE.
  - constructor; intros.
    + lia.
    + rewrite Hlk' in H. rewrite Htg'. sat. nsplit; fin.
    + rewrite Htg' in H. rewrite Hlk'. nsplit; fin.
    + rewrite Hlk' in H0. apply minus_app in H. sat. rewrite Hins'. nsplit.
      * exfalso. subst i. rewrite A4 in Hemp. now apply snoc_not_nil in Hemp.
      * congruence.
      * exfalso. subst i. destruct Pte4 as (_ & _ & X). eapply X; eauto.
      * split; [assumption|lia].
    + rewrite Hcur', Hins'. nsplit; fin.
    + rewrite Htg'. nsplit; fin.
  - intros i Hi Hn Hnl.
    assert (Hnl1 : ~ lblk bs lt i).
    { intros (l & Hl & Hk). apply Hnl. exists l. rewrite <- Hlks. split; [apply in_or_app; now left|auto]. }
    assert (Hnl2 : ~ lblk bs' le i).
    { intros H. destruct (HL2 i H) as [(l & Hl & Hk)|H']; [|lia].
      apply Hnl. exists l. split; [apply in_or_app; now right|assumption]. }
    assert (Hne2 : i <> cur b2).
    { destruct (st_cur _ _ _ _ _ S1) as [H|[H|H]]; [lia|lia|]. intros ->. auto. }
    assert (Hne4 : i <> cur b4).
    { destruct (st_cur _ _ _ _ _ S2) as [H|[H|H]]; [lia|lia|]. intros ->. auto. }
    rewrite Hins'. nsplit; try congruence.
    rewrite (st_frame _ _ _ _ _ S2) by (auto; lia). rewrite Hinss'.
    rewrite (st_frame _ _ _ _ _ S1) by (auto; lia). rewrite Hins. nsplit; congruence.
  - intros l i Hn Hk. rewrite Hlk' in Hk. rewrite <- Hlks in Hn.
    destruct (lk_cases b2 l) as [Hn2|[j Hj]].
    + rewrite <- Hlks' in Hn2. pose proof (st_newlk _ _ _ _ _ S2 l i Hn2 Hk). lia.
    + pose proof (st_newlk _ _ _ _ _ S1 l j Hn Hj). rewrite <- Hlks' in Hj.
      rewrite (ext_lk _ _ E4 _ _ Hj) in Hk. inversion Hk; subst. lia.
  - right. left. lia.
  - intros l Hl. rewrite Hlk'. apply in_app_or in Hl. destruct Hl as [Hl|Hl].
    + pose proof (st_bound _ _ _ _ _ S1 l Hl) as Hb. destruct (lk b2 l) as [j|] eqn:Hj; [|congruence].
      rewrite <- Hlks' in Hj. rewrite (ext_lk _ _ E4 _ _ Hj). discriminate.
    + now apply (st_bound _ _ _ _ _ S2).
  - intros _. rewrite Hins', N.eqb_refl, A4. apply closedl_snoc.
    + apply openl_snoc; [assumption|reflexivity].
    + reflexivity.
    + cbn [target_ok]. apply andb_true_iff. split; apply N.ltb_lt; lia.
  - intros Hg i Hi1 Hi2 Hn. rewrite Hcur' in Hn.
    assert (Hg1 : forall l, In l gt -> In l lt \/ P l \/ lk bs l <> None).
    { intros l Hl. rewrite Hlks. destruct (Hg l (in_or_app _ _ _ (or_introl Hl))) as [H|H]; [|now right].
      apply in_app_or in H. destruct H as [H|H]; [now left|]. right. left. apply HP, in_or_app. now right. }
    assert (Hg2 : forall l, In l ge -> In l le \/ minus P lt l \/ lk bs' l <> None).
    { intros l Hl. rewrite Hlks'.
      assert (Hb : In l lt -> lk b2 l <> None) by apply (st_bound _ _ _ _ _ S1).
      destruct (Hg l (in_or_app _ _ _ (or_intror Hl))) as [H|[H|H]].
      - apply in_app_or in H. destruct H as [H|H]; [right; right; auto|now left].
      - destruct (in_dec N.eq_dec l lt) as [Hi|Hni]; [right; right; auto|].
        right. left. split; assumption.
      - right. right. destruct (lk b l) as [j|] eqn:Hj; [|congruence].
        rewrite <- Hlks in Hj. rewrite (ext_lk _ _ E2 _ _ Hj). discriminate. }
    destruct (N.eq_dec i (cur b2)) as [->|Hne2]; [now left|].
    destruct (N.eq_dec i (cur b4)) as [->|Hne4]; [now left|].
    destruct (N.ltb_spec i (nb b2)) as [Hlt|Hge].
    + destruct (N.eq_dec i (nb b)) as [->|Hne].
      * left. apply K2; [assumption|]. rewrite <- Hcbs. apply (st_close_cur _ _ _ _ _ S1). congruence.
      * destruct (st_new _ _ _ _ _ S1 Hg1 i) as [Hcl|(l & Hk & Hm)]; try lia.
        -- left. now apply K2.
        -- destruct (in_dec N.eq_dec l le) as [Hi|Hni].
           ++ destruct (st_lblk _ _ _ _ _ S2 i) as [H|H];
                [exists l; rewrite Hlks'; auto|congruence|left; now apply Kc].
           ++ right. exists l. rewrite Hlk'. rewrite <- Hlks' in Hk.
              split; [eapply ext_lk; eauto|]. apply minus_app. split; assumption.
    + destruct (N.eq_dec i (nb b2)) as [->|Hne].
      * left. apply Kc. rewrite <- Hcbs'. apply (st_close_cur _ _ _ _ _ S2). congruence.
      * destruct (st_new _ _ _ _ _ S2 Hg2 i) as [Hcl|(l & Hk & Hm)]; try lia.
        -- left. now apply Kc.
        -- right. exists l. rewrite Hlk'. split; [assumption|]. now apply minus_app.
  - intros i (l & Hl & Hk). apply in_app_or in Hl. destruct Hl as [Hl|Hl].
    + destruct (st_lblk _ _ _ _ _ S1 i) as [H|H]; [exists l; rewrite Hlks; auto| |].
      * subst i. now right.
      * right. apply K2; [|assumption]. destruct (inv_lk _ _ HI _ _ Hk). lia.
    + destruct (st_lblk _ _ _ _ _ S2 i) as [H|H].
      * exists l. split; [assumption|]. rewrite Hlks'. rewrite <- Hlks in Hk. eapply (ext_lk _ _ E2); eauto.
      * subst i. now right.
      * right. now apply Kc.
  - exists (nb b), (nb b2), (nb b4), (curpos b2), (curpos b4).
    assert (X : ins b' (cur b) = (ins b (cur b) ++ [ICmp c]) ++ [ICondBr c (nb b) (nb b2)]).
    { now rewrite Hins', N.eqb_refl, A4. }
    destruct (iat_snoc2 _ _ _ _ _ X) as [X1 X2]. unfold curpos at 1 2. cbn [fst snd].
    split; [exact X1|]. split; [exact X2|]. repeat split.
    + eapply code_ext; [exact HE2|]. replace (nb b, 0%nat) with (curpos bs); [assumption|].
      unfold curpos. rewrite Hcbs, Hins. nsplit; try lia. now rewrite ins_oob by lia.
    + unfold curpos. apply iat_snoc. rewrite Hins'. nsplit; try congruence.
    + eapply code_ext; [exact HE4|]. replace (nb b2, 0%nat) with (curpos bs'); [assumption|].
      unfold curpos. rewrite Hcbs', Hinss'. now rewrite ins_oob by lia.
    + unfold curpos. apply iat_snoc. rewrite Hins'. nsplit; try congruence.
    + unfold curpos. rewrite Hcur', Hins'. nsplit; try lia. now rewrite ins_oob by lia.
Qed.

Lemma lower_if1 c t b :
  lower_stmt (SIf c t None) b =
  match lower_stmt t (enter Then_ (emit (ICmp c) b)) with
  | None => None
  | Some b2 =>
      Some (set_cur (nb b2) (emit_at (cur b) (ICondBr c (nb b) (nb b2))
                               (emit_at (cur b2) (IBr (nb b2)) (apb After b2))))
  end.
Proof.
  change (lower_stmt (SIf c t None) b) with
    (match lower_stmt t (enter Then_ (emit (ICmp c) b)) with
     | None => None
     | Some b2 =>
         Some (set_cur (nb b2) (emit_at (cur b) (ICondBr c (nb (emit (ICmp c) b)) (nb b2))
                                  (emit_at (cur b2) (IBr (nb b2)) (apb After b2))))
     end).
  now rewrite nb_emit.
Qed.

Lemma lower_if2 c t e b :
  lower_stmt (SIf c t (Some e)) b =
  match lower_stmt t (enter Then_ (emit (ICmp c) b)) with
  | None => None
  | Some b2 =>
      match lower_stmt e (enter Else_ b2) with
      | None => None
      | Some b4 =>
          Some (set_cur (nb b4)
                  (emit_at (cur b) (ICondBr c (nb b) (nb b2))
                     (emit_at (cur b4) (IBr (nb b4)) (emit_at (cur b2) (IBr (nb b4)) (apb After b4)))))
      end
  end.
Proof.
  change (lower_stmt (SIf c t (Some e)) b) with
    (match lower_stmt t (enter Then_ (emit (ICmp c) b)) with
     | None => None
     | Some b2 =>
         match lower_stmt e (enter Else_ b2) with
         | None => None
         | Some b4 =>
             Some (set_cur (nb b4)
                     (emit_at (cur b) (ICondBr c (nb (emit (ICmp c) b)) (nb b2))
                        (emit_at (cur b4) (IBr (nb b4)) (emit_at (cur b2) (IBr (nb b4)) (apb After b4)))))
         end
     end).
  now rewrite nb_emit.
Qed.

Lemma lower_block' ss b :
  lower_stmt (SBlock ss) b =
  if ends_in_loop ss then
    match lower_list (removelast ss)
            (set_cur (nb b) (emit_at (cur b) (IBr (nb b)) (apb Looped b))) with
    | None => None
    | Some b2 => Some (set_cur (nb b2) (apb AfterLooped (emit (IBr (nb b)) b2)))
    end
  else lower_list ss b.
Proof.
  rewrite lower_block. destruct (ends_in_loop ss); [|reflexivity].
  fold (nb b). fold (apb Looped b).
  destruct (lower_list (removelast ss) _) as [b2|]; [|reflexivity].
  fold (nb (emit (IBr (nb b)) b2)). fold (apb AfterLooped (emit (IBr (nb b)) b2)).
  now rewrite nb_emit.
Qed.

Lemma nodup_app_l {A} (a b : list A) : NoDup (a ++ b) -> NoDup a.
Proof.
  induction a as [|x xs IH]; intros H; [constructor|]. cbn [app] in H. inversion H; subst.
  constructor; [|auto]. intros Hin. apply H2, in_or_app. now left.
Qed.

Lemma nodup_app_r {A} (a b : list A) : NoDup (a ++ b) -> NoDup b.
Proof. induction a as [|x xs IH]; intros H; [exact H|]. cbn [app] in H. inversion H; auto. Qed.

Lemma step_refl P b : Inv b P -> Step [] [] P b b.
Proof.
  intros HI. constructor.
  - apply Ext_refl.
  - eapply Inv_weaken; [|exact HI]. now intros l [H _].
  - reflexivity.
  - intros l i H1 H2. congruence.
  - now left.
  - intros l [].
  - congruence.
  - intros _ i H1 H2. lia.
  - intros i H. now apply lblk_nil in H.
Qed.

Definition step_prop (s : stmt) : Prop :=
  forall b b' P, lower_stmt s b = Some b' -> Inv b P -> NoDup (labels_of s) ->
    (forall l, In l (labels_of s) -> P l) ->
    Step (labels_of s) (gotos_of s) P b b' /\ code b' s (curpos b) (curpos b').

Lemma lower_list_step_gen ss :
  Forall step_prop ss ->
  forall b b' P, lower_list ss b = Some b' -> Inv b P -> NoDup (labels_list ss) ->
    (forall l, In l (labels_list ss) -> P l) ->
    Step (labels_list ss) (gotos_list ss) P b b' /\ code_list b' ss (curpos b) (curpos b').
Proof.
  induction 1 as [|s r Hs _ IH]; intros b b' P Hlow HI Hnd HP.
  - cbn [lower_list] in Hlow. inversion Hlow; subst. split; [now apply step_refl|reflexivity].
  - rewrite lower_list_cons in Hlow. destruct (lower_stmt s b) as [b1|] eqn:E1; [|discriminate].
    cbn [labels_list gotos_list] in *.
    destruct (Hs b b1 P E1 HI) as [S1 C1].
    { eapply nodup_app_l; eauto. }
    { intros l Hl. apply HP, in_or_app. now left. }
    destruct (IH b1 b' (minus P (labels_of s)) Hlow) as [S2 C2].
    { apply (st_inv _ _ _ _ _ S1). }
    { eapply nodup_app_r; eauto. }
    { now apply nodup_app_minus. }
    split; [eapply Step_seq; eauto|].
    exists (curpos b1). split; [|assumption]. eapply code_ext; [|exact C1]. apply (st_ext _ _ _ _ _ S2).
Qed.

Lemma lower_stmt_step : forall s, step_prop s.
Proof.
  induction s as [a|l|l|c t IHt|c t e IHt IHe|ss IHss|] using stmt_ind2;
    intros b b' P Hlow HI Hnd HP.
  - cbn [lower_stmt] in Hlow. inversion Hlow; subst. cbn [labels_of gotos_of]. split.
    + now apply step_act.
    + pose proof (inv_cur _ _ HI). split; [|unfold curpos; obs; nsplit; fin; now rewrite app_length, Nat.add_1_r].
      unfold curpos. apply iat_snoc. obs. nsplit; fin.
  - rewrite lower_goto in Hlow. inversion Hlow; subst. cbn [labels_of gotos_of].
    apply step_goto; [assumption|]. now destruct (find_or_append l (apb Unreachable b)).
  - rewrite lower_label in Hlow. inversion Hlow; subst. cbn [labels_of gotos_of].
    apply step_label; [assumption|apply HP; now left|]. now destruct (find_or_append l b).
  - rewrite lower_if1 in Hlow.
    destruct (lower_stmt t (enter Then_ (emit (ICmp c) b))) as [b2|] eqn:E; [|discriminate].
    inversion Hlow; subst. cbn [labels_of gotos_of] in *. rewrite ?app_nil_r in *.
    assert (Is : Inv (enter Then_ (emit (ICmp c) b)) P)
      by (apply Inv_enter_emit; [assumption|discriminate|discriminate]).
    destruct (IHt _ _ P E Is Hnd HP) as [S C].
    now apply step_if1.
  - rewrite lower_if2 in Hlow.
    destruct (lower_stmt t (enter Then_ (emit (ICmp c) b))) as [b2|] eqn:E; [|discriminate].
    destruct (lower_stmt e (enter Else_ b2)) as [b4|] eqn:E'; [|discriminate].
    inversion Hlow; subst. cbn [labels_of gotos_of] in *.
    assert (Is : Inv (enter Then_ (emit (ICmp c) b)) P)
      by (apply Inv_enter_emit; [assumption|discriminate|discriminate]).
    destruct (IHt _ _ P E Is) as [S1 C1].
    { eapply nodup_app_l; eauto. }
    { intros l Hl. apply HP, in_or_app. now left. }
    assert (Is' : Inv (enter Else_ b2) (minus P (labels_of t))).
    { apply Inv_enter_plain; [apply (st_inv _ _ _ _ _ S1)|discriminate|discriminate]. }
    destruct (IHe _ _ _ E' Is') as [S2 C2].
    { eapply nodup_app_r; eauto. }
    { now apply nodup_app_minus. }
    now apply step_if2.
  - rewrite labels_block, gotos_block in *. rewrite lower_block' in Hlow.
    destruct (ends_in_loop ss) eqn:El.
    + destruct (lower_list (removelast ss) _) as [b2|] eqn:E; [|discriminate].
      inversion Hlow; subst. clear Hlow.
      assert (Hl : labels_list (removelast ss) = labels_list ss).
      { pose proof (labels_strip ss) as X. unfold strip_loop in X. now rewrite El in X. }
      assert (Hg : gotos_list (removelast ss) = gotos_list ss).
      { pose proof (gotos_strip ss) as X. unfold strip_loop in X. now rewrite El in X. }
      assert (IHbody : Forall step_prop (removelast ss)).
      { rewrite (ends_in_loop_snoc ss El) in IHss. apply Forall_app in IHss. tauto. }
      pose proof (inv_cur _ _ HI) as Hc.
      assert (Is : Inv (set_cur (nb b) (emit_at (cur b) (IBr (nb b)) (apb Looped b))) P).
      { apply (Inv_enter b P); auto; intros; obs; nsplit; fin. }
      destruct (lower_list_step_gen _ IHbody _ _ P E Is) as [S C].
      { now rewrite Hl. }
      { now rewrite Hl. }
      rewrite Hl, Hg in S.
      destruct (step_loop (removelast ss) _ _ P b b2 HI HP S C) as (S' & X1 & X2 & X3).
      split; [exact S'|]. apply code_block. rewrite El. exists (nb b), (curpos b2). auto.
    + destruct (lower_list_step_gen _ IHss _ _ P Hlow HI Hnd HP) as [S C].
      split; [assumption|]. apply code_block. now rewrite El.
  - discriminate.
Qed.

Lemma lower_list_step ss b b' P :
  lower_list ss b = Some b' -> Inv b P -> NoDup (labels_list ss) ->
  (forall l, In l (labels_list ss) -> P l) ->
  Step (labels_list ss) (gotos_list ss) P b b' /\ code_list b' ss (curpos b) (curpos b').
Proof.
  apply lower_list_step_gen. apply Forall_forall. intros s _. apply lower_stmt_step.
Qed.

(* ---- the generator panics exactly on a misplaced `loop` --------------------------- *)
Lemma loops_ok_block ss : loops_ok (SBlock ss) = loops_ok_list (strip_loop ss).
Proof.
  cbn [loops_ok]. induction ss as [|s r IH]; [reflexivity|].
  unfold strip_loop. destruct r as [|s' r'].
  - cbn [ends_in_loop is_nil]. rewrite andb_true_r. destruct (is_loop s) eqn:E; [reflexivity|].
    cbn [loops_ok_list]. reflexivity.
  - change (ends_in_loop (s :: s' :: r')) with (ends_in_loop (s' :: r')).
    change (removelast (s :: s' :: r')) with (s :: removelast (s' :: r')).
    cbn [is_nil]. rewrite andb_false_r. unfold strip_loop in IH. rewrite IH.
    destruct (ends_in_loop (s' :: r')); reflexivity.
Qed.

Lemma lower_none_iff : forall s b, lower_stmt s b = None <-> loops_ok s = false.
Proof.
  induction s as [a|l|l|c t IHt|c t e IHt IHe|ss IHss|] using stmt_ind2; intros b.
  - cbn. split; discriminate.
  - rewrite lower_goto. cbn. split; discriminate.
  - rewrite lower_label. cbn. split; discriminate.
  - rewrite lower_if1. cbn [loops_ok]. rewrite andb_true_r.
    destruct (lower_stmt t _) eqn:E.
    + split; [discriminate|]. intros H. apply (IHt (enter Then_ (emit (ICmp c) b))) in H. congruence.
    + split; [|reflexivity]. intros _. eapply IHt; eauto.
  - rewrite lower_if2. cbn [loops_ok].
    destruct (lower_stmt t _) as [b2|] eqn:E.
    + destruct (lower_stmt e _) eqn:E'.
      * split; [discriminate|]. intros H. apply andb_false_iff in H. destruct H as [H|H].
        -- apply (IHt (enter Then_ (emit (ICmp c) b))) in H. congruence.
        -- apply (IHe (enter Else_ b2)) in H. congruence.
      * split; [|reflexivity]. intros _. apply andb_false_iff. right. eapply IHe; eauto.
    + split; [|reflexivity]. intros _. apply andb_false_iff. left. eapply IHt; eauto.
  - rewrite loops_ok_block.
    assert (HL : forall ss', Forall (fun s => forall b, lower_stmt s b = None <-> loops_ok s = false) ss' ->
                 forall b, lower_list ss' b = None <-> loops_ok_list ss' = false).
    { induction 1 as [|s r Hs _ IH]; intros b0.
      - cbn. split; discriminate.
      - rewrite lower_list_cons. cbn [loops_ok_list]. destruct (lower_stmt s b0) as [b1|] eqn:E.
        + rewrite IH. split; [intros ->; apply andb_false_r|]. intros H.
          apply andb_false_iff in H. destruct H as [H|H]; [|assumption].
          apply (Hs b0) in H. congruence.
        + split; [|reflexivity]. intros _. apply andb_false_iff. left. eapply Hs; eauto. }
    rewrite lower_block'. unfold strip_loop. destruct (ends_in_loop ss) eqn:El.
    + assert (IHbody : Forall (fun s => forall b, lower_stmt s b = None <-> loops_ok s = false) (removelast ss)).
      { rewrite (ends_in_loop_snoc ss El) in IHss. apply Forall_app in IHss. tauto. }
      rewrite <- (HL _ IHbody (set_cur (nb b) (emit_at (cur b) (IBr (nb b)) (apb Looped b)))).
      destruct (lower_list (removelast ss) _); split; congruence.
    + now apply HL.
  - cbn. split; reflexivity.
Qed.

Lemma lower_list_none_iff ss b : lower_list ss b = None <-> loops_ok_list ss = false.
Proof.
  revert b. induction ss as [|s r IH]; intros b.
  - cbn. split; discriminate.
  - rewrite lower_list_cons. cbn [loops_ok_list]. destruct (lower_stmt s b) as [b1|] eqn:E.
    + rewrite IH. split; [intros ->; apply andb_false_r|]. intros H.
      apply andb_false_iff in H. destruct H as [H|H]; [|assumption].
      apply (lower_none_iff s b) in H. congruence.
    + split; [|reflexivity]. intros _. apply andb_false_iff. left. eapply lower_none_iff; eauto.
Qed.

(* the panic `unreachable!()` happens iff some `loop` is not the last statement of a block *)
Theorem lower_body_panics_iff body : lower_body body = None <-> loops_ok_list body = false.
Proof.
  unfold lower_body, lower_body_state. rewrite <- (lower_list_none_iff body init_state).
  destruct (lower_list body init_state); split; congruence.
Qed.

(* ---- the label map only knows labels of the body ---------------------------------- *)
Lemma lower_stmt_dom : forall s b b', lower_stmt s b = Some b' ->
  forall l i, lk b' l = Some i -> lk b l = Some i \/ In l (labels_of s) \/ In l (gotos_of s).
Proof.
  induction s as [a|l0|l0|c t IHt|c t e IHt IHe|ss IHss|] using stmt_ind2; intros b b' Hlow l i Hk.
  - inversion Hlow; subst. now left.
  - rewrite lower_goto in Hlow. inversion Hlow; subst. clear Hlow.
    destruct (foa_cases l0 (apb Unreachable b)) as [(j & Hl & E)|[Hl E]]; rewrite E in Hk;
      cbn [fst snd] in Hk; obs; [now left|]. nsplit; [subst; right; right; now left|now left].
  - rewrite lower_label in Hlow. inversion Hlow; subst. clear Hlow.
    destruct (foa_cases l0 b) as [(j & Hl & E)|[Hl E]]; rewrite E in Hk;
      cbn [fst snd] in Hk; obs; [now left|]. nsplit; [subst; right; left; now left|now left].
  - rewrite lower_if1 in Hlow. destruct (lower_stmt t _) as [b2|] eqn:E; [|discriminate].
    inversion Hlow; subst. obs. cbn [labels_of gotos_of]. rewrite !app_nil_r.
    apply (IHt _ _ E) in Hk. exact Hk.
  - rewrite lower_if2 in Hlow. destruct (lower_stmt t _) as [b2|] eqn:E; [|discriminate].
    destruct (lower_stmt e _) as [b4|] eqn:E'; [|discriminate].
    inversion Hlow; subst. obs. cbn [labels_of gotos_of]. rewrite !in_app_iff.
    apply (IHe _ _ E') in Hk. destruct Hk as [Hk|Hk]; [|tauto].
    apply (IHt _ _ E) in Hk. tauto.
  - rewrite labels_block, gotos_block.
    assert (HL : forall ss', Forall (fun s => forall b b', lower_stmt s b = Some b' ->
                   forall l i, lk b' l = Some i ->
                   lk b l = Some i \/ In l (labels_of s) \/ In l (gotos_of s)) ss' ->
                 forall b b', lower_list ss' b = Some b' -> forall l i, lk b' l = Some i ->
                   lk b l = Some i \/ In l (labels_list ss') \/ In l (gotos_list ss')).
    { induction 1 as [|s r Hs _ IH]; intros b0 b0' H0 l1 i1 Hk1.
      - inversion H0; subst. now left.
      - rewrite lower_list_cons in H0. destruct (lower_stmt s b0) as [b1|] eqn:E; [|discriminate].
        cbn [labels_list gotos_list]. rewrite !in_app_iff.
        apply (IH _ _ H0) in Hk1. destruct Hk1 as [Hk1|Hk1]; [|tauto].
        apply (Hs _ _ E) in Hk1. tauto. }
    rewrite lower_block' in Hlow. destruct (ends_in_loop ss) eqn:El.
    + destruct (lower_list (removelast ss) _) as [b2|] eqn:E; [|discriminate].
      inversion Hlow; subst. obs.
      assert (IHbody : Forall (fun s => forall b b', lower_stmt s b = Some b' ->
                   forall l i, lk b' l = Some i ->
                   lk b l = Some i \/ In l (labels_of s) \/ In l (gotos_of s)) (removelast ss)).
      { rewrite (ends_in_loop_snoc ss El) in IHss. apply Forall_app in IHss. tauto. }
      apply (HL _ IHbody _ _ E) in Hk. obs.
      pose proof (labels_strip ss) as X. pose proof (gotos_strip ss) as Y.
      unfold strip_loop in X, Y. rewrite El in X, Y. now rewrite X, Y in Hk.
    + eapply HL; eauto.
  - discriminate.
Qed.

Lemma lower_list_dom ss b b' : lower_list ss b = Some b' ->
  forall l i, lk b' l = Some i -> lk b l = Some i \/ In l (labels_list ss) \/ In l (gotos_list ss).
Proof.
  revert b. induction ss as [|s r IH]; intros b H l i Hk.
  - inversion H; subst. now left.
  - rewrite lower_list_cons in H. destruct (lower_stmt s b) as [b1|] eqn:E; [|discriminate].
    cbn [labels_list gotos_list]. rewrite !in_app_iff.
    apply (IH _ H) in Hk. destruct Hk as [Hk|Hk]; [|tauto].
    apply (lower_stmt_dom _ _ _ E) in Hk. tauto.
Qed.

(* ---- well-formed control-flow graphs ------------------------------------------------ *)
Record cfg_wf (labels : list N) (g : cfg) : Prop := {
  (* block 0 is the entry block and it is the only one of that name *)
  wf_entry : forall i, tagl g i = Some Entry <-> i = 0;
  (* every block: non-terminators, then exactly one terminator, whose targets exist *)
  wf_closed : forall i blk, get_block g i = Some blk -> closedl (next_id g) (binstrs blk);
  (* exactly one block per label *)
  wf_label : forall l, In l labels ->
             exists i, tagl g i = Some (Lbl l) /\ forall j, tagl g j = Some (Lbl l) -> j = i;
  (* and no other labelled blocks *)
  wf_label_only : forall i l, tagl g i = Some (Lbl l) -> In l labels
}.

Lemma Inv_init P : Inv init_state P.
Proof.
  assert (Hnb : nb init_state = 1) by reflexivity.
  assert (Htg : forall i, tg init_state i = if i =? 0 then Some Entry else None).
  { intros i. unfold tg, tagl, get_block. cbn [init_state blocks].
    destruct (N.eqb_spec i 0) as [->|Hn]; [reflexivity|].
    destruct (N.to_nat i) eqn:E; [lia|]. cbn [nth_error]. now destruct n. }
  constructor.
  - rewrite Hnb. cbn. lia.
  - intros l i H. discriminate.
  - intros i l H. rewrite Htg in H. destruct (i =? 0); discriminate.
  - intros l i _ H. discriminate.
  - cbn. apply openl_nil.
  - intros i. rewrite Htg. destruct (N.eqb_spec i 0); split; congruence.
Qed.

Theorem lower_cfg_wf body g :
  lower_body body = Some g ->
  NoDup (labels_list body) ->
  incl (gotos_list body) (labels_list body) ->
  cfg_wf (labels_list body) g.
Proof.
  unfold lower_body, lower_body_state. intros Hlow Hnd Hincl.
  destruct (lower_list body init_state) as [b|] eqn:E; [|discriminate].
  assert (Hg0 : g = blocks (emit IRet b)) by congruence. subst g. clear Hlow.
  set (P := fun l => In l (labels_list body)).
  destruct (lower_list_step body init_state b P E (Inv_init P) Hnd (fun l H => H)) as [S _].
  pose proof (st_inv _ _ _ _ _ S) as I. pose proof (inv_cur _ _ I) as Hc.
  pose proof (inv_open _ _ I) as Ho.
  assert (Hnb0 : nb init_state = 1) by reflexivity.
  assert (Hcur0 : cur init_state = 0) by reflexivity.
  set (bf := emit IRet b).
  assert (Htgf : forall i, tagl (blocks bf) i = tg b i) by (intros; apply tg_emit).
  assert (Hnbf : next_id (blocks bf) = nb b) by apply nb_emit.
  assert (Hinsf : forall i, ins bf i = if i =? cur b then ins b i ++ [IRet] else ins b i).
  { intros i. subst bf. obs. nsplit; fin. }
  assert (Hclosed : forall i, i < nb b -> closedl (nb b) (ins bf i)).
  { intros i Hi. rewrite Hinsf. destruct (N.eqb_spec i (cur b)) as [->|Hne].
    - apply closedl_snoc; [assumption|reflexivity|reflexivity].
    - destruct (N.eq_dec i 0) as [->|Hn0].
      + rewrite <- Hcur0. apply (st_close_cur _ _ _ _ _ S). rewrite Hcur0. congruence.
      + assert (Hg : forall l, In l (gotos_list body) ->
                  In l (labels_list body) \/ P l \/ lk init_state l <> None).
        { intros l' Hl. left. now apply Hincl. }
        destruct (st_new _ _ _ _ _ S Hg i) as [Hcl|(l & _ & Hp & Hn)];
          [lia|lia|assumption|assumption|].
        exfalso. now apply Hn. }
  constructor.
  - intros i. rewrite Htgf. apply (inv_entry _ _ I).
  - intros i blk Hg. rewrite Hnbf.
    assert (Hi : i < nb b).
    { destruct (N.ltb_spec i (nb b)); [assumption|]. rewrite get_block_none in Hg; [discriminate|].
      now rewrite Hnbf. }
    specialize (Hclosed i Hi). unfold ins, insl in Hclosed. now rewrite Hg in Hclosed.
  - intros l Hl. pose proof (st_bound _ _ _ _ _ S l Hl) as Hb.
    destruct (lk b l) as [i|] eqn:Hk; [|congruence]. exists i.
    destruct (inv_lk _ _ I _ _ Hk) as [_ Ht]. split; [now rewrite Htgf|].
    intros j Hj. rewrite Htgf in Hj. apply (inv_tg _ _ I) in Hj. congruence.
  - intros i l Ht. rewrite Htgf in Ht. apply (inv_tg _ _ I) in Ht.
    destruct (lower_list_dom _ _ _ E _ _ Ht) as [H|[H|H]]; [discriminate|assumption|now apply Hincl].
Qed.

(* the executable checker agrees *)
Lemma instrs_wfb_closed n l : closedl n l -> instrs_wfb n l = true.
Proof.
  intros (body & t & -> & Ho & Ht & Hk). induction body as [|x r IH].
  - cbn. now rewrite Ht, Hk.
  - inversion Ho as [|? ? Hx Hr]; subst. specialize (IH Hr). cbn [app].
    change (instrs_wfb n (x :: (r ++ [t]))) with
      (match r ++ [t] with
       | [] => is_term x && target_ok n x
       | _ => negb (is_term x) && instrs_wfb n (r ++ [t])
       end).
    destruct (r ++ [t]) eqn:E; [destruct r; discriminate|].
    unfold nonterm in Hx. rewrite Hx. exact IH.
Qed.

Lemma tag_eqb_eq a b : tag_eqb a b = true <-> a = b.
Proof.
  destruct a, b; cbn; split; try congruence; try reflexivity.
  - intros H. apply N.eqb_eq in H. now subst.
  - intros H. inversion H. apply N.eqb_refl.
Qed.

Lemma cfg_wf_wfb labels g : cfg_wf labels g -> cfg_wfb g = true.
Proof.
  intros [He Hc _ _]. unfold cfg_wfb.
  assert (H0 : tagl g 0 = Some Entry) by now apply He.
  destruct g as [|e r]; [discriminate|].
  assert (Hte : btag e = Entry) by (cbn in H0; congruence).
  apply andb_true_iff. split; [apply andb_true_iff; split|].
  - apply forallb_forall. intros blk Hin. apply In_nth_error in Hin. destruct Hin as [n Hn].
    apply instrs_wfb_closed. apply (Hc (N.of_nat n)). unfold get_block. now rewrite Nat2N.id.
  - apply tag_eqb_eq. exact Hte.
  - unfold count_tag. cbn [filter]. rewrite (proj2 (tag_eqb_eq _ _) Hte).
    assert (Hr : filter (fun b => tag_eqb (btag b) Entry) r = []).
    { destruct (filter _ r) as [|x xs] eqn:Ef; [reflexivity|]. exfalso.
      assert (Hx : In x (filter (fun b => tag_eqb (btag b) Entry) r)) by (rewrite Ef; now left).
      apply filter_In in Hx. destruct Hx as [Hx1 Hx2]. apply tag_eqb_eq in Hx2.
      apply In_nth_error in Hx1. destruct Hx1 as [n Hn].
      assert (Hi : tagl (e :: r) (N.of_nat (S n)) = Some Entry).
      { unfold tagl, get_block. rewrite Nat2N.id. cbn [nth_error]. now rewrite Hn, Hx2. }
      apply He in Hi. lia. }
    now rewrite Hr.
Qed.

Corollary lower_cfg_wfb body g :
  lower_body body = Some g -> NoDup (labels_list body) ->
  incl (gotos_list body) (labels_list body) -> cfg_wfb g = true.
Proof. intros. eapply cfg_wf_wfb. eapply lower_cfg_wf; eauto. Qed.

(* ---- statement lists, jumps ---------------------------------------------------------- *)
Lemma ends_in_loop_cons s r :
  ends_in_loop (s :: r) = if is_nil r then is_loop s else ends_in_loop r.
Proof. destruct r; reflexivity. Qed.

Lemma jump_target_nil l : jump_target l [] = None.
Proof. reflexivity. Qed.

Lemma jump_target_cons l s r :
  jump_target l (s :: r) =
  match s with
  | SLabel l' => if N.eqb l l' then Some r else jump_target l r
  | _ => jump_target l r
  end.
Proof. reflexivity. Qed.

Lemma jump_target_ends l r r' : jump_target l r = Some r' -> ends_in_loop r' = ends_in_loop r.
Proof.
  revert r'. induction r as [|s r0 IH]; intros r' H; [discriminate|].
  rewrite jump_target_cons in H. rewrite ends_in_loop_cons.
  assert (Hskip : jump_target l r0 = Some r' -> ends_in_loop r' = (if is_nil r0 then is_loop s else ends_in_loop r0)).
  { intros H'. destruct r0; [discriminate|]. now apply IH. }
  destruct s; auto. destruct (N.eqb l l0); auto.
  inversion H; subst. destruct r'; reflexivity.
Qed.

Lemma removelast_cons {A} (x : A) r : r <> [] -> removelast (x :: r) = x :: removelast r.
Proof. destruct r; [congruence|reflexivity]. Qed.

Lemma jump_target_removelast l r r' :
  jump_target l r = Some r' -> ends_in_loop r = true ->
  jump_target l (removelast r) = Some (removelast r').
Proof.
  revert r'. induction r as [|s r0 IH]; intros r' H He; [discriminate|].
  rewrite ends_in_loop_cons in He. rewrite jump_target_cons in H.
  destruct r0 as [|s1 r1].
  - cbn [is_nil] in He. destruct s; try discriminate.
  - cbn [is_nil] in He. rewrite removelast_cons by discriminate. rewrite jump_target_cons.
    destruct s; auto. destruct (N.eqb l l0); auto. now inversion H.
Qed.

Section Sim.
Variable St : Type.
Variable act : N -> St -> St.
Variable cond : N -> St -> bool.
Variable g : bstate.

Lemma exec_S f s st :
  exec St act cond (S f) s st =
  match s with
  | SAct a => Ok (ONormal, act a st)
  | SGoto l => Ok (OJump l, st)
  | SLabel _ => Ok (ONormal, st)
  | SIf c t e =>
      if cond c st then exec St act cond f t st
      else match e with Some e' => exec St act cond f e' st | None => Ok (ONormal, st) end
  | SBlock b => exec_block St act cond f b b st
  | SLoop => Stuck
  end.
Proof. reflexivity. Qed.

Lemma exec_block_S f whole rest st :
  exec_block St act cond (S f) whole rest st =
  match rest with
  | [] => Ok (ONormal, st)
  | s :: r =>
      if is_loop s && is_nil r then exec_block St act cond f whole whole st else
      match exec St act cond f s st with
      | Ok (ONormal, st1) => exec_block St act cond f whole r st1
      | Ok (OJump l, st1) =>
          match jump_target l r with
          | Some r' => exec_block St act cond f whole r' st1
          | None => Ok (OJump l, st1)
          end
      | Stuck => Stuck
      | OutOfFuel => OutOfFuel
      end
  end.
Proof. reflexivity. Qed.

Lemma exec_list_S f ss st :
  exec_list St act cond (S f) ss st =
  match ss with
  | [] => Ok (ONormal, st)
  | s :: r =>
      match exec St act cond f s st with
      | Ok (ONormal, st1) => exec_list St act cond f r st1
      | Ok (OJump l, st1) =>
          match jump_target l r with
          | Some r' => exec_list St act cond f r' st1
          | None => Ok (OJump l, st1)
          end
      | Stuck => Stuck
      | OutOfFuel => OutOfFuel
      end
  end.
Proof. reflexivity. Qed.

Lemma exec_block_noloop : forall f whole rest st,
  ends_in_loop rest = false -> exec_block St act cond f whole rest st = exec_list St act cond f rest st.
Proof.
  induction f as [|f IH]; intros whole rest st He; [reflexivity|].
  rewrite exec_block_S, exec_list_S. destruct rest as [|s r]; [reflexivity|].
  rewrite ends_in_loop_cons in He.
  assert (Hc : is_loop s && is_nil r = false).
  { destruct (is_nil r) eqn:En; [now rewrite He|apply andb_false_r]. }
  rewrite Hc. destruct (exec St act cond f s st) as [[[|l] st1]| |]; try reflexivity.
  - apply IH. destruct r; [reflexivity|exact He].
  - destruct (jump_target l r) as [r'|] eqn:Ej; [|reflexivity]. apply IH.
    rewrite (jump_target_ends _ _ _ Ej). destruct r; [discriminate|exact He].
Qed.

(* one CFG instruction *)
Inductive step : pos * St -> pos * St -> Prop :=
| cs_act i k a st : iat g (i, k) = Some (IAct a) -> step ((i, k), st) ((i, S k), act a st)
| cs_cmp i k c st : iat g (i, k) = Some (ICmp c) -> step ((i, k), st) ((i, S k), st)
| cs_br i k j st : iat g (i, k) = Some (IBr j) -> step ((i, k), st) ((j, O), st)
| cs_cbr i k c j1 j2 st :
    iat g (i, k) = Some (ICondBr c j1 j2) ->
    step ((i, k), st) ((if cond c st then j1 else j2, O), st).

Inductive steps : nat -> pos * St -> pos * St -> Prop :=
| steps_0 x : steps O x x
| steps_S n x y z : step x y -> steps n y z -> steps (S n) x z.

Lemma steps_trans n m x y z : steps n x y -> steps m y z -> steps (n + m) x z.
Proof. induction 1; intros H'; [exact H'|]. cbn [Nat.add]. econstructor; eauto. Qed.

Lemma steps_1 x y : step x y -> steps 1 x y.
Proof. intros H. econstructor; [exact H|constructor]. Qed.

Lemma iat_get i k x :
  iat g (i, k) = Some x ->
  exists blk, get_block (blocks g) i = Some blk /\ nth_error (binstrs blk) k = Some x.
Proof.
  unfold iat, ins, insl. cbn [fst snd]. destruct (get_block (blocks g) i) as [blk|]; [eauto|].
  destruct k; discriminate.
Qed.

Lemma run_from_steps n x y :
  steps n x y -> forall m,
  run_from St act cond (n + m) (blocks g) (fst (fst x)) (snd (fst x)) (snd x) =
  run_from St act cond m (blocks g) (fst (fst y)) (snd (fst y)) (snd y).
Proof.
  induction 1 as [|n x y z Hs _ IH]; intros m; [reflexivity|].
  rewrite <- IH. cbn [Nat.add].
  destruct Hs as [i k a st H|i k c st H|i k j st H|i k c j1 j2 st H];
    destruct (iat_get _ _ _ H) as (blk & E1 & E2); cbn [fst snd run_from]; now rewrite E1, E2.
Qed.

Fixpoint bound (f : nat) : nat :=
  match f with O => O | S f' => 2 * bound f' + 3 end.

Definition R (o : outcome) (p q : pos) (st st' : St) (n : nat) : Prop :=
  match o with
  | ONormal => steps n (p, st) (q, st')
  | OJump l => exists lb, lk g l = Some lb /\ steps n (p, st) ((lb, O), st')
  end.

Lemma jump_target_code l r r' m q :
  jump_target l r = Some r' -> code_list g r m q ->
  exists lb, lk g l = Some lb /\ code_list g r' (lb, O) q.
Proof.
  revert m. induction r as [|s r0 IH]; intros m H Hc; [discriminate|].
  rewrite jump_target_cons in H. destruct Hc as (m' & Hs & Hr).
  destruct s; eauto. destruct (N.eqb_spec l l0) as [->|Hne]; eauto.
  inversion H; subst. destruct Hs as (lb & _ & Hk & ->). eauto.
Qed.

Definition sim_stmt (f : nat) : Prop :=
  forall s st o st' p q, exec St act cond f s st = Ok (o, st') -> code g s p q ->
    exists n, (n <= bound f)%nat /\ R o p q st st' n.

Definition sim_list (f : nat) : Prop :=
  forall ss st o st' p q, exec_list St act cond f ss st = Ok (o, st') -> code_list g ss p q ->
    exists n, (n <= bound f)%nat /\ R o p q st st' n.

Definition sim_block (f : nat) : Prop :=
  forall whole rest st o st' lp pe p,
    exec_block St act cond f whole rest st = Ok (o, st') ->
    ends_in_loop whole = true -> code_list g (removelast whole) (lp, O) pe ->
    iat g pe = Some (IBr lp) ->
    ends_in_loop rest = true -> code_list g (removelast rest) p pe ->
    exists n, (n <= bound f)%nat /\
      exists l lb, o = OJump l /\ lk g l = Some lb /\ steps n (p, st) ((lb, O), st').

Lemma bound_S f : bound (S f) = (2 * bound f + 3)%nat.
Proof. reflexivity. Qed.

Lemma sim_stmt_S f : sim_stmt f -> sim_list f -> sim_block f -> sim_stmt (S f).
Proof.
  intros IHs IHl IHb s st o st' [i k] q He Hc. rewrite bound_S.
  rewrite exec_S in He. destruct s as [a|l|l|c t e|ss|].
  - inversion He; subst. destruct Hc as [Hi ->]. cbn [fst snd]. exists 1%nat.
    split; [lia|]. apply steps_1. now constructor.
  - inversion He; subst. destruct Hc as (lb & Hi & Hk). exists 1%nat.
    split; [lia|]. exists lb. split; [assumption|]. apply steps_1. now constructor.
  - inversion He; subst. destruct Hc as (lb & Hi & Hk & ->). exists 1%nat.
    split; [lia|]. apply steps_1. now constructor.
  - destruct e as [e|].
    + destruct Hc as (th & el & af & pe & pe' & H1 & H2 & H3 & H4 & H5 & H6 & ->).
      cbn [fst snd] in H2.
      assert (S2 : steps 2 ((i, k), st) ((if cond c st then th else el, O), st)).
      { econstructor; [eapply cs_cmp; eassumption|]. apply steps_1. now apply cs_cbr. }
      destruct (cond c st).
      * destruct (IHs _ _ _ _ _ _ He H3) as (n & Hn & HR). destruct o as [|l]; cbn [R] in *.
        -- exists (2 + (n + 1))%nat. split; [lia|]. eapply steps_trans; [exact S2|].
           eapply steps_trans; [exact HR|]. apply steps_1. destruct pe. now constructor.
        -- destruct HR as (lb & Hk & HR). exists (2 + n)%nat. split; [lia|]. exists lb.
           split; [assumption|]. eapply steps_trans; eauto.
      * destruct (IHs _ _ _ _ _ _ He H5) as (n & Hn & HR). destruct o as [|l]; cbn [R] in *.
        -- exists (2 + (n + 1))%nat. split; [lia|]. eapply steps_trans; [exact S2|].
           eapply steps_trans; [exact HR|]. apply steps_1. destruct pe'. now constructor.
        -- destruct HR as (lb & Hk & HR). exists (2 + n)%nat. split; [lia|]. exists lb.
           split; [assumption|]. eapply steps_trans; eauto.
    + destruct Hc as (th & af & pe & H1 & H2 & H3 & H4 & ->). cbn [fst snd] in H2.
      assert (S2 : steps 2 ((i, k), st) ((if cond c st then th else af, O), st)).
      { econstructor; [eapply cs_cmp; eassumption|]. apply steps_1. now apply cs_cbr. }
      destruct (cond c st).
      * destruct (IHs _ _ _ _ _ _ He H3) as (n & Hn & HR). destruct o as [|l]; cbn [R] in *.
        -- exists (2 + (n + 1))%nat. split; [lia|]. eapply steps_trans; [exact S2|].
           eapply steps_trans; [exact HR|]. apply steps_1. destruct pe. now constructor.
        -- destruct HR as (lb & Hk & HR). exists (2 + n)%nat. split; [lia|]. exists lb.
           split; [assumption|]. eapply steps_trans; eauto.
      * inversion He; subst. exists 2%nat. split; [lia|]. exact S2.
  - apply code_block in Hc. destruct (ends_in_loop ss) eqn:El.
    + destruct Hc as (lp & pe & H1 & H2 & H3).
      destruct (IHb _ _ _ _ _ _ _ _ He El H2 H3 El H2) as (n & Hn & l & lb & -> & Hk & HS).
      exists (1 + n)%nat. split; [lia|]. exists lb. split; [assumption|].
      eapply steps_trans; [apply steps_1; apply cs_br; eassumption|exact HS].
    + rewrite exec_block_noloop in He by assumption.
      destruct (IHl _ _ _ _ _ _ He Hc) as (n & Hn & HR). exists n. split; [lia|assumption].
  - discriminate.
Qed.

Lemma sim_list_S f : sim_stmt f -> sim_list f -> sim_list (S f).
Proof.
  intros IHs IHl ss st o st' p q He Hc. rewrite bound_S. rewrite exec_list_S in He.
  destruct ss as [|s r].
  - inversion He; subst. cbn in Hc. subst q. exists O. split; [lia|constructor].
  - destruct Hc as (m & Hs & Hr).
    destruct (exec St act cond f s st) as [[[|l] st1]| |] eqn:Es; try discriminate.
    + destruct (IHs _ _ _ _ _ _ Es Hs) as (n1 & Hn1 & HR1). cbn [R] in HR1.
      destruct (IHl _ _ _ _ _ _ He Hr) as (n2 & Hn2 & HR2).
      exists (n1 + n2)%nat. split; [lia|]. destruct o; cbn [R] in *.
      * eapply steps_trans; eauto.
      * destruct HR2 as (lb & Hk & HR2). exists lb. split; [assumption|]. eapply steps_trans; eauto.
    + destruct (IHs _ _ _ _ _ _ Es Hs) as (n1 & Hn1 & lb & Hk & HR1).
      destruct (jump_target l r) as [r'|] eqn:Ej.
      * destruct (jump_target_code _ _ _ _ _ Ej Hr) as (lb' & Hk' & Hr').
        assert (lb' = lb) by congruence. subst lb'.
        destruct (IHl _ _ _ _ _ _ He Hr') as (n2 & Hn2 & HR2).
        exists (n1 + n2)%nat. split; [lia|]. destruct o; cbn [R] in *.
        -- eapply steps_trans; eauto.
        -- destruct HR2 as (lb2 & Hk2 & HR2). exists lb2. split; [assumption|]. eapply steps_trans; eauto.
      * inversion He; subst. exists n1. split; [lia|]. exists lb. auto.
Qed.

Lemma sim_block_S f : sim_stmt f -> sim_block f -> sim_block (S f).
Proof.
  intros IHs IHb whole rest st o st' lp pe p He Hw Hcw Hpe Hr Hcr. rewrite bound_S.
  rewrite exec_block_S in He. destruct rest as [|s r]; [discriminate|].
  rewrite ends_in_loop_cons in Hr. destruct (is_loop s && is_nil r) eqn:Ec.
  - apply andb_true_iff in Ec. destruct Ec as [E1 E2]. destruct r; [|discriminate].
    cbn in Hcr. subst p.
    destruct (IHb _ _ _ _ _ _ _ _ He Hw Hcw Hpe Hw Hcw) as (n & Hn & l & lb & -> & Hk & HS).
    exists (1 + n)%nat. split; [lia|]. exists l, lb. repeat split; [assumption|].
    eapply steps_trans; [apply steps_1|exact HS]. destruct pe. now apply cs_br.
  - assert (Hr0 : r <> []).
    { intros ->. cbn [is_nil] in *. rewrite Hr in Ec. discriminate. }
    assert (Hr' : ends_in_loop r = true) by (destruct r; [congruence|exact Hr]).
    rewrite removelast_cons in Hcr by assumption. destruct Hcr as (m & Hs & Hcr).
    destruct (exec St act cond f s st) as [[[|l] st1]| |] eqn:Es; try discriminate.
    + destruct (IHs _ _ _ _ _ _ Es Hs) as (n1 & Hn1 & HR1). cbn [R] in HR1.
      destruct (IHb _ _ _ _ _ _ _ _ He Hw Hcw Hpe Hr' Hcr) as (n2 & Hn2 & l & lb & -> & Hk & HS).
      exists (n1 + n2)%nat. split; [lia|]. exists l, lb. repeat split; [assumption|].
      eapply steps_trans; eauto.
    + destruct (IHs _ _ _ _ _ _ Es Hs) as (n1 & Hn1 & lb & Hk & HR1).
      destruct (jump_target l r) as [r'|] eqn:Ej.
      * pose proof (jump_target_removelast _ _ _ Ej Hr') as Ej'.
        destruct (jump_target_code _ _ _ _ _ Ej' Hcr) as (lb' & Hk' & Hcr').
        assert (lb' = lb) by congruence. subst lb'.
        assert (He' : ends_in_loop r' = true) by (rewrite (jump_target_ends _ _ _ Ej); exact Hr').
        destruct (IHb _ _ _ _ _ _ _ _ He Hw Hcw Hpe He' Hcr') as (n2 & Hn2 & l2 & lb2 & -> & Hk2 & HS).
        exists (n1 + n2)%nat. split; [lia|]. exists l2, lb2. repeat split; [assumption|].
        eapply steps_trans; eauto.
      * inversion He; subst. exists n1. split; [lia|]. exists l, lb. auto.
Qed.

Lemma sim_all f : sim_stmt f /\ sim_list f /\ sim_block f.
Proof.
  induction f as [|f (IHs & IHl & IHb)].
  - repeat split; intro; intros; discriminate.
  - repeat split; [apply sim_stmt_S|apply sim_list_S|apply sim_block_S]; assumption.
Qed.
End Sim.

Section Main.
Variable St : Type.
Variable act : N -> St -> St.
Variable cond : N -> St -> bool.

Lemma run_from_mono : forall m g b k st,
  run_from St act cond m g b k st <> COutOfFuel ->
  forall m', (m <= m')%nat -> run_from St act cond m' g b k st = run_from St act cond m g b k st.
Proof.
  induction m as [|m IH]; intros g b k st Hne m' Hle; [now contradiction Hne|].
  destruct m' as [|m']; [lia|]. cbn [run_from] in *.
  destruct (get_block g b) as [blk|]; [|reflexivity].
  destruct (nth_error (binstrs blk) k) as [[a|c|j|c j1 j2|]|]; try reflexivity; apply IH; auto; lia.
Qed.

(* A structured run that terminates normally is reproduced by the CFG: same final
   state, within [bound fuel + 1] instructions. *)
Theorem lower_simulates body g :
  lower_body body = Some g -> NoDup (labels_list body) ->
  forall f st st', run_body St act cond f body st = Ok st' ->
  exists n, (n <= bound f + 1)%nat /\
    forall m, (n <= m)%nat -> run_cfg St act cond m g st = CRet st'.
Proof.
  unfold lower_body, lower_body_state. intros Hlow Hnd f st st' Hrun.
  destruct (lower_list body init_state) as [b|] eqn:E; [|discriminate].
  assert (Hg0 : g = blocks (emit IRet b)) by congruence. subst g. clear Hlow.
  set (P := fun l => In l (labels_list body)).
  destruct (lower_list_step body init_state b P E (Inv_init P) Hnd (fun l H => H)) as [Stp C].
  pose proof (st_inv _ _ _ _ _ Stp) as I. pose proof (inv_cur _ _ I) as Hc.
  set (bf := emit IRet b).
  assert (HE : Ext b bf) by apply Ext_emit_at.
  apply (code_list_ext _ _ HE) in C.
  assert (Hret : iat bf (curpos b) = Some IRet).
  { unfold curpos. apply iat_snoc. subst bf. obs. nsplit; fin. }
  assert (Hp0 : curpos init_state = (0, O)) by reflexivity. rewrite Hp0 in C.
  unfold run_body in Hrun.
  destruct (exec_list St act cond f body st) as [[[|l] st1]| |] eqn:Ex; try discriminate.
  inversion Hrun; subst st1. clear Hrun.
  destruct (sim_all St act cond bf f) as (_ & Hl & _).
  destruct (Hl _ _ _ _ _ _ Ex C) as (n & Hn & HR). cbn [R] in HR.
  exists (n + 1)%nat. split; [lia|]. intros m Hm.
  replace m with (n + S (m - n - 1))%nat by lia. unfold run_cfg.
  rewrite (run_from_steps St act cond bf n _ _ HR). unfold curpos in *. cbn [fst snd].
  destruct (iat_get _ _ _ _ Hret) as (blk & E1 & E2). cbn [run_from]. now rewrite E1, E2.
Qed.

(* hence: whatever fuel the CFG run is given, it either has not finished yet or
   returns the state of the structured run *)
Corollary lower_simulates_any_fuel body g :
  lower_body body = Some g -> NoDup (labels_list body) ->
  forall f st st', run_body St act cond f body st = Ok st' ->
  forall m, run_cfg St act cond m g st = COutOfFuel \/ run_cfg St act cond m g st = CRet st'.
Proof.
  intros Hlow Hnd f st st' Hrun m.
  destruct (lower_simulates body g Hlow Hnd f st st' Hrun) as (n & _ & Hn).
  destruct (Nat.le_gt_cases n m) as [Hle|Hgt]; [right; now apply Hn|].
  destruct (run_cfg St act cond m g st) eqn:Er; [right|right|now left].
  - unfold run_cfg in *. rewrite <- Er. rewrite <- (Hn n (Nat.le_refl n)). symmetry.
    apply run_from_mono; [congruence|lia].
  - exfalso. unfold run_cfg in *.
    assert (X : run_from St act cond n g 0 0 st = run_from St act cond m g 0 0 st)
      by (apply run_from_mono; [congruence|lia]).
    rewrite Hn, Er in X by lia. discriminate.
Qed.
End Main.

(* the same for the sequence of executed actions *)
Theorem lower_simulates_trace St (act : N -> St -> St) (cond : N -> St -> bool) body g :
  lower_body body = Some g -> NoDup (labels_list body) ->
  forall f st tr st', trace_body act cond f body st = Ok (tr, st') ->
  exists n, (n <= bound f + 1)%nat /\
    forall m, (n <= m)%nat -> trace_cfg act cond m g st = CRet (tr, st').
Proof.
  intros Hlow Hnd f st tr st' H. unfold trace_body, trace_cfg in *.
  eapply lower_simulates; eauto.
Qed.

(* ---- accepted bodies: the structured semantics never gets stuck ------------------- *)
Lemma direct_labels_cons s r :
  direct_labels (s :: r) = match s with SLabel l => l :: direct_labels r | _ => direct_labels r end.
Proof. destruct s; reflexivity. Qed.

Lemma jump_target_none l r : jump_target l r = None -> ~ In l (direct_labels r).
Proof.
  induction r as [|s r IH]; intros H; [intros []|].
  rewrite jump_target_cons in H. rewrite direct_labels_cons. destruct s; auto.
  destruct (N.eqb_spec l l0); [discriminate|]. intros [Hi|Hi]; [congruence|now apply IH].
Qed.

Lemma legal_block ss V : legal_stmt (SBlock ss) V = legal_list ss V.
Proof. cbn [legal_stmt]. induction ss as [|s r IH]; [reflexivity|]. cbn [legal_list]. now rewrite IH. Qed.

Lemma strip_loop_cons s r :
  strip_loop (s :: r) = if is_loop s && is_nil r then [] else s :: strip_loop r.
Proof.
  unfold strip_loop. rewrite ends_in_loop_cons. destruct r as [|s' r'].
  - cbn [is_nil removelast]. rewrite andb_true_r. destruct (is_loop s); reflexivity.
  - cbn [is_nil]. rewrite andb_false_r. destruct (ends_in_loop (s' :: r')); [|reflexivity].
    now rewrite removelast_cons by discriminate.
Qed.

Lemma jump_target_legal l r r' V :
  jump_target l r = Some r' -> legal_list r V = true -> legal_list r' V = true.
Proof.
  revert r'. induction r as [|s r0 IH]; intros r' H HL; [discriminate|].
  rewrite jump_target_cons in H. cbn [legal_list] in HL. apply andb_true_iff in HL.
  destruct HL as [_ HL]. destruct s; auto. destruct (N.eqb l l0); auto. now inversion H; subst.
Qed.

Lemma jump_target_loops l r r' :
  jump_target l r = Some r' -> loops_ok_list r = true -> loops_ok_list r' = true.
Proof.
  revert r'. induction r as [|s r0 IH]; intros r' H HL; [discriminate|].
  rewrite jump_target_cons in H. cbn [loops_ok_list] in HL. apply andb_true_iff in HL.
  destruct HL as [_ HL]. destruct s; auto. destruct (N.eqb l l0); auto. now inversion H; subst.
Qed.

Lemma jump_target_loops_strip l r r' :
  jump_target l r = Some r' -> loops_ok_list (strip_loop r) = true ->
  loops_ok_list (strip_loop r') = true.
Proof.
  revert r'. induction r as [|s r0 IH]; intros r' H HL; [discriminate|].
  rewrite jump_target_cons in H. rewrite strip_loop_cons in HL.
  destruct (is_loop s && is_nil r0) eqn:Ec.
  - apply andb_true_iff in Ec. destruct Ec as [E1 E2]. destruct r0; [|discriminate].
    destruct s; discriminate.
  - cbn [loops_ok_list] in HL. apply andb_true_iff in HL. destruct HL as [_ HL].
    destruct s; auto. destruct (N.eqb l l0); auto. now inversion H; subst.
Qed.

Section Safe.
Variable St : Type.
Variable act : N -> St -> St.
Variable cond : N -> St -> bool.

Notation exec := (exec St act cond).
Notation exec_block := (exec_block St act cond).
Notation exec_list := (exec_list St act cond).

Definition safe_res (r : res (outcome * St)) (V : list N) : Prop :=
  r <> Stuck /\ forall l st', r = Ok (OJump l, st') -> In l V.

Definition safe_stmt (f : nat) : Prop :=
  forall s V st, legal_stmt s V = true -> loops_ok s = true -> safe_res (exec f s st) V.
Definition safe_list (f : nat) : Prop :=
  forall ss V st, legal_list ss V = true -> loops_ok_list ss = true -> safe_res (exec_list f ss st) V.
Definition safe_block (f : nat) : Prop :=
  forall whole rest V st,
    legal_list whole V = true -> loops_ok_list (strip_loop whole) = true ->
    legal_list rest V = true -> loops_ok_list (strip_loop rest) = true ->
    safe_res (exec_block f whole rest st) V.

Lemma safe_ok_normal st V : safe_res (Ok (ONormal, st)) V.
Proof. split; [discriminate|]. intros l st' H. discriminate. Qed.

Lemma safe_all f : safe_stmt f /\ safe_list f /\ safe_block f.
Proof.
  induction f as [|f (IHs & IHl & IHb)].
  - repeat split; intro; intros; cbn; try discriminate.
  - split; [|split].
    + intros s V st HL HO. rewrite exec_S. destruct s as [a|l|l|c t e|ss|].
      * apply safe_ok_normal.
      * split; [discriminate|]. intros l' st' H. inversion H; subst.
        cbn [legal_stmt] in HL. now apply mem_name_In.
      * apply safe_ok_normal.
      * cbn [legal_stmt loops_ok] in HL, HO. apply andb_true_iff in HL, HO.
        destruct HL as [HL1 HL2], HO as [HO1 HO2]. destruct (cond c st); [now apply IHs|].
        destruct e as [e|]; [now apply IHs|apply safe_ok_normal].
      * rewrite legal_block in HL. rewrite loops_ok_block in HO. now apply IHb.
      * discriminate.
    + intros ss V st HL HO. rewrite exec_list_S. destruct ss as [|s r]; [apply safe_ok_normal|].
      cbn [legal_list loops_ok_list] in HL, HO. apply andb_true_iff in HL, HO.
      destruct HL as [HL1 HL2], HO as [HO1 HO2].
      destruct (IHs s _ st HL1 HO1) as [Hns Hj].
      destruct (exec f s st) as [[[|l] st1]| |] eqn:Es; try congruence.
      * now apply IHl.
      * specialize (Hj l st1 eq_refl). destruct (jump_target l r) as [r'|] eqn:Ej.
        -- apply IHl; [eapply jump_target_legal; eauto|eapply jump_target_loops; eauto].
        -- split; [discriminate|]. intros l' st' H. inversion H; subst.
           apply in_app_or in Hj. destruct Hj as [Hj|Hj]; [|assumption].
           now apply jump_target_none in Ej.
      * split; [discriminate|]. intros l st' H. discriminate.
    + intros whole rest V st HLw HOw HL HO. rewrite exec_block_S.
      destruct rest as [|s r]; [apply safe_ok_normal|].
      rewrite strip_loop_cons in HO. destruct (is_loop s && is_nil r) eqn:Ec; [now apply IHb|].
      cbn [legal_list loops_ok_list] in HL, HO. apply andb_true_iff in HL, HO.
      destruct HL as [HL1 HL2], HO as [HO1 HO2].
      destruct (IHs s _ st HL1 HO1) as [Hns Hj].
      destruct (exec f s st) as [[[|l] st1]| |] eqn:Es; try congruence.
      * now apply IHb.
      * specialize (Hj l st1 eq_refl). destruct (jump_target l r) as [r'|] eqn:Ej.
        -- apply IHb; auto; [eapply jump_target_legal; eauto|eapply jump_target_loops_strip; eauto].
        -- split; [discriminate|]. intros l' st' H. inversion H; subst.
           apply in_app_or in Hj. destruct Hj as [Hj|Hj]; [|assumption].
           now apply jump_target_none in Ej.
      * split; [discriminate|]. intros l st' H. discriminate.
Qed.

Theorem accepted_not_stuck body :
  legal_list body [] = true -> loops_ok_list body = true ->
  forall f st, run_body St act cond f body st <> Stuck.
Proof.
  intros HL HO f st. destruct (safe_all f) as (_ & Hl & _).
  destruct (Hl body [] st HL HO) as [Hns Hj]. unfold run_body.
  destruct (exec_list f body st) as [[[|l] st1]| |] eqn:E;
    try discriminate; try congruence.
  now destruct (Hj l st1 eq_refl).
Qed.
End Safe.

(* ---- the boolean acceptance test gives the hypotheses of the theorems -------------- *)
Lemma nodupb_NoDup l : nodupb l = true -> NoDup l.
Proof.
  induction l as [|x r IH]; intros H; [constructor|].
  cbn [nodupb] in H. apply andb_true_iff in H. destruct H as [H1 H2].
  constructor; [|auto]. apply mem_name_false. now destruct (mem_name x r).
Qed.

Lemma direct_labels_incl ss : incl (direct_labels ss) (labels_list ss).
Proof.
  induction ss as [|s r IH]; [intros l []|]. rewrite direct_labels_cons. cbn [labels_list].
  intros l Hl. apply in_or_app. destruct s; try (right; now apply IH).
  destruct Hl as [<-|Hl]; [left; now left|right; now apply IH].
Qed.

Lemma legal_gotos : forall s V, legal_stmt s V = true ->
  forall l, In l (gotos_of s) -> In l V \/ In l (labels_of s).
Proof.
  induction s as [a|l0|l0|c t IHt|c t e IHt IHe|ss IHss|] using stmt_ind2; intros V HL l Hl;
    try (now destruct Hl).
  - destruct Hl as [<-|[]]. left. now apply mem_name_In.
  - cbn [legal_stmt gotos_of labels_of] in *. rewrite app_nil_r in *. rewrite andb_true_r in HL. eauto.
  - cbn [legal_stmt gotos_of labels_of] in *. apply andb_true_iff in HL. destruct HL as [H1 H2].
    rewrite in_app_iff in *. destruct Hl as [Hl|Hl]; [destruct (IHt V H1 l Hl)|destruct (IHe V H2 l Hl)]; tauto.
  - rewrite legal_block in HL. rewrite gotos_block in Hl. rewrite labels_block.
    revert V HL Hl. induction IHss as [|s r Hs _ IH]; intros V HL Hl; [destruct Hl|].
    cbn [legal_list gotos_list labels_list] in *. apply andb_true_iff in HL. destruct HL as [H1 H2].
    rewrite in_app_iff in *. destruct Hl as [Hl|Hl].
    + destruct (Hs _ H1 l Hl) as [H|H]; [|tauto]. apply in_app_or in H. destruct H as [H|H]; [|tauto].
      right. right. now apply direct_labels_incl.
    + destruct (IH V H2 Hl); tauto.
Qed.

Lemma legal_list_gotos ss V : legal_list ss V = true ->
  forall l, In l (gotos_list ss) -> In l V \/ In l (labels_list ss).
Proof.
  intros HL l Hl. rewrite <- legal_block in HL. rewrite <- gotos_block in Hl.
  rewrite <- labels_block. eapply legal_gotos; eauto.
Qed.

(* Summary: a body accepted by the earlier stages compiles to a well-formed CFG
   whose runs reproduce the structured runs, which never get stuck. *)
Theorem accepted_compiles body :
  accepted body = true ->
  exists g, lower_body body = Some g /\ cfg_wf (labels_list body) g /\
    forall St act cond f st,
      match run_body St act cond f body st with
      | Ok st' => forall m, run_cfg St act cond m g st = COutOfFuel \/
                            run_cfg St act cond m g st = CRet st'
      | Stuck => False
      | OutOfFuel => True
      end.
Proof.
  unfold accepted. intros H. apply andb_true_iff in H. destruct H as [H H3].
  apply andb_true_iff in H. destruct H as [H1 H2]. apply nodupb_NoDup in H1.
  destruct (lower_body body) as [g|] eqn:E.
  - exists g. split; [reflexivity|]. split.
    + apply lower_cfg_wf; auto. intros l Hl.
      destruct (legal_list_gotos _ _ H2 l Hl) as [[]|Hi]. exact Hi.
    + intros St act cond f st. destruct (run_body St act cond f body st) eqn:Er.
      * eapply lower_simulates_any_fuel; eauto.
      * eapply accepted_not_stuck; eauto.
      * exact I.
  - apply lower_body_panics_iff in E. congruence.
Qed.

(* ---- bridge to the analyses that accept a body ---------------------------------------
   [to_ls] / [to_syn] erase a body to the statement types of Model/LabelScope.v and
   Model/Syntax.v.  If the syntax analysis reports nothing (no E800/E801/E840) and
   the label scoper reports nothing (no E400/E420) then the body satisfies [legal_list]
   and [loops_ok_list]; uniqueness of resolution ids is the resolver's business. *)
Fixpoint to_ls (s : stmt) : LabelScope.stmt :=
  match s with
  | SAct _ => LabelScope.SOther
  | SGoto l => LabelScope.SGoto l
  | SLabel l => LabelScope.SLabel l
  | SIf _ t e => LabelScope.SIf (to_ls t) (match e with Some e' => Some (to_ls e') | None => None end)
  | SBlock ss => LabelScope.SBlock (map to_ls ss)
  | SLoop => LabelScope.SOther
  end.

Fixpoint to_syn (s : stmt) : Syntax.stmt :=
  match s with
  | SAct _ => Syntax.SSimple
  | SGoto _ => Syntax.SGoto
  | SLabel _ => Syntax.SSimple
  | SIf _ t e => Syntax.SIf (to_syn t) (match e with Some e' => Some (to_syn e') | None => None end)
  | SBlock ss => Syntax.SBlock (map to_syn ss)
  | SLoop => Syntax.SLoop
  end.

Definition is_label (s : stmt) : bool := match s with SLabel _ => true | _ => false end.

(* no label is the naked branch of an `if` *)
Fixpoint no_naked (s : stmt) : bool :=
  match s with
  | SIf _ t e =>
      negb (is_label t) && no_naked t &&
      match e with Some e' => negb (is_label e') && no_naked e' | None => true end
  | SBlock ss => (fix go (ss : list stmt) : bool :=
                    match ss with [] => true | s :: r => no_naked s && go r end) ss
  | _ => true
  end.

Fixpoint no_naked_list (ss : list stmt) : bool :=
  match ss with [] => true | s :: r => no_naked s && no_naked_list r end.

Lemma no_naked_block ss : no_naked (SBlock ss) = no_naked_list ss.
Proof. cbn [no_naked]. induction ss as [|s r IH]; [reflexivity|]. cbn [no_naked_list]. now rewrite IH. Qed.

(* -- syntax -- *)
Lemma syn_spec_block c b : Syntax.spec_stmt c (Syntax.SBlock b) = Syntax.spec_block b.
Proof.
  cbn [Syntax.spec_stmt]. induction b as [|s rest IH]; [reflexivity|].
  destruct rest as [|s2 rest]; [reflexivity|]. cbn [Syntax.spec_block]. now rewrite IH.
Qed.

Definition is_branch_ctx (c : Syntax.ctx) : bool :=
  match c with Syntax.CThen | Syntax.CElse => true | _ => false end.
Definition is_last_ctx (c : Syntax.ctx) : bool :=
  match c with Syntax.CLast => true | _ => false end.

Lemma syntax_ok_stmt : forall s c, Syntax.spec_stmt c (to_syn s) = [] ->
  no_naked s = true /\
  (is_loop s = false -> loops_ok s = true) /\
  (is_branch_ctx c = true -> is_label s = false) /\
  (is_last_ctx c = false -> is_loop s = false).
Proof.
  induction s as [a|l|l|cc t IHt|cc t e IHt IHe|ss IHss|] using stmt_ind2; intros c H.
  - destruct c; cbn in H; try discriminate; repeat split; auto.
  - repeat split; auto.
  - destruct c; cbn in H; try discriminate; repeat split; auto; discriminate.
  - cbn [to_syn Syntax.spec_stmt] in H.
    assert (H' : Syntax.spec_stmt Syntax.CThen (to_syn t) = []).
    { destruct c; try discriminate; rewrite app_nil_r in H; exact H. }
    destruct (IHt _ H') as (N1 & L1 & B1 & K1).
    specialize (B1 eq_refl). specialize (K1 eq_refl).
    cbn [no_naked loops_ok is_loop is_label]. rewrite B1, N1, (L1 K1). repeat split; auto.
  - cbn [to_syn Syntax.spec_stmt] in H.
    assert (H' : Syntax.spec_stmt Syntax.CThen (to_syn t) = [] /\
                 Syntax.spec_stmt Syntax.CElse (to_syn e) = []).
    { destruct c; try discriminate; apply app_eq_nil in H; exact H. }
    destruct H' as [H1 H2].
    destruct (IHt _ H1) as (N1 & L1 & B1 & K1). destruct (IHe _ H2) as (N2 & L2 & B2 & K2).
    specialize (B1 eq_refl). specialize (K1 eq_refl). specialize (B2 eq_refl). specialize (K2 eq_refl).
    cbn [no_naked loops_ok is_loop is_label]. rewrite B1, N1, B2, N2, (L1 K1), (L2 K2). repeat split; auto.
  - cbn [to_syn] in H. rewrite syn_spec_block in H.
    rewrite no_naked_block, loops_ok_block. cbn [is_loop is_label].
    assert (X : no_naked_list ss = true /\ loops_ok_list (strip_loop ss) = true).
    { clear c. induction IHss as [|s r Hs _ IH]; [split; reflexivity|].
      rewrite strip_loop_cons. cbn [no_naked_list]. destruct r as [|s' r'].
      - cbn [map Syntax.spec_block] in H. destruct (Hs _ H) as (N1 & L1 & _ & _).
        rewrite N1. cbn [is_nil no_naked_list]. rewrite andb_true_r. split; [reflexivity|].
        destruct (is_loop s) eqn:El; [reflexivity|]. cbn [andb loops_ok_list].
        now rewrite (L1 eq_refl).
      - change (Syntax.spec_block (map to_syn (s :: s' :: r'))) with
          (Syntax.spec_stmt Syntax.COther (to_syn s) ++ Syntax.spec_block (map to_syn (s' :: r'))) in H.
        apply app_eq_nil in H. destruct H as [H1 H2].
        destruct (Hs _ H1) as (N1 & L1 & _ & K1). specialize (K1 eq_refl).
        destruct (IH H2) as [N2 L2]. rewrite N1, N2. cbn [is_nil]. rewrite andb_false_r.
        cbn [loops_ok_list]. now rewrite (L1 K1), L2. }
    destruct X as [X1 X2]. repeat split; auto.
  - destruct c; cbn in H; try discriminate. repeat split; auto; discriminate.
Qed.

Lemma syntax_ok_body body : Syntax.spec_body (map to_syn body) = [] ->
  no_naked_list body = true /\ loops_ok_list body = true.
Proof.
  unfold Syntax.spec_body. induction body as [|s r IH]; intros H; [split; reflexivity|].
  cbn [map flat_map] in H. apply app_eq_nil in H. destruct H as [H1 H2].
  destruct (syntax_ok_stmt _ _ H1) as (N1 & L1 & _ & K1). specialize (K1 eq_refl).
  destruct (IH H2) as [N2 L2]. cbn [no_naked_list loops_ok_list]. now rewrite N1, N2, (L1 K1), L2.
Qed.

(* -- label scopes -- *)
Lemma ls_spec_block b V : LabelScope.spec_stmt (LabelScope.SBlock b) V = LabelScope.spec_list b V.
Proof.
  cbn [LabelScope.spec_stmt]. induction b as [|s rest IH]; cbn [LabelScope.spec_list]; [reflexivity|].
  now rewrite IH.
Qed.

Lemma ls_labels_of : forall s, no_naked s = true ->
  LabelScope.labels_of (to_ls s) = match s with SLabel l => [l] | _ => [] end.
Proof.
  induction s as [a|l|l|c t IHt|c t e IHt IHe|ss IHss|] using stmt_ind2; intros H; try reflexivity.
  - cbn [no_naked] in H. rewrite andb_true_r in H. apply andb_true_iff in H. destruct H as [H1 H2].
    cbn [to_ls LabelScope.labels_of]. rewrite (IHt H2). destruct t; try reflexivity. discriminate.
  - cbn [no_naked] in H. apply andb_true_iff in H. destruct H as [H H3].
    apply andb_true_iff in H. destruct H as [H1 H2]. apply andb_true_iff in H3. destruct H3 as [H3 H4].
    cbn [to_ls LabelScope.labels_of]. rewrite (IHt H2), (IHe H4).
    destruct t; try discriminate; destruct e; try discriminate; reflexivity.
Qed.

Lemma ls_later ss : no_naked_list ss = true ->
  LabelScope.later (map to_ls ss) = direct_labels ss.
Proof.
  unfold LabelScope.later. induction ss as [|s r IH]; intros H; [reflexivity|].
  cbn [no_naked_list] in H. apply andb_true_iff in H. destruct H as [H1 H2].
  cbn [map flat_map]. rewrite (ls_labels_of _ H1), (IH H2), direct_labels_cons.
  destruct s; reflexivity.
Qed.

Lemma scope_ok_stmt : forall s V, no_naked s = true ->
  LabelScope.spec_stmt (to_ls s) V = [] -> legal_stmt s V = true.
Proof.
  induction s as [a|l|l|c t IHt|c t e IHt IHe|ss IHss|] using stmt_ind2; intros V HN H;
    try reflexivity.
  - cbn [to_ls LabelScope.spec_stmt] in H. cbn [legal_stmt]. destruct (mem_name l V); [reflexivity|discriminate].
  - cbn [no_naked] in HN. rewrite andb_true_r in HN. apply andb_true_iff in HN. destruct HN as [H1 H2].
    cbn [to_ls LabelScope.spec_stmt] in H. rewrite app_nil_r in H.
    cbn [legal_stmt]. rewrite andb_true_r. now apply IHt.
  - cbn [no_naked] in HN. apply andb_true_iff in HN. destruct HN as [HN H3].
    apply andb_true_iff in HN. destruct HN as [H1 H2]. apply andb_true_iff in H3. destruct H3 as [H3 H4].
    cbn [to_ls LabelScope.spec_stmt] in H. apply app_eq_nil in H. destruct H as [Ha Hb].
    rewrite (ls_labels_of _ H2) in Hb.
    assert (Hb' : LabelScope.spec_stmt (to_ls e) V = []) by (destruct t; try discriminate; exact Hb).
    cbn [legal_stmt]. now rewrite (IHt V H2 Ha), (IHe V H4 Hb').
  - rewrite no_naked_block in HN. cbn [to_ls] in H. rewrite ls_spec_block in H. rewrite legal_block.
    revert HN H. induction IHss as [|s r Hs _ IH]; intros HN H; [reflexivity|].
    cbn [no_naked_list] in HN. apply andb_true_iff in HN. destruct HN as [H1 H2].
    cbn [map LabelScope.spec_list] in H. apply app_eq_nil in H. destruct H as [Ha Hb].
    rewrite (ls_later _ H2) in Ha. cbn [legal_list]. apply andb_true_iff.
    split; [now apply Hs|now apply IH].
Qed.

Lemma scope_ok_body body : no_naked_list body = true ->
  LabelScope.spec_body (map to_ls body) = [] -> legal_list body [] = true.
Proof.
  intros HN H. rewrite <- legal_block. apply scope_ok_stmt; [now rewrite no_naked_block|].
  cbn [to_ls]. now rewrite ls_spec_block.
Qed.

(* what the syntax analysis, the label scoper and the resolver (unique ids) establish *)
Theorem stages_accept body :
  Syntax.spec_body (map to_syn body) = [] ->
  LabelScope.spec_body (map to_ls body) = [] ->
  nodupb (labels_list body) = true ->
  accepted body = true.
Proof.
  intros H1 H2 H3. destruct (syntax_ok_body _ H1) as [N L]. unfold accepted.
  now rewrite H3, (scope_ok_body _ N H2), L.
Qed.

(* ---- which blocks can be branched to ---------------------------------------------------
   No branch ever targets "entry", an "unreachable-after-goto" block or an
   "after-looped-block": the latter two kinds are dead code in every function. *)
Definition targets (x : instr) : list N :=
  match x with IBr j => [j] | ICondBr _ j1 j2 => [j1; j2] | _ => [] end.

Definition tag_targetable (t : tag) : bool :=
  match t with Entry | Unreachable | AfterLooped => false | _ => true end.

Definition tgt_ok (b : bstate) (j : N) : Prop :=
  exists t, tg b j = Some t /\ tag_targetable t = true.

Definition TQ (b : bstate) : Prop :=
  (forall i x j, In x (ins b i) -> In j (targets x) -> tgt_ok b j) /\
  (forall l i, lk b l = Some i -> tg b i = Some (Lbl l)).

Lemma TQ_emit_at i x b :
  TQ b -> (forall j, In j (targets x) -> tgt_ok b j) -> TQ (emit_at i x b).
Proof.
  intros [H1 H2] Hx. split.
  - intros i0 x0 j Hin Hj. unfold tgt_ok. obs.
    destruct ((i0 =? i) && (i <? nb b)); [|eapply H1; eauto].
    apply in_app_or in Hin. destruct Hin as [Hin|[<-|[]]]; [eapply H1; eauto|now apply Hx].
  - intros l i0 Hk. obs. auto.
Qed.

Lemma tgt_ok_apb t b j : tgt_ok b j -> tgt_ok (apb t b) j.
Proof.
  intros (t' & Ht & Hok). exists t'. split; [|assumption]. obs.
  pose proof (tg_some _ _ _ Ht). nsplit; [lia|assumption].
Qed.

Lemma TQ_apb t b : TQ b -> TQ (apb t b).
Proof.
  intros [H1 H2]. split.
  - intros i x j Hin Hj. obs. apply tgt_ok_apb. eapply H1; eauto.
  - intros l i Hk. obs. pose proof (tg_some _ _ _ (H2 _ _ Hk)). nsplit; [lia|auto].
Qed.

Lemma TQ_set_cur i b : TQ b -> TQ (set_cur i b).
Proof. intros H. exact H. Qed.

Lemma TQ_foa l b :
  TQ b -> TQ (snd (find_or_append l b)) /\
          tg (snd (find_or_append l b)) (fst (find_or_append l b)) = Some (Lbl l).
Proof.
  intros HT. destruct (foa_cases l b) as [(i & Hk & ->)|[Hk ->]]; cbn [fst snd].
  - split; [assumption|]. now apply (proj2 HT).
  - destruct (TQ_apb (Lbl l) b HT) as [H1 H2]. split; [split|].
    + intros i x j Hin Hj. rewrite ins_bind in Hin. destruct (H1 i x j Hin Hj) as (t & Ht & Hok).
      exists t. split; [now rewrite tg_bind|assumption].
    + intros l' i Hk'. rewrite lk_bind in Hk'. rewrite tg_bind. destruct (N.eqb_spec l' l) as [->|Hne].
      * inversion Hk'; subst. rewrite tg_apb. now rewrite N.eqb_refl.
      * now apply H2.
    + obs. now rewrite N.eqb_refl.
Qed.

Definition tq_prop (s : stmt) : Prop :=
  forall b b', lower_stmt s b = Some b' -> TQ b ->
    TQ b' /\ forall i t, tg b i = Some t -> tg b' i = Some t.

Lemma tg_keep_apb t b i t' : tg b i = Some t' -> tg (apb t b) i = Some t'.
Proof. intros H. obs. pose proof (tg_some _ _ _ H). nsplit; [lia|assumption]. Qed.

Lemma tq_list ss : Forall tq_prop ss ->
  forall b b', lower_list ss b = Some b' -> TQ b ->
    TQ b' /\ forall i t, tg b i = Some t -> tg b' i = Some t.
Proof.
  induction 1 as [|s r Hs _ IH]; intros b b' Hlow HT.
  - inversion Hlow; subst. auto.
  - rewrite lower_list_cons in Hlow. destruct (lower_stmt s b) as [b1|] eqn:E; [|discriminate].
    destruct (Hs _ _ E HT) as [T1 K1]. destruct (IH _ _ Hlow T1) as [T2 K2]. auto.
Qed.

Lemma tgt_ok_of_tag b j t : tg b j = Some t -> tag_targetable t = true -> tgt_ok b j.
Proof. intros. exists t. auto. Qed.

Lemma lower_stmt_tq : forall s, tq_prop s.
Proof.
  induction s as [a|l|l|c t IHt|c t e IHt IHe|ss IHss|] using stmt_ind2; intros b b' Hlow HT.
  - inversion Hlow; subst. split; [apply TQ_emit_at; [assumption|intros j []]|].
    intros i t H. now obs.
  - rewrite lower_goto in Hlow. inversion Hlow; subst. clear Hlow.
    destruct (TQ_foa l _ (TQ_apb Unreachable b HT)) as [T Hl]. split.
    + apply TQ_set_cur, TQ_emit_at; [assumption|]. intros j [<-|[]].
      eapply tgt_ok_of_tag; [exact Hl|reflexivity].
    + intros i t H. pose proof (tg_some _ _ _ H) as Hlt. rewrite tg_set_cur, tg_emit_at.
      destruct (foa_cases l (apb Unreachable b)) as [(i0 & Hk & ->)|[Hk ->]]; cbn [snd].
      * rewrite tg_apb. nsplit; [lia|assumption].
      * rewrite tg_bind, !tg_apb, nb_apb. nsplit; try lia. assumption.
  - rewrite lower_label in Hlow. inversion Hlow; subst. clear Hlow.
    destruct (TQ_foa l _ HT) as [T Hl]. split.
    + apply TQ_set_cur, TQ_emit_at; [assumption|]. intros j [<-|[]].
      eapply tgt_ok_of_tag; [exact Hl|reflexivity].
    + intros i t H. pose proof (tg_some _ _ _ H) as Hlt. rewrite tg_set_cur, tg_emit_at.
      destruct (foa_cases l b) as [(i0 & Hk & ->)|[Hk ->]]; cbn [snd]; [assumption|].
      rewrite tg_bind, tg_apb. nsplit; try lia. assumption.
  - rewrite lower_if1 in Hlow. destruct (lower_stmt t _) as [b2|] eqn:E; [|discriminate].
    inversion Hlow; subst. clear Hlow.
    assert (T0 : TQ (enter Then_ (emit (ICmp c) b))).
    { unfold enter. apply TQ_set_cur, TQ_apb, TQ_emit_at; [assumption|intros j []]. }
    destruct (IHt _ _ E T0) as [T2 K2].
    assert (Hth : tg b2 (nb b) = Some Then_).
    { apply K2. unfold enter. obs. now rewrite N.eqb_refl. }
    split.
    + apply TQ_set_cur, TQ_emit_at; [apply TQ_emit_at; [now apply TQ_apb|]|].
      * intros j [<-|[]]. apply tgt_ok_of_tag with (t := After); [|reflexivity].
        obs. now rewrite N.eqb_refl.
      * intros j [<-|[<-|[]]].
        -- apply tgt_ok_of_tag with (t := Then_); [|reflexivity]. rewrite ?tg_emit_at. now apply (tg_keep_apb After).
        -- apply tgt_ok_of_tag with (t := After); [|reflexivity]. obs. now rewrite N.eqb_refl.
    + intros i t' H. rewrite tg_set_cur, ?tg_emit_at. apply (tg_keep_apb After). apply K2.
      unfold enter. rewrite tg_set_cur. apply (tg_keep_apb Then_). now rewrite tg_emit.
  - rewrite lower_if2 in Hlow. destruct (lower_stmt t _) as [b2|] eqn:E; [|discriminate].
    destruct (lower_stmt e _) as [b4|] eqn:E'; [|discriminate].
    inversion Hlow; subst. clear Hlow.
    assert (T0 : TQ (enter Then_ (emit (ICmp c) b))).
    { unfold enter. apply TQ_set_cur, TQ_apb, TQ_emit_at; [assumption|intros j []]. }
    destruct (IHt _ _ E T0) as [T2 K2].
    assert (T3 : TQ (enter Else_ b2)) by (unfold enter; now apply TQ_set_cur, TQ_apb).
    destruct (IHe _ _ E' T3) as [T4 K4].
    assert (Hth : tg b4 (nb b) = Some Then_).
    { apply K4. unfold enter. rewrite tg_set_cur. apply (tg_keep_apb Else_). apply K2.
      unfold enter. obs. now rewrite N.eqb_refl. }
    assert (Hel : tg b4 (nb b2) = Some Else_).
    { apply K4. unfold enter. obs. now rewrite N.eqb_refl. }
    assert (Haf : forall j, In j [nb b4] -> tgt_ok (apb After b4) j).
    { intros j [<-|[]]. apply tgt_ok_of_tag with (t := After); [|reflexivity].
      obs. now rewrite N.eqb_refl. }
    split.
    + apply TQ_set_cur, TQ_emit_at; [apply TQ_emit_at; [apply TQ_emit_at; [now apply TQ_apb|]|]|].
      * exact Haf.
      * intros j Hj. destruct (Haf j Hj) as (t0 & Ht0 & Hok). exists t0.
        split; [now rewrite tg_emit_at|assumption].
      * intros j [<-|[<-|[]]].
        -- apply tgt_ok_of_tag with (t := Then_); [|reflexivity]. rewrite ?tg_emit_at.
           now apply (tg_keep_apb After).
        -- apply tgt_ok_of_tag with (t := Else_); [|reflexivity]. rewrite ?tg_emit_at.
           now apply (tg_keep_apb After).
    + intros i t' H. rewrite tg_set_cur, ?tg_emit_at. apply (tg_keep_apb After). apply K4.
      unfold enter. rewrite tg_set_cur. apply (tg_keep_apb Else_). apply K2.
      unfold enter. rewrite tg_set_cur. apply (tg_keep_apb Then_). now rewrite tg_emit.
  - rewrite lower_block' in Hlow. destruct (ends_in_loop ss) eqn:El.
    + destruct (lower_list (removelast ss) _) as [b2|] eqn:E; [|discriminate].
      inversion Hlow; subst. clear Hlow.
      assert (IHbody : Forall tq_prop (removelast ss)).
      { rewrite (ends_in_loop_snoc ss El) in IHss. apply Forall_app in IHss. tauto. }
      assert (Hlp0 : tg (apb Looped b) (nb b) = Some Looped) by (obs; now rewrite N.eqb_refl).
      assert (T0 : TQ (set_cur (nb b) (emit_at (cur b) (IBr (nb b)) (apb Looped b)))).
      { apply TQ_set_cur, TQ_emit_at; [now apply TQ_apb|]. intros j [<-|[]].
        eapply tgt_ok_of_tag; [exact Hlp0|reflexivity]. }
      destruct (tq_list _ IHbody _ _ E T0) as [T2 K2].
      assert (Hlp : tg b2 (nb b) = Some Looped) by (apply K2; now obs).
      split.
      * apply TQ_set_cur, TQ_apb, TQ_emit_at; [assumption|]. intros j [<-|[]].
        eapply tgt_ok_of_tag; [exact Hlp|reflexivity].
      * intros i t' H. rewrite tg_set_cur. apply (tg_keep_apb AfterLooped). rewrite tg_emit.
        apply K2. rewrite tg_set_cur, tg_emit_at. now apply (tg_keep_apb Looped).
    + now apply (tq_list _ IHss).
  - discriminate.
Qed.

Theorem lower_branch_targets body g :
  lower_body body = Some g ->
  forall i blk x j, get_block g i = Some blk -> In x (binstrs blk) -> In j (targets x) ->
  exists t, tagl g j = Some t /\ tag_targetable t = true.
Proof.
  unfold lower_body, lower_body_state. intros Hlow i blk x j Hg Hin Hj.
  destruct (lower_list body init_state) as [b|] eqn:E; [|discriminate].
  assert (Hg0 : g = blocks (emit IRet b)) by congruence. subst g. clear Hlow.
  assert (T0 : TQ init_state).
  { split.
    - intros i0 x0 j0 Hin0. unfold ins, insl, get_block in Hin0. cbn [init_state blocks] in Hin0.
      destruct (N.to_nat i0) as [|[|n]]; destruct Hin0.
    - intros l i0 Hk. discriminate. }
  assert (HF : Forall tq_prop body) by (apply Forall_forall; intros s _; apply lower_stmt_tq).
  destruct (tq_list _ HF _ _ E T0) as [T _].
  assert (Tf : TQ (emit IRet b)) by (apply TQ_emit_at; [assumption|intros j0 []]).
  destruct Tf as [Tf _]. apply (Tf i x j); [|assumption].
  unfold ins, insl. now rewrite Hg.
Qed.

(* ---- examples ------------------------------------------------------------------------ *)
(* { a; if c goto x; b; loop } x: d     (a = 1, b = 2, d = 3, c = 7, x = 100) *)
Definition ex1 : list stmt :=
  [SBlock [SAct 1; SIf 7 (SGoto 100) None; SAct 2; SLoop]; SLabel 100; SAct 3].

Example ex1_accepted : accepted ex1 = true.
Proof. vm_compute. reflexivity. Qed.

Example ex1_lowering :
  option_map cfg_view (lower_body ex1) =
  Some [ (Entry,       [],  TBr 1);           (* entry:                  br looped-block *)
         (Looped,      [1], TCondBr 7 2 5);   (* looped-block: a; c;     br c, then, after *)
         (Then_,       [],  TBr 4);           (* then:                   br x *)
         (Unreachable, [],  TBr 5);           (* unreachable-after-goto: br after *)
         (Lbl 100,     [3], TRet);            (* x: d;                   ret *)
         (After,       [2], TBr 1);           (* after: b;               br looped-block *)
         (AfterLooped, [],  TBr 4) ].         (* after-looped-block:     br x   (dead) *)
Proof. vm_compute. reflexivity. Qed.

Example ex1_wf : option_map cfg_wfb (lower_body ex1) = Some true.
Proof. vm_compute. reflexivity. Qed.

(* state = a counter; action a adds a; the condition holds once the counter exceeds 5 *)
Definition ex_act (a s : N) : N := s + a.
Definition ex_cond (c s : N) : bool := 5 <? s.

Example ex1_run_structured : trace_body ex_act ex_cond 50 ex1 0 = Ok ([1; 2; 1; 2; 1; 3], 10).
Proof. vm_compute. reflexivity. Qed.

Example ex1_run_cfg :
  option_map (fun g => trace_cfg ex_act ex_cond 50 g 0) (lower_body ex1) =
  Some (CRet ([1; 2; 1; 2; 1; 3], 10)).
Proof. vm_compute. reflexivity. Qed.

(* if / else with a jump out of a branch *)
Definition ex2 : list stmt :=
  [SIf 1 (SBlock [SAct 1; SGoto 9]) (Some (SBlock [SAct 2])); SAct 3; SLabel 9; SAct 4].

Example ex2_accepted : accepted ex2 = true.
Proof. vm_compute. reflexivity. Qed.

Example ex2_lowering :
  option_map cfg_view (lower_body ex2) =
  Some [ (Entry,       [],  TCondBr 1 1 4);
         (Then_,       [1], TBr 3);
         (Unreachable, [],  TBr 5);
         (Lbl 9,       [4], TRet);
         (Else_,       [2], TBr 5);
         (After,       [3], TBr 3) ].
Proof. vm_compute. reflexivity. Qed.

(* ---- the hypotheses are needed ---------------------------------------------------------- *)
(* a goto whose label is never declared (E400 upstream): its block has no terminator *)
Example lower_cfg_wf_without_goto_hyp_refuted :
  exists body g, lower_body body = Some g /\ NoDup (labels_list body) /\
                 ~ cfg_wf (labels_list body) g.
Proof.
  exists [SGoto 5], [ {| btag := Entry; binstrs := [IBr 2] |};
                      {| btag := Unreachable; binstrs := [IRet] |};
                      {| btag := Lbl 5; binstrs := [] |} ].
  split; [reflexivity|]. split; [constructor|].
  intros H. apply cfg_wf_wfb in H. vm_compute in H. discriminate.
Qed.

(* the same label generated twice: `br` into a block that is already terminated,
   and an action after the terminator *)
Example lower_cfg_wf_without_nodup_refuted :
  exists body g, lower_body body = Some g /\ incl (gotos_list body) (labels_list body) /\
                 ~ cfg_wf (labels_list body) g.
Proof.
  exists [SLabel 5; SLabel 5; SAct 1],
         [ {| btag := Entry; binstrs := [IBr 1] |};
           {| btag := Lbl 5; binstrs := [IBr 1; IAct 1; IRet] |} ].
  split; [reflexivity|]. split; [intros l []|].
  intros H. apply cfg_wf_wfb in H. vm_compute in H. discriminate.
Qed.

(* `loop` anywhere but at the end of a block: the generator panics *)
Example loop_in_body_panics : lower_body [SAct 1; SLoop] = None.
Proof. reflexivity. Qed.
Example loop_not_last_panics : lower_body [SBlock [SLoop; SAct 1]] = None.
Proof. reflexivity. Qed.
Example loop_as_branch_panics : lower_body [SIf 1 SLoop None] = None.
Proof. reflexivity. Qed.

Print Assumptions stages_accept.
Print Assumptions lower_branch_targets.
Print Assumptions lower_cfg_wf.
Print Assumptions lower_simulates.
Print Assumptions lower_simulates_trace.
Print Assumptions accepted_compiles.
Print Assumptions lower_body_panics_iff.
