(* Proofs about Model/LintWalk.v: the traversal of linter.rs looks at every integer
   literal of a declaration, in source order, and checks it against the literal's
   own value_type; L1800 is raised exactly for a loop that opens a block that is
   directly a branch of an [if]; the pinned traversal and a traversal that skips
   parentheses miss literals; a typed bit literal directly under a negation gets
   the range test [max + 1 < v] at a signed type (so that -0x80 as i8 is not
   flagged any more), the walk of before that repair flagged it. *)
From PV Require Import Base.Common Model.LintWalk.

(* ------------------------------------------------ induction principles *)

Definition member_P (P : expr -> Prop) (m : member) : Prop :=
  match m with MkMember e => P e end.

Definition refstep_P (P : expr -> Prop) (s : refstep) : Prop :=
  match s with RElement a => P a | _ => True end.

Section expr_ind2.
  Variable P : expr -> Prop.
  Hypothesis HBinary : forall l r, P l -> P r -> P (EBinary l r).
  Hypothesis HUnary : forall op e, P e -> P (EUnary op e).
  Hypothesis HBool : P EBool.
  Hypothesis HSigned : forall v ty p, P (ESigned v ty p).
  Hypothesis HBit : forall v ty p, P (EBit v ty p).
  Hypothesis HString : P EString.
  Hypothesis HArray : forall els, Forall P els -> P (EArray els).
  Hypothesis HStructural : forall ms, Forall (member_P P) ms -> P (EStructural ms).
  Hypothesis HParen : forall e, P e -> P (EParen e).
  Hypothesis HDeref : forall r, Forall (refstep_P P) r -> P (EDeref r).
  Hypothesis HAutocoerce : forall e, P e -> P (EAutocoerce e).
  Hypothesis HBitCast : forall e, P e -> P (EBitCast e).
  Hypothesis HTypeCast : forall e, P e -> P (ETypeCast e).
  Hypothesis HLength : forall r, Forall (refstep_P P) r -> P (ELengthOfArray r).
  Hypothesis HSizeOf : P ESizeOf.
  Hypothesis HCall : forall args, Forall P args -> P (ECall args).
  Hypothesis HPoison : P EPoison.

  Fixpoint expr_ind2 (e : expr) : P e :=
    let go_exprs :=
      fix go (l : list expr) : Forall P l :=
        match l with
        | [] => Forall_nil P
        | x :: xs => Forall_cons x (expr_ind2 x) (go xs)
        end in
    let go_steps :=
      fix go (l : list refstep) : Forall (refstep_P P) l :=
        match l with
        | [] => Forall_nil (refstep_P P)
        | s :: xs =>
            Forall_cons s
              (match s return refstep_P P s with
               | RElement a => expr_ind2 a
               | _ => I
               end) (go xs)
        end in
    match e with
    | EBinary l r => HBinary l r (expr_ind2 l) (expr_ind2 r)
    | EUnary op e1 => HUnary op e1 (expr_ind2 e1)
    | EBool => HBool
    | ESigned v ty p => HSigned v ty p
    | EBit v ty p => HBit v ty p
    | EString => HString
    | EArray els => HArray els (go_exprs els)
    | EStructural ms =>
        HStructural ms
          ((fix go (l : list member) : Forall (member_P P) l :=
              match l with
              | [] => Forall_nil (member_P P)
              | m :: xs =>
                  Forall_cons m
                    (match m return member_P P m with MkMember e1 => expr_ind2 e1 end)
                    (go xs)
              end) ms)
    | EParen e1 => HParen e1 (expr_ind2 e1)
    | EDeref r => HDeref r (go_steps r)
    | EAutocoerce e1 => HAutocoerce e1 (expr_ind2 e1)
    | EBitCast e1 => HBitCast e1 (expr_ind2 e1)
    | ETypeCast e1 => HTypeCast e1 (expr_ind2 e1)
    | ELengthOfArray r => HLength r (go_steps r)
    | ESizeOf => HSizeOf
    | ECall args => HCall args (go_exprs args)
    | EPoison => HPoison
    end.
End expr_ind2.

Section stmt_ind2.
  Variable P : stmt -> Prop.
  Hypothesis HDeclaration : forall v, P (SDeclaration v).
  Hypothesis HAssignment : forall r v, P (SAssignment r v).
  Hypothesis HMethodCall : forall args, P (SMethodCall args).
  Hypothesis HLoop : forall loc, P (SLoop loc).
  Hypothesis HGoto : P SGoto.
  Hypothesis HLabel : P SLabel.
  Hypothesis HIfNone : forall c t, P t -> P (SIf c t None).
  Hypothesis HIfSome : forall c t b l, P t -> P b -> P (SIf c t (Some (MkElse b l))).
  Hypothesis HBlock : forall ss loc, Forall P ss -> P (SBlock (MkBlock ss loc)).
  Hypothesis HPoison : P SPoison.

  Fixpoint stmt_ind2 (s : stmt) : P s :=
    match s with
    | SDeclaration v => HDeclaration v
    | SAssignment r v => HAssignment r v
    | SMethodCall args => HMethodCall args
    | SLoop loc => HLoop loc
    | SGoto => HGoto
    | SLabel => HLabel
    | SIf c t None => HIfNone c t (stmt_ind2 t)
    | SIf c t (Some (MkElse b l)) => HIfSome c t b l (stmt_ind2 t) (stmt_ind2 b)
    | SBlock (MkBlock ss loc) =>
        HBlock ss loc
          ((fix go (l : list stmt) : Forall P l :=
              match l with
              | [] => Forall_nil P
              | x :: xs => Forall_cons x (stmt_ind2 x) (go xs)
              end) ss)
    | SPoison => HPoison
    end.
End stmt_ind2.

(* ------------------------------------------------------- list helpers *)

Lemma flat_map_flat_map {A B C} (f : A -> list B) (g : B -> list C) (l : list A) :
  flat_map g (flat_map f l) = flat_map (fun x => flat_map g (f x)) l.
Proof.
  induction l as [|x xs IH]; [reflexivity|].
  cbn [flat_map]. now rewrite flat_map_app, IH.
Qed.

Lemma flat_map_ext_Forall {A B} (f g : A -> list B) (l : list A) :
  Forall (fun x => f x = g x) l -> flat_map f l = flat_map g l.
Proof.
  intros H. induction H as [|x xs Hx _ IH]; [reflexivity|].
  cbn [flat_map]. now rewrite Hx, IH.
Qed.

Lemma flat_map_nil_Forall {A B} (f : A -> list B) (l : list A) :
  Forall (fun x => f x = []) l -> flat_map f l = [].
Proof.
  intros H. induction H as [|x xs Hx _ IH]; [reflexivity|].
  cbn [flat_map]. now rewrite Hx, IH.
Qed.

Lemma visits_of_app a b : visits_of (a ++ b) = visits_of a ++ visits_of b.
Proof. unfold visits_of. apply flat_map_app. Qed.

Lemma visits_of_flat_map {A} (f : A -> list lintev) (l : list A) :
  visits_of (flat_map f l) = flat_map (fun x => visits_of (f x)) l.
Proof. unfold visits_of. apply flat_map_flat_map. Qed.

Definition l1800s (l : list lintev) : list (N * N * N) := flat_map ev_l1800 l.

Lemma l1800s_app a b : l1800s (a ++ b) = l1800s a ++ l1800s b.
Proof. unfold l1800s. apply flat_map_app. Qed.

Lemma l1800s_flat_map {A} (f : A -> list lintev) (l : list A) :
  l1800s (flat_map f l) = flat_map (fun x => l1800s (f x)) l.
Proof. unfold l1800s. apply flat_map_flat_map. Qed.

(* unfolding lemmas *)
Lemma lint_block_cons s1 others loc st :
  lint_block (MkBlock (s1 :: others) loc) st =
  let st1 := MkState None (match st_naked st with
                           | Some loc_cond => Some (loc_cond, loc)
                           | None => None
                           end) in
  let '(st2, ev1) := lint_stmt s1 st1 in
  let '(st4, ev2) := lint_stmts others (MkState (st_naked st2) None) in
  (st4, ev1 ++ ev2).
Proof. reflexivity. Qed.

Lemma lint_block_nil loc st : lint_block (MkBlock [] loc) st = (st, []).
Proof. reflexivity. Qed.

Lemma lint_stmt_block b st : lint_stmt (SBlock b) st = lint_block b st.
Proof. reflexivity. Qed.

Lemma lint_stmt_if c t e st :
  lint_stmt (SIf c t e) st =
  let ev0 := lint_expr (cmp_left c) ++ lint_expr (cmp_right c) in
  let '(st2, ev1) := lint_stmt t (MkState (Some (cmp_loc c)) None) in
  let '(st3, ev2) :=
    match e with
    | Some (MkElse b loc_else) => lint_stmt b (MkState (Some loc_else) (st_first st2))
    | None => (st2, [])
    end in
  (MkState None (st_first st3), ev0 ++ ev1 ++ ev2).
Proof. reflexivity. Qed.

(* -------------------------------------- 1. expressions: every literal *)

Lemma visits_expr : forall e, visits_of (lint_expr e) = occs_expr e.
Proof.
  induction e as [l r IHl IHr|op e IH| |v ty p|v ty p| |els IH|ms IH|e IH|r IH|e IH|e IH|e IH|r IH| |args IH| ]
    using expr_ind2; cbn [lint_expr occs_expr]; try reflexivity; try assumption.
  - now rewrite visits_of_app, IHl, IHr.
  - destruct op; [|exact IH]. destruct e; try exact IH.
    destruct ty; [reflexivity|exact IH].
  - rewrite visits_of_flat_map. now apply flat_map_ext_Forall.
  - rewrite visits_of_flat_map. apply flat_map_ext_Forall.
    eapply Forall_impl; [|exact IH]. intros [e] He. exact He.
  - rewrite visits_of_flat_map. apply flat_map_ext_Forall.
    eapply Forall_impl; [|exact IH]. intros [a| | | | ] Ha; try reflexivity. exact Ha.
  - rewrite visits_of_flat_map. apply flat_map_ext_Forall.
    eapply Forall_impl; [|exact IH]. intros [a| | | | ] Ha; try reflexivity. exact Ha.
  - rewrite visits_of_flat_map. now apply flat_map_ext_Forall.
Qed.

Lemma visits_exprs l : visits_of (flat_map lint_expr l) = flat_map occs_expr l.
Proof.
  rewrite visits_of_flat_map. apply flat_map_ext_Forall, Forall_forall.
  intros e _. apply visits_expr.
Qed.

Lemma visits_refstep s : visits_of (lint_refstep s) = occs_refstep s.
Proof. destruct s; try reflexivity. apply visits_expr. Qed.

Lemma visits_reference r : visits_of (lint_reference r) = flat_map occs_refstep r.
Proof.
  unfold lint_reference. rewrite visits_of_flat_map. apply flat_map_ext_Forall, Forall_forall.
  intros s _. apply visits_refstep.
Qed.

Lemma visits_option o : visits_of (lint_option o) = occs_option o.
Proof. destruct o; [apply visits_expr|reflexivity]. Qed.

(* expressions raise no L1800 *)
Lemma l1800s_expr : forall e, l1800s (lint_expr e) = [].
Proof.
  induction e as [l r IHl IHr|op e IH| |v ty p|v ty p| |els IH|ms IH|e IH|r IH|e IH|e IH|e IH|r IH| |args IH| ]
    using expr_ind2; cbn [lint_expr]; try reflexivity; try assumption.
  - now rewrite l1800s_app, IHl, IHr.
  - destruct op; [|exact IH]. destruct e; try exact IH.
    destruct ty; [reflexivity|exact IH].
  - rewrite l1800s_flat_map. now apply flat_map_nil_Forall.
  - rewrite l1800s_flat_map. apply flat_map_nil_Forall.
    eapply Forall_impl; [|exact IH]. intros [e] He. exact He.
  - rewrite l1800s_flat_map. apply flat_map_nil_Forall.
    eapply Forall_impl; [|exact IH]. intros [a| | | | ] Ha; try reflexivity. exact Ha.
  - rewrite l1800s_flat_map. apply flat_map_nil_Forall.
    eapply Forall_impl; [|exact IH]. intros [a| | | | ] Ha; try reflexivity. exact Ha.
  - rewrite l1800s_flat_map. now apply flat_map_nil_Forall.
Qed.

Lemma l1800s_exprs l : l1800s (flat_map lint_expr l) = [].
Proof.
  rewrite l1800s_flat_map. apply flat_map_nil_Forall, Forall_forall.
  intros e _. apply l1800s_expr.
Qed.

Lemma l1800s_reference r : l1800s (lint_reference r) = [].
Proof.
  unfold lint_reference. rewrite l1800s_flat_map. apply flat_map_nil_Forall, Forall_forall.
  intros [a| | | | ] _; try reflexivity. apply l1800s_expr.
Qed.

Lemma l1800s_option o : l1800s (lint_option o) = [].
Proof. destruct o; [apply l1800s_expr|reflexivity]. Qed.

(* --------------------------------------- 1. statements: every literal *)

(* whatever the state, the literal visits of a statement are its literals *)
Definition visits_stmt_P (s : stmt) : Prop :=
  forall st, visits_of (snd (lint_stmt s st)) = occs_stmt s.

Lemma visits_stmts l :
  Forall visits_stmt_P l ->
  forall st, visits_of (snd (lint_stmts l st)) = flat_map occs_stmt l.
Proof.
  intros H. induction H as [|x xs Hx _ IH]; intros st; [reflexivity|].
  cbn [lint_stmts flat_map].
  pose proof (Hx st) as H1. destruct (lint_stmt x st) as [st' ev]. cbn [snd] in H1.
  pose proof (IH st') as H2. destruct (lint_stmts xs st') as [st'' ev']. cbn [snd] in H2.
  cbn [snd]. now rewrite visits_of_app, H1, H2.
Qed.

Lemma visits_stmt : forall s, visits_stmt_P s.
Proof.
  induction s as [v|r v|args|loc| | |c t IHt|c t b l IHt IHb|ss loc IH| ] using stmt_ind2;
    intros st.
  - cbn [lint_stmt snd occs_stmt]. apply visits_option.
  - cbn [lint_stmt snd occs_stmt]. now rewrite visits_of_app, visits_reference, visits_expr.
  - cbn [lint_stmt snd occs_stmt]. apply visits_exprs.
  - cbn [lint_stmt occs_stmt]. destruct (st_first st) as [[c b]|]; reflexivity.
  - reflexivity.
  - reflexivity.
  - rewrite lint_stmt_if. cbn zeta.
    pose proof (IHt (MkState (Some (cmp_loc c)) None)) as H1.
    destruct (lint_stmt t (MkState (Some (cmp_loc c)) None)) as [st2 ev1]. cbn [snd] in H1.
    cbn [snd occs_stmt]. rewrite !visits_of_app, !visits_expr, H1.
    now rewrite !app_nil_r, <- app_assoc.
  - rewrite lint_stmt_if. cbn zeta.
    pose proof (IHt (MkState (Some (cmp_loc c)) None)) as H1.
    destruct (lint_stmt t (MkState (Some (cmp_loc c)) None)) as [st2 ev1]. cbn [snd] in H1.
    pose proof (IHb (MkState (Some l) (st_first st2))) as H2.
    destruct (lint_stmt b (MkState (Some l) (st_first st2))) as [st3 ev2]. cbn [snd] in H2.
    cbn [snd occs_stmt]. rewrite !visits_of_app, !visits_expr, H1, H2.
    now rewrite <- app_assoc.
  - rewrite lint_stmt_block. destruct ss as [|s1 others]; [reflexivity|].
    rewrite lint_block_cons. cbn zeta.
    inversion IH as [|? ? H1 Hrest]; subst.
    match goal with |- context [lint_stmt s1 ?st1] =>
      pose proof (H1 st1) as H1'; destruct (lint_stmt s1 st1) as [st2 ev1] end.
    cbn [snd] in H1'.
    pose proof (visits_stmts others Hrest (MkState (st_naked st2) None)) as H2.
    destruct (lint_stmts others (MkState (st_naked st2) None)) as [st4 ev2]. cbn [snd] in H2.
    cbn [snd occs_stmt flat_map]. now rewrite visits_of_app, H1', H2.
  - reflexivity.
Qed.

Lemma visits_stmts_all l st : visits_of (snd (lint_stmts l st)) = flat_map occs_stmt l.
Proof. apply visits_stmts, Forall_forall. intros s _. apply visits_stmt. Qed.

Lemma visits_decl_in d st : visits_of (snd (lint_decl_in d st)) = occs_decl d.
Proof.
  destruct d as [v|[body|]| | | | ]; try reflexivity.
  - cbn [lint_decl_in snd occs_decl]. apply visits_expr.
  - cbn [lint_decl_in occs_decl]. unfold lint_fbody.
    pose proof (visits_stmts_all (fb_statements body) st) as H.
    destruct (lint_stmts (fb_statements body) st) as [st1 ev1]. cbn [snd] in *.
    now rewrite visits_of_app, H, visits_option.
Qed.

(* The linter looks at exactly the integer literals of the declaration, each
   once, in source order, with the value, signedness and type of the literal. *)
Theorem lint_visits_are_occurrences : forall d, lint_visits d = occs_decl d.
Proof. intros d. apply visits_decl_in. Qed.

(* 2. the type a literal is checked against is the literal's own value_type *)
Theorem lint_type_is_literal_type : forall d, lint_events d = literals_of_decl d.
Proof. intros d. unfold lint_events, literals_of_decl. now rewrite lint_visits_are_occurrences. Qed.

(* 1. the traversal reaches every literal *)
Theorem lint_reaches_every_literal :
  forall d, map fst (lint_events d) = map fst (literals_of_decl d).
Proof. intros d. now rewrite lint_type_is_literal_type. Qed.

Corollary lint_positions_spec :
  forall d, lint_positions d = map fst (typed_literals (literals_of_decl d)).
Proof. intros d. unfold lint_positions, lint_checked. now rewrite lint_type_is_literal_type. Qed.

(* when every literal carries a type (the case after successful type inference:
   resolver.rs rejects a literal without one), every visit is range-tested *)
Lemma typed_literals_all_typed l :
  Forall (fun x => snd x <> None) l -> map fst (typed_literals l) = map fst l.
Proof.
  intros H. induction H as [|[p [t|]] xs Hx _ IH]; [reflexivity| |].
  - unfold typed_literals in *. cbn [flat_map snd fst app map]. now rewrite IH.
  - now elim Hx.
Qed.

Corollary lint_positions_all_typed d :
  Forall (fun x => snd x <> None) (literals_of_decl d) ->
  lint_positions d = map fst (literals_of_decl d).
Proof.
  intros H. rewrite lint_positions_spec. now apply typed_literals_all_typed.
Qed.

(* L1142 is raised exactly at the typed literal occurrences that fail the range
   test: none is missed ("always"), nothing else is reported ("never"). *)
Theorem l1142_characterisation oor d :
  l1142 oor d = flat_map (occ_l1142 oor) (occs_decl d).
Proof. unfold l1142. now rewrite lint_visits_are_occurrences. Qed.

Corollary l1142_always oor d o t :
  In o (occs_decl d) -> oc_ty o = Some t -> oor (oc_kind o) (oc_val o) t = true ->
  In (oc_pos o) (l1142 oor d).
Proof.
  intros Hin Hty Hoor. rewrite l1142_characterisation. apply in_flat_map.
  exists o. split; [assumption|]. unfold occ_l1142. rewrite Hty, Hoor. now left.
Qed.

Corollary l1142_never oor d p :
  In p (l1142 oor d) ->
  exists o t, In o (occs_decl d) /\ oc_pos o = p /\ oc_ty o = Some t /\
              oor (oc_kind o) (oc_val o) t = true.
Proof.
  rewrite l1142_characterisation. intros H. apply in_flat_map in H.
  destruct H as [o [Hin Hp]]. unfold occ_l1142 in Hp.
  destruct (oc_ty o) as [t|] eqn:Hty; [|contradiction].
  destruct (oor (oc_kind o) (oc_val o) t) eqn:Hoor; [|contradiction].
  destruct Hp as [Hp|[]]. exists o, t. auto.
Qed.

Corollary l1142_all_out_of_range oor d :
  (forall k v t, oor k v t = true) -> l1142 oor d = lint_positions d.
Proof.
  intros Hall. unfold l1142, lint_positions, lint_checked, lint_events, typed_literals.
  induction (lint_visits d) as [|o os IH]; [reflexivity|].
  cbn [flat_map map]. rewrite map_app, IH. f_equal.
  unfold occ_l1142, occ_key. cbn [snd fst]. destruct (oc_ty o) as [t|]; [|reflexivity].
  now rewrite Hall.
Qed.

(* ----------------------- relational reading of the specification *)

(* a typed bit literal directly under a negation *)
Definition is_neg_bit (op : unop) (e : expr) : bool :=
  match op, e with
  | UNegative, EBit _ (Some _) _ => true
  | _, _ => false
  end.

(* "the literal o occurs in expression position in ..." with one rule per place
   an expression can sit in the AST of common.rs.  A typed bit literal that is
   directly the operand of a negation occurs there with the kind KNegBit
   (OI_negbit) and not with the kind KBit (the side condition of OI_unary). *)
Inductive occ_in_expr : litocc -> expr -> Prop :=
| OI_signed v ty p : occ_in_expr (MkOcc p KSigned v ty) (ESigned v ty p)
| OI_bit v ty p : occ_in_expr (MkOcc p KBit v ty) (EBit v ty p)
| OI_negbit v t p :
    occ_in_expr (MkOcc p KNegBit v (Some t)) (EUnary UNegative (EBit v (Some t) p))
| OI_binary_left o l r : occ_in_expr o l -> occ_in_expr o (EBinary l r)
| OI_binary_right o l r : occ_in_expr o r -> occ_in_expr o (EBinary l r)
| OI_unary o op e : is_neg_bit op e = false -> occ_in_expr o e -> occ_in_expr o (EUnary op e)
| OI_array o els e : In e els -> occ_in_expr o e -> occ_in_expr o (EArray els)
| OI_structural o ms e : In (MkMember e) ms -> occ_in_expr o e -> occ_in_expr o (EStructural ms)
| OI_paren o e : occ_in_expr o e -> occ_in_expr o (EParen e)
| OI_deref o r a : In (RElement a) r -> occ_in_expr o a -> occ_in_expr o (EDeref r)
| OI_autocoerce o e : occ_in_expr o e -> occ_in_expr o (EAutocoerce e)
| OI_bitcast o e : occ_in_expr o e -> occ_in_expr o (EBitCast e)
| OI_typecast o e : occ_in_expr o e -> occ_in_expr o (ETypeCast e)
| OI_length o r a : In (RElement a) r -> occ_in_expr o a -> occ_in_expr o (ELengthOfArray r)
| OI_call o args a : In a args -> occ_in_expr o a -> occ_in_expr o (ECall args).

Inductive occ_in_stmt : litocc -> stmt -> Prop :=
| OS_declaration o e : occ_in_expr o e -> occ_in_stmt o (SDeclaration (Some e))
| OS_assignment_index o r v a :
    In (RElement a) r -> occ_in_expr o a -> occ_in_stmt o (SAssignment r v)
| OS_assignment_value o r v : occ_in_expr o v -> occ_in_stmt o (SAssignment r v)
| OS_methodcall o args a : In a args -> occ_in_expr o a -> occ_in_stmt o (SMethodCall args)
| OS_if_left o c t e : occ_in_expr o (cmp_left c) -> occ_in_stmt o (SIf c t e)
| OS_if_right o c t e : occ_in_expr o (cmp_right c) -> occ_in_stmt o (SIf c t e)
| OS_if_then o c t e : occ_in_stmt o t -> occ_in_stmt o (SIf c t e)
| OS_if_else o c t b l : occ_in_stmt o b -> occ_in_stmt o (SIf c t (Some (MkElse b l)))
| OS_block o ss loc s : In s ss -> occ_in_stmt o s -> occ_in_stmt o (SBlock (MkBlock ss loc)).

Inductive occ_in_decl : litocc -> decl -> Prop :=
| OD_constant o v : occ_in_expr o v -> occ_in_decl o (DConstant v)
| OD_statement o ss r s :
    In s ss -> occ_in_stmt o s -> occ_in_decl o (DFunction (Some (MkBody ss r)))
| OD_return o ss e : occ_in_expr o e -> occ_in_decl o (DFunction (Some (MkBody ss (Some e)))).

Lemma occs_expr_iff : forall e o, In o (occs_expr e) <-> occ_in_expr o e.
Proof.
  intros e o. split.
  - revert o.
    induction e as [l r IHl IHr|op e IH| |v ty p|v ty p| |els IH|ms IH|e IH|r IH|e IH|e IH|e IH|r IH| |args IH| ]
      using expr_ind2; intros o Hin; cbn [occs_expr] in Hin; try contradiction.
    + apply in_app_or in Hin. destruct Hin as [H|H]; [apply OI_binary_left|apply OI_binary_right]; auto.
    + destruct (is_neg_bit op e) eqn:Hnb.
      * destruct op; [|discriminate Hnb].
        destruct e as [ | | | |v [t|] p| | | | | | | | | | | | ]; try discriminate Hnb.
        destruct Hin as [<-|[]]. constructor.
      * apply OI_unary; [exact Hnb|]. apply IH.
        destruct op; [|exact Hin].
        destruct e as [ | | | |v [t|] p| | | | | | | | | | | | ]; try exact Hin.
        discriminate Hnb.
    + destruct Hin as [<-|[]]. constructor.
    + destruct Hin as [<-|[]]. constructor.
    + apply in_flat_map in Hin. destruct Hin as [e [He Ho]].
      rewrite Forall_forall in IH. eapply OI_array; eauto.
    + apply in_flat_map in Hin. destruct Hin as [[e] [He Ho]].
      rewrite Forall_forall in IH. eapply OI_structural; [exact He|]. exact (IH _ He o Ho).
    + apply OI_paren; auto.
    + apply in_flat_map in Hin. destruct Hin as [[a| | | | ] [Ha Ho]]; try contradiction.
      rewrite Forall_forall in IH. eapply OI_deref; [exact Ha|]. exact (IH _ Ha o Ho).
    + apply OI_autocoerce; auto.
    + apply OI_bitcast; auto.
    + apply OI_typecast; auto.
    + apply in_flat_map in Hin. destruct Hin as [[a| | | | ] [Ha Ho]]; try contradiction.
      rewrite Forall_forall in IH. eapply OI_length; [exact Ha|]. exact (IH _ Ha o Ho).
    + apply in_flat_map in Hin. destruct Hin as [e [He Ho]].
      rewrite Forall_forall in IH. eapply OI_call; eauto.
  - intros H.
    induction H as [v ty p|v ty p|v t p|o l r H IH|o l r H IH|o op e Hnb H IH|o els e He H IH
                   |o ms e He H IH|o e H IH|o r a Ha H IH|o e H IH|o e H IH|o e H IH
                   |o r a Ha H IH|o args a Ha H IH]; cbn [occs_expr]; auto.
    + now left.
    + now left.
    + now left.
    + apply in_or_app; auto.
    + apply in_or_app; auto.
    + destruct op; [|exact IH].
      destruct e as [ | | | |v [t|] p| | | | | | | | | | | | ]; try exact IH.
      discriminate Hnb.
    + apply in_flat_map. eauto.
    + apply in_flat_map. exists (MkMember e). auto.
    + apply in_flat_map. exists (RElement a). auto.
    + apply in_flat_map. exists (RElement a). auto.
    + apply in_flat_map. eauto.
Qed.

Lemma occs_steps_iff r o :
  In o (flat_map occs_refstep r) <-> exists a, In (RElement a) r /\ occ_in_expr o a.
Proof.
  rewrite in_flat_map. split.
  - intros [[a| | | | ] [Ha Ho]]; try contradiction. exists a. split; [assumption|].
    now apply occs_expr_iff.
  - intros [a [Ha Ho]]. exists (RElement a). split; [assumption|]. now apply occs_expr_iff.
Qed.

Lemma occs_exprs_iff l o :
  In o (flat_map occs_expr l) <-> exists a, In a l /\ occ_in_expr o a.
Proof.
  rewrite in_flat_map. split; intros [a [Ha Ho]]; exists a; (split; [assumption|]);
    now apply occs_expr_iff.
Qed.

Lemma occs_stmt_iff : forall s o, In o (occs_stmt s) <-> occ_in_stmt o s.
Proof.
  intros s o. split.
  - revert o.
    induction s as [v|r v|args|loc| | |c t IHt|c t b l IHt IHb|ss loc IH| ] using stmt_ind2;
      intros o Hin; cbn [occs_stmt] in Hin; try contradiction.
    + destruct v as [e|]; [|contradiction]. apply OS_declaration. now apply occs_expr_iff.
    + apply in_app_or in Hin. destruct Hin as [H|H].
      * apply occs_steps_iff in H. destruct H as [a [Ha Ho]]. eapply OS_assignment_index; eauto.
      * apply OS_assignment_value. now apply occs_expr_iff.
    + apply occs_exprs_iff in Hin. destruct Hin as [a [Ha Ho]]. eapply OS_methodcall; eauto.
    + apply in_app_or in Hin. destruct Hin as [H|H]; [apply OS_if_left; now apply occs_expr_iff|].
      apply in_app_or in H. destruct H as [H|H]; [apply OS_if_right; now apply occs_expr_iff|].
      rewrite app_nil_r in H. apply OS_if_then; auto.
    + apply in_app_or in Hin. destruct Hin as [H|H]; [apply OS_if_left; now apply occs_expr_iff|].
      apply in_app_or in H. destruct H as [H|H]; [apply OS_if_right; now apply occs_expr_iff|].
      apply in_app_or in H. destruct H as [H|H]; [apply OS_if_then|apply OS_if_else]; auto.
    + apply in_flat_map in Hin. destruct Hin as [s [Hs Ho]].
      rewrite Forall_forall in IH. eapply OS_block; eauto.
  - intros H. induction H; cbn [occs_stmt occs_option].
    + now apply occs_expr_iff.
    + apply in_or_app. left. apply occs_steps_iff. eauto.
    + apply in_or_app. right. now apply occs_expr_iff.
    + apply occs_exprs_iff. eauto.
    + apply in_or_app. left. now apply occs_expr_iff.
    + apply in_or_app. right. apply in_or_app. left. now apply occs_expr_iff.
    + apply in_or_app. right. apply in_or_app. right. apply in_or_app. now left.
    + apply in_or_app. right. apply in_or_app. right. apply in_or_app. now right.
    + apply in_flat_map. eauto.
Qed.

Theorem occs_decl_iff : forall d o, In o (occs_decl d) <-> occ_in_decl o d.
Proof.
  intros d o. split.
  - intros Hin. destruct d as [v|[[ss r]|]| | | | ]; cbn [occs_decl] in Hin; try contradiction.
    + apply OD_constant. now apply occs_expr_iff.
    + cbn [fb_statements fb_return_value] in Hin. apply in_app_or in Hin. destruct Hin as [H|H].
      * apply in_flat_map in H. destruct H as [s [Hs Ho]].
        eapply OD_statement; [exact Hs|]. now apply occs_stmt_iff.
      * destruct r as [e|]; [|contradiction]. apply OD_return. now apply occs_expr_iff.
  - intros H. destruct H as [o v H|o ss r s Hs H|o ss e H]; cbn [occs_decl fb_statements fb_return_value].
    + now apply occs_expr_iff.
    + apply in_or_app. left. apply in_flat_map. exists s. split; [assumption|].
      now apply occs_stmt_iff.
    + apply in_or_app. right. now apply occs_expr_iff.
Qed.

(* The linter looks at a literal iff it occurs in the declaration. *)
Theorem lint_visits_iff : forall d o, In o (lint_visits d) <-> occ_in_decl o d.
Proof. intros d o. rewrite lint_visits_are_occurrences. apply occs_decl_iff. Qed.

(* ------------------------------------------- L1800 and the state *)

(* what a statement reports because of the state it is entered in *)
Definition head_part (s : stmt) (st : lstate) : list (N * N * N) :=
  match s with
  | SLoop l =>
      match st_first st with Some (c, b) => [(l, c, b)] | None => [] end
  | SBlock (MkBlock (SLoop l :: _) loc) =>
      match st_naked st with Some c => [(l, c, loc)] | None => [] end
  | _ => []
  end.

Lemma head_part_branch c t : head_part t (MkState (Some c) None) = first_loop c t.
Proof. destruct t as [ | | | | | | | [[|[] ?] ?] | ]; reflexivity. Qed.

Lemma head_part_default s st :
  st_naked st = None -> st_first st = None -> head_part s st = [].
Proof.
  intros Hn Hf. destruct s as [ | | | | | | | [[|[] ?] ?] | ]; cbn [head_part]; try reflexivity.
  - now rewrite Hf.
  - now rewrite Hn.
Qed.

Lemma head_part_first s c loc :
  head_part s (MkState None (Some (c, loc))) =
  match s with SLoop l => [(l, c, loc)] | _ => [] end.
Proof. destruct s as [ | | | | | | | [[|[] ?] ?] | ]; reflexivity. Qed.

Definition l1800_stmt_P (s : stmt) : Prop :=
  forall st,
    l1800s (snd (lint_stmt s st)) = head_part s st ++ l1800_spec_stmt s /\
    (st_naked st = None -> st_naked (fst (lint_stmt s st)) = None) /\
    (st_first st = None -> st_first (fst (lint_stmt s st)) = None).

Lemma l1800_stmts l :
  Forall l1800_stmt_P l ->
  forall st, st_naked st = None -> st_first st = None ->
    l1800s (snd (lint_stmts l st)) = flat_map l1800_spec_stmt l /\
    st_naked (fst (lint_stmts l st)) = None /\
    st_first (fst (lint_stmts l st)) = None.
Proof.
  intros H. induction H as [|x xs Hx _ IH]; intros st Hn Hf; [now cbn|].
  cbn [lint_stmts flat_map].
  destruct (Hx st) as [H1 [H1n H1f]]. destruct (lint_stmt x st) as [st' ev]. cbn [fst snd] in *.
  destruct (IH st' (H1n Hn) (H1f Hf)) as [H2 [H2n H2f]].
  destruct (lint_stmts xs st') as [st'' ev']. cbn [fst snd] in *.
  rewrite l1800s_app, H1, H2, (head_part_default x st Hn Hf). auto.
Qed.

Lemma l1800_stmt : forall s, l1800_stmt_P s.
Proof.
  induction s as [v|r v|args|loc| | |c t IHt|c t b l IHt IHb|ss loc IH| ] using stmt_ind2;
    intros st.
  - cbn [lint_stmt fst snd head_part l1800_spec_stmt]. rewrite l1800s_option. auto.
  - cbn [lint_stmt fst snd head_part l1800_spec_stmt].
    rewrite l1800s_app, l1800s_reference, l1800s_expr. auto.
  - cbn [lint_stmt fst snd head_part l1800_spec_stmt]. rewrite l1800s_exprs. auto.
  - cbn [lint_stmt head_part l1800_spec_stmt].
    destruct (st_first st) as [[c b]|] eqn:Hf; cbn [fst snd st_naked st_first]; auto.
  - cbn. auto.
  - cbn. auto.
  - rewrite lint_stmt_if. cbn zeta.
    destruct (IHt (MkState (Some (cmp_loc c)) None)) as [H1 [_ H1f]].
    destruct (lint_stmt t (MkState (Some (cmp_loc c)) None)) as [st2 ev1].
    cbn [fst snd st_naked st_first] in *.
    rewrite !l1800s_app, !l1800s_expr, H1, head_part_branch.
    cbn [head_part l1800_spec_stmt app l1800s flat_map].
    rewrite !app_nil_r. split; [reflexivity|]. split; auto.
  - rewrite lint_stmt_if. cbn zeta.
    destruct (IHt (MkState (Some (cmp_loc c)) None)) as [H1 [_ H1f]].
    destruct (lint_stmt t (MkState (Some (cmp_loc c)) None)) as [st2 ev1].
    cbn [fst snd st_naked st_first] in *.
    rewrite (H1f eq_refl).
    destruct (IHb (MkState (Some l) None)) as [H2 [_ H2f]].
    destruct (lint_stmt b (MkState (Some l) None)) as [st3 ev2].
    cbn [fst snd st_naked st_first] in *.
    rewrite !l1800s_app, !l1800s_expr, H1, H2, !head_part_branch.
    cbn [head_part l1800_spec_stmt app].
    split; [now rewrite !app_assoc|]. split; auto.
  - rewrite lint_stmt_block. destruct ss as [|s1 others].
    + rewrite lint_block_nil. cbn. auto.
    + rewrite lint_block_cons. cbn zeta.
      inversion IH as [|? ? H1 Hrest]; subst.
      match goal with |- context [lint_stmt s1 ?st1] =>
        destruct (H1 st1) as [H1e [H1n _]]; destruct (lint_stmt s1 st1) as [st2 ev1] end.
      cbn [fst snd st_naked st_first] in *.
      specialize (H1n eq_refl).
      destruct (l1800_stmts others Hrest (MkState (st_naked st2) None) H1n eq_refl)
        as [H2 [H2n H2f]].
      destruct (lint_stmts others (MkState (st_naked st2) None)) as [st4 ev2].
      cbn [fst snd] in *.
      rewrite l1800s_app, H1e, H2. cbn [l1800_spec_stmt flat_map].
      split; [|auto].
      rewrite <- app_assoc. f_equal.
      destruct (st_naked st) as [c|] eqn:Hn.
      * rewrite head_part_first.
        destruct s1; cbn [head_part]; try rewrite Hn; reflexivity.
      * rewrite head_part_default by reflexivity.
        destruct s1; cbn [head_part]; try rewrite Hn; reflexivity.
  - cbn. auto.
Qed.

Lemma l1800_stmts_all l st :
  st_naked st = None -> st_first st = None ->
  l1800s (snd (lint_stmts l st)) = flat_map l1800_spec_stmt l /\
  st_naked (fst (lint_stmts l st)) = None /\
  st_first (fst (lint_stmts l st)) = None.
Proof. apply l1800_stmts, Forall_forall. intros s _. apply l1800_stmt. Qed.

Lemma lstate_eta st : st_naked st = None -> st_first st = None -> st = st_default.
Proof. destruct st as [n f]. cbn. intros -> ->. reflexivity. Qed.

(* a declaration linted from the default state leaves the default state *)
Lemma lint_decl_in_default d :
  l1800s (snd (lint_decl_in d st_default)) = l1800_spec d /\
  fst (lint_decl_in d st_default) = st_default.
Proof.
  destruct d as [v|[body|]| | | | ]; try (cbn; auto; fail).
  - cbn [lint_decl_in fst snd l1800_spec]. now rewrite l1800s_expr.
  - cbn [lint_decl_in l1800_spec]. unfold lint_fbody.
    destruct (l1800_stmts_all (fb_statements body) st_default eq_refl eq_refl) as [H [Hn Hf]].
    destruct (lint_stmts (fb_statements body) st_default) as [st1 ev1]. cbn [fst snd] in *.
    rewrite l1800s_app, H, l1800s_option, app_nil_r. split; [reflexivity|].
    now apply lstate_eta.
Qed.

(* L1800 is reported exactly for a loop opening a block that is directly a
   branch of an [if], in source order. *)
Theorem l1800_characterisation : forall d, l1800 d = l1800_spec d.
Proof. intros d. apply lint_decl_in_default. Qed.

Theorem lint_decl_final_state : forall d, fst (lint_decl_in d st_default) = st_default.
Proof. intros d. apply lint_decl_in_default. Qed.

(* hence sharing one Linter between the declarations of a module (alpha.rs) is
   the same as linting each declaration with a fresh one *)
Theorem lint_module_is_per_declaration :
  forall ds, lint_module ds = flat_map lint_decl ds.
Proof.
  intros ds. unfold lint_module.
  induction ds as [|d rest IH]; [reflexivity|].
  cbn [lint_decls_in flat_map]. unfold lint_decl at 1.
  pose proof (lint_decl_final_state d) as Hf.
  destruct (lint_decl_in d st_default) as [st1 ev1]. cbn [fst snd] in *. subst st1.
  destruct (lint_decls_in rest st_default) as [st2 ev2]. cbn [snd] in *. now rewrite IH.
Qed.

(* ------------------------------ 3. the broken variants miss literals *)

(* sanity: the generic walk with the current expression walk and both flags on
   sees exactly what the modelled code sees *)
Lemma walk_stmt_current s :
  visits_of (walk_stmt_with lint_expr lint_refstep true s) = occs_stmt s.
Proof.
  induction s as [v|r v|args|loc| | |c t IHt|c t b l IHt IHb|ss loc IH| ] using stmt_ind2;
    cbn [walk_stmt_with occs_stmt]; try reflexivity.
  - destruct v; [apply visits_expr|reflexivity].
  - rewrite visits_of_app, visits_expr. f_equal. apply visits_reference.
  - apply visits_exprs.
  - now rewrite !visits_of_app, !visits_expr, IHt, <- app_assoc.
  - now rewrite !visits_of_app, !visits_expr, IHt, IHb, <- app_assoc.
  - rewrite visits_of_flat_map. now apply flat_map_ext_Forall.
Qed.

Theorem walk_current_is_lint :
  forall d, visits_of (walk_decl_with lint_expr lint_refstep true true d) = lint_visits d.
Proof.
  intros d. rewrite lint_visits_are_occurrences.
  destruct d as [v|[body|]| | | | ]; try reflexivity.
  - apply visits_expr.
  - cbn [walk_decl_with occs_decl]. rewrite visits_of_app, visits_of_flat_map. f_equal.
    + apply flat_map_ext_Forall, Forall_forall. intros s _. apply walk_stmt_current.
    + destruct (fb_return_value body); [apply visits_expr|reflexivity].
Qed.

Definition u8 : tytag := 6%N.   (* any tag; the tags are opaque here *)

(* (a) fn foo() -> u8 { return: 300 } *)
Definition prog_return : decl :=
  DFunction (Some (MkBody [] (Some (ESigned 300 (Some u8) 1%N)))).

(* (a') fn bar(x: u8) { if x == 300 { } } *)
Definition prog_if_condition : decl :=
  DFunction (Some (MkBody
    [SIf (MkComparison (EDeref []) (ESigned 300 (Some u8) 1%N) 2%N)
         (SBlock (MkBlock [] 3%N)) None] None)).

Lemma pinned_traversal_refuted_return :
  exists d, literals_of_decl d <> [] /\ events_of (lint_decl_pinned d) = []
            /\ lint_positions d = [1%N].
Proof. exists prog_return. vm_compute. repeat split; discriminate. Qed.

Lemma pinned_traversal_refuted_condition :
  exists d, literals_of_decl d <> [] /\ events_of (lint_decl_pinned d) = []
            /\ lint_positions d = [1%N].
Proof. exists prog_if_condition. vm_compute. repeat split; discriminate. Qed.

(* (b) const X: u8 = (300); *)
Definition prog_paren : decl := DConstant (EParen (ESigned 300 (Some u8) 1%N)).

Lemma noparen_traversal_refuted :
  exists d, literals_of_decl d <> [] /\ events_of (lint_decl_noparen d) = []
            /\ lint_positions d = [1%N].
Proof. exists prog_paren. vm_compute. repeat split; discriminate. Qed.

(* a literal without a type is looked at but not range-tested *)
Lemma untyped_literal_not_checked :
  exists d, visit_positions d = [1%N] /\ lint_positions d = [] /\
            forall oor, l1142 oor d = [].
Proof. exists (DConstant (ESigned 300 None 1%N)). repeat split. Qed.

(* --------------------- 3c. the negated bit literal and the range tests *)

Definition plain_occ (o : litocc) : litocc :=
  MkOcc (oc_pos o) (plain_kind (oc_kind o)) (oc_val o) (oc_ty o).

Definition plain_ev (ev : lintev) : lintev :=
  match ev with
  | EvLiteral p k v ty => EvLiteral p (plain_kind k) v ty
  | EvLoopFirst _ _ _ => ev
  end.

Lemma map_flat_map {A B C} (g : B -> C) (f : A -> list B) (l : list A) :
  map g (flat_map f l) = flat_map (fun x => map g (f x)) l.
Proof.
  induction l as [|x xs IH]; [reflexivity|].
  cbn [flat_map]. now rewrite map_app, IH.
Qed.

(* The walk before the repair saw the same literals at the same places in the
   order; the repair changed only the kind (hence the range test) of a typed bit
   literal directly under a negation. *)
Lemma oldneg_expr_is_plain : forall e, oldneg_expr e = map plain_ev (lint_expr e).
Proof.
  induction e as [l r IHl IHr|op e IH| |v ty p|v ty p| |els IH|ms IH|e IH|r IH|e IH|e IH|e IH|r IH| |args IH| ]
    using expr_ind2; cbn [lint_expr oldneg_expr]; try reflexivity; try assumption.
  - now rewrite map_app, IHl, IHr.
  - destruct op; [|exact IH]. destruct e; try exact IH.
    destruct ty; [reflexivity|exact IH].
  - rewrite map_flat_map. now apply flat_map_ext_Forall.
  - rewrite map_flat_map. apply flat_map_ext_Forall.
    eapply Forall_impl; [|exact IH]. intros [e] He. exact He.
  - rewrite map_flat_map. apply flat_map_ext_Forall.
    eapply Forall_impl; [|exact IH]. intros [a| | | | ] Ha; try reflexivity. exact Ha.
  - rewrite map_flat_map. apply flat_map_ext_Forall.
    eapply Forall_impl; [|exact IH]. intros [a| | | | ] Ha; try reflexivity. exact Ha.
  - rewrite map_flat_map. now apply flat_map_ext_Forall.
Qed.

Lemma visits_of_plain l : visits_of (map plain_ev l) = map plain_occ (visits_of l).
Proof.
  unfold visits_of.
  induction l as [|[p k v ty|a b c] xs IH]; [reflexivity| |]; cbn [map flat_map ev_occ app plain_ev].
  - now rewrite IH.
  - exact IH.
Qed.

Corollary oldneg_visits e : visits_of (oldneg_expr e) = map plain_occ (occs_expr e).
Proof. now rewrite oldneg_expr_is_plain, visits_of_plain, visits_expr. Qed.

(* ... and, on the specification side: an operator never hides or adds an
   occurrence, a negation only changes the kind of its operand's occurrence *)
Lemma occs_unary_plain op e :
  map plain_occ (occs_expr (EUnary op e)) = map plain_occ (occs_expr e).
Proof.
  destruct op; [|reflexivity]. destruct e; try reflexivity.
  destruct ty; reflexivity.
Qed.

(* KNegBit is exactly "typed bit literal directly under a negation" *)
Lemma occs_unary_negbit op e :
  occs_expr (EUnary op e) =
  if is_neg_bit op e
  then match e with EBit v ty p => [MkOcc p KNegBit v ty] | _ => [] end
  else occs_expr e.
Proof.
  destruct op; [|reflexivity]. destruct e; try reflexivity.
  destruct ty; reflexivity.
Qed.

Section range_test_facts.
  Variable tbl : tytag -> option (bool * Z * Z).
  Variables (t : tytag) (sg : bool) (mn mx : Z).
  Hypothesis Htbl : tbl t = Some (sg, mn, mx).

  (* signed literal: flagged iff the value is outside [min, max] *)
  Lemma range_test_signed v :
    (mn <= 0 <= mx)%Z ->
    range_test tbl KSigned v t = true <-> ~ (mn <= v <= mx)%Z.
  Proof.
    intros Hr. unfold range_test. rewrite Htbl.
    destruct (v <? 0)%Z eqn:Hneg; [rewrite Z.ltb_lt in *|rewrite Z.ltb_ge in Hneg; rewrite Z.ltb_lt]; lia.
  Qed.

  (* bit literal (a magnitude): flagged iff the value is outside [min, max] *)
  Lemma range_test_bit v :
    (mn <= 0)%Z -> (0 <= v)%Z ->
    range_test tbl KBit v t = true <-> ~ (mn <= v <= mx)%Z.
  Proof.
    intros Hmn Hv. unfold range_test. rewrite Htbl, Z.ltb_lt. lia.
  Qed.

  (* THE REPAIR.  A bit literal of magnitude v directly under a negation denotes -v;
     at a signed type (two's complement: min = -max - 1) it is flagged iff -v is
     below the minimum, i.e. iff -v is outside [min, max] ... *)
  Lemma range_test_negbit_signed v :
    sg = true -> mn = (- mx - 1)%Z ->
    range_test tbl KNegBit v t = true <-> (- v < mn)%Z.
  Proof.
    intros -> ->. unfold range_test. rewrite Htbl, Z.ltb_lt. lia.
  Qed.

  Lemma range_test_negbit_signed_range v :
    sg = true -> mn = (- mx - 1)%Z -> (0 <= v)%Z -> (0 <= mx)%Z ->
    range_test tbl KNegBit v t = true <-> ~ (mn <= - v <= mx)%Z.
  Proof.
    intros Hsg Hmn Hv Hmx. rewrite (range_test_negbit_signed v Hsg Hmn). lia.
  Qed.

  (* ... so an in-range value raises no L1142: no false positive at magnitude
     max + 1 (= -min) any more *)
  Corollary negated_bit_literal_in_range_not_flagged v :
    sg = true -> mn = (- mx - 1)%Z -> (mn <= - v)%Z ->
    range_test tbl KNegBit v t = false.
  Proof.
    intros Hsg Hmn Hv. destruct (range_test tbl KNegBit v t) eqn:H; [|reflexivity].
    apply (range_test_negbit_signed v Hsg Hmn) in H. lia.
  Qed.

  Corollary negated_min_not_flagged :
    sg = true -> mn = (- mx - 1)%Z -> range_test tbl KNegBit (mx + 1) t = false.
  Proof. intros Hsg Hmn. apply negated_bit_literal_in_range_not_flagged; auto. lia. Qed.

  (* at an unsigned type the guard of the new arm fails: the ordinary test *)
  Lemma range_test_negbit_unsigned v :
    sg = false -> range_test tbl KNegBit v t = range_test tbl KBit v t.
  Proof. intros ->. unfold range_test. now rewrite Htbl. Qed.

  (* before the repair the magnitude max + 1 was flagged although -(max + 1) = min *)
  Lemma range_test_oldneg_flags_min :
    mn = (- mx - 1)%Z -> (0 <= mx)%Z ->
    range_test_oldneg tbl KNegBit (mx + 1) t = true /\ (mn <= - (mx + 1) <= mx)%Z.
  Proof.
    intros Hmn Hmx. unfold range_test_oldneg, range_test. cbn [plain_kind].
    rewrite Htbl, Z.ltb_lt. lia.
  Qed.
End range_test_facts.

(* for the two literal arms the test is the one from before the repair *)
Lemma range_test_plain_kinds tbl k v t :
  k <> KNegBit -> range_test tbl k v t = range_test_oldneg tbl k v t.
Proof. destruct k; [reflexivity|reflexivity|intros H; now elim H]. Qed.

(* L1142 of the old walk under a test = L1142 of the current walk under the test
   that reads KNegBit as KBit *)
Lemma l1142_of_oldneg_expr oor e :
  l1142_of oor (oldneg_expr e) =
  l1142_of (fun k => oor (plain_kind k)) (lint_expr e).
Proof.
  unfold l1142_of. rewrite oldneg_visits, visits_expr.
  induction (occs_expr e) as [|o os IH]; [reflexivity|].
  cbn [map flat_map]. now rewrite IH.
Qed.

(* The value a literal occurrence denotes: a bit literal directly under a negation
   denotes the negated magnitude. *)
Definition occ_value (o : litocc) : Z :=
  match oc_kind o with KNegBit => (- oc_val o)%Z | _ => oc_val o end.

(* a range table of integer types: two's complement or unsigned *)
Definition tbl_wf (tbl : tytag -> option (bool * Z * Z)) : Prop :=
  forall t sg mn mx, tbl t = Some (sg, mn, mx) ->
    (0 <= mx)%Z /\ (sg = true -> mn = (- mx - 1)%Z) /\ (sg = false -> mn = 0%Z).

(* bit literals are magnitudes (u128) *)
Definition magnitudes_ok (d : decl) : Prop :=
  Forall (fun o => oc_kind o <> KSigned -> (0 <= oc_val o)%Z) (occs_decl d).

Lemma range_test_true_out_of_range tbl o t sg mn mx :
  tbl_wf tbl -> tbl t = Some (sg, mn, mx) ->
  (oc_kind o <> KSigned -> (0 <= oc_val o)%Z) ->
  range_test tbl (oc_kind o) (oc_val o) t = true -> ~ (mn <= occ_value o <= mx)%Z.
Proof.
  intros Hwf Htbl Hmag Hrt. destruct (Hwf _ _ _ _ Htbl) as [Hmx [Hs Hu]].
  unfold occ_value. destruct (oc_kind o) eqn:Hk.
  - apply (range_test_signed tbl t sg mn mx Htbl); [|exact Hrt].
    destruct sg; [rewrite Hs by reflexivity|rewrite Hu by reflexivity]; lia.
  - apply (range_test_bit tbl t sg mn mx Htbl); [| |exact Hrt].
    + destruct sg; [rewrite Hs by reflexivity|rewrite Hu by reflexivity]; lia.
    + apply Hmag. discriminate.
  - assert (Hv : (0 <= oc_val o)%Z) by (apply Hmag; discriminate).
    destruct sg.
    + apply (range_test_negbit_signed tbl t true mn mx Htbl) in Hrt; auto. lia.
    + rewrite (range_test_negbit_unsigned tbl t false mn mx Htbl) in Hrt by reflexivity.
      apply (range_test_bit tbl t false mn mx Htbl) in Hrt; [|rewrite Hu by reflexivity; lia|exact Hv].
      rewrite Hu in * by reflexivity. lia.
Qed.

(* "In-range values never raise L1142": with the range tests of linter.rs over a
   table of integer ranges, every reported position is that of a literal
   occurrence whose denoted value is outside the range of its type. *)
Theorem l1142_range_test_only_out_of_range tbl d p :
  tbl_wf tbl -> magnitudes_ok d ->
  In p (l1142 (range_test tbl) d) ->
  exists o t sg mn mx,
    In o (occs_decl d) /\ oc_pos o = p /\ oc_ty o = Some t /\ tbl t = Some (sg, mn, mx) /\
    ~ (mn <= occ_value o <= mx)%Z.
Proof.
  intros Hwf Hmag Hin. apply l1142_never in Hin.
  destruct Hin as [o [t [Ho [Hp [Hty Hrt]]]]].
  destruct (tbl t) as [[[sg mn] mx]|] eqn:Htbl.
  - exists o, t, sg, mn, mx. repeat (split; [assumption|]).
    apply (range_test_true_out_of_range tbl o t sg mn mx Hwf Htbl); [|exact Hrt].
    unfold magnitudes_ok in Hmag. rewrite Forall_forall in Hmag. now apply Hmag.
  - unfold range_test in Hrt. rewrite Htbl in Hrt. discriminate.
Qed.

(* "Out-of-range values always raise L1142" - except a negated bit literal of an
   UNSIGNED type whose magnitude fits (e.g. -0x01 as u8): there the guard of the
   Unary arm fails and the ordinary test is applied to the magnitude. *)
Theorem l1142_range_test_every_out_of_range tbl d o t sg mn mx :
  tbl_wf tbl -> magnitudes_ok d ->
  In o (occs_decl d) -> oc_ty o = Some t -> tbl t = Some (sg, mn, mx) ->
  (oc_kind o = KNegBit -> sg = true) ->
  ~ (mn <= occ_value o <= mx)%Z ->
  In (oc_pos o) (l1142 (range_test tbl) d).
Proof.
  intros Hwf Hmag Ho Hty Htbl Hneg Hout.
  apply (l1142_always _ d o t Ho Hty).
  destruct (Hwf _ _ _ _ Htbl) as [Hmx [Hs Hu]].
  unfold magnitudes_ok in Hmag. rewrite Forall_forall in Hmag. specialize (Hmag o Ho).
  unfold occ_value in Hout. destruct (oc_kind o) eqn:Hk.
  - apply (range_test_signed tbl t sg mn mx Htbl); [|exact Hout].
    destruct sg; [rewrite Hs by reflexivity|rewrite Hu by reflexivity]; lia.
  - apply (range_test_bit tbl t sg mn mx Htbl); [| |exact Hout].
    + destruct sg; [rewrite Hs by reflexivity|rewrite Hu by reflexivity]; lia.
    + apply Hmag. discriminate.
  - assert (Hv : (0 <= oc_val o)%Z) by (apply Hmag; discriminate).
    specialize (Hneg eq_refl). subst sg.
    apply (range_test_negbit_signed tbl t true mn mx Htbl); auto.
    rewrite (Hs eq_refl) in *. lia.
Qed.

(* the exception is real: -0x01 as u8 denotes -1, outside 0..255, and is not flagged *)
Lemma negated_unsigned_not_flagged_refuted :
  exists tbl d o t sg mn mx,
    tbl_wf tbl /\ magnitudes_ok d /\ In o (occs_decl d) /\ oc_ty o = Some t /\
    tbl t = Some (sg, mn, mx) /\ ~ (mn <= occ_value o <= mx)%Z /\
    l1142 (range_test tbl) d = [].
Proof.
  exists (fun t => if N.eqb t 6 then Some (false, 0, 255)%Z else None),
    (DConstant (EUnary UNegative (EBit 1 (Some 6%N) 1%N))),
    (MkOcc 1 KNegBit 1 (Some 6%N)), 6%N, false, 0%Z, 255%Z.
  split.
  { intros t sg mn mx H. destruct (N.eqb t 6); [|discriminate]. inversion H; subst.
    repeat split; try lia; discriminate. }
  split.
  { repeat constructor. cbn. lia. }
  split; [now left|]. repeat split. cbn. lia.
Qed.

Definition i8 : tytag := 1%N.

Definition toy_tbl (t : tytag) : option (bool * Z * Z) :=
  if N.eqb t i8 then Some (true, -128, 127)%Z
  else if N.eqb t u8 then Some (false, 0, 255)%Z
  else None.

(* const X: i8 = -0x80;  (the literal at position 1) *)
Definition prog_neg_min : decl := DConstant (EUnary UNegative (EBit 128 (Some i8) 1%N)).

(* (c) the walk of before the repair flagged -0x80 as i8, an in-range value; the
   current one does not, and still flags -0x81 *)
Lemma negated_min_literal_pinned_refuted :
  exists d, l1142_of (range_test toy_tbl) (lint_decl_oldneg d) = [1%N] /\
            l1142 (range_test_oldneg toy_tbl) d = [1%N] /\
            l1142 (range_test toy_tbl) d = [] /\
            occs_decl d = [MkOcc 1 KNegBit 128 (Some i8)] /\
            toy_tbl i8 = Some (true, -128, 127)%Z.
Proof. exists prog_neg_min. vm_compute. repeat split. Qed.

Section example_negated.
Local Open Scope Z_scope.
Example example_negated_bit_literals :
  let c e := DConstant e in
  let bit v ty := EBit v (Some ty) 1%N in
  let lints d := l1142 (range_test toy_tbl) d in
  (* -0x80, -0x81 as i8 *)
  lints (c (EUnary UNegative (bit 128 i8))) = [] /\
  lints (c (EUnary UNegative (bit 129 i8))) = [1%N] /\
  (* 0x7F, 0x80 as i8 *)
  lints (c (bit 127 i8)) = [] /\ lints (c (bit 128 i8)) = [1%N] /\
  (* every other shape falls through to the BitIntegerLiteral arm: -(0x80), !0x80 *)
  lint_decl (c (EUnary UNegative (EParen (bit 128 i8)))) = [EvLiteral 1 KBit 128 (Some i8)] /\
  lints (c (EUnary UNegative (EParen (bit 128 i8)))) = [1%N] /\
  lint_decl (c (EUnary UBitwiseComplement (bit 128 i8))) = [EvLiteral 1 KBit 128 (Some i8)] /\
  lints (c (EUnary UBitwiseComplement (bit 128 i8))) = [1%N] /\
  (* unsigned type: the arm's guard fails, ordinary test: -0xFF, -0x100 as u8 *)
  lint_decl (c (EUnary UNegative (bit 255 u8))) = [EvLiteral 1 KNegBit 255 (Some u8)] /\
  lints (c (EUnary UNegative (bit 255 u8))) = [] /\
  lints (c (EUnary UNegative (bit 256 u8))) = [1%N] /\
  (* no type: falls through, looked at by the catch-all arm, not tested *)
  lint_decl (c (EUnary UNegative (EBit 128 None 1%N))) = [EvLiteral 1 KBit 128 None] /\
  (* the operand of the INNER negation of -(-0x80) is again directly under a negation *)
  lint_decl (c (EUnary UNegative (EParen (EUnary UNegative (bit 128 i8))))) =
    [EvLiteral 1 KNegBit 128 (Some i8)] /\
  lints (c (EUnary UNegative (EParen (EUnary UNegative (bit 128 i8))))) = [] /\
  (* a signed (decimal) literal is not concerned *)
  lints (c (ESigned (-128) (Some i8) 1%N)) = [] /\ lints (c (ESigned (-129) (Some i8) 1%N)) = [1%N].
Proof. vm_compute. repeat split. Qed.
End example_negated.

(* ------------------------------------------------------- 4. examples *)

Definition usize : tytag := 10%N.

(* The function [main] of the following Penne program (position id of a literal =
   its value, except 400/401 for the two hexadecimal indices and 1, 2 for the
   in-range literals; other locations numbered from 500).  The compiler built from
   the current tree reports L1142 at exactly the 15 literals 302..313, 400, 401 of
   [main] in this order, and L1800 at the two loops marked below.

   fn main() -> u8
   {
       var arr: [4]u8 = [302, (303), -304, 1];
       var s = Pt { x: 305, y: 306 as u8 };
       var v: u8 = 2;
       arr[0x10000000000000000] = foo(307, |arr|) + 308u8;
       if arr[0x10000000000000001] == 309          condition 500
       {                                           block 501
           loop;                                   502   (L1800)
       }
       else                                        503
       {                                           block 504
           {                                       block 505
               v = 310;
           }
           if v == 311                             condition 506
           {                                       block 507
               loop;                               508   (L1800)
           }
           loop;                                   509
       }
       v = !312u8;
       return: 313
   } *)
Definition example_decl : decl :=
  DFunction (Some (MkBody
    [ SDeclaration (Some (EArray [ESigned 302 (Some u8) 302%N;
                                  EParen (ESigned 303 (Some u8) 303%N);
                                  ESigned (-304) (Some u8) 304%N;
                                  ESigned 1 (Some u8) 1%N]));
      SDeclaration (Some (EStructural [MkMember (ESigned 305 (Some u8) 305%N);
                                       MkMember (ETypeCast (ESigned 306 (Some u8) 306%N))]));
      SDeclaration (Some (ESigned 2 (Some u8) 2%N));
      SAssignment [RElement (EBit (2 ^ 64) (Some usize) 400%N)]
        (EBinary (ECall [ESigned 307 (Some u8) 307%N; ELengthOfArray [RAutoview]])
                 (EBit 308 (Some u8) 308%N));
      SIf (MkComparison (EDeref [RElement (EBit (2 ^ 64 + 1) (Some usize) 401%N)])
                        (ESigned 309 (Some u8) 309%N) 500%N)
          (SBlock (MkBlock [SLoop 502%N] 501%N))
          (Some (MkElse
             (SBlock (MkBlock
                [ SBlock (MkBlock [SAssignment [] (ESigned 310 (Some u8) 310%N)] 505%N);
                  SIf (MkComparison (EDeref []) (ESigned 311 (Some u8) 311%N) 506%N)
                      (SBlock (MkBlock [SLoop 508%N] 507%N)) None;
                  SLoop 509%N ] 504%N))
             503%N));
      SAssignment [] (EUnary UBitwiseComplement (EBit 312 (Some u8) 312%N)) ]
    (Some (ESigned 313 (Some u8) 313%N)))).

Example example_events :
  lint_decl example_decl =
  [ EvLiteral 302 KSigned 302 (Some u8); EvLiteral 303 KSigned 303 (Some u8);
    EvLiteral 304 KSigned (-304) (Some u8); EvLiteral 1 KSigned 1 (Some u8);
    EvLiteral 305 KSigned 305 (Some u8); EvLiteral 306 KSigned 306 (Some u8);
    EvLiteral 2 KSigned 2 (Some u8);
    EvLiteral 400 KBit (2 ^ 64) (Some usize);
    EvLiteral 307 KSigned 307 (Some u8); EvLiteral 308 KBit 308 (Some u8);
    EvLiteral 401 KBit (2 ^ 64 + 1) (Some usize); EvLiteral 309 KSigned 309 (Some u8);
    EvLoopFirst 502 500 501;
    EvLiteral 310 KSigned 310 (Some u8);
    EvLiteral 311 KSigned 311 (Some u8);
    EvLoopFirst 508 506 507;
    EvLiteral 312 KBit 312 (Some u8);
    EvLiteral 313 KSigned 313 (Some u8) ].
Proof. vm_compute. reflexivity. Qed.

(* a toy range test, enough for this example: u8 and usize *)
Definition toy_out_of_range (k : litkind) (v : Z) (t : tytag) : bool :=
  if N.eqb t usize then (2 ^ 64 - 1 <? v)%Z else ((v <? 0) || (255 <? v))%Z.

Example example_positions :
  lint_positions example_decl =
    [302;303;304;1;305;306;2;400;307;308;401;309;310;311;312;313]%N /\
  visit_positions example_decl = lint_positions example_decl /\
  l1142 toy_out_of_range example_decl =
    [302;303;304;305;306;400;307;308;401;309;310;311;312;313]%N /\
  l1800 example_decl = [(502, 500, 501); (508, 506, 507)]%N.
Proof. vm_compute. auto. Qed.

(* the pinned traversal on the same declaration misses 309, 311 (conditions; the
   index 401 sits in a condition too) and 313 (return value) *)
Example example_pinned :
  map fst (events_of (lint_decl_pinned example_decl)) =
    [302;303;304;1;305;306;2;400;307;308;310;312]%N.
Proof. vm_compute. reflexivity. Qed.

(* the traversal without parentheses misses 303 *)
Example example_noparen :
  map fst (events_of (lint_decl_noparen example_decl)) =
    [302;304;1;305;306;2;400;307;308;401;309;310;311;312;313]%N.
Proof. vm_compute. reflexivity. Qed.

(* a bit literal without a type (erroneous program) is visited, not tested *)
Example example_untyped :
  let d := DFunction (Some (MkBody [SMethodCall [ESizeOf; EBit 14 None 14%N]] None)) in
  visit_positions d = [14%N] /\ lint_positions d = [].
Proof. vm_compute. auto. Qed.

(* the hypothesis of [lint_positions_all_typed] is satisfiable by a non-trivial
   declaration *)
Example example_all_typed :
  Forall (fun x => snd x <> None) (literals_of_decl prog_if_condition) /\
  literals_of_decl prog_if_condition <> [].
Proof. vm_compute. split; [repeat constructor; discriminate|discriminate]. Qed.

(* L1800 depends on the state: a loop that opens a block nested in the branch
   block, or a branch that is not a block, is not reported *)
Example example_l1800_negative :
  l1800 (DFunction (Some (MkBody
    [SIf (MkComparison EBool EBool 1%N)
         (SBlock (MkBlock [SBlock (MkBlock [SLoop 2%N] 3%N)] 4%N))
         (Some (MkElse (SLoop 5%N) 6%N));
     SBlock (MkBlock [SLoop 7%N] 8%N)] None))) = [].
Proof. vm_compute. reflexivity. Qed.

Print Assumptions lint_reaches_every_literal.
Print Assumptions lint_type_is_literal_type.
Print Assumptions lint_visits_are_occurrences.
Print Assumptions lint_visits_iff.
Print Assumptions l1142_characterisation.
Print Assumptions l1800_characterisation.
Print Assumptions lint_module_is_per_declaration.
Print Assumptions walk_current_is_lint.
Print Assumptions pinned_traversal_refuted_return.
Print Assumptions pinned_traversal_refuted_condition.
Print Assumptions noparen_traversal_refuted.
Print Assumptions oldneg_expr_is_plain.
Print Assumptions range_test_signed.
Print Assumptions range_test_bit.
Print Assumptions range_test_negbit_signed.
Print Assumptions range_test_negbit_signed_range.
Print Assumptions negated_bit_literal_in_range_not_flagged.
Print Assumptions range_test_negbit_unsigned.
Print Assumptions range_test_oldneg_flags_min.
Print Assumptions negated_min_literal_pinned_refuted.
Print Assumptions l1142_range_test_only_out_of_range.
Print Assumptions l1142_range_test_every_out_of_range.
Print Assumptions negated_unsigned_not_flagged_refuted.
