(* C08: soundness of the mutability analyzer and of the aggregate-copy check
   (src/alpha/analyzer/mutability.rs, function_calls.rs) against the permission
   system of Model/Mutability.v. *)
From PV Require Import Base.Common Model.Mutability.

(* ---- Induction principle for the mutual/nested syntax ------------------------ *)

Section expr_ind2.
  Variable P : expr -> Prop.
  Variable Q : reference -> Prop.
  Variable R : rstep -> Prop.
  Hypothesis HLeaf : P ELeaf.
  Hypothesis HBinary : forall l r, P l -> P r -> P (EBinary l r).
  Hypothesis HUnary : forall e, P e -> P (EUnary e).
  Hypothesis HArrayLit : forall es, Forall P es -> P (EArrayLit es).
  Hypothesis HStructural : forall es, Forall P es -> P (EStructural es).
  Hypothesis HParen : forall e, P e -> P (EParen e).
  Hypothesis HAutocoerce : forall e, P e -> P (EAutocoerce e).
  Hypothesis HCast : forall e, P e -> P (ECast e).
  Hypothesis HDeref : forall r t, Q r -> P (EDeref r t).
  Hypothesis HLengthOf : forall r, Q r -> P (ELengthOf r).
  Hypothesis HCall : forall f args, Forall P args -> P (ECall f args).
  Hypothesis HPoison : P EPoison.
  Hypothesis HRef : forall b ss ad, Forall R ss -> Q (Ref b ss ad).
  Hypothesis HElement : forall a, P a -> R (Element a).
  Hypothesis HMember : forall m, R (Member m).
  Hypothesis HAutoderef : R Autoderef.
  Hypothesis HAutoview : R Autoview.
  Hypothesis HByView : R AutodesliceByView.
  Hypothesis HByPointer : R AutodesliceByPointer.
  Hypothesis HLength : R AutodesliceLength.

  Fixpoint expr_ind2 (e : expr) : P e :=
    match e with
    | ELeaf => HLeaf
    | EBinary l r => HBinary l r (expr_ind2 l) (expr_ind2 r)
    | EUnary x => HUnary x (expr_ind2 x)
    | EArrayLit es =>
        HArrayLit es ((fix go (l : list expr) : Forall P l :=
                         match l with
                         | [] => Forall_nil P
                         | x :: xs => Forall_cons x (expr_ind2 x) (go xs)
                         end) es)
    | EStructural es =>
        HStructural es ((fix go (l : list expr) : Forall P l :=
                           match l with
                           | [] => Forall_nil P
                           | x :: xs => Forall_cons x (expr_ind2 x) (go xs)
                           end) es)
    | EParen x => HParen x (expr_ind2 x)
    | EAutocoerce x => HAutocoerce x (expr_ind2 x)
    | ECast x => HCast x (expr_ind2 x)
    | EDeref r t => HDeref r t (ref_ind2 r)
    | ELengthOf r => HLengthOf r (ref_ind2 r)
    | ECall f args =>
        HCall f args ((fix go (l : list expr) : Forall P l :=
                         match l with
                         | [] => Forall_nil P
                         | x :: xs => Forall_cons x (expr_ind2 x) (go xs)
                         end) args)
    | EPoison => HPoison
    end
  with ref_ind2 (r : reference) : Q r :=
    match r with
    | Ref b ss ad =>
        HRef b ss ad ((fix go (l : list rstep) : Forall R l :=
                         match l with
                         | [] => Forall_nil R
                         | s :: xs => Forall_cons s (step_ind2 s) (go xs)
                         end) ss)
    end
  with step_ind2 (s : rstep) : R s :=
    match s with
    | Element a => HElement a (expr_ind2 a)
    | Member m => HMember m
    | Autoderef => HAutoderef
    | Autoview => HAutoview
    | AutodesliceByView => HByView
    | AutodesliceByPointer => HByPointer
    | AutodesliceLength => HLength
    end.

  Lemma syntax_ind2 : (forall e, P e) /\ (forall r, Q r) /\ (forall s, R s).
  Proof. split; [exact expr_ind2|split; [exact ref_ind2|exact step_ind2]]. Qed.
End expr_ind2.

Section stmt_ind2.
  Variable P : stmt -> Prop.
  Hypothesis HDecl : forall x value t, P (SDeclaration x value t).
  Hypothesis HAssign : forall r value, P (SAssignment r value).
  Hypothesis HCall : forall f args, P (SMethodCall f args).
  Hypothesis HIf1 : forall cl cr th, P th -> P (SIf cl cr th None).
  Hypothesis HIf2 : forall cl cr th el, P th -> P el -> P (SIf cl cr th (Some el)).
  Hypothesis HBlock : forall b, Forall P b -> P (SBlock b).
  Hypothesis HOther : P SOther.
  Fixpoint stmt_ind2 (s : stmt) : P s :=
    match s with
    | SDeclaration x value t => HDecl x value t
    | SAssignment r value => HAssign r value
    | SMethodCall f args => HCall f args
    | SIf cl cr th None => HIf1 cl cr th (stmt_ind2 th)
    | SIf cl cr th (Some el) => HIf2 cl cr th el (stmt_ind2 th) (stmt_ind2 el)
    | SBlock b => HBlock b ((fix go (l : list stmt) : Forall P l :=
                               match l with
                               | [] => Forall_nil P
                               | x :: xs => Forall_cons x (stmt_ind2 x) (go xs)
                               end) b)
    | SOther => HOther
    end.
End stmt_ind2.

(* ---- Unfolding lemmas for the local fixes -------------------------------------- *)

Lemma mut_expr_arraylit v es : mut_expr v (EArrayLit es) = mut_exprs v es.
Proof.
  cbn [mut_expr]. induction es as [|x xs IH]; [reflexivity|].
  cbn [mut_exprs]. now rewrite IH.
Qed.

Lemma mut_expr_structural v es : mut_expr v (EStructural es) = mut_exprs v es.
Proof.
  cbn [mut_expr]. induction es as [|x xs IH]; [reflexivity|].
  cbn [mut_exprs]. now rewrite IH.
Qed.

Lemma mut_expr_call v f es : mut_expr v (ECall f es) = mut_exprs v es.
Proof.
  cbn [mut_expr]. induction es as [|x xs IH]; [reflexivity|].
  cbn [mut_exprs]. now rewrite IH.
Qed.

Lemma mut_ref_unfold v b ss ad m :
  mut_ref v (Ref b ss ad) m =
  match use_variable v b m with
  | UvOk => mut_steps v ss
  | UvError c => [c]
  | UvPoisoned => [E_SILENT]
  end.
Proof.
  cbn [mut_ref]. destruct (use_variable v b m); try reflexivity.
  induction ss as [|s xs IH]; [reflexivity|]. cbn [mut_steps]. now rewrite IH.
Qed.

Lemma mut_stmt_block v b : mut_stmt v (SBlock b) = mut_stmts v b.
Proof.
  cbn [mut_stmt]. revert v. induction b as [|s rest IH]; intros v; [reflexivity|].
  cbn [mut_stmts]. destruct (mut_stmt v s) as [v1 c1]. now rewrite IH.
Qed.

Lemma deref_sites_arraylit es : deref_sites (EArrayLit es) = deref_sites_list es.
Proof.
  cbn [deref_sites]. induction es as [|x xs IH]; [reflexivity|].
  cbn [deref_sites_list]. now rewrite IH.
Qed.

Lemma deref_sites_structural es : deref_sites (EStructural es) = deref_sites_list es.
Proof.
  cbn [deref_sites]. induction es as [|x xs IH]; [reflexivity|].
  cbn [deref_sites_list]. now rewrite IH.
Qed.

Lemma deref_sites_call f es : deref_sites (ECall f es) = deref_sites_list es.
Proof.
  cbn [deref_sites]. induction es as [|x xs IH]; [reflexivity|].
  cbn [deref_sites_list]. now rewrite IH.
Qed.

Lemma ref_sites_unfold b ss ad : ref_sites (Ref b ss ad) = steps_sites ss.
Proof.
  cbn [ref_sites]. induction ss as [|s xs IH]; [reflexivity|].
  cbn [steps_sites]. now rewrite IH.
Qed.

Lemma stmt_sites_block v b : stmt_sites v (SBlock b) = stmts_sites v b.
Proof.
  cbn [stmt_sites]. revert v. induction b as [|s rest IH]; intros v; [reflexivity|].
  cbn [stmts_sites]. destruct (stmt_sites v s) as [v1 s1]. now rewrite IH.
Qed.

Lemma fc_expr_arraylit imm es : fc_expr imm (EArrayLit es) = fc_seq false es.
Proof.
  cbn [fc_expr]. generalize false. induction es as [|x xs IH]; intros i; [reflexivity|].
  cbn [fc_seq]. destruct (fc_expr i x) as [i1 c1]. now rewrite IH.
Qed.

Lemma fc_expr_structural imm es : fc_expr imm (EStructural es) = fc_seq false es.
Proof.
  cbn [fc_expr]. generalize false. induction es as [|x xs IH]; intros i; [reflexivity|].
  cbn [fc_seq]. destruct (fc_expr i x) as [i1 c1]. now rewrite IH.
Qed.

Lemma fc_expr_call imm f es : fc_expr imm (ECall f es) = (false, fc_args es).
Proof.
  reflexivity.
Qed.

Lemma fc_ref_unfold imm b ss ad : fc_ref imm (Ref b ss ad) = fc_steps imm ss.
Proof.
  cbn [fc_ref]. revert imm. induction ss as [|s xs IH]; intros i; [reflexivity|].
  cbn [fc_steps]. destruct (fc_step i s) as [i1 c1]. now rewrite IH.
Qed.

Lemma fc_stmt_block b : fc_stmt (SBlock b) = fc_stmts false b.
Proof.
  cbn [fc_stmt]. generalize false. induction b as [|s rest IH]; intros i; [reflexivity|].
  cbn [fc_stmts]. destruct (fc_stmt s) as [i1 c1]. now rewrite IH.
Qed.

(* ---- 1. Assignments: the check is the permission ----------------------------------- *)

Lemma needs_outer_crosses ss : needs_outer_mutability ss = negb (crosses_pointer ss).
Proof.
  unfold crosses_pointer.
  induction ss as [|s rest IH]; [reflexivity|].
  destruct s; cbn [needs_outer_mutability existsb is_pointer_step orb negb]; auto.
Qed.

Lemma uv_codes_nil u : uv_codes u = [] <-> u = UvOk.
Proof. destruct u; cbn [uv_codes]; split; intros H; try reflexivity; discriminate. Qed.

Theorem assignment_sound v r x :
  r_base r = Some x -> check_assignment v r = [] -> writable v r = true.
Proof.
  intros Hb Hc. unfold check_assignment in Hc. apply uv_codes_nil in Hc.
  unfold writable. unfold use_variable in Hc. rewrite Hb in *.
  destruct (lookup v x) as [m|]; [|discriminate].
  rewrite needs_outer_crosses in Hc.
  destruct m, (crosses_pointer (r_steps r)); cbn in *; try reflexivity; discriminate.
Qed.

(* The hypothesis on the base is needed: a poisoned base (an error was reported
   for the identifier earlier) is waved through. *)
Theorem assignment_sound_poisoned_base_refuted :
  exists v r, check_assignment v r = [] /\ writable v r = false.
Proof. exists [], (Ref None [] 0%N). vm_compute. split; reflexivity. Qed.

Theorem assignment_complete v r x :
  r_base r = Some x -> lookup v x <> None ->
  writable v r = false -> check_assignment v r = [E530].
Proof.
  intros Hb Hd Hw. unfold check_assignment, use_variable, writable in *.
  rewrite Hb in *. destruct (lookup v x) as [m|]; [|congruence].
  rewrite needs_outer_crosses.
  destruct m, (crosses_pointer (r_steps r)); cbn in *; try discriminate; reflexivity.
Qed.

Corollary assignment_complete_In v r x :
  r_base r = Some x -> lookup v x <> None ->
  writable v r = false -> In E530 (check_assignment v r).
Proof. intros Hb Hd Hw. rewrite (assignment_complete v r x Hb Hd Hw). now left. Qed.

(* Without "declared": no E530, only the silent poison (the compilation fails with
   an empty error list).  Not reachable after the scoper. *)
Theorem assignment_complete_undeclared_refuted :
  exists v r, writable v r = false /\ ~ In E530 (check_assignment v r)
              /\ check_assignment v r = [E_SILENT].
Proof.
  exists [], (Ref (Some 1%N) [] 0%N). vm_compute. split; [reflexivity|split; [|reflexivity]].
  intros [H|[]]; discriminate.
Qed.

Theorem assignment_iff v r x :
  r_base r = Some x -> check_assignment v r = [] <-> writable v r = true.
Proof.
  intros Hb. split; [apply (assignment_sound v r x Hb)|].
  intros Hw. unfold check_assignment, use_variable, writable in *. rewrite Hb in *.
  destruct (lookup v x) as [m|]; [|discriminate].
  rewrite needs_outer_crosses.
  destruct m, (crosses_pointer (r_steps r)); cbn in *; try discriminate; reflexivity.
Qed.

(* The only codes the check can produce. *)
Lemma check_assignment_codes v r :
  check_assignment v r = [] \/ check_assignment v r = [E530] \/ check_assignment v r = [E_SILENT].
Proof.
  unfold check_assignment, use_variable. destruct (r_base r) as [x|]; [|now left].
  destruct (lookup v x) as [m|]; [|now right; right].
  destruct (needs_outer_mutability (r_steps r) && negb m); [right; left|left]; reflexivity.
Qed.

(* ---- 2./3. Immutable bases (parameters, constants): only through pointers ---------- *)

Lemma accepted_immutable_crosses v x ss ad :
  lookup v x = Some false ->
  check_assignment v (Ref (Some x) ss ad) = [] -> crosses_pointer ss = true.
Proof.
  intros Hl Hc.
  pose proof (assignment_sound v (Ref (Some x) ss ad) x eq_refl Hc) as Hw.
  unfold writable in Hw. cbn [r_base r_steps] in Hw. rewrite Hl in Hw. exact Hw.
Qed.

Lemma crosses_pointer_app a b :
  crosses_pointer (a ++ b) = crosses_pointer a || crosses_pointer b.
Proof. unfold crosses_pointer. apply existsb_app. Qed.

Lemma chain_type_app mt t a b :
  chain_type mt t (a ++ b) =
  match chain_type mt t a with Some t' => chain_type mt t' b | None => None end.
Proof.
  revert t. induction a as [|s a IH]; intros t; [reflexivity|].
  cbn [app chain_type]. destruct (step_type mt t s) as [t'|]; [apply IH|reflexivity].
Qed.

Lemma pointer_step_type mt t s t' :
  is_pointer_step s = true -> step_type mt t s = Some t' -> is_pointer_type t = true.
Proof.
  destruct s; cbn [is_pointer_step]; try discriminate; intros _;
    destruct t; cbn [step_type is_pointer_type]; intros H; try discriminate; reflexivity.
Qed.

(* The first pointer-crossing step of a well-typed chain is applied to a value whose
   type is a pointer or a slice pointer. *)
Theorem crossing_has_pointer_type mt : forall ss t t',
  chain_type mt t ss = Some t' -> crosses_pointer ss = true ->
  exists pre s post tp,
    ss = pre ++ s :: post /\ crosses_pointer pre = false /\
    is_pointer_step s = true /\ chain_type mt t pre = Some tp /\
    is_pointer_type tp = true.
Proof.
  induction ss as [|s rest IH]; intros t t' Ht Hc; [discriminate|].
  cbn [chain_type] in Ht. destruct (step_type mt t s) as [t1|] eqn:Hs; [|discriminate].
  destruct (is_pointer_step s) eqn:Hp.
  - exists [], s, rest, t. repeat split; try reflexivity; try assumption.
    eapply pointer_step_type; eassumption.
  - unfold crosses_pointer in Hc. cbn [existsb] in Hc. rewrite Hp in Hc. cbn [orb] in Hc.
    destruct (IH t1 t' Ht Hc) as (pre & s' & post & tp & He & Hpre & Hs' & Htp & Hpt).
    exists (s :: pre), s', post, tp. repeat split; try assumption.
    + cbn [app]. now rewrite He.
    + unfold crosses_pointer in *. cbn [existsb]. now rewrite Hp, Hpre.
    + cbn [chain_type]. now rewrite Hs.
Qed.

Theorem param_write_needs_pointer v mt x t t' ss ad :
  lookup v x = Some false ->                      (* a parameter or a constant *)
  chain_type mt t ss = Some t' ->                 (* t: its declared type *)
  check_assignment v (Ref (Some x) ss ad) = [] -> (* the assignment is accepted *)
  exists pre s post tp,
    ss = pre ++ s :: post /\ crosses_pointer pre = false /\
    is_pointer_step s = true /\ chain_type mt t pre = Some tp /\
    is_pointer_type tp = true.
Proof.
  intros Hl Ht Hc. eapply crossing_has_pointer_type; [eassumption|].
  eapply accepted_immutable_crosses; eassumption.
Qed.

(* Special case: nothing but views/deslices before the crossing is impossible, so
   if the chain starts by crossing, the declared type itself is a pointer type. *)
Corollary head_crossing_pointer_type mt t t' s rest :
  is_pointer_step s = true ->
  chain_type mt t (s :: rest) = Some t' ->
  is_pointer_type t = true.
Proof.
  intros Hp Ht. cbn [chain_type] in Ht.
  destruct (step_type mt t s) as [t1|] eqn:Hs; [|discriminate].
  eapply pointer_step_type; eassumption.
Qed.

Lemma declare_params_lookup_other ps : forall v x,
  ~ In (Some x) (map p_name ps) -> lookup (declare_params v ps) x = lookup v x.
Proof.
  induction ps as [|p rest IH]; intros v x Hn; [reflexivity|].
  cbn [declare_params]. rewrite IH.
  - unfold declare_param. destruct (p_name p) as [y|] eqn:Hy; [|reflexivity].
    unfold declare_variable. cbn [lookup].
    destruct (N.eqb x y) eqn:E; [|reflexivity].
    apply N.eqb_eq in E. subst y. exfalso. apply Hn. cbn [map]. left. exact Hy.
  - intros Hin. apply Hn. cbn [map]. now right.
Qed.

Lemma opt_name_dec (a b : option name) : {a = b} + {a <> b}.
Proof. decide equality. apply N.eq_dec. Qed.

(* Parameters whose types are not poisoned are immutable bindings. *)
Theorem params_are_immutable ps : forall v x,
  Forall (fun p => p_type p <> None) ps ->
  In (Some x) (map p_name ps) ->
  lookup (declare_params v ps) x = Some false.
Proof.
  induction ps as [|p rest IH]; intros v x Hok Hin; [destruct Hin|].
  inversion Hok as [|p' rest' Hp Hrest]; subst.
  cbn [declare_params].
  destruct (in_dec opt_name_dec (Some x) (map p_name rest)) as [Hr|Hr].
  - now apply IH.
  - rewrite declare_params_lookup_other by assumption.
    destruct Hin as [Hh|Hh]; [|contradiction].
    unfold declare_param. rewrite Hh. unfold declare_variable. cbn [lookup].
    rewrite N.eqb_refl. destruct (p_type p); [reflexivity|congruence].
Qed.

Theorem constant_is_immutable v x t :
  lookup (fst (mut_decl v (DConstant x (Some t)))) x = Some false.
Proof. cbn [mut_decl fst declare_variable lookup]. now rewrite N.eqb_refl. Qed.

(* A poisoned type makes the parameter / constant "mutable" (error faking). *)
Theorem poisoned_type_fakes_mutability :
  lookup (declare_params [] [{| p_name := Some 1%N; p_type := None |}]) 1%N = Some true /\
  lookup (fst (mut_decl [] (DConstant 1%N None))) 1%N = Some true.
Proof. vm_compute. split; reflexivity. Qed.

Theorem view_is_readonly v x ss ad :
  lookup v x = Some false ->
  crosses_pointer ss = false ->
  check_assignment v (Ref (Some x) ss ad) = [E530].
Proof.
  intros Hl Hc. apply (assignment_complete v (Ref (Some x) ss ad) x eq_refl).
  - rewrite Hl. discriminate.
  - unfold writable. cbn [r_base r_steps]. now rewrite Hl, Hc.
Qed.

Lemma pointer_free_step mt t s t' :
  pointer_free t = true -> step_type mt t s = Some t' ->
  is_pointer_step s = false /\ pointer_free t' = true.
Proof.
  intros Hp Hs. destruct s, t; cbn [step_type pointer_free is_pointer_step] in *;
    try discriminate; try (inversion Hs; subst; split; [reflexivity|]; cbn [pointer_free]; assumption);
    try (inversion Hs; subst; split; reflexivity).
Qed.

Lemma pointer_free_never_crosses mt : forall ss t t',
  pointer_free t = true -> chain_type mt t ss = Some t' -> crosses_pointer ss = false.
Proof.
  induction ss as [|s rest IH]; intros t t' Hp Ht; [reflexivity|].
  cbn [chain_type] in Ht. destruct (step_type mt t s) as [t1|] eqn:Hs; [|discriminate].
  destruct (pointer_free_step mt t s t1 Hp Hs) as [Hns Hp1].
  unfold crosses_pointer in *. cbn [existsb]. rewrite Hns. cbn [orb]. eapply IH; eassumption.
Qed.

(* Typed form: an array passed by view ([]T, [:]T, ([N]T)), of pointer-free element
   type, can never be assigned through. *)
Theorem view_is_readonly_typed v mt x t t' ss ad :
  lookup v x = Some false ->
  pointer_free t = true -> chain_type mt t ss = Some t' ->
  check_assignment v (Ref (Some x) ss ad) = [E530].
Proof.
  intros Hl Hp Ht. apply view_is_readonly; [assumption|].
  eapply pointer_free_never_crosses; eassumption.
Qed.

(* ---- 4. Taking an address ------------------------------------------------------------ *)

Theorem address_of_immutable_rejected v x ss ad :
  lookup v x = Some false -> (0 < ad)%N -> crosses_pointer ss = false ->
  check_address_taken v (Ref (Some x) ss ad) = [E530].
Proof.
  intros Hl Had Hc. unfold check_address_taken, use_variable, is_addressed.
  cbn [r_base r_steps r_ad]. rewrite Hl, needs_outer_crosses, Hc.
  apply N.ltb_lt in Had. rewrite Had. reflexivity.
Qed.

Theorem address_taken_sound v x ss ad :
  (0 < ad)%N -> check_address_taken v (Ref (Some x) ss ad) = [] ->
  writable v (Ref (Some x) ss ad) = true.
Proof.
  intros Had Hc. unfold check_address_taken in Hc. apply uv_codes_nil in Hc.
  unfold use_variable, is_addressed, writable in *. cbn [r_base r_steps r_ad] in *.
  apply N.ltb_lt in Had. rewrite Had, needs_outer_crosses in Hc.
  destruct (lookup v x) as [m|]; [|discriminate].
  destruct m, (crosses_pointer ss); cbn in *; try reflexivity; discriminate.
Qed.

(* Reading (address_depth 0) never needs mutability. *)
Theorem plain_read_accepted v x ss m :
  lookup v x = Some m -> check_address_taken v (Ref (Some x) ss 0%N) = [].
Proof.
  intros Hl. unfold check_address_taken, use_variable, is_addressed.
  cbn [r_base r_steps r_ad]. rewrite Hl. reflexivity.
Qed.

(* ---- 5. Aggregates cannot be copied ---------------------------------------------------- *)

Theorem no_aggregate_copy imm t :
  check_value_use imm (POk t) =
  match aggregate_code t with
  | Some c => if imm then [] else [c]
  | None => []
  end.
Proof. destruct t; reflexivity. Qed.

Corollary no_aggregate_copy_array e n : check_value_use false (POk (MArray e n)) = [E531].
Proof. reflexivity. Qed.
Corollary no_aggregate_copy_endless e : check_value_use false (POk (MEndless e)) = [E531].
Proof. reflexivity. Qed.
Corollary no_aggregate_copy_slice e : check_value_use false (POk (MSlice e)) = [E532].
Proof. reflexivity. Qed.
Corollary no_aggregate_copy_slice_pointer e :
  check_value_use false (POk (MSlicePointer e)) = [E532].
Proof. reflexivity. Qed.
Corollary no_aggregate_copy_struct id : check_value_use false (POk (MStruct id)) = [E533].
Proof. reflexivity. Qed.

Theorem immediate_argument_may_copy t : check_value_use true t = [].
Proof. destruct t as [| |t]; [reflexivity|reflexivity|destruct t; reflexivity]. Qed.

(* Not covered by the rule (the `_ => deref_type` arm): arrays whose length is still a
   name, views, words, pointers, untyped and poisoned uses. *)
Theorem value_use_uncovered :
  (forall e n imm, check_value_use imm (POk (MArrayNamed e n)) = []) /\
  (forall d imm, check_value_use imm (POk (MView d)) = []) /\
  (forall d imm, check_value_use imm (POk (MPointer d)) = []) /\
  (forall id imm, check_value_use imm (POk (MWord id)) = []) /\
  (forall imm, check_value_use imm PNone = []) /\
  (forall imm, check_value_use imm PErr = []).
Proof. repeat split; reflexivity. Qed.

(* Once cleared, the flag stays cleared until the next argument list. *)
Lemma fc_seq_false es :
  Forall (fun e => fst (fc_expr false e) = false) es -> fst (fc_seq false es) = false.
Proof.
  induction 1 as [|x xs Hx _ IH]; [reflexivity|].
  cbn [fc_seq]. destruct (fc_expr false x) as [i1 c1]. cbn [fst] in Hx. subst i1.
  destruct (fc_seq false xs) as [i2 c2]. exact IH.
Qed.

Lemma fc_steps_false ss :
  Forall (fun s => fst (fc_step false s) = false) ss -> fst (fc_steps false ss) = false.
Proof.
  induction 1 as [|x xs Hx _ IH]; [reflexivity|].
  cbn [fc_steps]. destruct (fc_step false x) as [i1 c1]. cbn [fst] in Hx. subst i1.
  destruct (fc_steps false xs) as [i2 c2]. exact IH.
Qed.

Lemma fc_flag_false_all :
  (forall e, fst (fc_expr false e) = false) /\
  (forall r, fst (fc_ref false r) = false) /\
  (forall s, fst (fc_step false s) = false).
Proof.
  apply syntax_ind2.
  - reflexivity.
  - intros l r Hl Hr. cbn [fc_expr]. destruct (fc_expr false l) as [i1 c1].
    cbn [fst] in Hl. subst i1. destruct (fc_expr false r) as [i2 c2]. exact Hr.
  - intros e He. exact He.
  - intros es Hes. rewrite fc_expr_arraylit. now apply fc_seq_false.
  - intros es Hes. rewrite fc_expr_structural. now apply fc_seq_false.
  - intros e He. exact He.
  - intros e He. exact He.
  - intros e He. exact He.
  - intros r t Hr. cbn [fc_expr]. destruct (fc_ref false r) as [i1 c1]. exact Hr.
  - intros r Hr. exact Hr.
  - intros f args _. reflexivity.
  - reflexivity.
  - intros b ss ad Hss. rewrite fc_ref_unfold. now apply fc_steps_false.
  - intros a Ha. exact Ha.
  - reflexivity.
  - reflexivity.
  - reflexivity.
  - reflexivity.
  - reflexivity.
  - reflexivity.
Qed.

Lemma fc_expr_false e : fst (fc_expr false e) = false.
Proof. apply fc_flag_false_all. Qed.
Lemma fc_ref_false r : fst (fc_ref false r) = false.
Proof. apply fc_flag_false_all. Qed.

Lemma fc_stmts_flag l :
  Forall (fun s => fst (fc_stmt s) = false) l -> fst (fc_stmts false l) = false.
Proof.
  induction 1 as [|s rest Hs _ IH]; [reflexivity|].
  cbn [fc_stmts]. destruct (fc_stmt s) as [i1 c1]. cbn [fst] in Hs. subst i1.
  destruct (fc_stmts false rest) as [i2 c2]. exact IH.
Qed.

Lemma fc_stmt_flag : forall s, fst (fc_stmt s) = false.
Proof.
  induction s as [x value t|r value|f args|cl cr th IHt|cl cr th el IHt IHe|b IHb|]
    using stmt_ind2.
  - cbn [fc_stmt]. destruct value as [e|]; [|reflexivity].
    pose proof (fc_expr_false e) as H. destruct (fc_expr false e). exact H.
  - cbn [fc_stmt]. pose proof (fc_ref_false r) as H. destruct (fc_ref false r) as [i1 c1].
    cbn [fst] in H. subst i1. pose proof (fc_expr_false value) as H.
    destruct (fc_expr false value). exact H.
  - reflexivity.
  - cbn [fc_stmt]. destruct (fc_expr false cl) as [i1 c1]. destruct (fc_expr i1 cr) as [i2 c2].
    destruct (fc_stmt th) as [i3 c3]. exact IHt.
  - cbn [fc_stmt]. destruct (fc_expr false cl) as [i1 c1]. destruct (fc_expr i1 cr) as [i2 c2].
    destruct (fc_stmt th) as [i3 c3]. destruct (fc_stmt el) as [i4 c4]. exact IHe.
  - rewrite fc_stmt_block. now apply fc_stmts_flag.
  - reflexivity.
Qed.

(* Hence the value of a declaration, the value of an assignment and the return value
   are never "immediate": a whole aggregate there is always rejected. *)
Theorem declaration_copy_rejected x r t c ty :
  aggregate_code t = Some c ->
  In c (snd (fc_stmt (SDeclaration x (Some (EDeref r (POk t))) ty))).
Proof.
  intros Ha. cbn [fc_stmt fc_expr]. destruct (fc_ref false r) as [i1 c1]. cbn [snd].
  apply in_or_app. right. apply in_or_app. left.
  rewrite no_aggregate_copy, Ha. now left.
Qed.

Theorem assignment_copy_rejected r0 r t c :
  aggregate_code t = Some c ->
  In c (snd (fc_stmt (SAssignment r0 (EDeref r (POk t))))).
Proof.
  intros Ha. cbn [fc_stmt]. pose proof (fc_ref_false r0) as H.
  destruct (fc_ref false r0) as [i1 c1]. cbn [fst] in H. subst i1.
  cbn [fc_expr]. destruct (fc_ref false r) as [i2 c2]. cbn [snd].
  apply in_or_app. right. apply in_or_app. left.
  rewrite no_aggregate_copy, Ha. now left.
Qed.

Theorem return_copy_rejected ss r t c :
  aggregate_code t = Some c ->
  In c (fc_body {| fb_statements := ss; fb_return := Some (EDeref r (POk t)) |}).
Proof.
  intros Ha. unfold fc_body. cbn [fb_statements fb_return].
  assert (H : fst (fc_stmts false ss) = false).
  { apply fc_stmts_flag. apply Forall_forall. intros s _. apply fc_stmt_flag. }
  destruct (fc_stmts false ss) as [i1 c1]. cbn [fst] in H. subst i1.
  apply in_or_app. right. cbn [fc_expr]. destruct (fc_ref false r) as [i2 c2]. cbn [snd].
  apply in_or_app. left. rewrite no_aggregate_copy, Ha. now left.
Qed.

(* A bare reference (also parenthesized / coerced / cast) that IS an argument raises
   nothing for itself; only its index expressions are inspected. *)
Theorem argument_copy_accepted f b ss ad t :
  snd (fc_expr false (ECall f [EDeref (Ref b ss ad) t])) = snd (fc_steps true ss).
Proof.
  rewrite fc_expr_call. cbn [snd fc_args fc_expr]. rewrite fc_ref_unfold.
  destruct (fc_steps true ss) as [i1 c1]. cbn [snd].
  rewrite immediate_argument_may_copy. now rewrite app_nil_r.
Qed.

Theorem argument_wrappers_transparent e :
  fc_expr true (EParen e) = fc_expr true e /\
  fc_expr true (EAutocoerce e) = fc_expr true e /\
  fc_expr true (ECast e) = fc_expr true e.
Proof. repeat split; reflexivity. Qed.

(* ---- 6. Whole functions ------------------------------------------------------------------ *)

Definition tag (v : menv) (l : list reference) : list site :=
  map (fun r => (v, false, r)) l.

Lemma tag_app v a b : tag v (a ++ b) = tag v a ++ tag v b.
Proof. unfold tag. apply map_app. Qed.

Lemma expr_sites_tag v e : expr_sites v e = tag v (deref_sites e).
Proof. reflexivity. Qed.

Lemma deref_site_ok v b ss ad :
  use_variable v b (is_addressed (Ref b ss ad)) = UvOk ->
  site_ok (v, false, Ref b ss ad) = true.
Proof.
  intros Hu. unfold site_ok. cbn [r_base r_ad orb].
  destruct b as [x|]; [|reflexivity].
  destruct (N.ltb 0 ad) eqn:Had; [|reflexivity].
  apply (address_taken_sound v x ss ad).
  - now apply N.ltb_lt.
  - unfold check_address_taken. cbn [r_base]. now rewrite Hu.
Qed.

Lemma mut_exprs_sound v es :
  Forall (fun e => forall v, mut_expr v e = [] -> Forall (fun s => site_ok s = true) (tag v (deref_sites e))) es ->
  mut_exprs v es = [] ->
  Forall (fun s => site_ok s = true) (tag v (deref_sites_list es)).
Proof.
  induction 1 as [|x xs Hx _ IH]; intros Hc; [constructor|].
  cbn [mut_exprs] in Hc. apply app_eq_nil in Hc. destruct Hc as [H1 H2].
  cbn [deref_sites_list]. rewrite tag_app. apply Forall_app. split; auto.
Qed.

Lemma mut_steps_sound v ss :
  Forall (fun s => forall v, mut_step v s = [] -> Forall (fun st => site_ok st = true) (tag v (step_sites s))) ss ->
  mut_steps v ss = [] ->
  Forall (fun s => site_ok s = true) (tag v (steps_sites ss)).
Proof.
  induction 1 as [|x xs Hx _ IH]; intros Hc; [constructor|].
  cbn [mut_steps] in Hc. apply app_eq_nil in Hc. destruct Hc as [H1 H2].
  cbn [steps_sites]. rewrite tag_app. apply Forall_app. split; auto.
Qed.

Lemma mut_sound_all :
  (forall e v, mut_expr v e = [] ->
     Forall (fun s => site_ok s = true) (tag v (deref_sites e))) /\
  (forall r v m, mut_ref v r m = [] ->
     use_variable v (r_base r) m = UvOk /\
     Forall (fun s => site_ok s = true) (tag v (ref_sites r))) /\
  (forall s v, mut_step v s = [] ->
     Forall (fun st => site_ok st = true) (tag v (step_sites s))).
Proof.
  apply syntax_ind2.
  - intros v _. constructor.
  - intros l r Hl Hr v Hc. cbn [mut_expr] in Hc. apply app_eq_nil in Hc.
    destruct Hc as [H1 H2]. cbn [deref_sites]. rewrite tag_app. apply Forall_app. split; auto.
  - intros e He v Hc. exact (He v Hc).
  - intros es Hes v Hc. rewrite mut_expr_arraylit in Hc. rewrite deref_sites_arraylit.
    now apply mut_exprs_sound.
  - intros es Hes v Hc. rewrite mut_expr_structural in Hc. rewrite deref_sites_structural.
    now apply mut_exprs_sound.
  - intros e He v Hc. exact (He v Hc).
  - intros e He v Hc. exact (He v Hc).
  - intros e He v Hc. exact (He v Hc).
  - intros r t Hr v Hc. cbn [mut_expr] in Hc. destruct (Hr v _ Hc) as [Hu Hs].
    cbn [deref_sites tag map]. constructor; [|exact Hs].
    destruct r as [b ss ad]. now apply deref_site_ok.
  - intros r Hr v Hc. cbn [mut_expr] in Hc. destruct (Hr v _ Hc) as [_ Hs]. exact Hs.
  - intros f args Hargs v Hc. rewrite mut_expr_call in Hc. rewrite deref_sites_call.
    now apply mut_exprs_sound.
  - intros v _. constructor.
  - intros b ss ad Hss v m Hc. rewrite mut_ref_unfold in Hc. cbn [r_base].
    destruct (use_variable v b m) eqn:Hu; try discriminate.
    split; [reflexivity|]. rewrite ref_sites_unfold. now apply mut_steps_sound.
  - intros a Ha v Hc. exact (Ha v Hc).
  - intros m v _. constructor.
  - intros v _. constructor.
  - intros v _. constructor.
  - intros v _. constructor.
  - intros v _. constructor.
  - intros v _. constructor.
Qed.

Lemma mut_expr_sound v e :
  mut_expr v e = [] -> Forall (fun s => site_ok s = true) (expr_sites v e).
Proof. apply mut_sound_all. Qed.

Lemma mut_exprs_sound' v es :
  mut_exprs v es = [] -> Forall (fun s => site_ok s = true) (tag v (deref_sites_list es)).
Proof.
  apply mut_exprs_sound. apply Forall_forall. intros e _ v'. apply mut_sound_all.
Qed.

Lemma mut_steps_sound' v ss :
  mut_steps v ss = [] -> Forall (fun s => site_ok s = true) (tag v (steps_sites ss)).
Proof.
  apply mut_steps_sound. apply Forall_forall. intros s _ v'. apply mut_sound_all.
Qed.

(* The site collector threads the analyzer state exactly like the analyzer. *)
Lemma stmts_sites_env l :
  Forall (fun s => forall v, fst (stmt_sites v s) = fst (mut_stmt v s)) l ->
  forall v, fst (stmts_sites v l) = fst (mut_stmts v l).
Proof.
  induction 1 as [|s rest Hs _ IH]; intros v; [reflexivity|].
  cbn [stmts_sites mut_stmts]. specialize (Hs v).
  destruct (stmt_sites v s) as [v1 s1]. destruct (mut_stmt v s) as [v1' c1].
  cbn [fst] in Hs. subst v1'. specialize (IH v1).
  destruct (stmts_sites v1 rest) as [v2 s2]. destruct (mut_stmts v1 rest) as [v2' c2].
  exact IH.
Qed.

Lemma stmt_sites_env : forall s v, fst (stmt_sites v s) = fst (mut_stmt v s).
Proof.
  induction s as [x value t|r value|f args|cl cr th IHt|cl cr th el IHt IHe|b IHb|]
    using stmt_ind2; intros v; try reflexivity.
  - cbn [stmt_sites mut_stmt]. specialize (IHt v).
    destruct (stmt_sites v th) as [v1 s1]. destruct (mut_stmt v th) as [v1' c1]. exact IHt.
  - cbn [stmt_sites mut_stmt]. specialize (IHt v).
    destruct (stmt_sites v th) as [v1 s1]. destruct (mut_stmt v th) as [v1' c1].
    cbn [fst] in IHt. subst v1'. specialize (IHe v1).
    destruct (stmt_sites v1 el) as [v2 s2]. destruct (mut_stmt v1 el) as [v2' c2]. exact IHe.
  - rewrite stmt_sites_block, mut_stmt_block. now apply stmts_sites_env.
Qed.

Lemma mut_stmts_sound l :
  Forall (fun s => forall v, snd (mut_stmt v s) = [] ->
                    Forall (fun st => site_ok st = true) (snd (stmt_sites v s))) l ->
  forall v, snd (mut_stmts v l) = [] ->
            Forall (fun st => site_ok st = true) (snd (stmts_sites v l)).
Proof.
  induction 1 as [|s rest Hs _ IH]; intros v Hc; [constructor|].
  cbn [stmts_sites mut_stmts] in *. specialize (Hs v).
  pose proof (stmt_sites_env s v) as He.
  destruct (stmt_sites v s) as [v1 s1]. destruct (mut_stmt v s) as [v1' c1].
  cbn [fst] in He. subst v1'. specialize (IH v1).
  destruct (stmts_sites v1 rest) as [v2 s2]. destruct (mut_stmts v1 rest) as [v2' c2].
  cbn [snd] in *. apply app_eq_nil in Hc. destruct Hc as [H1 H2].
  apply Forall_app. split; auto.
Qed.

Lemma mut_stmt_sound : forall s v,
  snd (mut_stmt v s) = [] -> Forall (fun st => site_ok st = true) (snd (stmt_sites v s)).
Proof.
  induction s as [x value t|r value|f args|cl cr th IHt|cl cr th el IHt IHe|b IHb|]
    using stmt_ind2; intros v Hc.
  - cbn [stmt_sites mut_stmt snd] in *. destruct value as [e|]; [|constructor].
    now apply mut_expr_sound.
  - cbn [stmt_sites mut_stmt snd] in *.
    destruct (use_variable v (r_base r) (needs_outer_mutability (r_steps r))) eqn:Hu;
      try discriminate.
    apply app_eq_nil in Hc. destruct Hc as [H1 H2].
    constructor.
    + unfold site_ok. destruct (r_base r) as [x|] eqn:Hb; [|reflexivity]. cbn [orb].
      apply (assignment_sound v r x Hb). unfold check_assignment. rewrite Hb. now rewrite Hu.
    + apply Forall_app. split; [now apply mut_expr_sound|].
      destruct r as [b ss ad]. rewrite ref_sites_unfold. cbn [r_steps] in H2.
      now apply mut_steps_sound'.
  - cbn [stmt_sites mut_stmt snd] in *. now apply mut_exprs_sound'.
  - cbn [stmt_sites mut_stmt] in *. specialize (IHt v).
    pose proof (stmt_sites_env th v) as He.
    destruct (stmt_sites v th) as [v1 s1]. destruct (mut_stmt v th) as [v1' c1].
    cbn [fst snd] in *. subst v1'.
    apply app_eq_nil in Hc. destruct Hc as [H0 H1].
    apply app_eq_nil in H0. destruct H0 as [Hl Hr].
    repeat (apply Forall_app; split); auto using mut_expr_sound.
  - cbn [stmt_sites mut_stmt] in *. specialize (IHt v).
    pose proof (stmt_sites_env th v) as He.
    destruct (stmt_sites v th) as [v1 s1]. destruct (mut_stmt v th) as [v1' c1].
    cbn [fst snd] in *. subst v1'. specialize (IHe v1).
    pose proof (stmt_sites_env el v1) as He.
    destruct (stmt_sites v1 el) as [v2 s2]. destruct (mut_stmt v1 el) as [v2' c2].
    cbn [fst snd] in *. subst v2'.
    apply app_eq_nil in Hc. destruct Hc as [H0 H1].
    apply app_eq_nil in H0. destruct H0 as [Hl Hr].
    apply app_eq_nil in H1. destruct H1 as [H1 H2].
    repeat (apply Forall_app; split); auto using mut_expr_sound.
  - rewrite stmt_sites_block. rewrite mut_stmt_block in Hc. now apply mut_stmts_sound.
  - constructor.
Qed.

Lemma mut_stmts_sound' l v :
  snd (mut_stmts v l) = [] -> Forall (fun st => site_ok st = true) (snd (stmts_sites v l)).
Proof.
  apply mut_stmts_sound. apply Forall_forall. intros s _ v'. apply mut_stmt_sound.
Qed.

Lemma stmts_sites_env' l v : fst (stmts_sites v l) = fst (mut_stmts v l).
Proof.
  apply stmts_sites_env. apply Forall_forall. intros s _ v'. apply stmt_sites_env.
Qed.

(* Every assignment and every address-of in an accepted function is permitted. *)
Theorem function_sound v ps b v' :
  mut_decl v (DFunction ps (Some b)) = (v', []) ->
  Forall (fun st => site_ok st = true) (body_sites (declare_params v ps) b).
Proof.
  cbn [mut_decl]. unfold mut_body, body_sites. set (v0 := declare_params v ps).
  pose proof (mut_stmts_sound' (fb_statements b) v0) as Hs.
  pose proof (stmts_sites_env' (fb_statements b) v0) as He.
  destruct (mut_stmts v0 (fb_statements b)) as [v1 c1].
  destruct (stmts_sites v0 (fb_statements b)) as [v1' s1].
  cbn [fst snd] in *. subst v1'. intros H. inversion H as [[Hv Hc]].
  apply app_eq_nil in Hc. destruct Hc as [H1 H2].
  apply Forall_app. split; [auto|].
  destruct (fb_return b) as [e|]; [now apply mut_expr_sound|constructor].
Qed.

(* Shape of the analyzer state inside a body: the `var`s declared so far, in front of
   the state at function entry. *)
Lemma declared_vars_block b : declared_vars (SBlock b) = declared_vars_list b.
Proof.
  cbn [declared_vars]. induction b as [|s rest IH]; [reflexivity|].
  cbn [declared_vars_list]. now rewrite IH.
Qed.

Lemma mut_stmts_env l :
  Forall (fun s => forall v, fst (mut_stmt v s) = declared_vars s ++ v) l ->
  forall v, fst (mut_stmts v l) = declared_vars_list l ++ v.
Proof.
  induction 1 as [|s rest Hs _ IH]; intros v; [reflexivity|].
  cbn [mut_stmts declared_vars_list]. specialize (Hs v).
  destruct (mut_stmt v s) as [v1 c1]. cbn [fst] in Hs. subst v1.
  specialize (IH (declared_vars s ++ v)).
  destruct (mut_stmts (declared_vars s ++ v) rest) as [v2 c2]. cbn [fst] in *.
  now rewrite IH, app_assoc.
Qed.

Lemma mut_stmt_env : forall s v, fst (mut_stmt v s) = declared_vars s ++ v.
Proof.
  induction s as [x value t|r value|f args|cl cr th IHt|cl cr th el IHt IHe|b IHb|]
    using stmt_ind2; intros v; try reflexivity.
  - cbn [mut_stmt declared_vars]. specialize (IHt v).
    destruct (mut_stmt v th) as [v1 c1]. exact IHt.
  - cbn [mut_stmt declared_vars]. specialize (IHt v).
    destruct (mut_stmt v th) as [v1 c1]. cbn [fst] in IHt. subst v1.
    specialize (IHe (declared_vars th ++ v)).
    destruct (mut_stmt (declared_vars th ++ v) el) as [v2 c2]. cbn [fst] in *.
    now rewrite IHe, app_assoc.
  - rewrite mut_stmt_block, declared_vars_block. now apply mut_stmts_env.
Qed.

Lemma mut_stmts_env' l v : fst (mut_stmts v l) = declared_vars_list l ++ v.
Proof. apply mut_stmts_env. apply Forall_forall. intros s _ v'. apply mut_stmt_env. Qed.

Definition shape (v D : menv) (st : site) : Prop :=
  exists l, site_env st = l ++ v /\ incl l D.

Lemma shape_tag v D l : Forall (shape v D) (tag v l).
Proof.
  apply Forall_forall. intros st Hin. unfold tag in Hin. apply in_map_iff in Hin.
  destruct Hin as [r [He _]]. subst st. exists []. split; [reflexivity|intros a []].
Qed.

Lemma shape_weaken v D D' st : incl D D' -> shape v D st -> shape v D' st.
Proof.
  intros Hi [l [He Hl]]. exists l. split; [assumption|].
  intros a Ha. apply Hi, Hl, Ha.
Qed.

Lemma shape_shift v D1 D2 st : shape (D1 ++ v) D2 st -> shape v (D2 ++ D1) st.
Proof.
  intros [l [He Hl]]. exists (l ++ D1). split; [now rewrite He, app_assoc|].
  intros a Ha. apply in_app_or in Ha. apply in_or_app.
  destruct Ha as [Ha|Ha]; [left; now apply Hl|now right].
Qed.

Lemma Forall_impl' {A} (P Q : A -> Prop) l :
  (forall a, P a -> Q a) -> Forall P l -> Forall Q l.
Proof. intros H. apply Forall_impl. exact H. Qed.

Lemma stmts_sites_shape l :
  Forall (fun s => forall v, Forall (shape v (declared_vars s)) (snd (stmt_sites v s))) l ->
  forall v, Forall (shape v (declared_vars_list l)) (snd (stmts_sites v l)).
Proof.
  induction 1 as [|s rest Hs _ IH]; intros v; [constructor|].
  cbn [stmts_sites declared_vars_list]. specialize (Hs v).
  pose proof (stmt_sites_env s v) as He. rewrite mut_stmt_env in He.
  destruct (stmt_sites v s) as [v1 s1]. cbn [fst snd] in *. subst v1.
  specialize (IH (declared_vars s ++ v)).
  destruct (stmts_sites (declared_vars s ++ v) rest) as [v2 s2]. cbn [snd] in *.
  apply Forall_app. split.
  - eapply Forall_impl'; [|exact Hs]. intros st. apply shape_weaken.
    intros a Ha. apply in_or_app. now right.
  - eapply Forall_impl'; [|exact IH]. intros st. apply shape_shift.
Qed.

Lemma stmt_sites_shape : forall s v,
  Forall (shape v (declared_vars s)) (snd (stmt_sites v s)).
Proof.
  induction s as [x value t|r value|f args|cl cr th IHt|cl cr th el IHt IHe|b IHb|]
    using stmt_ind2; intros v.
  - cbn [stmt_sites snd]. destruct value as [e|]; [apply shape_tag|constructor].
  - cbn [stmt_sites snd]. constructor.
    + exists []. split; [reflexivity|intros a []].
    + apply Forall_app. split; apply shape_tag.
  - cbn [stmt_sites snd]. apply shape_tag.
  - cbn [stmt_sites declared_vars]. specialize (IHt v).
    destruct (stmt_sites v th) as [v1 s1]. cbn [snd app] in *.
    repeat (apply Forall_app; split); try apply shape_tag. exact IHt.
  - cbn [stmt_sites declared_vars]. specialize (IHt v).
    pose proof (stmt_sites_env th v) as He. rewrite mut_stmt_env in He.
    destruct (stmt_sites v th) as [v1 s1]. cbn [fst snd] in *. subst v1.
    specialize (IHe (declared_vars th ++ v)).
    destruct (stmt_sites (declared_vars th ++ v) el) as [v2 s2]. cbn [snd] in *.
    repeat (apply Forall_app; split); try apply shape_tag.
    + eapply Forall_impl'; [|exact IHt]. intros st. apply shape_weaken.
      intros a Ha. apply in_or_app. now right.
    + eapply Forall_impl'; [|exact IHe]. intros st. apply shape_shift.
  - rewrite stmt_sites_block, declared_vars_block. now apply stmts_sites_shape.
  - constructor.
Qed.

Lemma stmts_sites_shape' l v :
  Forall (shape v (declared_vars_list l)) (snd (stmts_sites v l)).
Proof.
  apply stmts_sites_shape. apply Forall_forall. intros s _ v'. apply stmt_sites_shape.
Qed.

Lemma body_sites_shape v b :
  Forall (shape v (declared_vars_list (fb_statements b))) (body_sites v b).
Proof.
  unfold body_sites.
  pose proof (stmts_sites_shape' (fb_statements b) v) as Hs.
  pose proof (stmts_sites_env' (fb_statements b) v) as He. rewrite mut_stmts_env' in He.
  destruct (stmts_sites v (fb_statements b)) as [v1 s1]. cbn [fst snd] in *. subst v1.
  apply Forall_app. split; [exact Hs|].
  destruct (fb_return b) as [e|]; [|constructor].
  eapply Forall_impl'; [|apply (shape_tag _ [])].
  intros st Hst. apply (shape_shift v _ []) in Hst. now rewrite app_nil_l in Hst.
Qed.

Lemma lookup_app l v x :
  lookup (l ++ v) x = match lookup l x with Some m => Some m | None => lookup v x end.
Proof.
  induction l as [|[y m] l IH]; [reflexivity|].
  cbn [app lookup]. destruct (N.eqb x y); [reflexivity|exact IH].
Qed.

Lemma lookup_In l x m : lookup l x = Some m -> In (x, m) l.
Proof.
  induction l as [|[y m'] l IH]; [discriminate|].
  cbn [lookup]. destruct (N.eqb x y) eqn:E.
  - intros H. inversion H; subst. apply N.eqb_eq in E. subst. now left.
  - intros H. right. now apply IH.
Qed.

(* Corollary: in an accepted function with well-typed parameters, every write (and
   every address handed out) goes through a pointer value, or targets a `var` of
   mutable type declared in that same body, or -- third case, excluded by the
   scoper -- a name that is not a parameter of this function and was already
   "mutable" before it (error-faked constant/parameter, struct member id, `var` of
   an earlier function: the map is never cleared). *)
Theorem callee_can_only_write_through_pointers v ps b v' :
  Forall (fun p => p_type p <> None) ps ->
  mut_decl v (DFunction ps (Some b)) = (v', []) ->
  Forall (fun st =>
            let '(vs, is_assignment, r) := st in
            forall x, r_base r = Some x ->
              (is_assignment || N.ltb 0 (r_ad r)) = true ->
              crosses_pointer (r_steps r) = true
              \/ In (x, true) (declared_vars_list (fb_statements b))
              \/ (~ In (Some x) (map p_name ps) /\ lookup v x = Some true))
         (body_sites (declare_params v ps) b).
Proof.
  intros Hps Hd.
  pose proof (function_sound v ps b v' Hd) as Hok.
  pose proof (body_sites_shape (declare_params v ps) b) as Hsh.
  rewrite Forall_forall in Hok, Hsh. apply Forall_forall. intros [[vs ia] r] Hin x Hb Hk.
  specialize (Hok _ Hin). specialize (Hsh _ Hin).
  unfold site_ok in Hok. rewrite Hb, Hk in Hok.
  destruct Hsh as [l [He Hl]]. unfold site_env in He. cbn [fst] in He. subst vs.
  unfold writable in Hok. rewrite Hb in Hok. rewrite lookup_app in Hok.
  destruct (crosses_pointer (r_steps r)); [now left|right].
  destruct (lookup l x) as [m|] eqn:Hlx.
  - rewrite orb_false_r in Hok. subst m. left. apply Hl. now apply lookup_In.
  - right.
    destruct (in_dec opt_name_dec (Some x) (map p_name ps)) as [Hp|Hp].
    + rewrite (params_are_immutable ps v x Hps Hp) in Hok. discriminate.
    + split; [assumption|]. rewrite declare_params_lookup_other in Hok by assumption.
      destruct (lookup v x) as [m|]; [|discriminate].
      rewrite orb_false_r in Hok. now subst m.
Qed.

(* A `var` is in [declared_vars] as mutable only if its type is not a slice / slice
   pointer / view. *)
Lemma mutable_var_not_view t : var_is_mutable (POk t) = true -> is_view_type t = false.
Proof. destruct t; cbn; intros H; try reflexivity; discriminate. Qed.

(* ---- 7. The first-pointer shortcut versus the strict reading ------------------------------- *)

(* The analyzer stops at the FIRST pointer crossing and never looks at view steps.
   On raw chains that is weaker than "the last indirection crossed is a pointer": *)
Theorem strict_refuted_untyped :
  (* a view crossed after a pointer *)
  (exists v r, check_assignment v r = [] /\ writable_strict v r = false
               /\ lookup v 1%N = Some false /\ r_base r = Some 1%N) /\
  (* a mutable binding of view type *)
  (exists v r, check_assignment v r = [] /\ writable_strict v r = false
               /\ lookup v 1%N = Some true /\ r_base r = Some 1%N).
Proof.
  split.
  - exists [(1%N, false)], (Ref (Some 1%N) [Autoderef; Autoview; Member 2%N] 0%N).
    vm_compute. repeat split; reflexivity.
  - exists [(1%N, true)], (Ref (Some 1%N) [Autoview; Member 2%N] 0%N).
    vm_compute. repeat split; reflexivity.
Qed.

(* Both shapes are excluded by the well-formedness of types (views, slices and
   slice pointers only at the top of a declared type, never below a pointer, in an
   array or in a structure) together with the rule that a `var` of view type is
   not mutable. *)
Lemma inner_is_wellformed t : is_wellformed_inner t = true -> is_wellformed t = true.
Proof. destruct t; cbn [is_wellformed_inner is_wellformed]; auto; discriminate. Qed.

Lemma inner_not_toplevel t :
  is_wellformed_inner t = true ->
  is_view_type t = false /\ (forall e, t <> MSlicePointer e).
Proof.
  destruct t; cbn [is_wellformed_inner is_view_type]; intros H; try discriminate;
    (split; [reflexivity|intros e' He; discriminate]).
Qed.

Lemma member_type_ok mt m t :
  mtab_ok mt = true -> member_type mt m = Some t -> is_wellformed_inner t = true.
Proof.
  unfold mtab_ok. induction mt as [|[y ty] rest IH]; [discriminate|].
  cbn [forallb member_type snd]. intros Hok Hm. apply andb_true_iff in Hok.
  destruct Hok as [H1 H2]. destruct (N.eqb m y); [|now apply IH].
  inversion Hm; subst.
  destruct t; cbn [can_be_struct_member is_void negb andb is_wellformed is_wellformed_inner] in *;
    try discriminate; try assumption; try reflexivity.
  now rewrite andb_true_r in H1.
Qed.

Lemma step_gives_inner mt t s t' :
  mtab_ok mt = true -> is_wellformed t = true -> step_type mt t s = Some t' ->
  is_wellformed_inner t' = true.
Proof.
  intros Hmt Hwf Hs.
  destruct s; cbn [step_type] in Hs.
  - destruct t; try discriminate; inversion Hs; subst;
      cbn [is_wellformed] in Hwf; apply andb_true_iff in Hwf; tauto.
  - destruct t; try discriminate; eapply member_type_ok; eassumption.
  - destruct t; try discriminate. inversion Hs; subst. exact Hwf.
  - destruct t; try discriminate. inversion Hs; subst. exact Hwf.
  - destruct t; try discriminate. inversion Hs; subst. exact Hwf.
  - destruct t; try discriminate. inversion Hs; subst. exact Hwf.
  - destruct t; try discriminate; inversion Hs; subst; reflexivity.
Qed.

Lemma view_step_type mt t s t' :
  is_view_step s = true -> step_type mt t s = Some t' -> is_view_type t = true.
Proof.
  destruct s; cbn [is_view_step]; try discriminate; intros _;
    destruct t; cbn [step_type is_view_type]; intros H; try discriminate; reflexivity.
Qed.

Lemma inner_chain_no_view mt : forall ss t t',
  mtab_ok mt = true -> is_wellformed_inner t = true -> chain_type mt t ss = Some t' ->
  existsb is_view_step ss = false.
Proof.
  induction ss as [|s rest IH]; intros t t' Hmt Hin Ht; [reflexivity|].
  cbn [chain_type] in Ht. destruct (step_type mt t s) as [t1|] eqn:Hs; [|discriminate].
  cbn [existsb]. destruct (is_view_step s) eqn:Hv.
  - pose proof (view_step_type mt t s t1 Hv Hs) as Hvt.
    destruct (inner_not_toplevel t Hin) as [Hnv _]. congruence.
  - cbn [orb]. apply (IH t1 t' Hmt); [|assumption].
    eapply step_gives_inner; try eassumption. now apply inner_is_wellformed.
Qed.

Lemma final_access_no_view : forall ss a,
  existsb is_view_step ss = false ->
  final_access a ss = if crosses_pointer ss then ViaPointer else a.
Proof.
  unfold crosses_pointer.
  induction ss as [|s rest IH]; intros a Hv; [reflexivity|].
  cbn [existsb] in *. apply orb_false_iff in Hv. destruct Hv as [Hs Hrest].
  cbn [final_access]. rewrite Hs. rewrite (IH _ Hrest).
  destruct (is_pointer_step s); cbn [orb]; [|reflexivity].
  destruct (existsb is_pointer_step rest); reflexivity.
Qed.

Theorem strict_agrees v mt x t t' ss ad :
  mtab_ok mt = true ->
  is_wellformed t = true ->                              (* declared type of x *)
  chain_type mt t ss = Some t' ->
  (lookup v x = Some true -> is_view_type t = false) ->  (* see mutable_var_not_view *)
  writable v (Ref (Some x) ss ad) = writable_strict v (Ref (Some x) ss ad).
Proof.
  intros Hmt Hwf Ht Hmv. unfold writable, writable_strict. cbn [r_base r_steps].
  destruct (lookup v x) as [m|] eqn:Hl; [|reflexivity].
  destruct ss as [|s rest]; [cbn; now rewrite orb_false_r|].
  cbn [chain_type] in Ht. destruct (step_type mt t s) as [t1|] eqn:Hs; [|discriminate].
  pose proof (step_gives_inner mt t s t1 Hmt Hwf Hs) as Hin.
  pose proof (inner_chain_no_view mt rest t1 t' Hmt Hin Ht) as Hnv.
  cbn [final_access]. rewrite (final_access_no_view rest _ Hnv).
  unfold crosses_pointer. cbn [existsb]. fold (crosses_pointer rest).
  destruct (is_pointer_step s) eqn:Hp.
  - cbn [orb]. rewrite orb_true_r. now destruct (crosses_pointer rest).
  - cbn [orb]. destruct (is_view_step s) eqn:Hvs.
    + pose proof (view_step_type mt t s t1 Hvs Hs) as Hvt.
      destruct m; [specialize (Hmv eq_refl); congruence|].
      cbn [orb]. now destruct (crosses_pointer rest).
    + destruct (crosses_pointer rest); [now rewrite orb_true_r|now rewrite orb_false_r].
Qed.

(* So, for well-typed programs: accepted  <->  strictly permitted. *)
Corollary assignment_iff_strict v mt x t t' ss ad :
  mtab_ok mt = true -> is_wellformed t = true -> chain_type mt t ss = Some t' ->
  (lookup v x = Some true -> is_view_type t = false) ->
  check_assignment v (Ref (Some x) ss ad) = [] <->
  writable_strict v (Ref (Some x) ss ad) = true.
Proof.
  intros Hmt Hwf Ht Hmv. rewrite <- (strict_agrees v mt x t t' ss ad Hmt Hwf Ht Hmv).
  apply (assignment_iff v (Ref (Some x) ss ad) x eq_refl).
Qed.

(* ---- 8. Which `var`s are mutable, in the pipeline ------------------------------------------- *)

(* mutability.rs has three `false` arms (Slice, SlicePointer, View); function_calls.rs runs
   first and turns SlicePointer and View declarations into Err(E352), which
   mutability.rs then treats as MUTABLE (error faking).  Only the Slice arm is live. *)
Theorem var_mutability_in_pipeline t :
  var_is_mutable_in_pipeline (POk t) = false <->
  exists e, t = MSlice e /\ can_be_variable (MSlice e) = true.
Proof.
  unfold var_is_mutable_in_pipeline, fc_decl_type. split.
  - destruct (can_be_variable t) eqn:Hc; cbn [fst var_is_mutable]; [|discriminate].
    destruct t; try discriminate. intros _. eexists. split; [reflexivity|assumption].
  - intros [e [He Hc]]. subst t. rewrite Hc. reflexivity.
Qed.

Theorem dead_arms_fake_mutability e :
  var_is_mutable (POk (MSlicePointer e)) = false /\
  var_is_mutable_in_pipeline (POk (MSlicePointer e)) = true /\
  var_is_mutable (POk (MView e)) = false /\
  var_is_mutable_in_pipeline (POk (MView e)) = true /\
  snd (fc_decl_type (POk (MSlicePointer e))) = [E352] /\
  snd (fc_decl_type (POk (MView e))) = [E352].
Proof. repeat split; reflexivity. Qed.

(* A `var` of slice type cannot even be re-bound. *)
Theorem slice_var_cannot_be_rebound v x e ad :
  lookup (fst (mut_stmt v (SDeclaration x None (POk (MSlice e))))) x = Some false /\
  check_assignment (fst (mut_stmt v (SDeclaration x None (POk (MSlice e)))))
                   (Ref (Some x) [] ad) = [E530].
Proof.
  cbn [mut_stmt fst declare_variable var_is_mutable]. unfold check_assignment, use_variable.
  cbn [r_base r_steps needs_outer_mutability]. unfold declare_variable. cbn [lookup].
  rewrite N.eqb_refl. split; reflexivity.
Qed.

(* ---- 9. E513: a pointer parameter needs an explicit `&` ------------------------------------ *)

Lemma mty_eqb_refl t : mty_eqb t t = true.
Proof.
  induction t; cbn [mty_eqb]; rewrite ?N.eqb_refl; cbn [andb]; auto.
Qed.

Lemma ty_equals_refl t : ty_equals t t = true.
Proof.
  induction t; cbn [ty_equals]; rewrite ?N.eqb_refl; cbn [andb orb]; auto.
Qed.

Lemma mty_eqb_pointer_neq t : mty_eqb (MPointer t) t = false.
Proof.
  induction t; try reflexivity. cbn [mty_eqb] in *. exact IHt.
Qed.

Theorem missing_address_E513 x t :
  argument_code {| p_name := Some x; p_type := Some (MPointer t) |} true (POk t) = Some E513.
Proof.
  unfold argument_code. cbn [p_type p_name]. rewrite mty_eqb_pointer_neq.
  unfold can_hint_missing_address. now rewrite mty_eqb_refl.
Qed.

Theorem missing_address_array_E513 x e n :
  argument_code {| p_name := Some x; p_type := Some (MSlicePointer e) |} true
                (POk (MArray e n)) = Some E513.
Proof.
  unfold argument_code. cbn [p_type p_name mty_eqb].
  unfold can_hint_missing_address, can_coerce_address_into. now rewrite ty_equals_refl.
Qed.

Theorem explicit_address_accepted p t d :
  p_type p = Some t -> argument_code p d (POk t) = None.
Proof. intros H. unfold argument_code. now rewrite H, mty_eqb_refl. Qed.

(* The hint is only for bare references; any other expression gets the plain E512. *)
Theorem mismatch_without_hint x pt a :
  mty_eqb pt a = false ->
  argument_code {| p_name := Some x; p_type := Some pt |} false (POk a) = Some E512.
Proof. intros H. unfold argument_code. cbn [p_type p_name]. now rewrite H. Qed.

Lemma zip_accepts_equal : forall ps args,
  zip_argument_codes ps args = None ->
  forall i p d a pt, nth_error ps i = Some p -> nth_error args i = Some (d, POk a) ->
    p_type p = Some pt -> p_name p <> None -> mty_eqb pt a = true.
Proof.
  induction ps as [|p0 ps IH]; intros args Hz i p d a pt Hp Ha Hpt Hn.
  - destruct i; discriminate.
  - destruct args as [|[d0 a0] args]; [destruct i; discriminate|].
    cbn [zip_argument_codes] in Hz.
    destruct (argument_code p0 d0 a0) as [c|] eqn:Hc; [discriminate|].
    destruct i as [|i].
    + cbn [nth_error] in Hp, Ha. inversion Hp; inversion Ha; subst.
      unfold argument_code in Hc. rewrite Hpt in Hc.
      destruct (mty_eqb pt a); [reflexivity|].
      destruct (p_name p); [|congruence].
      destruct (can_hint_missing_address d a pt); discriminate.
    + cbn [nth_error] in Hp, Ha. eapply IH; eassumption.
Qed.

(* An accepted call passes, for every named and typed parameter, an argument of exactly
   the parameter's type; in particular never a `T` for a `&T`. *)
Theorem accepted_call_types_match ps args :
  use_function ps args = None ->
  length ps = length args /\
  forall i p d a pt, nth_error ps i = Some p -> nth_error args i = Some (d, POk a) ->
    p_type p = Some pt -> p_name p <> None -> mty_eqb pt a = true.
Proof.
  unfold use_function. intros H.
  destruct (Nat.ltb (length args) (length ps)) eqn:H1; [discriminate|].
  destruct (Nat.ltb (length ps) (length args)) eqn:H2; [discriminate|].
  apply Nat.ltb_ge in H1. apply Nat.ltb_ge in H2. split; [lia|].
  now apply zip_accepts_equal.
Qed.

Corollary pointer_parameter_needs_address ps args i p d t :
  use_function ps args = None ->
  nth_error ps i = Some p -> p_type p = Some (MPointer t) -> p_name p <> None ->
  nth_error args i <> Some (d, POk t).
Proof.
  intros Hu Hp Hpt Hn Ha.
  destruct (accepted_call_types_match ps args Hu) as [_ H].
  specialize (H i p d t (MPointer t) Hp Ha Hpt Hn).
  rewrite mty_eqb_pointer_neq in H. discriminate.
Qed.

(* ---- 10. The chains the typer produces for assignments are well-typed ------------------------ *)

Lemma strip_typed mt : forall fuel t pre ct,
  strip_indirections fuel t = (pre, ct) -> chain_type mt t pre = Some ct.
Proof.
  induction fuel as [|f IH]; intros t pre ct H.
  - cbn [strip_indirections] in H. inversion H; subst. reflexivity.
  - cbn [strip_indirections] in H.
    destruct t; try (inversion H; subst; reflexivity).
    + destruct (strip_indirections f t) as [ss t'] eqn:E. inversion H; subst.
      cbn [chain_type step_type]. now apply IH.
    + destruct (strip_indirections f t) as [ss t'] eqn:E. inversion H; subst.
      cbn [chain_type step_type]. now apply IH.
Qed.

Lemma deslice_element_typed mt ct e a :
  get_element_type ct = Some e ->
  chain_type mt ct (match ct with
                    | MSlice _ => [AutodesliceByView]
                    | MSlicePointer _ => [AutodesliceByPointer]
                    | _ => []
                    end ++ [Element a]) = Some e.
Proof.
  destruct ct; cbn [get_element_type]; intros H; try discriminate;
    inversion H; subst; reflexivity.
Qed.

Lemma assignment_steps_fuel_typed fuel mt : forall prev t ss ct,
  source_chain_ok_fuel fuel mt t prev = true ->
  assignment_steps_fuel fuel mt t prev = Some (ss, ct) ->
  chain_type mt t ss = Some ct.
Proof.
  induction prev as [|s rest IH]; intros t ss ct Hok Ha.
  - cbn [assignment_steps_fuel] in Ha. inversion Ha; subst. reflexivity.
  - destruct s; cbn [source_chain_ok_fuel] in Hok; try discriminate.
    + (* Element *)
      cbn [assignment_steps_fuel] in Ha.
      destruct (strip_indirections fuel t) as [pre c0] eqn:Hs.
      cbn [snd] in Hok.
      destruct (get_element_type c0) as [e|] eqn:He; [|discriminate].
      destruct (assignment_steps_fuel fuel mt e rest) as [[ss' t']|] eqn:Hr; [|discriminate].
      inversion Ha; subst.
      rewrite chain_type_app, (strip_typed mt _ _ _ _ Hs).
      change (Element arg :: ss') with ([Element arg] ++ ss').
      rewrite app_assoc, chain_type_app, (deslice_element_typed mt c0 e arg He).
      now apply IH.
    + (* Member *)
      cbn [assignment_steps_fuel] in Ha.
      destruct (strip_indirections fuel t) as [pre c0] eqn:Hs.
      cbn [snd] in Hok.
      destruct (member_type mt m) as [tm|] eqn:Hm.
      2:{ destruct c0; discriminate. }
      destruct (assignment_steps_fuel fuel mt tm rest) as [[ss' t']|] eqn:Hr; [|discriminate].
      inversion Ha; subst.
      rewrite chain_type_app, (strip_typed mt _ _ _ _ Hs).
      cbn [chain_type]. destruct c0; try discriminate; cbn [step_type]; rewrite Hm;
        now apply IH.
Qed.

Theorem assignment_steps_typed mt prev t ss ct :
  source_chain_ok mt t prev = true ->
  assignment_steps mt t prev = Some (ss, ct) ->
  chain_type mt t ss = Some ct.
Proof. apply assignment_steps_fuel_typed. Qed.

Fixpoint pointer_layers (t : mty) : nat :=
  match t with MPointer d => S (pointer_layers d) | _ => 0 end.

Lemma repeat_autoderef_typed mt : forall k t,
  k <= pointer_layers t -> exists t', chain_type mt t (repeat Autoderef k) = Some t'.
Proof.
  induction k as [|k IH]; intros t Hk; [exists t; reflexivity|].
  destruct t; cbn [pointer_layers] in Hk; try lia.
  cbn [repeat chain_type step_type]. apply IH. lia.
Qed.

Lemma inner_pointer_depth t :
  is_wellformed_inner t = true -> pointer_depth t = pointer_layers t.
Proof.
  induction t; cbn [is_wellformed_inner pointer_depth pointer_layers]; intros H;
    try reflexivity; try discriminate. f_equal. now apply IHt.
Qed.

Lemma chain_preserves_wf mt : forall ss t t',
  mtab_ok mt = true -> is_wellformed t = true -> chain_type mt t ss = Some t' ->
  is_wellformed t' = true.
Proof.
  induction ss as [|s rest IH]; intros t t' Hmt Hwf Ht.
  - cbn [chain_type] in Ht. inversion Ht; subst. exact Hwf.
  - cbn [chain_type] in Ht. destruct (step_type mt t s) as [t1|] eqn:Hs; [|discriminate].
    apply (IH t1 t' Hmt); [|assumption].
    apply inner_is_wellformed. eapply step_gives_inner; eassumption.
Qed.

Theorem elaborated_assignment_typed mt t prev ad ss ct ex :
  mtab_ok mt = true -> is_wellformed t = true ->
  source_chain_ok mt t prev = true ->
  elaborate_assignment mt t prev ad = Some (ss, ct, ex) ->
  ((forall e, ct <> MSlicePointer e) \/ 1 <= ad) ->
  exists t', chain_type mt t ss = Some t'.
Proof.
  intros Hmt Hwf Hok He Hsp. unfold elaborate_assignment in He.
  destruct (assignment_steps mt t prev) as [[ss0 c0]|] eqn:Ha; [|discriminate].
  pose proof (assignment_steps_typed mt prev t ss0 c0 Hok Ha) as Ht.
  pose proof (chain_preserves_wf mt ss0 t c0 Hmt Hwf Ht) as Hwf0.
  destruct (Nat.leb ad (pointer_depth c0)) eqn:Hle.
  - inversion He; subst. rewrite chain_type_app, Ht.
    apply repeat_autoderef_typed.
    destruct ct; cbn [pointer_depth pointer_layers]; try lia.
    + destruct Hsp as [Hsp|Hsp]; [exfalso; eapply Hsp; reflexivity|lia].
    + cbn [is_wellformed] in Hwf0. rewrite (inner_pointer_depth _ Hwf0). lia.
  - inversion He; subst. now exists ct.
Qed.

(* The side condition is needed: for `s = ...` with s of type &[]T the typer appends an
   Autoderef (pointer_depth counts the slice pointer) that no pointer value backs, and
   mutability.rs then waves the assignment to the PARAMETER ITSELF through.  In the real
   pipeline the statement is still rejected, by E504 or by a typer panic
   (typer.rs:2909), never by E530. *)
Theorem elaborated_slice_pointer_refuted :
  exists t ss ct,
    elaborate_assignment [] t [] 0 = Some (ss, ct, 0) /\
    is_wellformed t = true /\ can_be_parameter t = true /\
    chain_type [] t ss = None /\
    check_assignment [(1%N, false)] (Ref (Some 1%N) ss 0%N) = [].
Proof.
  exists (MSlicePointer (MPrim prim_i32)), [Autoderef], (MSlicePointer (MPrim prim_i32)).
  vm_compute. repeat split; reflexivity.
Qed.

(* End to end, for the two programs of docs/errors.md E530. *)
Example doc_E530_rejected :
  elaborate_assignment [] (MPrim prim_i32) [] 0 = Some ([], MPrim prim_i32, 0) /\
  check_assignment (declare_params [] [{| p_name := Some 1%N; p_type := Some (MPrim prim_i32) |}])
                   (Ref (Some 1%N) [] 0%N) = [E530].
Proof. vm_compute. split; reflexivity. Qed.

Example doc_E530_accepted :
  elaborate_assignment [] (MPointer (MPrim prim_i32)) [] 0
    = Some ([Autoderef], MPointer (MPrim prim_i32), 0) /\
  check_assignment
    (declare_params [] [{| p_name := Some 1%N; p_type := Some (MPointer (MPrim prim_i32)) |}])
    (Ref (Some 1%N) [Autoderef] 0%N) = [].
Proof. vm_compute. split; reflexivity. Qed.

(* ---- 11. Examples (each checked against the real compiler through the harness) ----------------- *)

Definition i32 := MPrim prim_i32.
Definition pX : name := 1%N.   (* a parameter *)
Definition vY : name := 2%N.   (* a local `var` *)
Definition cC : name := 3%N.   (* a constant *)
Definition env0 : menv := [(vY, true); (pX, false); (cC, false)].
Definition rd (x : name) (t : mty) : expr := EDeref (Ref (Some x) [] 0%N) (POk t).

(* E530, assignments.  fn f(s: []i32) { s[0] = 7; }  /  fn f(s: &[]i32) { s[0] = 7; } *)
Example ex_slice_view_write :
  check_assignment env0 (Ref (Some pX) [AutodesliceByView; Element ELeaf] 0%N) = [E530].
Proof. vm_compute. reflexivity. Qed.
Example ex_slice_pointer_write :
  check_assignment env0 (Ref (Some pX) [AutodesliceByPointer; Element ELeaf] 0%N) = [].
Proof. vm_compute. reflexivity. Qed.
(* fn f(s: S) { s.a = 1; }  /  fn f(s: &S) { s.a = 1; } *)
Example ex_struct_view_write :
  check_assignment env0 (Ref (Some pX) [Autoview; Member 7%N] 0%N) = [E530].
Proof. vm_compute. reflexivity. Qed.
Example ex_struct_pointer_write :
  check_assignment env0 (Ref (Some pX) [Autoderef; Member 7%N] 0%N) = [].
Proof. vm_compute. reflexivity. Qed.
(* struct T { p: &S }  fn f(t: T) { t.p.a = 1; }   a pointer stored in a viewed struct *)
Example ex_pointer_inside_view :
  check_assignment env0 (Ref (Some pX) [Autoview; Member 8%N; Autoderef; Member 7%N] 0%N) = []
  /\ chain_type [(8%N, MPointer (MStruct 20%N)); (7%N, i32)] (MView (MStruct 21%N))
       [Autoview; Member 8%N; Autoderef; Member 7%N] = Some i32.
Proof. vm_compute. split; reflexivity. Qed.
(* fn f(t: []&i32, q: &i32) { t[0] = 1; }  accepted;  { &t[0] = &q; }  rejected *)
Example ex_pointer_element_of_view :
  check_assignment env0 (Ref (Some pX) [AutodesliceByView; Element ELeaf; Autoderef] 0%N) = []
  /\ check_assignment env0 (Ref (Some pX) [AutodesliceByView; Element ELeaf] 0%N) = [E530].
Proof. vm_compute. split; reflexivity. Qed.
(* const C: i32 = 5; fn f() { C = 7; }   /   var y: i32 = 0; y = 1; *)
Example ex_constant_write : check_assignment env0 (Ref (Some cC) [] 0%N) = [E530].
Proof. vm_compute. reflexivity. Qed.
Example ex_var_write : check_assignment env0 (Ref (Some vY) [Element ELeaf; Member 7%N] 0%N) = [].
Proof. vm_compute. reflexivity. Qed.
(* Autodeslice{Length} needs the outer binding to be mutable; `|x| = 3` does not parse
   (E300), so the arm is only reached by reads. *)
Example ex_length_step :
  check_assignment env0 (Ref (Some pX) [AutodesliceLength] 0%N) = [E530] /\
  check_assignment env0 (Ref (Some vY) [AutodesliceLength] 0%N) = [].
Proof. vm_compute. split; reflexivity. Qed.

(* E530, addresses.  fn f(x: i32) { bar(&x); }  /  var y: i32 = 1; bar(&y); *)
Example ex_address_of_parameter : check_address_taken env0 (Ref (Some pX) [] 1%N) = [E530].
Proof. vm_compute. reflexivity. Qed.
Example ex_address_of_var : check_address_taken env0 (Ref (Some vY) [] 1%N) = [].
Proof. vm_compute. reflexivity. Qed.
(* fn f(s: S) { bar(&s.a); }  /  fn f(s: &S) { bar(&s.a); } *)
Example ex_address_in_view :
  check_address_taken env0 (Ref (Some pX) [Autoview; Member 7%N] 1%N) = [E530] /\
  check_address_taken env0 (Ref (Some pX) [Autoderef; Member 7%N] 1%N) = [].
Proof. vm_compute. split; reflexivity. Qed.

(* Error shadowing inside the pass: the failing node replaces everything below it. *)
Example ex_shadowing :
  snd (mut_stmt env0
         (SAssignment (Ref (Some pX) [Element (EDeref (Ref (Some cC) [] 1%N) PNone)] 0%N)
                      (EDeref (Ref (Some pX) [] 1%N) PNone))) = [E530].
Proof. vm_compute. reflexivity. Qed.
Example ex_silent_poison :
  snd (mut_stmt env0 (SAssignment (Ref (Some 99%N) [] 0%N) (rd pX i32))) = [E_SILENT].
Proof. vm_compute. reflexivity. Qed.

(* E531-E533.  const DATA: [2]i32 = ...; fn main() { var data = DATA; } *)
Definition arr := MArray i32 2%N.
Example ex_copy_array :
  fc_body {| fb_statements := [SDeclaration vY (Some (rd cC arr)) (POk arr)];
             fb_return := None |} = [E531].
Proof. vm_compute. reflexivity. Qed.
(* fn main(data: []i32) { var copy = data; }   E532, and the illegal `var` type is legal
   for a slice; struct: E533 *)
Example ex_copy_slice_struct :
  fc_body {| fb_statements := [SDeclaration vY (Some (rd pX (MSlice i32))) (POk (MSlice i32))];
             fb_return := None |} = [E532] /\
  fc_body {| fb_statements := [SDeclaration vY (Some (rd pX (MStruct 20%N))) (POk (MStruct 20%N))];
             fb_return := None |} = [E533].
Proof. vm_compute. split; reflexivity. Qed.
(* bar(d);  bar((d));  both accepted *)
Example ex_argument :
  snd (fc_stmt (SMethodCall 30%N [rd vY arr])) = [] /\
  snd (fc_stmt (SMethodCall 30%N [EParen (EAutocoerce (rd vY arr))])) = [].
Proof. vm_compute. split; reflexivity. Qed.
(* but not below an operator, an array literal or an index *)
Example ex_not_immediate :
  snd (fc_stmt (SMethodCall 30%N [EBinary (rd vY arr) ELeaf])) = [E531] /\
  snd (fc_stmt (SMethodCall 30%N [EArrayLit [rd vY arr]])) = [E531] /\
  snd (fc_stmt (SMethodCall 30%N
         [EDeref (Ref (Some vY) [Element (rd cC arr)] 0%N) (POk i32)])) = [E531].
Proof. vm_compute. repeat split; reflexivity. Qed.

(* A structure literal clears the flag as an array literal does (D79, repaired: at the pinned commit
   `take(S { b: d, a: 1 })` copied the whole array d, and whether `take(S { a: id(1), b: d })` did
   depended on the order of the members):
     take(S { b: d, a: 1 });                 E531
     var s = S { b: d, a: 1 };               E531 *)
Theorem aggregate_copy_inside_structural_argument_rejected :
  snd (fc_stmt (SMethodCall 30%N [EStructural [rd vY arr; ELeaf]])) = [E531] /\
  snd (fc_stmt (SDeclaration 5%N (Some (EStructural [rd vY arr; ELeaf])) PNone)) = [E531].
Proof. vm_compute. split; reflexivity. Qed.

Theorem structural_argument_order_does_not_matter :
  snd (fc_stmt (SMethodCall 30%N [EStructural [rd vY arr; ECall 31%N [ELeaf]]])) = [E531] /\
  snd (fc_stmt (SMethodCall 30%N [EStructural [ECall 31%N [ELeaf]; rd vY arr]])) = [E531].
Proof. vm_compute. split; reflexivity. Qed.

(* E513.  fn bar(p: &i32); bar(d)  /  bar(&d)  /  fn bar(p: &[]u8); var d: [4]u8; bar(d) *)
Example ex_E513 :
  use_function [{| p_name := Some 1%N; p_type := Some (MPointer i32) |}] [(true, POk i32)]
    = Some E513 /\
  use_function [{| p_name := Some 1%N; p_type := Some (MPointer i32) |}]
               [(true, POk (MPointer i32))] = None /\
  use_function [{| p_name := Some 1%N; p_type := Some (MSlicePointer (MPrim prim_u8)) |}]
               [(true, POk (MArray (MPrim prim_u8) 4%N))] = Some E513 /\
  use_function [{| p_name := Some 1%N; p_type := Some (MPointer i32) |}] [(false, POk i32)]
    = Some E512 /\
  use_function [{| p_name := Some 1%N; p_type := Some (MPointer i32) |}] [] = Some E510.
Proof. vm_compute. repeat split; reflexivity. Qed.

(* A whole function:
     fn foo(x: i32, p: &i32) { var y: i32 = x; y = 1; p = y; bar(&y); if y == x { var z = y; z = 2; } }
   accepted; adding `x = 1;` or `bar(&x);` is rejected. *)
Definition foo_params : list param :=
  [{| p_name := Some 1%N; p_type := Some i32 |};
   {| p_name := Some 4%N; p_type := Some (MPointer i32) |}].
Definition foo_body (extra : list stmt) : fbody :=
  {| fb_statements :=
       [SDeclaration 2%N (Some (rd 1%N i32)) (POk i32);
        SAssignment (Ref (Some 2%N) [] 0%N) ELeaf;
        SAssignment (Ref (Some 4%N) [Autoderef] 0%N) (rd 2%N i32);
        SMethodCall 30%N [EDeref (Ref (Some 2%N) [] 1%N) (POk (MPointer i32))];
        SIf (rd 2%N i32) (rd 1%N i32)
            (SBlock [SDeclaration 5%N (Some (rd 2%N i32)) PNone;
                     SAssignment (Ref (Some 5%N) [] 0%N) ELeaf]) None] ++ extra;
     fb_return := None |}.

Example ex_function_accepted :
  snd (mut_decl [] (DFunction foo_params (Some (foo_body [])))) = [] /\
  fc_body (foo_body []) = [] /\
  length (body_sites (declare_params [] foo_params) (foo_body [])) = 9.
Proof. vm_compute. repeat split; reflexivity. Qed.

Example ex_function_rejected :
  snd (mut_decl [] (DFunction foo_params
         (Some (foo_body [SAssignment (Ref (Some 1%N) [] 0%N) ELeaf])))) = [E530] /\
  snd (mut_decl [] (DFunction foo_params
         (Some (foo_body [SMethodCall 30%N [EDeref (Ref (Some 1%N) [] 1%N) (POk (MPointer i32))]]))))
    = [E530].
Proof. vm_compute. split; reflexivity. Qed.

(* The hypotheses of the main theorems are satisfiable by these objects. *)
Example ex_corollary_applies :
  Forall (fun p => p_type p <> None) foo_params /\
  exists v', mut_decl [] (DFunction foo_params (Some (foo_body []))) = (v', []).
Proof.
  split.
  - repeat constructor; discriminate.
  - eexists. vm_compute. reflexivity.
Qed.

Example ex_strict_agrees_applies :
  let mt := [(8%N, MPointer (MStruct 20%N)); (7%N, i32)] in
  mtab_ok mt = true /\ is_wellformed (MView (MStruct 21%N)) = true /\
  chain_type mt (MView (MStruct 21%N)) [Autoview; Member 8%N; Autoderef; Member 7%N] = Some i32.
Proof. vm_compute. repeat split; reflexivity. Qed.

(* The analyzer's map outlives a function: a `var` of f is still "mutable" while g is
   analyzed (harmless only because resolution ids are unique). *)
Example ex_state_is_never_cleared :
  lookup (fst (mut_program []
                 [DFunction [] (Some {| fb_statements := [SDeclaration 2%N None (POk i32)];
                                        fb_return := None |});
                  DFunction [] (Some {| fb_statements := []; fb_return := None |})])) 2%N
  = Some true.
Proof. vm_compute. reflexivity. Qed.

Print Assumptions assignment_sound.
Print Assumptions assignment_complete.
Print Assumptions assignment_iff.
Print Assumptions param_write_needs_pointer.
Print Assumptions params_are_immutable.
Print Assumptions view_is_readonly.
Print Assumptions view_is_readonly_typed.
Print Assumptions address_of_immutable_rejected.
Print Assumptions address_taken_sound.
Print Assumptions no_aggregate_copy.
Print Assumptions declaration_copy_rejected.
Print Assumptions assignment_copy_rejected.
Print Assumptions return_copy_rejected.
Print Assumptions argument_copy_accepted.
Print Assumptions function_sound.
Print Assumptions callee_can_only_write_through_pointers.
Print Assumptions strict_agrees.
Print Assumptions assignment_iff_strict.
Print Assumptions var_mutability_in_pipeline.
Print Assumptions accepted_call_types_match.
Print Assumptions pointer_parameter_needs_address.
Print Assumptions elaborated_assignment_typed.
Print Assumptions elaborated_slice_pointer_refuted.
Print Assumptions structural_argument_order_does_not_matter.
