(* Proofs about Model/OutPath.v (property C18). *)
From PV Require Import Base.Common Model.OutPath.
Open Scope N_scope.

Lemma has_dot_app a b : has_dot (a ++ b) = has_dot a || has_dot b.
Proof. induction a as [|c a IH]; cbn [app has_dot]; [reflexivity|]. rewrite IH. now rewrite orb_assoc. Qed.

Lemma pn_no_dot : has_dot PN = false. Proof. reflexivity. Qed.

(* the stem of `x ++ ".pn"` is x, whatever dots x contains *)
Lemma stem_tail_dot_pn x : stem_tail (x ++ DOT :: PN) = x.
Proof.
  induction x as [|c x IH]; [reflexivity|]. cbn [app stem_tail].
  rewrite has_dot_app. cbn [has_dot]. rewrite N.eqb_refl. cbn [orb]. rewrite orb_true_r, andb_false_r. now rewrite IH.
Qed.

Lemma file_stem_dot_pn c x : file_stem ((c :: x) ++ DOT :: PN) = c :: x.
Proof.
  cbn [app file_stem]. rewrite has_dot_app. cbn [has_dot]. rewrite N.eqb_refl. cbn [orb]. rewrite orb_true_r.
  now rewrite stem_tail_dot_pn.
Qed.

(* so for a module file `<x>.pn` the written file is `<x>.pn.ll`: the name with ".ll" appended *)
Theorem set_ext_pn c x : set_ext_name ((c :: x) ++ DOT :: PN) = ((c :: x) ++ DOT :: PN) ++ [DOT; 108; 108]%N.
Proof. unfold set_ext_name. rewrite file_stem_dot_pn. rewrite <- app_assoc. reflexivity. Qed.

(* names ending in ".pn" *)
Lemma list_eqb_eq a : forall b, list_eqb a b = true -> a = b.
Proof.
  induction a as [|x a IH]; intros [|y b] H; cbn [list_eqb] in H; try discriminate; [reflexivity|].
  apply andb_true_iff in H as [H1 H2]. apply N.eqb_eq in H1. subst. f_equal. now apply IH.
Qed.

Lemma ends_with_spec suffix n : ends_with suffix n = true -> exists x, n = x ++ suffix.
Proof.
  induction n as [|c n IH]; cbn [ends_with]; intros H; apply orb_true_iff in H as [H|H].
  - apply list_eqb_eq in H. subst. exists []. reflexivity.
  - discriminate.
  - apply list_eqb_eq in H. exists []. now rewrite H.
  - destruct (IH H) as [x ->]. exists (c :: x). reflexivity.
Qed.

Lemma is_pn_name_spec n : is_pn_name n = true -> exists c x, n = (c :: x) ++ DOT :: PN.
Proof.
  destruct n as [|c r]; [discriminate|]. cbn [is_pn_name]. intros H.
  destruct (ends_with_spec _ _ H) as [x ->]. exists c, x. reflexivity.
Qed.

Lemma set_ext_comps_last cs n : set_ext_comps (cs ++ [n]) = cs ++ [set_ext_name n].
Proof.
  induction cs as [|c cs IH]; [reflexivity|].
  change ((c :: cs) ++ [n]) with (c :: (cs ++ [n])).
  destruct cs as [|c2 cs]; [reflexivity|].
  change (set_ext_comps (c :: (c2 :: cs) ++ [n])) with (c :: set_ext_comps ((c2 :: cs) ++ [n])).
  now rewrite IH.
Qed.

Lemma comps_last (cs : list name) n : rev cs = n :: rev (removelast cs) -> cs = removelast cs ++ [n].
Proof.
  intros H. apply (f_equal (@rev name)) in H. rewrite rev_involutive in H. cbn [rev] in H.
  rewrite rev_involutive in H. exact H.
Qed.

Lemma rev_head_split (cs : list name) n r : rev cs = n :: r -> cs = rev r ++ [n].
Proof. intros H. apply (f_equal (@rev name)) in H. rewrite rev_involutive in H. exact H. Qed.

(* 1. A module path - relative or absolute (D17, repaired) - is written UNDER the output directory: the components of the
      directory, then the module's own directories, then `<file>.pn.ll`. *)
Theorem ll_path_under_out_dir : forall d m,
  is_pn_module m = true ->
  exists dirs file,
    comps m = dirs ++ [file] /\
    absolute (ll_path d m) = absolute d /\
    comps (ll_path d m) = comps d ++ dirs ++ [file ++ [DOT; 108; 108]%N].
Proof.
  intros d m Hn. unfold is_pn_module in Hn.
  destruct (rev (comps m)) as [|n r] eqn:E; [discriminate|].
  apply rev_head_split in E. destruct (is_pn_name_spec n Hn) as (c & x & ->).
  exists (rev r), ((c :: x) ++ DOT :: PN). split; [exact E|].
  unfold ll_path, push. cbn [absolute comps]. split; [reflexivity|].
  rewrite E, app_assoc, set_ext_comps_last, set_ext_pn, <- app_assoc. reflexivity.
Qed.

(* 2. Distinct modules get distinct files (nothing is overwritten); since the root of an absolute
      path is dropped, `/x/a.pn` and `x/a.pn` are told apart only by that root. *)
Theorem ll_path_injective : forall d m1 m2,
  is_pn_module m1 = true -> is_pn_module m2 = true -> absolute m1 = absolute m2 ->
  ll_path d m1 = ll_path d m2 -> m1 = m2.
Proof.
  intros d m1 m2 H1 H2 Habs Heq.
  destruct (ll_path_under_out_dir d m1 H1) as (d1 & f1 & E1 & _ & C1).
  destruct (ll_path_under_out_dir d m2 H2) as (d2 & f2 & E2 & _ & C2).
  rewrite Heq in C1. rewrite C1 in C2. apply app_inv_head in C2.
  assert (Hs : d1 = d2 /\ f1 ++ [DOT; 108; 108]%N = f2 ++ [DOT; 108; 108]%N).
  { apply app_inj_tail in C2. exact C2. }
  destruct Hs as [-> Hf]. apply app_inv_tail in Hf. subst f2.
  destruct m1 as [a1 c1], m2 as [a2 c2]. cbn [absolute comps] in *. subst. reflexivity.
Qed.

(* 3. D17 at the pinned commit (repaired) and the listed finding D57. *)
(* D17: with PathBuf::push an absolute module path was written next to the source, not under the directory *)
Theorem absolute_module_escapes_pinned_refuted :
  exists d m, absolute m = true /\ comps (ll_path_pinned d m) = set_ext_comps (comps m) /\
              ~ (exists rest, comps (ll_path_pinned d m) = comps d ++ rest).
Proof.
  exists (mkpath false [[111; 117; 116]%N]), (mkpath true [[116; 109; 112]%N; [97; 46; 112; 110]%N]).
  split; [reflexivity|]. split; [reflexivity|]. intros [rest H]. vm_compute in H. discriminate.
Qed.

(* D57: two modules whose names differ only in the extension are written to the same file *)
Theorem same_stem_collides_refuted :
  exists d m1 m2, absolute m1 = false /\ absolute m2 = false /\ m1 <> m2 /\ ll_path d m1 = ll_path d m2.
Proof.
  exists (mkpath false [[111; 117; 116]%N]), (mkpath false [[97; 46; 112; 110]%N]), (mkpath false [[97; 46; 112; 101; 110]%N]).
  repeat split; try reflexivity. discriminate.
Qed.

Example ll_path_example :
  ll_path (mkpath false [[111; 117; 116]%N]) (mkpath false [[103; 101; 111]%N; [117; 46; 116; 46; 112; 110]%N])
  = mkpath false [[111; 117; 116]%N; [103; 101; 111]%N; [117; 46; 116; 46; 112; 110; 46; 108; 108]%N].
Proof. reflexivity. Qed.

Print Assumptions ll_path_under_out_dir.
Print Assumptions ll_path_injective.
Print Assumptions absolute_module_escapes_pinned_refuted.
Print Assumptions same_stem_collides_refuted.

(* D17 after the repair: the witness of the pinned behaviour now lands under the directory *)
Example absolute_module_stays_inside :
  ll_path (mkpath false [[111; 117; 116]%N]) (mkpath true [[116; 109; 112]%N; [97; 46; 112; 110]%N])
  = mkpath false [[111; 117; 116]%N; [116; 109; 112]%N; [97; 46; 112; 110; 46; 108; 108]%N].
Proof. reflexivity. Qed.
(* what the extra hypothesis of ll_path_injective excludes *)
Theorem root_only_difference_collides :
  exists d m1 m2, is_pn_module m1 = true /\ is_pn_module m2 = true /\ m1 <> m2 /\ ll_path d m1 = ll_path d m2.
Proof.
  exists (mkpath false [[111; 117; 116]%N]), (mkpath true [[97; 46; 112; 110]%N]), (mkpath false [[97; 46; 112; 110]%N]).
  repeat split; try reflexivity. discriminate.
Qed.
