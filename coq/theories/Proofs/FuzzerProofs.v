(* Property: source text produced by `penne fuzz tokens` without injected
   mistakes is valid UTF-8 of at least the requested number of kilobytes and
   consists solely of valid lexemes: both lexers tokenise it without a single
   lexical error.

   Model: Model/Fuzzer.v.  Supporting developments:
     FuzzerShapeProofs.v   the text is a well-formed atom sequence (emit_atoms),
                           size accounting (size_at_least), scalar values
     FuzzerDeltaProofs.v   the second-generation lexer on well-formed atom sequences
     FuzzerAlphaProofs.v   the first-generation lexer on well-formed atom sequences

   Main statements of this file:
     needs_space_exact, separator_rule     the separator rule
     no_glue_error_alpha                   first generation: no error token, ever
     no_glue_error_delta                   second generation: no error token except
                                           the whole-source errors E101/E102/E103
     no_glue_error_delta_small             ... none at all below 65535 bytes
     no_glue_error_delta_refuted           E103 does happen (72 KB of parentheses)
     emit_token_lexes_delta/_alpha         every spelling is one token of its kind,
                                           with the exceptions identifier_placeholder_*,
                                           builtin_placeholder_*, return_alpha
     emit_utf8, size_at_least              UTF-8, size
     fuzz_tokens_correct                   everything about do_fuzzing at once *)
From Coq Require Import Ascii String.
From PV Require Import Base.Common Base.IR Base.Tok Model.Fuzzer.
From PV Require Model.LexAlpha Model.LexDelta.
From PV Require Proofs.LexAlphaProofs Proofs.LexDeltaProofs.
From PV Require Import Proofs.FuzzerShapeProofs.
From PV Require Proofs.FuzzerDeltaProofs Proofs.FuzzerAlphaProofs.
Open Scope N_scope.

Opaque digits.

Notation lex_delta := LexDelta.lex_delta.
Notation lex_alpha := LexAlpha.lex_alpha_fixed.
Notation err_tok0 := LexDelta.err_tok0.

(* ========================================================================== *)
(* 1. The separator rule                                                      *)
(* ========================================================================== *)
(* add_space_if_necessary pushes a space exactly when the last byte of the
   buffer and the first byte of the spelling could both continue an identifier *)
Theorem needs_space_exact k last cs x t : 0 < weight k ->
  fst (emit_token k cs) = x :: t ->
  (if calls_add_space k then space_ops last else []) = if needs_space last x then [OChar 32] else [].
Proof.
  intros Hw E. destruct (token_shape k cs Hw) as (B & Ht & Hne & HB & Hf).
  rewrite Ht in E. destruct B as [|a B]; [congruence|].
  destruct (atom_first a (WF_head _ _ HB)) as (y & r & Es & Hy).
  cbn [flatc flat_map] in E. rewrite Es in E. cbn [app] in E. inversion E; subst y.
  cbn [first_wordy] in Hf. rewrite Hf in Hy. unfold needs_space, space_ops. rewrite Hy.
  destruct (calls_add_space k); destruct last as [l|]; try reflexivity.
  - rewrite andb_true_r. reflexivity.
  - now rewrite andb_false_r.
Qed.

(* one whole arm: the pushes are the optional space followed by the spelling *)
Theorem separator_rule k last cs x t : 0 < weight k ->
  fst (emit_token k cs) = x :: t ->
  ops_text (fst (push_token k last cs)) = (if needs_space last x then [32] else []) ++ x :: t.
Proof.
  intros Hw E. unfold push_token. rewrite (needs_space_exact k last cs x t Hw E).
  unfold emit_token in E. destruct (token_ops k cs) as [ops cs']. cbn [fst] in *.
  rewrite ops_text_app, E. destruct (needs_space last x); reflexivity.
Qed.

(* ========================================================================== *)
(* 2. No lexical error, whatever the choices                                  *)
(* ========================================================================== *)
Theorem no_glue_error_alpha fuel cs cap pct : emit fuel cs cap pct <> [] ->
  forall t, In t (lex_alpha (emit fuel cs cap pct)) -> kind t <> KError.
Proof.
  intros Hne. destruct (emit_atoms fuel cs cap pct) as (A & E & HW). rewrite E in *.
  assert (HA : A <> []) by (intros ->; now apply Hne).
  pose proof (FuzzerAlphaProofs.alpha_no_error A HW HA) as H. rewrite Forall_forall in H. exact H.
Qed.

(* the empty text is the zero-byte file *)
Theorem empty_text_alpha : lex_alpha [] = [LexAlpha.zero_byte_tok].
Proof. reflexivity. Qed.

Theorem no_glue_error_delta fuel cs cap pct :
  let src := emit_bytes fuel cs cap pct in
  lex_delta src = [err_tok0 E101] \/ lex_delta src = [err_tok0 E102] \/ lex_delta src = [err_tok0 E103] \/
  forall t, In t (lex_delta src) -> kind t <> KError.
Proof.
  cbv zeta. unfold emit_bytes. destruct (emit_atoms fuel cs cap pct) as (A & -> & HW).
  destruct (FuzzerDeltaProofs.delta_no_error A HW) as [H|[H|[H|H]]]; auto.
  right. right. right. rewrite Forall_forall in H. exact H.
Qed.

(* on the loop itself: whatever the capacities and the counters, no error
   token is pushed and no error is dropped by the error cap *)
Theorem no_glue_error_delta_loop fuel cs cap pct tokcap errcap f pos ln sol ntok npay nerr :
  (length (emit_bytes fuel cs cap pct) < f)%nat ->
  LexDeltaProofs.lr_prop (fun toks _ _ => forall t, In t toks -> kind t <> KError)
    (LexDelta.lex_loop f (emit_bytes fuel cs cap pct) pos ln sol ntok npay nerr tokcap errcap).
Proof.
  unfold emit_bytes. destruct (emit_atoms fuel cs cap pct) as (A & -> & HW). intros Hf.
  eapply LexDeltaProofs.lr_prop_impl; [|apply (FuzzerDeltaProofs.delta_loop_no_error tokcap errcap f A); assumption].
  cbn beta. intros l _ _ H. rewrite Forall_forall in H. exact H.
Qed.

Theorem no_glue_error_delta_small fuel cs cap pct :
  let src := emit_bytes fuel cs cap pct in
  src <> [] -> lenN src + 2 <= 65536 ->
  forall t, In t (lex_delta src) -> kind t <> KError.
Proof.
  cbv zeta. unfold emit_bytes. destruct (emit_atoms fuel cs cap pct) as (A & -> & HW). intros Hne Hlen.
  assert (HA : A <> []) by (intros ->; now apply Hne).
  pose proof (FuzzerDeltaProofs.delta_no_error_small A HW HA Hlen) as H. rewrite Forall_forall in H. exact H.
Qed.

(* the unconditional statement is false for the second generation: its token
   buffer holds max(len/2, 65536) tokens (at most 2^24), the fuzzer can emit
   almost one token per byte *)
Definition witness_E103 : list choice := repeat 8 (N.to_nat 160000).

Theorem no_glue_error_delta_refuted :
  fst (fuzz_tokens witness_E103 72) = Finished /\
  lex_delta (snd (fuzz_tokens witness_E103 72)) = [err_tok0 E103].
Proof. vm_compute. split; reflexivity. Qed.

(* ========================================================================== *)
(* 2b. Every spelling is one token of its kind                                *)
(* ========================================================================== *)
Definition tkind_of (k : token_kind) : tkind :=
  match k with
  | TEndOfSource | TError => KError
  | TParenLeft => KParenLeft | TParenRight => KParenRight | TBraceLeft => KBraceLeft
  | TBraceRight => KBraceRight | TBracketLeft => KBracketLeft | TBracketRight => KBracketRight
  | TAngleLeft => KAngleLeft | TAngleRight => KAngleRight | TPipe => KPipe | TAmpersand => KAmpersand
  | TCaret => KCaret | TExclamation => KExclamation | TPlaceholder => KPlaceholder | TPlus => KPlus
  | TMinus => KMinus | TTimes => KTimes | TDivide => KDivide | TModulo => KModulo | TColon => KColon
  | TSemicolon => KSemicolon | TDot => KDot | TComma => KComma | TAssignment => KAssignment
  | TEquals => KEquals | TDoesNotEqual => KDoesNotEqual | TIsGE => KIsGE | TIsLE => KIsLE
  | TShiftLeft => KShiftLeft | TShiftRight => KShiftRight | TArrow => KArrow
  | TPipeForType => KPipeForType | TDots => KDots
  | TFn => KFn | TVar => KVar | TConst => KConst | TIf => KIf | TGoto => KGoto | TLoop => KLoop
  | TReturn => KReturn | TElse => KElse | TCast => KCast | TAs => KAs | TImport => KImport
  | TPub => KPub | TExtern => KExtern | TStruct => KStruct
  | TWord8 => KWord8 | TWord16 => KWord16 | TWord32 => KWord32 | TWord64 => KWord64 | TWord128 => KWord128
  | TValueTypeKeyword => KType
  | TIdentifier => KIdentifier | TBuiltin => KBuiltin
  | TNakedDecimal => KNakedDecimal | TBitInteger => KBitInteger | TSuffixedInteger => KSuffixedInteger
  | TCharLiteral => KCharLiteral | TBoolLiteral => KBool | TStringLiteral => KStringLiteral
  end.

(* the kinds the second-generation lexer finds in the spelling [s] of a token of
   kind [k]: its own kind, except that the identifier `_` is the placeholder *)
Definition expected_delta (k : token_kind) (s : list N) : list tkind :=
  match k with
  | TIdentifier => if list_eqb s [95] then [KPlaceholder] else [KIdentifier]
  | TBuiltin => if list_eqb s [95; 33] then [KPlaceholder; KExclamation] else [KBuiltin]
  | _ => [tkind_of k]
  end.
(* the first generation has no keyword `return` *)
Definition expected_alpha (k : token_kind) (s : list N) : list tkind :=
  match k with
  | TReturn => [KIdentifier]
  | _ => expected_delta k s
  end.

Lemma list_eqb_refl a : list_eqb a a = true.
Proof.
  unfold list_eqb. rewrite Nat.eqb_refl. cbn [andb]. induction a as [|x a IH]; [reflexivity|].
  cbn [combine forallb fst snd]. now rewrite N.eqb_refl, IH.
Qed.
Lemma list_eqb_neq a b : a <> b -> list_eqb a b = false.
Proof. intros H. destruct (list_eqb a b) eqn:E; [|reflexivity]. apply list_eqb_eq in E. contradiction. Qed.

Lemma ident_cases w :
  (w = [95] /\ list_eqb w [95] = true /\ list_eqb (w ++ [33]) [95; 33] = true) \/
  (w <> [95] /\ list_eqb w [95] = false /\ list_eqb (w ++ [33]) [95; 33] = false).
Proof.
  destruct (list_eq_dec N.eq_dec w [95]) as [->|Hne]; [left; repeat split; reflexivity|].
  right. repeat split; [exact Hne|now apply list_eqb_neq|]. apply list_eqb_neq.
  change [95; 33] with ([95] ++ [33]). intros H. apply app_inj_tail in H as [H _]. contradiction.
Qed.

Theorem emit_token_lexes_delta k cs : 0 < weight k ->
  let s := fst (emit_token k cs) in
  map kind (lex_delta (encode s)) = expected_delta k s.
Proof.
  intros Hw. cbv zeta.
  destruct (token_spelled k cs Hw) as [k Hv|t w Hin Hpos|w Hok Hm Hl|w Hok Hm Hl|v Hv|b Hv Hb|b t Hv Ht|i0 Hc|b|items Hall Hl].
  - destruct k; try discriminate Hv; try (cbn in Hw; lia); vm_compute; reflexivity.
  - cbn in Hin. repeat (destruct Hin as [Hin|Hin]; [inversion Hin; subst; first [lia|vm_compute; reflexivity]|]).
    contradiction.
  - cbn [expected_delta]. destruct (ident_cases w) as [(-> & -> & _)|(Hne & -> & _)].
    + exact (proj1 FuzzerDeltaProofs.identifier_placeholder).
    + now apply FuzzerDeltaProofs.identifier_lexes.
  - cbn [expected_delta]. destruct (ident_cases w) as [(-> & _ & ->)|(Hne & _ & ->)].
    + exact (proj2 FuzzerDeltaProofs.identifier_placeholder).
    + now apply FuzzerDeltaProofs.builtin_lexes.
  - destruct (FuzzerDeltaProofs.number_lexes (NDec v) None Hv eq_refl) as (t & E & Hk & _).
    cbn [body_text sfx_text] in E. rewrite app_nil_r in E. rewrite E. cbn [map]. now rewrite Hk.
  - destruct (FuzzerDeltaProofs.number_lexes b None Hv eq_refl) as (t & E & Hk & _).
    cbn [sfx_text] in E. rewrite app_nil_r in E. rewrite E. cbn [map]. rewrite Hk. destruct b; [discriminate|reflexivity|reflexivity].
  - destruct (FuzzerDeltaProofs.number_lexes b (Some t) Hv Ht) as (t0 & E & Hk & _).
    cbn [sfx_text] in E. rewrite E. cbn [map]. now rewrite Hk.
  - now apply FuzzerDeltaProofs.char_lexes.
  - destruct b; vm_compute; reflexivity.
  - now apply FuzzerDeltaProofs.string_lexes.
Qed.

Theorem emit_token_lexes_alpha k cs : 0 < weight k ->
  let s := fst (emit_token k cs) in
  map kind (lex_alpha s) = expected_alpha k s.
Proof.
  intros Hw. cbv zeta.
  destruct (token_spelled k cs Hw) as [k Hv|t w Hin Hpos|w Hok Hm Hl|w Hok Hm Hl|v Hv|b Hv Hb|b t Hv Ht|i0 Hc|b|items Hall Hl].
  - destruct k; try discriminate Hv; try (cbn in Hw; lia); vm_compute; reflexivity.
  - cbn in Hin. repeat (destruct Hin as [Hin|Hin]; [inversion Hin; subst; first [lia|vm_compute; reflexivity]|]).
    contradiction.
  - cbn [expected_alpha expected_delta]. destruct (ident_cases w) as [(-> & -> & _)|(Hne & -> & _)].
    + exact (proj1 FuzzerAlphaProofs.identifier_placeholder).
    + now apply FuzzerAlphaProofs.identifier_lexes.
  - cbn [expected_alpha expected_delta]. destruct (ident_cases w) as [(-> & _ & ->)|(Hne & _ & ->)].
    + exact (proj2 FuzzerAlphaProofs.identifier_placeholder).
    + now apply FuzzerAlphaProofs.builtin_lexes.
  - destruct (FuzzerAlphaProofs.number_lexes (NDec v) None Hv eq_refl) as (t & E & Hk & _).
    cbn [body_text sfx_text] in E. rewrite app_nil_r in E. rewrite E. cbn [map]. now rewrite Hk.
  - destruct (FuzzerAlphaProofs.number_lexes b None Hv eq_refl) as (t & E & Hk & _).
    cbn [sfx_text] in E. rewrite app_nil_r in E. rewrite E. cbn [map]. rewrite Hk. destruct b; [discriminate|reflexivity|reflexivity].
  - destruct (FuzzerAlphaProofs.number_lexes b (Some t) Hv Ht) as (t0 & E & Hk & _).
    cbn [sfx_text] in E. rewrite E. cbn [map]. now rewrite Hk.
  - now apply FuzzerAlphaProofs.char_lexes.
  - destruct b; vm_compute; reflexivity.
  - now apply FuzzerAlphaProofs.string_lexes.
Qed.

(* numbers carry their value *)
Theorem emit_number_value cs v text : random_uint cs = (v, text) -> v < 2 ^ 128.
Proof. intros E. pose proof (random_uint_fits cs) as H. now rewrite E in H. Qed.

(* the exceptions are reachable: `random_identifier` can return a lone
   underscore (one round, no lower-case letter, no upper-case letter), which
   both lexers read as the placeholder, and `_!` is placeholder + exclamation *)
Theorem identifier_placeholder_refuted :
  exists cs, 0 < weight TIdentifier /\ fst (emit_token TIdentifier cs) = [95] /\
    map kind (lex_delta (encode (fst (emit_token TIdentifier cs)))) = [KPlaceholder] /\
    map kind (lex_alpha (fst (emit_token TIdentifier cs))) = [KPlaceholder].
Proof. exists [0; 7; 9]. vm_compute. repeat split; reflexivity. Qed.

Theorem builtin_placeholder_refuted :
  exists cs, 0 < weight TBuiltin /\ fst (emit_token TBuiltin cs) = [95; 33] /\
    map kind (lex_delta (encode (fst (emit_token TBuiltin cs)))) = [KPlaceholder; KExclamation] /\
    map kind (lex_alpha (fst (emit_token TBuiltin cs))) = [KPlaceholder; KExclamation].
Proof. exists [0; 7; 9]. vm_compute. repeat split; reflexivity. Qed.

Theorem return_alpha : forall cs,
  map kind (lex_alpha (fst (emit_token TReturn cs))) = [KIdentifier] /\
  map kind (lex_delta (encode (fst (emit_token TReturn cs)))) = [KReturn].
Proof. intros cs. vm_compute. split; reflexivity. Qed.

(* ========================================================================== *)
(* 2c. Two adjacent tokens                                                    *)
(* ========================================================================== *)
(* the last byte of a text, as `buffer.bytes().last()` sees it *)
Definition text_last_byte (s : list N) : option N :=
  match rev s with
  | [] => None
  | c :: _ => Some (if c <? 128 then c else 128 + c mod 64)
  end.

(* the separator add_space_if_necessary puts between the spellings [a] and [b] *)
Definition separator (a b : list N) : list N :=
  match b with
  | x :: _ => if needs_space (text_last_byte a) x then [32] else []
  | [] => []
  end.

(* any two spellings, joined by the separator rule alone (no blank, no line
   break, no comment in between), lex without error: either as the tokens of
   the first followed by the tokens of the second, or glued (`-` `>` is `->`,
   `/` `/` starts a comment, `name` `!` is a builtin, ...) *)
Theorem pairwise_no_error k1 k2 cs1 cs2 : 0 < weight k1 -> 0 < weight k2 ->
  let a := fst (emit_token k1 cs1) in
  let b := fst (emit_token k2 cs2) in
  let text := a ++ separator a b ++ b in
  (forall t, In t (lex_alpha text) -> kind t <> KError) /\
  (forall t, In t (lex_delta (encode text)) -> kind t <> KError).
Proof.
  intros Hw1 Hw2. cbv zeta.
  destruct (token_shape k1 cs1 Hw1) as (B1 & E1 & Hne1 & HB1 & _).
  destruct (token_shape k2 cs2 Hw2) as (B2 & E2 & Hne2 & HB2 & _).
  pose proof (spelled_len _ _ (token_spelled k1 cs1 Hw1)) as Hl1.
  pose proof (spelled_len _ _ (token_spelled k2 cs2 Hw2)) as Hl2.
  set (a := fst (emit_token k1 cs1)) in *. set (b := fst (emit_token k2 cs2)) in *.
  assert (HW : exists C, a ++ separator a b ++ b = flatc C /\ WF C /\ C <> []).
  { destruct B2 as [|a2 B2']; [congruence|].
    destruct (atom_first a2 (WF_head _ _ HB2)) as (x & r & Es & Hx).
    assert (Eb : b = x :: r ++ flatc B2') by (rewrite E2; cbn [flatc flat_map]; now rewrite Es).
    unfold separator. rewrite Eb. rewrite <- Eb.
    destruct (needs_space (text_last_byte a) x) eqn:Hns.
    - exists (B1 ++ [AWs 32] ++ a2 :: B2'). split; [|split].
      + rewrite !flatc_app, <- E1, <- E2. reflexivity.
      + apply WF_app; [exact HB1| |apply andb_false_r].
        apply WF_app; [apply WF_single; reflexivity|exact HB2|reflexivity].
      + destruct B1; discriminate.
    - exists (B1 ++ a2 :: B2'). split; [|split].
      + rewrite flatc_app, <- E1, <- E2. reflexivity.
      + apply WF_app; [exact HB1|exact HB2|]. cbn [first_wordy].
        destruct (last_wordy B1) eqn:Hlw; [|reflexivity]. destruct (wordy a2) eqn:Hwa; [|reflexivity].
        exfalso.
        (* the last atom of B1 is wordy: [a] ends with an identifier byte *)
        destruct B1 as [|a1 B1'] using rev_ind; [discriminate|]. clear IHB1'.
        rewrite last_wordy_app in Hlw.
        destruct HB1 as [Hok1 _]. rewrite forallb_app in Hok1. apply andb_true_iff in Hok1 as [_ Hok1].
        cbn [forallb] in Hok1. rewrite andb_true_r in Hok1.
        destruct (wordy_spell_cont a1 Hok1 Hlw) as [Hall Hnn].
        destruct (exists_last Hnn) as (s1 & c & Esp). rewrite Esp in Hall.
        rewrite forallb_app in Hall. apply andb_true_iff in Hall as [_ Hc]. cbn in Hc. rewrite andb_true_r in Hc.
        assert (Ea : a = (flatc B1' ++ s1) ++ [c]).
        { rewrite E1, flatc_app. cbn [flatc flat_map]. now rewrite app_nil_r, Esp, app_assoc. }
        unfold needs_space, text_last_byte in Hns. rewrite Ea, rev_app_distr in Hns. cbn [rev app] in Hns.
        pose proof (is_ident_cont_ascii c Hc) as Hc128. destruct (N.ltb_spec c 128); [|lia].
        rewrite Hc, Hx in Hns. discriminate.
      + destruct B1; discriminate. }
  destruct HW as (C & EC & HWC & HneC). rewrite EC. split.
  - pose proof (FuzzerAlphaProofs.alpha_no_error C HWC HneC) as H. rewrite Forall_forall in H. exact H.
  - assert (Hlen : LexDelta.lenN (FuzzerDeltaProofs.flatb C) + 2 <= 65536).
    { unfold FuzzerDeltaProofs.flatb. rewrite <- EC. pose proof (encode_len (a ++ separator a b ++ b)) as Hb.
      rewrite !app_length in Hb. assert (length (separator a b) <= 1)%nat.
      { unfold separator. destruct b as [|x r]; [cbn; lia|]. destruct (needs_space _ _); cbn; lia. }
      unfold LexDelta.lenN. lia. }
    pose proof (FuzzerDeltaProofs.delta_no_error_small C HWC HneC Hlen) as H. rewrite Forall_forall in H. exact H.
Qed.

(* the pairs of constant spellings (punctuation, keywords) that the second
   generation does NOT read as the tokens of the first followed by the tokens of
   the second; the first generation has `return` `!` and `return` `!=` in
   addition (no keyword `return`, hence a builtin) *)
Definition tkind_eq_dec (a b : tkind) : {a = b} + {a <> b}.
Proof. decide equality. Defined.
Definition same_kinds (a b : list tkind) : bool := if list_eq_dec tkind_eq_dec a b then true else false.
Definition const_kinds : list token_kind :=
  filter (fun k => negb (variable_kind k) && negb (weight k =? 0)) all_kinds.
Definition glued (lexk : list N -> list tkind) (p : token_kind * token_kind) : bool :=
  let a := const_text (fst p) in
  let b := const_text (snd p) in
  negb (same_kinds (lexk (a ++ separator a b ++ b)) (lexk a ++ lexk b)).

Example glue_pairs_delta :
  map (fun p => (const_text (fst p), const_text (snd p)))
      (filter (glued (fun s => map kind (lex_delta s))) (list_prod const_kinds const_kinds)) =
  map (fun p => (str (fst p), str (snd p)))
      [ ("<", "<"); ("<", "="); ("<", "=="); ("<", "<="); ("<", "<<");
        (">", ">"); (">", "="); (">", "=="); (">", ">="); (">", ">>");
        ("|", ":"); ("!", "="); ("!", "=="); ("-", ">"); ("-", ">="); ("-", ">>");
        ("/", "/"); (".", "."); (".", ".."); ("=", "="); ("=", "==") ]%string.
Proof. vm_compute. reflexivity. Qed.

Example glue_pairs_alpha :
  map (fun p => (const_text (fst p), const_text (snd p)))
      (filter (glued (fun s => map kind (lex_alpha s))) (list_prod const_kinds const_kinds)) =
  map (fun p => (str (fst p), str (snd p)))
      [ ("<", "<"); ("<", "="); ("<", "=="); ("<", "<="); ("<", "<<");
        (">", ">"); (">", "="); (">", "=="); (">", ">="); (">", ">>");
        ("|", ":"); ("!", "="); ("!", "=="); ("-", ">"); ("-", ">="); ("-", ">>");
        ("/", "/"); (".", "."); (".", ".."); ("=", "="); ("=", "==");
        ("return", "!"); ("return", "!=") ]%string.
Proof. vm_compute. reflexivity. Qed.

(* ========================================================================== *)
(* 2d. The draws reach every alternative of positive weight and no other      *)
(* ========================================================================== *)
Lemma total_weight_app {A} (a b : list (A * N)) : total_weight (a ++ b) = total_weight a + total_weight b.
Proof. induction a as [|[x w] a IH]; [reflexivity|]. cbn [app total_weight fold_right snd] in *. fold (total_weight (a ++ b)). fold (total_weight a). lia. Qed.

Lemma sample_reach {A} (d : A) pre a w post : 0 < w ->
  fst (sample d (pre ++ (a, w) :: post) [total_weight pre]) = a.
Proof.
  intros Hw. unfold sample, draw. cbn [fst]. rewrite N.mod_small.
  - now apply pick_weighted_reach.
  - rewrite total_weight_app. cbn [total_weight fold_right snd]. lia.
Qed.

Theorem token_reachable k : 0 < weight k -> exists c, fst (sample TEndOfSource token_table [c]) = k.
Proof.
  intros Hw. destruct (in_split k all_kinds (all_kinds_complete k)) as (l1 & l2 & E).
  unfold token_table. rewrite E, map_app. cbn [map]. eexists. now apply sample_reach.
Qed.

Theorem token_unreachable cs : 0 < weight (fst (sample TEndOfSource token_table cs)).
Proof. apply sample_token_weight. Qed.

(* ========================================================================== *)
(* 3. UTF-8 and size                                                          *)
(* ========================================================================== *)
(* an independent decoder of byte streams *)
Definition seq_len (a : N) : nat :=
  if a <? 128 then 1 else if a <? 224 then 2 else if a <? 240 then 3 else 4.

Fixpoint decode_stream (fuel : nat) (bs : list N) : option (list N) :=
  match fuel with
  | O => None
  | S f =>
      match bs with
      | [] => Some []
      | a :: _ =>
          match LexAlphaProofs.utf8_decode (firstn (seq_len a) bs) with
          | Some c => match decode_stream f (skipn (seq_len a) bs) with
                      | Some r => Some (c :: r)
                      | None => None
                      end
          | None => None
          end
      end
  end.

Lemma utf8_same c : utf8 c = LexAlpha.utf8 c.
Proof. reflexivity. Qed.

Lemma utf8_head c : c < 1114112 -> exists a t, utf8 c = a :: t /\ seq_len a = length (utf8 c).
Proof.
  intros Hc. unfold utf8, seq_len.
  destruct (N.ltb_spec c 128) as [H1|H1].
  { eexists _, _. split; [reflexivity|]. destruct (N.ltb_spec c 128); [reflexivity|lia]. }
  destruct (N.ltb_spec c 2048) as [H2|H2].
  { eexists _, _. split; [reflexivity|]. assert (c / 64 < 32) by (apply N.div_lt_upper_bound; lia).
    set (q := c / 64) in *. clearbody q.
    destruct (N.ltb_spec (192 + q) 128); [lia|]. destruct (N.ltb_spec (192 + q) 224); [reflexivity|lia]. }
  destruct (N.ltb_spec c 65536) as [H3|H3].
  { eexists _, _. split; [reflexivity|]. assert (c / 4096 < 16) by (apply N.div_lt_upper_bound; lia).
    set (q := c / 4096) in *. clearbody q.
    destruct (N.ltb_spec (224 + q) 128); [lia|]. destruct (N.ltb_spec (224 + q) 224); [lia|].
    destruct (N.ltb_spec (224 + q) 240); [reflexivity|lia]. }
  eexists _, _. split; [reflexivity|]. set (q := c / 262144) in *. clearbody q.
  destruct (N.ltb_spec (240 + q) 128); [lia|]. destruct (N.ltb_spec (240 + q) 224); [lia|].
  destruct (N.ltb_spec (240 + q) 240); [lia|reflexivity].
Qed.

Lemma decode_step f c rest : c < 1114112 ->
  decode_stream (S f) (utf8 c ++ rest) =
  match decode_stream f rest with Some r => Some (c :: r) | None => None end.
Proof.
  intros Hlt. destruct (utf8_head c Hlt) as (a & t & E & Hlen).
  destruct (LexAlphaProofs.utf8_roundtrip c Hlt) as [Hdec _]. rewrite <- utf8_same in Hdec.
  rewrite E in *. cbn [app decode_stream]. rewrite Hlen.
  change (a :: t ++ rest) with ((a :: t) ++ rest). rewrite FuzzerDeltaProofs.firstn_app_exact, Hdec.
  replace (skipn (length (a :: t)) ((a :: t) ++ rest)) with rest
    by (rewrite skipn_app, skipn_all, Nat.sub_diag; reflexivity).
  reflexivity.
Qed.

Lemma decode_encode : forall s, forallb scalar s = true -> decode_stream (S (length s)) (encode s) = Some s.
Proof.
  induction s as [|c s IH]; intros Hs; [reflexivity|]. cbn [forallb] in Hs. apply andb_true_iff in Hs as [Hc Hs].
  assert (Hlt : c < 1114112) by (unfold scalar in Hc; b2p; lia).
  cbn [length encode flat_map]. fold (encode s). rewrite decode_step by exact Hlt. now rewrite (IH Hs).
Qed.

(* the bytes are the UTF-8 encoding of a sequence of Unicode scalar values,
   and an independent decoder gives that sequence back *)
Theorem emit_utf8 fuel cs cap pct :
  let text := emit fuel cs cap pct in
  emit_bytes fuel cs cap pct = encode text /\ forallb scalar text = true /\
  decode_stream (S (length text)) (emit_bytes fuel cs cap pct) = Some text.
Proof.
  cbv zeta. pose proof (emit_scalar fuel cs cap pct) as Hs.
  split; [reflexivity|]. split; [exact Hs|]. now apply decode_encode.
Qed.

(* the arithmetic behind `capacity = kb * 1096` and `percentage = 95` *)
Lemma kb_arithmetic kb len : 95 * (kb * 1096) <= 100 * len -> kb * 1024 <= len.
Proof. lia. Qed.

(* ========================================================================== *)
(* 4. do_fuzzing as a whole                                                   *)
(* ========================================================================== *)
Theorem fuzz_tokens_correct cs kb : 1 <= kb -> fst (fuzz_tokens cs kb) = Finished ->
  let src := snd (fuzz_tokens cs kb) in
  exists text,
    src = encode text /\ forallb scalar text = true /\ decode_stream (S (length text)) src = Some text /\
    kb * 1024 <= lenN src /\
    (forall t, In t (lex_alpha text) -> kind t <> KError) /\
    (lex_delta src = [err_tok0 E102] \/ lex_delta src = [err_tok0 E103] \/
     forall t, In t (lex_delta src) -> kind t <> KError).
Proof.
  intros Hkb Hf. cbv zeta. pose proof (size_at_least cs kb Hf) as Hsize.
  unfold fuzz_tokens in *. cbn [fst snd] in *.
  set (fuel := S (length cs)) in *. set (cap := kb * 1096) in *.
  change (buf_bytes (fbuf (snd (emit_run fuel cs cap 95)))) with (emit_bytes fuel cs cap 95) in *.
  exists (emit fuel cs cap 95).
  destruct (emit_utf8 fuel cs cap 95) as (H1 & H2 & H3).
  assert (Hne : emit fuel cs cap 95 <> []).
  { intros E. unfold emit_bytes in Hsize. rewrite E in Hsize. cbn in Hsize. lia. }
  repeat split; try assumption.
  - now apply no_glue_error_alpha.
  - destruct (no_glue_error_delta fuel cs cap 95) as [H|[H|[H|H]]]; auto.
    exfalso. destruct (FuzzerDeltaProofs.lex_delta_global_error _ _ H) as [[_ E]|[[E _]|E]]; try discriminate E.
    rewrite E in Hsize. cbn in Hsize. lia.
Qed.

(* ========================================================================== *)
(* 5. A run                                                                   *)
(* ========================================================================== *)
(* a linear congruential generator as the source of choices *)
Fixpoint lcg (n : nat) (s : N) : list N :=
  match n with
  | O => []
  | S n' =>
      let s' := (s * 6364136223846793005 + 1442695040888963407) mod 18446744073709551616 in
      (s' / 65536) :: lcg n' s'
  end.

Definition count_errors (l : list tok) : N :=
  N.of_nat (length (filter (fun t => match kind t with KError => true | _ => false end) l)).

(* 3000 draws: 2034 characters in 2085 bytes, 432 tokens from each lexer, none
   of them an error; the capacity doubled on the way (a push overflowed the 1096
   bytes before 95% were reached) *)
Example run_lcg :
  let r := emit_run 4000 (lcg 3000 7) 1096 95 in
  let text := buf_text (fbuf (snd r)) in
  let src := encode text in
  fst r = Finished /\ lenN text = 2034 /\ lenN src = 2085 /\ bcap (fbuf (snd r)) = 2192 /\
  count_errors (lex_delta src) = 0 /\ count_errors (lex_alpha text) = 0 /\
  N.of_nat (length (lex_delta src)) = 432 /\ N.of_nat (length (lex_alpha text)) = 432.
Proof. vm_compute. repeat split; reflexivity. Qed.

(* do_fuzzing with kb = 1 and another seed *)
Example run_fuzz_tokens :
  let r := fuzz_tokens (lcg 2500 2024) 1 in
  fst r = Finished /\ 1024 <= lenN (snd r) /\ count_errors (lex_delta (snd r)) = 0.
Proof. vm_compute. repeat split; try reflexivity; discriminate. Qed.

Print Assumptions needs_space_exact.
Print Assumptions no_glue_error_alpha.
Print Assumptions no_glue_error_delta.
Print Assumptions no_glue_error_delta_loop.
Print Assumptions no_glue_error_delta_small.
Print Assumptions no_glue_error_delta_refuted.
Print Assumptions emit_token_lexes_delta.
Print Assumptions emit_token_lexes_alpha.
Print Assumptions pairwise_no_error.
Print Assumptions emit_utf8.
Print Assumptions size_at_least.
Print Assumptions fuzz_tokens_correct.
Print Assumptions token_reachable.
Print Assumptions fuzz_tokens_fuel.
Print Assumptions fuzz_tokens_status.
Print Assumptions token_spelled.
Print Assumptions emit_atoms.
