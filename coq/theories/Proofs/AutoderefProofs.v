(* Theorems about PV.Model.Autoderef: the coercion lattice of value_type.rs, the
   autoderef elaboration of typer.rs and its consumer generate_autocoerce. *)
From PV Require Import Base.Common Model.TypeLegal Model.Autoderef.
From PV Require Gen.Limits.

(* ======================================================================= *)
(* 1. Lattice sanity                                                          *)
(* ======================================================================= *)

Lemma prim_eqb_eq a b : prim_eqb a b = true <-> a = b.
Proof. destruct a, b; vm_compute; split; congruence. Qed.

Lemma prim_eqb_refl a : prim_eqb a a = true.
Proof. now apply prim_eqb_eq. Qed.

Lemma oname_eqb_eq a b : oname_eqb a b = true <-> a = b.
Proof.
  destruct a as [x|], b as [y|]; cbn [oname_eqb]; try (split; congruence).
  rewrite N.eqb_eq. split; congruence.
Qed.

Lemma vt_eqb_eq : forall a b, vt_eqb a b = true <-> a = b.
Proof.
  induction a as [k|e IH n|e IH c|e IH|e IH|e IH|e IH|i|i n|i|d IH|d IH];
    destruct b as [k'|e' n'|e' c'|e'|e'|e'|e'|i'|i' n'|i'|d'|d'];
    cbn [vt_eqb]; try (split; discriminate).
  - rewrite prim_eqb_eq. split; congruence.
  - rewrite andb_true_iff, IH, N.eqb_eq. split; [intros [-> ->]; reflexivity|intros [= -> ->]; auto].
  - rewrite andb_true_iff, IH, N.eqb_eq. split; [intros [-> ->]; reflexivity|intros [= -> ->]; auto].
  - rewrite IH. split; congruence.
  - rewrite IH. split; congruence.
  - rewrite IH. split; congruence.
  - rewrite IH. split; congruence.
  - rewrite N.eqb_eq. split; congruence.
  - rewrite andb_true_iff, !N.eqb_eq. split; [intros [-> ->]; reflexivity|intros [= -> ->]; auto].
  - rewrite oname_eqb_eq. split; congruence.
  - rewrite IH. split; congruence.
  - rewrite IH. split; congruence.
Qed.

Lemma vt_eqb_refl a : vt_eqb a a = true.
Proof. now apply vt_eqb_eq. Qed.

Lemma vt_eqb_neq a b : vt_eqb a b = false <-> a <> b.
Proof.
  destruct (vt_eqb a b) eqn:E.
  - apply vt_eqb_eq in E. split; [discriminate|congruence].
  - split; [|reflexivity]. intros _ H. apply vt_eqb_eq in H. congruence.
Qed.

Lemma vt_eqb_sym a b : vt_eqb a b = vt_eqb b a.
Proof.
  destruct (vt_eqb a b) eqn:E.
  - apply vt_eqb_eq in E. subst. now rewrite vt_eqb_refl.
  - symmetry. apply vt_eqb_neq. apply vt_eqb_neq in E. congruence.
Qed.

(* -- equals is an equivalence relation; its only non-trivial class is {Char8, Uint8} -- *)

Lemma equals_refl : forall a, equals a a = true.
Proof.
  induction a; cbn [equals]; rewrite ?N.eqb_refl, ?IHa; try reflexivity;
    try apply vt_eqb_refl.
  - now rewrite vt_eqb_refl.
  - now rewrite vt_eqb_refl.
Qed.

Lemma oname_eqb_sym a b : oname_eqb a b = oname_eqb b a.
Proof. destruct a, b; cbn [oname_eqb]; try reflexivity. apply N.eqb_sym. Qed.

Lemma equals_sym : forall a b, equals a b = equals b a.
Proof.
  induction a as [k|e IH n|e IH c|e IH|e IH|e IH|e IH|i|i n|i|d IH|d IH];
    destruct b as [k'|e' n'|e' c'|e'|e'|e'|e'|i'|i' n'|i'|d'|d'];
    cbn [equals vt_eqb is_alias_of orb]; try reflexivity;
    rewrite ?IH; try reflexivity;
    try (destruct k, k'; reflexivity);
    try (destruct k; reflexivity);
    try (destruct k'; reflexivity);
    try (f_equal; apply N.eqb_sym).
  - apply N.eqb_sym.
  - rewrite !orb_false_r. apply oname_eqb_sym.
Qed.

Lemma vt_eqb_equals a b : vt_eqb a b = true -> equals a b = true.
Proof. intros H. apply vt_eqb_eq in H. subst. apply equals_refl. Qed.

Lemma equals_prim_trans k1 k2 k3 :
  equals (VPrim k1) (VPrim k2) = true -> equals (VPrim k2) (VPrim k3) = true ->
  equals (VPrim k1) (VPrim k3) = true.
Proof. destruct k1, k2; try discriminate; destruct k3; try discriminate; reflexivity. Qed.

Lemma equals_trans : forall a b c,
  equals a b = true -> equals b c = true -> equals a c = true.
Proof.
  induction a as [k|e IH n|e IH c0|e IH|e IH|e IH|e IH|i|i n|i|d IH|d IH];
    intros b c Hab Hbc.
  - (* a prim: b must be a prim *)
    destruct b as [k'| | | | | | | | | | | ];
      try (cbn in Hab; destruct k; discriminate).
    destruct c as [k''| | | | | | | | | | | ];
      try (cbn in Hbc; destruct k'; discriminate).
    eapply equals_prim_trans; eassumption.
  - destruct b; try discriminate. destruct c; try discriminate.
    cbn [equals] in *. apply andb_true_iff in Hab as [H1 H2]. apply andb_true_iff in Hbc as [H3 H4].
    apply N.eqb_eq in H1, H3. subst. rewrite N.eqb_refl. cbn. eauto.
  - destruct b; try discriminate. destruct c; try discriminate.
    cbn [equals] in *. apply andb_true_iff in Hab as [H1 H2]. apply andb_true_iff in Hbc as [H3 H4].
    apply N.eqb_eq in H1, H3. subst. rewrite N.eqb_refl. cbn. eauto.
  - destruct b; try discriminate. destruct c; try discriminate. cbn [equals] in *. eauto.
  - destruct b; try discriminate. destruct c; try discriminate. cbn [equals] in *. eauto.
  - destruct b; try discriminate. destruct c; try discriminate. cbn [equals] in *. eauto.
  - destruct b; try discriminate. destruct c; try discriminate. cbn [equals] in *. eauto.
  - cbn [equals] in Hab. apply vt_eqb_eq in Hab. subst b. exact Hbc.
  - cbn [equals] in Hab. apply vt_eqb_eq in Hab. subst b. exact Hbc.
  - destruct b as [k'| | | | | | | | |i'| | ]; try discriminate.
    + destruct k'; discriminate.
    + cbn [equals vt_eqb is_alias_of orb] in Hab. rewrite !orb_false_r in Hab.
      apply oname_eqb_eq in Hab. subst. exact Hbc.
  - destruct b; try discriminate. destruct c; try discriminate. cbn [equals] in *. eauto.
  - destruct b; try discriminate. destruct c; try discriminate. cbn [equals] in *. eauto.
Qed.

(* equals is strictly coarser than ==: the alias *)
Example equals_coarser_than_eq :
  equals (VPrim KChar8) (VPrim KUint8) = true /\ vt_eqb (VPrim KChar8) (VPrim KUint8) = false.
Proof. split; reflexivity. Qed.

Lemma is_like_refl a : is_like a a = true.
Proof.
  destruct a; cbn [is_like]; try apply vt_eqb_refl.
Qed.

Lemma can_be_concretization_of_refl : forall a, can_be_concretization_of a a = true.
Proof.
  induction a; cbn [can_be_concretization_of]; rewrite ?N.eqb_refl, ?IHa; try reflexivity;
    apply vt_eqb_refl.
Qed.

Lemma can_be_declared_as_refl a : can_be_declared_as a a = true.
Proof. destruct a; cbn [can_be_declared_as]; apply vt_eqb_refl. Qed.

(* coercion is included in autoderef, on every head *)
Lemma coerce_autoderef a b : can_coerce_into a b = true -> can_autoderef_into a b = true.
Proof.
  destruct a; cbn [can_coerce_into can_autoderef_into]; try discriminate;
    intros ->; apply orb_true_r.
Qed.

Lemma coerce_address_autoderef a b :
  can_coerce_address_into a b = true -> can_autoderef_into (VPointer a) b = true.
Proof.
  intros H. cbn [can_autoderef_into]. rewrite H. now rewrite !orb_true_r.
Qed.

(* a coercion always changes the type, even up to aliases *)
Lemma coerce_not_equals a b : can_coerce_into a b = true -> equals a b = false.
Proof.
  destruct a; cbn [can_coerce_into]; try discriminate;
    destruct b; try discriminate; reflexivity.
Qed.

Lemma coerce_irrefl a : can_coerce_into a a = false.
Proof.
  destruct (can_coerce_into a a) eqn:E; [|reflexivity].
  apply coerce_not_equals in E. now rewrite equals_refl in E.
Qed.

Lemma coerce_address_not_equals a b :
  can_coerce_address_into a b = true -> equals a b = false.
Proof.
  destruct a; cbn [can_coerce_address_into]; try discriminate;
    destruct b; try discriminate; reflexivity.
Qed.

(* a coercion target is never coercible further, except Array -> Slice -> View{Endless} *)
Example coerce_chain :
  let a := VArray (VPrim KInt32) 3 in
  let s := VSlice (VPrim KInt32) in
  let v := VView (VEndless (VPrim KInt32)) in
  can_coerce_into a s = true /\ can_coerce_into s v = true /\ can_coerce_into a v = true.
Proof. repeat split. Qed.

(* can_autoderef_into is NOT reflexive: it answers false on scalars *)
Example autoderef_into_not_reflexive : can_autoderef_into (VPrim KInt32) (VPrim KInt32) = false.
Proof. reflexivity. Qed.

(* pointer_depth *)
Lemma add_pointer_depth_ge : forall t n, (n <= add_pointer_depth t n)%N.
Proof.
  induction t; intros n0; cbn [add_pointer_depth]; try lia.
  specialize (IHt (n0 + 1)%N). lia.
Qed.

Lemma add_pointer_depth_shift : forall t n, add_pointer_depth t n = (n + add_pointer_depth t 0)%N.
Proof.
  induction t; intros n0; cbn [add_pointer_depth]; try lia.
  rewrite (IHt (n0 + 1)%N), (IHt (0 + 1)%N). lia.
Qed.

Lemma pointer_depth_pointer d : pointer_depth (VPointer d) = (1 + pointer_depth d)%N.
Proof.
  unfold pointer_depth. cbn [add_pointer_depth]. rewrite add_pointer_depth_shift. lia.
Qed.

(* ======================================================================= *)
(* 2. The loop, without its budget                                            *)
(* ======================================================================= *)

Section Loop.
Variable mt : N -> option vt.

(* one iteration of the `for`, as a function of (current_type, available_steps) *)
Inductive one : Type :=
| OneDone
| OnePanic (s : N)
| OneStep (pre : list tstep) (t' : vt) (rest : list astep).

Definition one_step (t : vt) (steps : list astep) : one :=
  match steps with
  | [] => OneDone
  | s :: rest =>
      match t with
      | VPointer d =>
          match s with
          | AElement ie =>
              match d with
              | VArraylike e => OneStep [TElement ie] e rest
              | _ => OneStep [TAutoderef] d steps
              end
          | AMember _ => OneStep [TAutoderef] d steps
          end
      | VView d =>
          match s with
          | AElement ie =>
              match d with
              | VArraylike e => OneStep [TElement ie] e rest
              | _ => OneStep [TAutoview] d steps
              end
          | AMember _ => OneStep [TAutoview] d steps
          end
      | VArray e _ | VArrayNamed e _ =>
          match s with AElement _ => OneStep [TElement (Some false)] e rest | _ => OnePanic 1 end
      | VEndless e | VArraylike e =>
          match s with AElement _ => OneStep [TElement (Some true)] e rest | _ => OnePanic 1 end
      | VSlice e =>
          match s with
          | AElement _ => OneStep [TAutodesliceByView; TElement (Some false)] e rest
          | _ => OnePanic 1
          end
      | VSlicePointer e =>
          match s with
          | AElement _ => OneStep [TAutodesliceByPointer; TElement (Some false)] e rest
          | _ => OnePanic 1
          end
      | VStruct _ | VWord _ _ =>
          match s with
          | AMember m =>
              match mt m with
              | Some t' => OneStep [TMember m] t' rest
              | None => OnePanic 2
              end
          | AElement _ => OnePanic 1
          end
      | VPrim _ | VUnresolved _ => OnePanic 1
      end
  end.

Lemma loop_cons_app a b r : loop_cons (a ++ b) r = loop_cons a (loop_cons b r).
Proof. destruct r; cbn [loop_cons]; [now rewrite app_assoc|reflexivity]. Qed.

Lemma loop_cons_nil r : loop_cons [] r = r.
Proof. destruct r; reflexivity. Qed.

Lemma loop_unfold fuel t steps :
  autoderef_loop mt (S fuel) t steps =
  match one_step t steps with
  | OneDone => LoopDone [] t []
  | OnePanic s => LoopPanic s
  | OneStep pre t' rest => loop_cons pre (autoderef_loop mt fuel t' rest)
  end.
Proof.
  destruct steps as [|s rest]; [reflexivity|].
  destruct t as [k|e n|e c|e|e|e|e|i|i n|i|d|d]; destruct s as [ie|m];
    cbn [autoderef_loop one_step]; try reflexivity;
    try (destruct (mt m); reflexivity);
    destruct d; reflexivity.
Qed.

Lemma walk_unfold t steps :
  walk mt t steps =
  match one_step t steps with
  | OneDone => LoopDone [] t []
  | OnePanic s => LoopPanic s
  | OneStep pre t' rest => loop_cons pre (walk mt t' rest)
  end.
Proof.
  destruct steps as [|s rest]; [reflexivity|].
  destruct t as [k|e n|e c|e|e|e|e|i|i n|i|d|d]; destruct s as [ie|m];
    cbn [walk one_step strip_for_element strip_all fst snd loop_cons app];
    rewrite ?loop_cons_nil;
    try reflexivity;
    try (destruct (mt m); reflexivity).
  - destruct d; cbn [fst snd walk strip_for_element]; rewrite ?loop_cons_nil; try reflexivity;
      rewrite <- loop_cons_app; reflexivity.
  - rewrite <- loop_cons_app; reflexivity.
  - destruct d; cbn [fst snd walk strip_for_element]; rewrite ?loop_cons_nil; try reflexivity;
      rewrite <- loop_cons_app; reflexivity.
  - rewrite <- loop_cons_app; reflexivity.
Qed.

Lemma iterations_app a b : iterations (a ++ b) = (iterations a + iterations b)%nat.
Proof. unfold iterations. now rewrite filter_app, app_length. Qed.

Lemma one_step_iterations t steps pre t' rest :
  one_step t steps = OneStep pre t' rest -> iterations pre = 1%nat.
Proof.
  destruct steps as [|s r]; [discriminate|].
  destruct t as [k|e n|e c|e|e|e|e|i|i n|i|d|d]; destruct s as [ie|m];
    cbn [one_step]; try discriminate;
    try (destruct (mt m); try discriminate);
    try (destruct d);
    intros [= <- <- <-]; reflexivity.
Qed.

(* Whatever the budget, a panic of the loop is a panic of the walk, and a loop that
   consumed every step computed what the walk computes. *)
Lemma loop_sound : forall fuel t steps,
  match autoderef_loop mt fuel t steps with
  | LoopPanic s => walk mt t steps = LoopPanic s
  | LoopDone taken ct [] => walk mt t steps = LoopDone taken ct []
  | LoopDone _ _ (_ :: _) => True
  end.
Proof.
  induction fuel as [|fuel IH]; intros t steps.
  - cbn [autoderef_loop]. destruct steps; [reflexivity|exact I].
  - rewrite loop_unfold, walk_unfold.
    destruct (one_step t steps) as [|s|pre t' rest]; try reflexivity.
    specialize (IH t' rest).
    destruct (autoderef_loop mt fuel t' rest) as [taken ct [|x xs]|s];
      cbn [loop_cons]; try exact I; rewrite IH; reflexivity.
Qed.

Lemma loop_cons_done pre r taken ct rest :
  loop_cons pre r = LoopDone taken ct rest ->
  exists taken', r = LoopDone taken' ct rest /\ taken = pre ++ taken'.
Proof.
  destruct r as [tk c rs|s]; cbn [loop_cons]; [|discriminate].
  intros [= <- <- <-]. eauto.
Qed.

(* With enough budget the loop is the walk. *)
Lemma loop_complete : forall fuel t steps taken ct,
  walk mt t steps = LoopDone taken ct [] ->
  (iterations taken <= fuel)%nat ->
  autoderef_loop mt fuel t steps = LoopDone taken ct [].
Proof.
  induction fuel as [|fuel IH]; intros t steps taken ct Hw Hle.
  - rewrite walk_unfold in Hw. cbn [autoderef_loop].
    destruct (one_step t steps) as [|s|pre t' rest] eqn:E1.
    + destruct steps; [|destruct t; destruct a; discriminate E1 || (cbn in E1; repeat (match type of E1 with context [match ?x with _ => _ end] => destruct x end); discriminate)].
      injection Hw as <- <-. reflexivity.
    + discriminate.
    + apply loop_cons_done in Hw as [tk [_ ->]].
      rewrite iterations_app, (one_step_iterations _ _ _ _ _ E1) in Hle. lia.
  - rewrite walk_unfold in Hw. rewrite loop_unfold.
    destruct (one_step t steps) as [|s|pre t' rest] eqn:E1.
    + exact Hw.
    + discriminate.
    + apply loop_cons_done in Hw as [tk [Hw' ->]].
      rewrite iterations_app, (one_step_iterations _ _ _ _ _ E1) in Hle.
      rewrite (IH t' rest tk ct Hw'); [reflexivity|lia].
Qed.

(* -- what get_type_of_reference accepts, the walk accepts --------------------------- *)

Lemma walk_fits : forall steps t x,
  ref_final mt (fully_dereferenced t) steps = Some x ->
  exists taken ct, walk mt t steps = LoopDone taken ct [] /\ fully_dereferenced ct = x.
Proof.
  induction steps as [|s rest IHs]; intros t x H.
  - cbn in H. injection H as <-. exists [], t. split; reflexivity.
  - revert H.
    induction t as [k|e _ n|e _ c|e _|e _|e _|e _|i|i n|i|d IHd|d IHd]; intros H;
      rewrite walk_unfold; destruct s as [ie|m]; cbn [one_step];
      cbn [fully_dereferenced ref_final get_element_type] in H; try discriminate H;
      try (destruct (IHs _ _ H) as (tk & ct & Hw & Hfd); rewrite Hw; cbn [loop_cons];
           eexists _, _; split; [reflexivity|exact Hfd]);
      try (destruct (mt m) as [t'|]; [|discriminate H];
           destruct (IHs _ _ H) as (tk & ct & Hw & Hfd); rewrite Hw; cbn [loop_cons];
           eexists _, _; split; [reflexivity|exact Hfd]);
      try (destruct (IHd H) as (tk & ct & Hw & Hfd); rewrite Hw; cbn [loop_cons];
           eexists _, _; split; [reflexivity|exact Hfd]).
    + destruct d;
        try (destruct (IHd H) as (tk & ct & Hw & Hfd); rewrite Hw; cbn [loop_cons];
             eexists _, _; split; [reflexivity|exact Hfd]).
      cbn [fully_dereferenced ref_final get_element_type] in H.
      destruct (IHs _ _ H) as (tk & ct & Hw & Hfd); rewrite Hw; cbn [loop_cons];
        eexists _, _; split; [reflexivity|exact Hfd].
    + destruct d;
        try (destruct (IHd H) as (tk & ct & Hw & Hfd); rewrite Hw; cbn [loop_cons];
             eexists _, _; split; [reflexivity|exact Hfd]).
      cbn [fully_dereferenced ref_final get_element_type] in H.
      destruct (IHs _ _ H) as (tk & ct & Hw & Hfd); rewrite Hw; cbn [loop_cons];
        eexists _, _; split; [reflexivity|exact Hfd].
Qed.

(* -- how many iterations the walk costs ------------------------------------------------ *)

Lemma runs_ok_run p t : runs_ok p t = true -> (ptr_run t <= p)%nat.
Proof.
  destruct t; cbn [runs_ok]; intros H; apply andb_true_iff in H as [H _];
    now apply Nat.leb_le in H.
Qed.

Lemma runs_ok_sub p t :
  runs_ok p t = true ->
  match t with
  | VArray e _ | VArrayNamed e _ | VSlice e | VSlicePointer e | VEndless e | VArraylike e
  | VPointer e | VView e => runs_ok p e = true
  | _ => True
  end.
Proof.
  destruct t; cbn [runs_ok]; intros H; apply andb_true_iff in H as [_ H]; auto.
Qed.

Section Bound.
Variable p : nat.
Hypothesis Hmt : forall m t, mt m = Some t -> runs_ok p t = true.

Lemma walk_iterations : forall steps t taken ct,
  runs_ok p t = true ->
  walk mt t steps = LoopDone taken ct [] ->
  (iterations taken <= length steps * S p)%nat.
Proof.
  induction steps as [|s rest IHs]; intros t taken ct Hok Hw.
  - cbn in Hw. injection Hw as <- <-. cbn. lia.
  - (* strengthened: the cost of the first step is bounded by the run in front of it *)
    enough (Hs : (iterations taken <= ptr_run t + 1 + length rest * S p)%nat).
    { apply runs_ok_run in Hok. cbn [length]. lia. }
    clear Hok0 || idtac.
    revert taken Hok Hw.
    induction t as [k|e _ n|e _ c|e _|e _|e _|e _|i|i n|i|d IHd|d IHd]; intros taken Hok Hw;
      rewrite walk_unfold in Hw; destruct s as [ie|m]; cbn [one_step] in Hw;
      try discriminate Hw;
      try (apply loop_cons_done in Hw as (tk & Hw & ->);
           apply runs_ok_sub in Hok;
           specialize (IHs _ _ _ Hok Hw); rewrite iterations_app;
           cbn [ptr_run]; unfold iterations at 1; cbn [filter is_deslice negb length]; lia).
    + destruct (mt m) as [t'|] eqn:Em; [|discriminate Hw].
      apply loop_cons_done in Hw as (tk & Hw & ->).
      specialize (IHs _ _ _ (Hmt _ _ Em) Hw). rewrite iterations_app.
      cbn [ptr_run]; unfold iterations at 1; cbn [filter is_deslice negb length]; lia.
    + destruct (mt m) as [t'|] eqn:Em; [|discriminate Hw].
      apply loop_cons_done in Hw as (tk & Hw & ->).
      specialize (IHs _ _ _ (Hmt _ _ Em) Hw). rewrite iterations_app.
      cbn [ptr_run]; unfold iterations at 1; cbn [filter is_deslice negb length]; lia.
    + pose proof (runs_ok_sub _ _ Hok) as Hd. cbn beta iota in Hd.
      destruct d;
        try (apply loop_cons_done in Hw as (tk & Hw & ->);
             specialize (IHd _ Hd Hw); rewrite iterations_app;
             cbn [ptr_run] in *; unfold iterations at 1; cbn [filter is_deslice negb length]; lia).
      apply loop_cons_done in Hw as (tk & Hw & ->).
      apply runs_ok_sub in Hd.
      specialize (IHs _ _ _ Hd Hw). rewrite iterations_app.
      cbn [ptr_run]; unfold iterations at 1; cbn [filter is_deslice negb length]; lia.
    + pose proof (runs_ok_sub _ _ Hok) as Hd. cbn beta iota in Hd.
      apply loop_cons_done in Hw as (tk & Hw & ->).
      specialize (IHd _ Hd Hw); rewrite iterations_app;
        cbn [ptr_run] in *; unfold iterations at 1; cbn [filter is_deslice negb length]; lia.
    + pose proof (runs_ok_sub _ _ Hok) as Hd. cbn beta iota in Hd.
      destruct d;
        try (apply loop_cons_done in Hw as (tk & Hw & ->);
             specialize (IHd _ Hd Hw); rewrite iterations_app;
             cbn [ptr_run] in *; unfold iterations at 1; cbn [filter is_deslice negb length]; lia).
      apply loop_cons_done in Hw as (tk & Hw & ->).
      apply runs_ok_sub in Hd.
      specialize (IHs _ _ _ Hd Hw). rewrite iterations_app.
      cbn [ptr_run]; unfold iterations at 1; cbn [filter is_deslice negb length]; lia.
    + pose proof (runs_ok_sub _ _ Hok) as Hd. cbn beta iota in Hd.
      apply loop_cons_done in Hw as (tk & Hw & ->).
      specialize (IHd _ Hd Hw); rewrite iterations_app;
        cbn [ptr_run] in *; unfold iterations at 1; cbn [filter is_deslice negb length]; lia.
Qed.

End Bound.

End Loop.

(* ======================================================================= *)
(* 3. Totality: when does autoderef panic?                                    *)
(* ======================================================================= *)

Lemma max_steps_Z : Z.of_nat max_num_autoderef_steps = 16383%Z.
Proof.
  unfold max_num_autoderef_steps. rewrite Z2Nat.id; [reflexivity|].
  unfold Limits.max_reference_depth, Limits.max_address_depth. lia.
Qed.

(* the longest run of Pointer / View constructors the budget was computed for:
   MAX_ADDRESS_DEPTH pointers and one view *)
Definition run_limit : nat := Z.to_nat (Limits.max_address_depth + 1).

Lemma run_limit_Z : Z.of_nat run_limit = 128%Z.
Proof.
  unfold run_limit. rewrite Z2Nat.id; [reflexivity|].
  unfold Limits.max_address_depth. lia.
Qed.

Definition types_within (mt : N -> option vt) (known : vt) : Prop :=
  runs_ok run_limit known = true /\
  forall m t, mt m = Some t -> runs_ok run_limit t = true.

Definition steps_within (steps : list astep) : Prop :=
  (Z.of_nat (length steps) <= Limits.max_reference_depth)%Z.

(* The loop never panics on a reference that get_type_of_reference accepted, and within
   the limits it consumes every step: the budget suffices. *)
Theorem loop_total mt known steps :
  fits mt known steps = true ->
  steps_within steps ->
  types_within mt known ->
  exists taken ct,
    autoderef_loop mt max_num_autoderef_steps known steps = LoopDone taken ct [] /\
    walk mt known steps = LoopDone taken ct [] /\
    ref_final mt (fully_dereferenced known) steps = Some (fully_dereferenced ct).
Proof.
  intros Hfits Hsteps [Hk Hm]. unfold fits in Hfits.
  destruct (ref_final mt (fully_dereferenced known) steps) as [x|] eqn:Ex; [|discriminate].
  destruct (walk_fits mt steps known x Ex) as (taken & ct & Hw & Hfd).
  exists taken, ct. split; [|split; [exact Hw|now rewrite Hfd]].
  apply loop_complete; [exact Hw|].
  pose proof (walk_iterations mt run_limit Hm steps known taken ct Hk Hw) as Hb.
  pose proof max_steps_Z as HM. pose proof run_limit_Z as HR.
  unfold steps_within, Limits.max_reference_depth in Hsteps.
  apply Nat2Z.inj_le. rewrite HM.
  apply Nat2Z.inj_le in Hb. rewrite Nat2Z.inj_mul, Nat2Z.inj_succ, HR in Hb. lia.
Qed.

(* -- the class D11 ----------------------------------------------------------------- *)

(* (with the take-address arm of the pinned source there was a third conjunct under
   ad = 1: target <> Pointer ct; see [no_solution_pinned]) *)
Definition no_solution (ct target : vt) (ad : N) : bool :=
  is_slice_pointer ct &&
  (N.eqb ad 0 || (N.eqb ad 1 && negb (vt_eqb ct target))).

Lemma slice_pointer_target_depth e target :
  vt_eqb (VSlicePointer e) target = true -> N.eqb (pointer_depth target) 0 = false.
Proof. intros H. apply vt_eqb_eq in H. subst. reflexivity. Qed.

Lemma slice_pointer_coerce_depth e target :
  can_coerce_into (VSlicePointer e) target = true -> N.eqb (pointer_depth target) 0 = false.
Proof.
  destruct target; cbn [can_coerce_into]; try discriminate. intros _.
  rewrite pointer_depth_pointer. apply N.eqb_neq. lia.
Qed.

Ltac unfold_finish :=
  unfold autoderef_finish, autoderef_finish_pinned, autoderef_finish_gen;
  cbn [address_arm_cond].

Lemma finish_panic_iff taken ct target ad s :
  autoderef_finish taken ct target ad = ADPanic s <->
  s = 3%N /\ no_solution ct target ad = true.
Proof.
  unfold_finish. unfold no_solution.
  destruct (is_slice_pointer ct) eqn:Esp.
  - destruct ct; try discriminate Esp. rename ct into e.
    change (pointer_depth (VSlicePointer e)) with 1%N.
    change (1 + 1)%N with 2%N. change (2 + 1)%N with 3%N.
    cbn [get_viewee_type opt_vt_eqb can_coerce_address_into andb is_slice_pointer].
    rewrite !andb_false_r.
    destruct (N.eqb_spec ad 0) as [->|Hn0].
    + (* address_depth = 0: always the panic *)
      cbn [andb orb N.eqb N.ltb N.compare].
      assert (H1 : N.eqb (pointer_depth target) 0 && vt_eqb (VSlicePointer e) target = false).
      { destruct (vt_eqb (VSlicePointer e) target) eqn:E; [|apply andb_false_r].
        now rewrite (slice_pointer_target_depth _ _ E). }
      assert (H3 : N.eqb (pointer_depth target) 0 && can_coerce_into (VSlicePointer e) target = false).
      { destruct (can_coerce_into (VSlicePointer e) target) eqn:E; [|apply andb_false_r].
        now rewrite (slice_pointer_coerce_depth _ _ E). }
      rewrite H1, H3. cbn. split; [intros [= <-]; auto|intros [-> _]; reflexivity].
    + cbn [andb orb].
      destruct (N.eqb_spec ad 1) as [->|Hn1].
      * cbn [andb N.eqb Pos.eqb]. destruct (vt_eqb (VSlicePointer e) target); cbn [negb andb];
          [split; [discriminate|intros [_ H]; discriminate]|].
        cbn. split; [intros [= <-]; auto|intros [-> _]; reflexivity].
      * cbn [andb].
        destruct (N.eqb ad 2 && opt_vt_eqb (get_pointee_type target) (VSlicePointer e));
          [split; [discriminate|intros [_ H]; discriminate]|].
        destruct (N.leb_spec 3 ad) as [Hle|Hgt]; [split; [discriminate|intros [_ H]; discriminate]|].
        assert (ad = 2%N) as -> by lia. cbn.
        split; [discriminate|intros [_ H]; discriminate].
  - cbn [andb].
    repeat match goal with
           | |- context [if ?c then _ else _] => destruct c
           end; split; try discriminate; intros [_ H]; discriminate.
Qed.

(* Exact characterisation, whatever the inputs. *)
Theorem autoderef_panic_iff mt known target steps ad s :
  autoderef mt known target steps ad = ADPanic s <->
  match autoderef_loop mt max_num_autoderef_steps known steps with
  | LoopPanic s' => s = s'
  | LoopDone _ ct _ => s = 3%N /\ no_solution ct target ad = true
  end.
Proof.
  unfold autoderef.
  destruct (autoderef_loop mt max_num_autoderef_steps known steps) as [taken ct rest|s'].
  - apply finish_panic_iff.
  - split; [intros [= <-]; reflexivity|intros ->; reflexivity].
Qed.

(* the type the reference designates before the address is taken, None if it does not fit *)
Definition final_type (mt : N -> option vt) (known : vt) (steps : list astep) : option vt :=
  match walk mt known steps with
  | LoopDone _ ct [] => Some ct
  | _ => None
  end.

(* the boolean predicate on the inputs *)
Definition autoderef_panics (mt : N -> option vt) (known target : vt) (steps : list astep)
           (ad : N) : bool :=
  match final_type mt known steps with
  | Some ct => no_solution ct target ad
  | None => false
  end.

(* For a reference that the typer accepted and that is within the limits: the only
   panic is the "no solution" one, and it happens exactly on [autoderef_panics]. *)
Theorem autoderef_no_solution_iff mt known target steps ad :
  fits mt known steps = true ->
  steps_within steps ->
  types_within mt known ->
  forall s,
    autoderef mt known target steps ad = ADPanic s <->
    s = 3%N /\ autoderef_panics mt known target steps ad = true.
Proof.
  intros Hfits Hsteps Htypes s.
  destruct (loop_total mt known steps Hfits Hsteps Htypes) as (taken & ct & Hl & Hw & _).
  rewrite autoderef_panic_iff, Hl.
  unfold autoderef_panics, final_type. rewrite Hw. reflexivity.
Qed.

Corollary autoderef_loop_never_panics mt known target steps ad :
  fits mt known steps = true ->
  steps_within steps ->
  types_within mt known ->
  autoderef mt known target steps ad <> ADPanic 1 /\
  autoderef mt known target steps ad <> ADPanic 2.
Proof.
  intros Hfits Hsteps Htypes.
  split; intros H; apply (autoderef_no_solution_iff _ _ _ _ _ Hfits Hsteps Htypes) in H;
    destruct H as [H _]; discriminate H.
Qed.

(* In source terms: the reference ends in a slice pointer (a parameter `data: &[]T`, or a
   member / element of that type cannot exist) and is used bare, or with one `&` where
   anything else than `&[]T` itself is expected. *)
Corollary autoderef_no_solution_shape mt known target steps ad :
  autoderef_panics mt known target steps ad = true ->
  exists e, final_type mt known steps = Some (VSlicePointer e) /\ (ad = 0 \/ ad = 1)%N.
Proof.
  unfold autoderef_panics. destruct (final_type mt known steps) as [ct|]; [|discriminate].
  unfold no_solution. intros H. apply andb_true_iff in H as [Hsp H].
  destruct ct; try discriminate Hsp. eexists; split; [reflexivity|].
  apply orb_true_iff in H as [H|H].
  - left. now apply N.eqb_eq.
  - right. apply andb_true_iff in H as [H _]. now apply N.eqb_eq.
Qed.

Definition no_members (m : N) : option vt := None.
Definition i32 := VPrim KInt32.

(* D11, tests/samples/valid/autoderef_edge_cases.pn:
     fn use_slice_ptr(data: &[]i32) { use_slice(data); ... use_ptr_to_endless(&data); } *)
Example d11_use_slice :
  analyze_deref no_members (VSlicePointer i32) [] 0 (Some (VSlice i32)) = Some (ADPanic 3).
Proof. vm_compute. reflexivity. Qed.

Example d11_use_ptr_to_endless :
  analyze_deref no_members (VSlicePointer i32) [] 1 (Some (VPointer (VEndless i32)))
  = Some (ADPanic 3).
Proof. vm_compute. reflexivity. Qed.

(* no contextual type is needed: `var y = data;` *)
Example d11_no_context :
  analyze_deref no_members (VSlicePointer i32) [] 0 None = Some (ADPanic 3).
Proof. vm_compute. reflexivity. Qed.

(* the two uses of the sample that work *)
Example d11_ok_same :
  analyze_deref no_members (VSlicePointer i32) [] 1 (Some (VSlicePointer i32))
  = Some (ADOk [] false (VSlicePointer i32) None).
Proof. vm_compute. reflexivity. Qed.

Example d11_witness_within_limits :
  fits no_members (VSlicePointer i32) [] = true /\ steps_within [] /\
  types_within no_members (VSlicePointer i32).
Proof.
  split; [reflexivity|]. split; [unfold steps_within, Limits.max_reference_depth; cbn; lia|].
  split; [vm_compute; reflexivity|discriminate].
Qed.

(* -- the budget ----------------------------------------------------------------------- *)

Fixpoint ptrs (n : nat) (t : vt) : vt :=
  match n with O => t | S n' => VPointer (ptrs n' t) end.

(* n nested arrays, each behind k pointers *)
Fixpoint tower (n k : nat) (t : vt) : vt :=
  match n with O => t | S n' => ptrs k (VArray (tower n' k t) 1) end.

Definition dropped_of (r : loop_result) : nat :=
  match r with LoopDone _ _ rest => length rest | LoopPanic _ => 0%nat end.

(* the budget of the pinned commit, MAX_REFERENCE_DEPTH + MAX_ADDRESS_DEPTH = 254, was too
   small: `a[0][0]` on  &^127 [1] &^127 [1] i32  needs 256 iterations (defect D61) *)
Example old_budget_drops_a_step :
  let t := tower 2 127 i32 in
  runs_ok run_limit t = true /\
  dropped_of (autoderef_loop no_members 254 t [AElement None; AElement None]) = 1%nat /\
  dropped_of (autoderef_loop no_members max_num_autoderef_steps t
                             [AElement None; AElement None]) = 0%nat.
Proof. vm_compute. repeat split. Qed.

(* tightness: 127 steps, each behind 127 pointers, the first also behind a view: 16257
   iterations (the constant 16383 leaves 126 spare) *)
Example budget_tight :
  let t := VView (tower 127 127 i32) in
  let steps := repeat (AElement None) 127 in
  is_wellformed t = true /\ runs_ok run_limit t = true /\
  dropped_of (autoderef_loop no_members (Z.to_nat 16257) t steps) = 0%nat /\
  dropped_of (autoderef_loop no_members (Z.to_nat 16256) t steps) = 1%nat.
Proof. vm_compute. repeat split. Qed.

(* FINDING: the parser does not limit the number of `&` in a written TYPE
   (parser.rs:750 parse_inner_type recurses without a depth check; MAX_ADDRESS_DEPTH only
   limits `&` in expressions).  A structure whose link is a pointer of depth 129 exhausts
   the budget: hypothesis [types_within] of [loop_total] cannot be dropped.
     struct Node { next: &^129 Node, value: i32 }   fn f(n: &^129 Node) { n.next. ... .next }
   The remaining steps are silently dropped. *)
Definition deep_members (m : N) : option vt :=
  match m with 1%N => Some (ptrs 129 (VStruct 5%N)) | _ => None end.

Example deep_pointer_type_exhausts_budget :
  let known := ptrs 129 (VStruct 5%N) in
  let steps := repeat (AMember 1) 127 in
  is_wellformed known = true /\ fits deep_members known steps = true /\ steps_within steps /\
  dropped_of (autoderef_loop deep_members max_num_autoderef_steps known steps) = 1%nat.
Proof.
  cbv zeta. split; [vm_compute; reflexivity|]. split; [vm_compute; reflexivity|].
  split; [unfold steps_within, Limits.max_reference_depth; rewrite repeat_length; lia|].
  vm_compute. reflexivity.
Qed.

(* ======================================================================= *)
(* 4. Typer / generator agreement                                             *)
(* ======================================================================= *)

(* the three arms autoderef's own coercions can reach *)
Definition arm_simple (a : arm) : bool :=
  match a with ArmArraySlice | ArmExtArrayView | ArmView => true | _ => false end.

Lemma arm_simple_ok a : arm_simple a = true -> arm_ok a = true.
Proof. destruct a; try discriminate; reflexivity. Qed.

Lemma coerce_arm env b ct target :
  can_coerce_into ct target = true ->
  arm_simple (autocoerce_arm (EDeref b (resolve_vt env ct)) (resolve_vt env target)) = true.
Proof.
  destruct ct; cbn [can_coerce_into]; try discriminate;
    destruct target as [k|e' n'|e' c'|e'|e'|e'|e'|i'|i' n'|i'|d'|d']; try discriminate;
    try (destruct d'; try discriminate); intros H; reflexivity.
Qed.

Lemma coerce_address_arm env ct target :
  can_coerce_address_into ct target = true ->
  arm_simple (autocoerce_arm (EDeref true (resolve_vt env (VPointer ct))) (resolve_vt env target))
  = true.
Proof.
  destruct ct; cbn [can_coerce_address_into]; try discriminate;
    destruct target as [k|e' n'|e' c'|e'|e'|e'|e'|i'|i' n'|i'|d'|d']; try discriminate;
    try (destruct d'; try discriminate); intros H; reflexivity.
Qed.

Lemma finish_coerced taken ct target ad tk ta dt c :
  autoderef_finish taken ct target ad = ADOk tk ta dt (Some c) ->
  c = target /\
  ((ta = false /\ dt = ct /\ can_coerce_into ct target = true) \/
   (ta = true /\ dt = VPointer ct /\ can_coerce_address_into ct target = true)).
Proof.
  unfold_finish.
  repeat match goal with
         | |- context [if ?b then _ else _] => destruct b eqn:?
         end; intros [= <- <- <- <-]; split; try reflexivity.
  - left. repeat split.
    match goal with H : _ && can_coerce_into _ _ = true |- _ =>
      apply andb_true_iff in H as [_ H]; exact H end.
  - right. repeat split.
    match goal with H : _ && can_coerce_address_into _ _ = true |- _ =>
      apply andb_true_iff in H as [_ H]; exact H end.
Qed.

(* Every Autocoerce that autoderef itself builds reaches an implemented arm of
   generate_autocoerce -- once named lengths are resolved. *)
Theorem autoderef_coercion_implemented mt env known target steps ad tk ta dt c :
  autoderef mt known target steps ad = ADOk tk ta dt (Some c) ->
  arm_simple (autocoerce_arm (EDeref ta (resolve_vt env dt)) (resolve_vt env c)) = true.
Proof.
  unfold autoderef.
  destruct (autoderef_loop mt max_num_autoderef_steps known steps) as [taken ct rest|s];
    [|discriminate].
  intros H. apply finish_coerced in H as [-> [(-> & -> & H)|(-> & -> & H)]].
  - now apply coerce_arm.
  - now apply coerce_address_arm.
Qed.

Corollary autoderef_coercion_ok mt env known target steps ad tk ta dt c :
  autoderef mt known target steps ad = ADOk tk ta dt (Some c) ->
  arm_ok (autocoerce_arm (EDeref ta (resolve_vt env dt)) (resolve_vt env c)) = true.
Proof. intros H. eapply arm_simple_ok, autoderef_coercion_implemented, H. Qed.

(* consequently the arm `ValueType::Pointer { inner_type }` (:2053-2078, ArmTmpOfInner) is
   dead code as far as autoderef is concerned *)

(* the resolution of named lengths is needed *)
Example unresolved_named_length_unimplemented :
  let r := autoderef no_members (VArrayNamed i32 9%N) (VSlice i32) [] 0 in
  r = ADOk [] false (VArrayNamed i32 9%N) (Some (VSlice i32)) /\
  autocoerce_arm (EDeref false (VArrayNamed i32 9%N)) (VSlice i32) = ArmUnimplemented 1956.
Proof. vm_compute. split; reflexivity. Qed.

(* the coercion that analyze_hinted_arguments adds around an argument that is a reference *)
Theorem argument_coercion_of_deref_implemented env b vt0 pt c :
  argument_coercion vt0 pt = Some c ->
  arm_simple (autocoerce_arm (EDeref b (resolve_vt env vt0)) (resolve_vt env c)) = true.
Proof.
  unfold argument_coercion. destruct (vt_eqb vt0 pt); [discriminate|].
  destruct (can_coerce_into vt0 pt) eqn:E; [|discriminate].
  intros [= <-]. now apply coerce_arm.
Qed.

(* ... but around an array literal it can ask for an arm that is `unimplemented!()`:
     extern fn use_endless(data: []i32);   fn main() { use_endless([1, 2, 3]); }
   (the parameter type is View{EndlessArray{i32}}, the argument an ArrayLiteral of type
   [3]i32, and Array can_coerce_into View{EndlessArray}) *)
Example argument_coercion_of_array_literal_refuted :
  exists vt0 pt c,
    is_wellformed vt0 = true /\ is_wellformed pt = true /\
    argument_coercion vt0 pt = Some c /\
    autocoerce_arm EArrayLiteral c = ArmUnimplemented 2018.
Proof.
  exists (VArray i32 3), (VView (VEndless i32)), (VView (VEndless i32)).
  vm_compute. repeat split.
Qed.

(* ======================================================================= *)
(* 5. The promise of can_autoderef_into                                       *)
(* ======================================================================= *)

Definition promise (mt : N -> option vt) (known : vt) (steps : list astep) (ad : N) (y : vt)
  : Prop :=
  forall x r t,
    type_of_reference mt known steps ad = Some x ->
    (vt_eqb x y || can_autoderef_into x y) = true ->
    autoderef mt known y steps ad = r -> result_type r = Some t -> equals t y = true.

(* `&a` where an i32 is expected: can_autoderef_into(&i32, i32) holds ("a pointer derefs
   into its pointee") but the address was asked for explicitly.  Harmless: the caller
   reports the mismatch later. *)
Example promise_refuted_explicit_address :
  ~ promise no_members i32 [] 1 i32.
Proof.
  intros H. specialize (H _ _ _ eq_refl eq_refl eq_refl eq_refl). discriminate H.
Qed.

(* `p` with p: &[3]i32 where a slice is expected: [3]i32 can coerce into []i32, but the
   coercion test of autoderef (:2895) looks at the type BEFORE the dereference, so no
   Autocoerce is built; analyze_hinted_arguments repairs this for call arguments only. *)
Example promise_refuted_pointer_to_array :
  let p := VPointer (VArray i32 3) in
  ~ promise no_members p [] 0 (VSlice i32) /\
  autoderef no_members p (VSlice i32) [] 0 = ADOk [TAutoderef] false (VArray i32 3) None /\
  argument_coercion (VArray i32 3) (VSlice i32) = Some (VSlice i32).
Proof.
  cbv zeta. split; [|split; reflexivity].
  intros H. specialize (H _ _ _ eq_refl eq_refl eq_refl eq_refl). discriminate H.
Qed.

(* the arm `x == y`:  `x` with x: &[..]i32 (extern) has known type ([..]i32) but the
   expression built has type [..]i32 *)
Example promise_eq_refuted_endless :
  let known := VPointer (VEndless i32) in
  let y := VView (VEndless i32) in
  type_of_reference no_members known [] 0 = Some y /\
  autoderef no_members known y [] 0 = ADOk [TAutoderef] false (VEndless i32) None.
Proof. split; reflexivity. Qed.

(* the arm `x == y`:  `&s` with s: (Foo) -- a structure parameter -- where &Foo is
   expected: the known type is &Foo, the expression built has the ILL-FORMED type &(Foo)
     struct Foo { x: i32 }   fn f(s: Foo) -> &Foo { return: &s }
   analyze_return_value then runs `assert!(vt.is_wellformed())` (typer.rs:990) *)
Example promise_eq_refuted_view_address :
  let known := VView (VStruct 1%N) in
  let y := VPointer (VStruct 1%N) in
  type_of_reference no_members known [] 1 = Some y /\
  deref_target y (Some y) = y /\
  autoderef no_members known y [] 1 = ADOk [] true (VPointer (VView (VStruct 1%N))) None /\
  is_wellformed (VPointer (VView (VStruct 1%N))) = false.
Proof. repeat split. Qed.

(* `&a` with a: []i32 and no usable context: known type and produced type are both the
   ill-formed &[:]i32
     fn f(a: []i32) -> &[]i32 { return: &a } *)
Example illformed_address_of_slice :
  let known := VSlice i32 in
  type_of_reference no_members known [] 1 = Some (VPointer (VSlice i32)) /\
  analyze_deref no_members known [] 1 (Some (VSlicePointer i32))
  = Some (ADOk [] true (VPointer (VSlice i32)) None) /\
  is_wellformed (VPointer (VSlice i32)) = false.
Proof. repeat split. Qed.

(* -- what does hold: a bare reference used at its own (non-endless) type ------------- *)

Lemma coerce_source_direct ct t : can_coerce_into ct t = true -> fully_dereferenced ct = ct.
Proof. destruct ct; cbn [can_coerce_into]; try discriminate; reflexivity. Qed.

Lemma finish_eq_ad0 taken ct :
  match autoderef_finish taken ct (fully_dereferenced ct) 0 with
  | ADOk _ ta dt c => ta = false /\ c = None /\ dt = fully_dereferenced ct
  | ADError _ => False
  | ADPanic _ => is_slice_pointer ct = true
  end.
Proof.
  unfold_finish.
  change (N.eqb 0 0) with true. change (N.eqb 0 1) with false. change (N.ltb 0 0) with false.
  destruct (N.eqb_spec 0 (1 + pointer_depth ct)) as [He|_]; [lia|].
  cbn [andb].
  destruct (N.eqb (pointer_depth (fully_dereferenced ct)) 0 && vt_eqb ct (fully_dereferenced ct)) eqn:E1.
  { apply andb_true_iff in E1 as [_ E1]. apply vt_eqb_eq in E1. auto. }
  destruct (N.eqb (pointer_depth (fully_dereferenced ct)) 0
            && opt_vt_eqb (get_viewee_type ct) (fully_dereferenced ct)) eqn:E2.
  { auto. }
  destruct (N.eqb (pointer_depth (fully_dereferenced ct)) 0
            && can_coerce_into ct (fully_dereferenced ct)) eqn:E3.
  { apply andb_true_iff in E3 as [_ E3]. pose proof (coerce_source_direct _ _ E3) as Hd.
    rewrite Hd, coerce_irrefl in E3. discriminate. }
  destruct (N.leb_spec (2 + pointer_depth ct) 0) as [Hle|_]; [lia|].
  destruct (is_slice_pointer ct); [reflexivity|]. cbn [N.to_nat wrap_pointers]. auto.
Qed.

(* the arm `x == y` of analyze_deref_expression, address_depth 0, for a reference whose
   type is not an endless array: the expression built has exactly the known type *)
Theorem promise_eq_ad0 mt known steps y :
  fits mt known steps = true -> steps_within steps -> types_within mt known ->
  type_of_reference mt known steps 0 = Some y ->
  (forall e, y <> VView (VEndless e)) ->
  match autoderef mt known y steps 0 with
  | ADOk _ ta dt c => ta = false /\ c = None /\ dt = y
  | ADError _ => False
  | ADPanic s => s = 3%N
  end.
Proof.
  intros Hfits Hsteps Htypes Hx Hne.
  destruct (loop_total mt known steps Hfits Hsteps Htypes) as (taken & ct & Hl & _ & Hrf).
  unfold type_of_reference in Hx. rewrite Hrf in Hx.
  unfold add_addresses in Hx. change (N.eqb 0 0) with true in Hx. cbn iota in Hx.
  assert (Hy : y = fully_dereferenced ct).
  { destruct (fully_dereferenced ct) eqn:Efd; cbn [view_endless] in Hx;
      injection Hx as <-; try reflexivity. exfalso. eapply Hne. reflexivity. }
  subst y. unfold autoderef. rewrite Hl.
  pose proof (finish_eq_ad0 taken ct) as H.
  destruct (autoderef_finish taken ct (fully_dereferenced ct) 0) as [tk ta dt c|c|s] eqn:E; auto.
  assert (Hp : autoderef_finish taken ct (fully_dereferenced ct) 0 = ADPanic s) by exact E.
  apply finish_panic_iff in Hp. tauto.
Qed.

(* ======================================================================= *)
(* 6. Meaning of the taken steps                                              *)
(* ======================================================================= *)

Section Meaning.
Variable mt : N -> option vt.

Lemma apply_tsteps_app : forall a t b,
  apply_tsteps mt t (a ++ b) =
  match apply_tsteps mt t a with Some t' => apply_tsteps mt t' b | None => None end.
Proof.
  induction a as [|s a IH]; intros t b; [reflexivity|].
  cbn [app apply_tsteps].
  destruct s; destruct t; try reflexivity; try apply IH;
    try (match goal with |- context [match ?d with _ => _ end] => destruct d end;
         try reflexivity; apply IH).
Qed.

Lemma one_step_reach t steps pre t' rest :
  one_step mt t steps = OneStep pre t' rest -> apply_tsteps mt t pre = Some t'.
Proof.
  destruct steps as [|s r]; [discriminate|].
  destruct t as [k|e n|e c|e|e|e|e|i|i n|i|d|d]; destruct s as [ie|m];
    cbn [one_step]; try discriminate;
    try (destruct (mt m) eqn:Em; try discriminate);
    try (destruct d);
    intros [= <- <- <-]; cbn [apply_tsteps]; rewrite ?Em; reflexivity.
Qed.

(* the steps the loop takes lead from the type of the base to the type it stops at *)
Theorem loop_steps_reach : forall fuel t steps taken ct rest,
  autoderef_loop mt fuel t steps = LoopDone taken ct rest ->
  apply_tsteps mt t taken = Some ct.
Proof.
  induction fuel as [|fuel IH]; intros t steps taken ct rest H.
  - cbn in H. injection H as <- <- <-. reflexivity.
  - rewrite loop_unfold in H.
    destruct (one_step mt t steps) as [|s|pre t' rest'] eqn:E1.
    + injection H as <- <- <-. reflexivity.
    + discriminate.
    + apply loop_cons_done in H as (tk & H & ->).
      rewrite apply_tsteps_app, (one_step_reach _ _ _ _ _ E1). eapply IH, H.
Qed.

End Meaning.

Definition steps_consistent (mt : N -> option vt) (known : vt) (r : ad_result) : bool :=
  match apply_tsteps mt known (taken_of r), designated_type r with
  | Some t, Some u => vt_eqb t u
  | _, _ => false
  end.

(* ... but the "finish the autoderef" fallback (:2954-2968) replaces the type by
   fully_dereferenced() -- which removes views as well -- and pushes pointer_depth()
   Autoderef steps -- which does not count views: behind a view the recorded deref_type is
   not the type the steps lead to.
     fn g(s: []i32);   fn f(a: ([3]i32)) { g(a); }
   the Deref of `a` has no steps but deref_type [3]i32 (the storage holds a view);
   analyze_hinted_arguments then wraps it in Autocoerce{[]i32} and generate_autocoerce
   slices the storage address of the view itself. *)
Example fallback_forgets_autoview :
  let known := VView (VArray i32 3) in
  let r := autoderef no_members known (VSlice i32) [] 0 in
  analyze_deref no_members known [] 0 (Some (VSlice i32)) = Some r /\
  r = ADOk [] false (VArray i32 3) None /\
  steps_consistent no_members known r = false.
Proof. repeat split. Qed.

Example fallback_forgets_autoview_2 :
  let known := VView (VPointer i32) in
  let r := autoderef no_members known i32 [] 0 in
  analyze_deref no_members known [] 0 None = Some r /\
  r = ADOk [] false i32 None /\
  steps_consistent no_members known r = false.
Proof. repeat split. Qed.

(* -- the promise holds for a bare reference that does not end behind a pointer or view -- *)

Lemma coerce_target_depth ct y :
  can_coerce_into ct y = true -> is_slice_pointer ct = false -> pointer_depth y = 0%N.
Proof.
  destruct ct; cbn [can_coerce_into is_slice_pointer]; try discriminate;
    destruct y; try discriminate; reflexivity.
Qed.

Lemma direct_autoderef_into ct y :
  ptr_run ct = 0%nat -> can_autoderef_into ct y = true ->
  equals ct y = true \/ can_coerce_into ct y = true.
Proof.
  destruct ct; cbn [ptr_run can_autoderef_into]; try discriminate; intros _ H;
    apply orb_true_iff in H; exact H.
Qed.

Lemma finish_promise_direct taken ct y t :
  ptr_run ct = 0%nat ->
  (vt_eqb ct y || can_autoderef_into ct y) = true ->
  result_type (autoderef_finish taken ct y 0) = Some t ->
  equals t y = true.
Proof.
  intros Hrun Hxy.
  assert (Hcases : equals ct y = true \/ can_coerce_into ct y = true).
  { apply orb_true_iff in Hxy as [H|H]; [left; now apply vt_eqb_equals|].
    now apply direct_autoderef_into. }
  assert (Hfd : fully_dereferenced ct = ct) by (destruct ct; try discriminate Hrun; reflexivity).
  assert (Hview : get_viewee_type ct = None) by (destruct ct; try discriminate Hrun; reflexivity).
  unfold_finish. rewrite Hview.
  change (N.eqb 0 0) with true. change (N.eqb 0 1) with false. change (N.ltb 0 0) with false.
  destruct (N.eqb_spec 0 (1 + pointer_depth ct)) as [He|_]; [lia|].
  cbn [andb opt_vt_eqb]. rewrite andb_false_r.
  destruct (N.eqb (pointer_depth y) 0 && vt_eqb ct y) eqn:E1.
  { apply andb_true_iff in E1 as [_ E1]. cbn [result_type]. intros [= <-].
    now apply vt_eqb_equals. }
  destruct (N.eqb (pointer_depth y) 0 && can_coerce_into ct y) eqn:E3.
  { cbn [result_type]. intros [= <-]. apply equals_refl. }
  destruct (N.leb_spec (2 + pointer_depth ct) 0) as [Hle|_]; [lia|].
  destruct (is_slice_pointer ct) eqn:Esp; [discriminate|].
  cbn [result_type N.to_nat wrap_pointers]. rewrite Hfd. intros [= <-].
  destruct Hcases as [H|H]; [exact H|].
  rewrite (coerce_target_depth _ _ H Esp), H in E3. discriminate E3.
Qed.

Theorem promise_direct_ad0 mt known steps y taken ct x r t :
  autoderef_loop mt max_num_autoderef_steps known steps = LoopDone taken ct [] ->
  ptr_run ct = 0%nat -> (forall e, ct <> VEndless e) ->
  type_of_reference mt known steps 0 = Some x ->
  (vt_eqb x y || can_autoderef_into x y) = true ->
  autoderef mt known y steps 0 = r -> result_type r = Some t -> equals t y = true.
Proof.
  intros Hl Hrun Hne Hx Hxy <- Hr.
  assert (Hfd : fully_dereferenced ct = ct) by (destruct ct; try discriminate Hrun; reflexivity).
  pose proof (loop_sound mt max_num_autoderef_steps known steps) as Hs. rewrite Hl in Hs.
  (* x = ct *)
  assert (Hxct : x = ct).
  { unfold type_of_reference in Hx.
    destruct (ref_final mt (fully_dereferenced known) steps) as [x0|] eqn:Erf; [|discriminate].
    destruct (walk_fits mt steps known x0 Erf) as (tk' & ct' & Hw' & Hfd').
    rewrite Hs in Hw'. injection Hw' as <- <-. rewrite Hfd in Hfd'. subst x0.
    unfold add_addresses in Hx. change (N.eqb 0 0) with true in Hx. cbn iota in Hx.
    injection Hx as <-. destruct ct; try reflexivity. exfalso. eapply Hne. reflexivity. }
  subst x. unfold autoderef in Hr. rewrite Hl in Hr.
  eapply finish_promise_direct; eassumption.
Qed.

(* the hypotheses are satisfiable by non-trivial objects *)
Definition sample_members (m : N) : option vt :=
  match m with
  | 1%N => Some (VArray i32 3)
  | 2%N => Some (VPointer (VStruct 5%N))
  | _ => None
  end.

Example sample_run :
  let known := VView (VStruct 5%N) in
  let steps := [AMember 2; AMember 2; AMember 1; AElement None] in
  fits sample_members known steps = true /\ steps_within steps /\
  types_within sample_members known /\
  type_of_reference sample_members known steps 0 = Some i32 /\
  autoderef sample_members known i32 steps 0
  = ADOk [TAutoview; TMember 2; TAutoderef; TMember 2; TAutoderef; TMember 1;
          TElement (Some false)] false i32 None.
Proof.
  cbv zeta. split; [reflexivity|]. split; [unfold steps_within, Limits.max_reference_depth; cbn; lia|].
  split; [|split; reflexivity].
  split; [vm_compute; reflexivity|].
  intros m t. unfold sample_members.
  destruct m as [|[p|p|]]; try discriminate; try (destruct p; try discriminate);
    intros [= <-]; vm_compute; reflexivity.
Qed.

Example sample_coercions :
  autoderef no_members (VArray i32 5) (VSlicePointer i32) [] 1
  = ADOk [] true (VPointer (VArray i32 5)) (Some (VSlicePointer i32)) /\
  autoderef no_members (VArray i32 5) (VPointer (VEndless i32)) [] 1
  = ADOk [] true (VPointer (VArray i32 5)) (Some (VPointer (VEndless i32))) /\
  autoderef no_members (VStruct 5%N) (VView (VStruct 5%N)) [] 0
  = ADOk [] false (VStruct 5%N) (Some (VView (VStruct 5%N))) /\
  autoderef no_members i32 i32 [] 3 = ADError E538.
Proof. repeat split. Qed.

(* the other lines of autoderef_edge_cases.pn: `use_slice_ptr(&ptr_to_five_zeroes)` with
   ptr_to_five_zeroes: &[5]i32.  The known type &[5]i32 can_autoderef_into &[]i32 (through
   can_coerce_address_into of the pointee), but the address coercion test (:2917) looks at
   the type before the dereference: no Autocoerce, the argument keeps the type &[5]i32 and
   analyze_hinted_arguments cannot repair it (can_coerce_into has no Pointer arm). *)
Example promise_refuted_address_of_pointer_to_array :
  let p := VPointer (VArray i32 5) in
  type_of_reference no_members p [] 1 = Some p /\
  can_autoderef_into p (VSlicePointer i32) = true /\
  autoderef no_members p (VSlicePointer i32) [] 1 = ADOk [] false p None /\
  argument_coercion p (VSlicePointer i32) = None /\
  autoderef no_members (VPointer p) (VSlicePointer i32) [] 1 = ADOk [TAutoderef] false p None.
Proof. repeat split. Qed.

(* `&&&a` with a: i32 where &i32 is expected: &&&i32 can_autoderef_into &i32 (through
   can_subautoderef_into), so &i32 is the target.  The take-address arm (:2907, repaired
   source :2916) now asks for address_depth == 1 + pointer_depth: the excess `&` are
   E538 AddressOfTemporaryAddress.  With the condition of the pinned source
   (address_depth > 0) they were dropped. *)
Example excess_addresses_rejected :
  type_of_reference no_members i32 [] 3 = Some (VPointer (VPointer (VPointer i32))) /\
  deref_target (VPointer (VPointer (VPointer i32))) (Some (VPointer i32)) = VPointer i32 /\
  autoderef no_members i32 (VPointer i32) [] 3 = ADError E538 /\
  autoderef no_members i32 (VPointer (VPointer (VPointer i32))) [] 3 = ADError E538 /\
  autoderef no_members i32 (VPointer i32) [] 1 = ADOk [] true (VPointer i32) None.
Proof. repeat split. Qed.

Example excess_addresses_accepted_pinned :
  autoderef_pinned no_members i32 (VPointer i32) [] 3 = ADOk [] true (VPointer i32) None.
Proof. reflexivity. Qed.

(* -- what the repair buys -------------------------------------------------------------- *)

(* Every result that takes an address without a coercion takes exactly one address more
   than the type the steps end at has pointers; with a coercion (:2916 / :2925, unchanged)
   only address_depth > 0 is known. *)
Theorem finish_take_address taken ct target ad tk dt c :
  autoderef_finish taken ct target ad = ADOk tk true dt c ->
  tk = taken /\ dt = VPointer ct /\
  match c with
  | None => ad = (1 + pointer_depth ct)%N
  | Some c' => c' = target /\ (0 < ad)%N /\ can_coerce_address_into ct target = true
  end.
Proof.
  unfold_finish.
  repeat match goal with
         | |- context [if ?b then _ else _] => destruct b eqn:?
         end; intros [= <- <- <-]; (split; [reflexivity|split; [reflexivity|]]).
  - match goal with H : N.eqb ad _ && _ = true |- _ => apply andb_true_iff in H as [H _];
      now apply N.eqb_eq in H end.
  - match goal with H : N.ltb 0 ad && _ = true |- _ => apply andb_true_iff in H as [H1 H2];
      apply N.ltb_lt in H1; auto end.
  - match goal with H : N.eqb ad (1 + _) = true |- _ => now apply N.eqb_eq in H end.
Qed.

Theorem autoderef_take_address mt known target steps ad tk dt :
  autoderef mt known target steps ad = ADOk tk true dt None ->
  exists ct dropped,
    autoderef_loop mt max_num_autoderef_steps known steps = LoopDone tk ct dropped /\
    dt = VPointer ct /\ ad = (1 + pointer_depth ct)%N.
Proof.
  unfold autoderef.
  destruct (autoderef_loop mt max_num_autoderef_steps known steps) as [taken ct rest|s];
    [|discriminate].
  intros H. apply finish_take_address in H as (-> & -> & ->). eauto.
Qed.

(* the pinned arm did not have this property *)
Example take_address_pinned_refuted :
  exists taken ct target ad tk dt,
    autoderef_finish_pinned taken ct target ad = ADOk tk true dt None /\
    ad <> (1 + pointer_depth ct)%N.
Proof.
  exists [], i32, (VPointer i32), 3%N, [], (VPointer i32). split; [reflexivity|discriminate].
Qed.

(* the class D11 of the pinned source had one more exception under address_depth 1 *)
Definition no_solution_pinned (ct target : vt) (ad : N) : bool :=
  is_slice_pointer ct &&
  (N.eqb ad 0
   || (N.eqb ad 1 && negb (vt_eqb ct target)
       && negb (opt_vt_eqb (get_pointee_type target) ct))).

(* `&data` with data: &[]i32 where the (ill-formed) type &&[]i32 is the target: the pinned
   arm took the address, the repaired one leaves it to the "no solution" panic *)
Example no_solution_differs_from_pinned :
  let sp := VSlicePointer i32 in
  autoderef_pinned no_members sp (VPointer sp) [] 1 = ADOk [] true (VPointer sp) None /\
  autoderef no_members sp (VPointer sp) [] 1 = ADPanic 3 /\
  is_wellformed (VPointer sp) = false /\
  no_solution_pinned sp (VPointer sp) 1 = false /\ no_solution sp (VPointer sp) 1 = true.
Proof. repeat split. Qed.

(* ======================================================================= *)
(* 7. Relation to PV.Model.MemLower.elaborate (struct-free fragment)          *)
(* ======================================================================= *)

From PV Require Model.MemLower.

(* MemLower.pty has structural structures (PStruct ms) where vt has nominal ones plus a
   member table; the correspondence is stated on the fragment without structures, where
   the paths are element steps only. *)
Fixpoint vt_of_pty (t : MemLower.pty) : vt :=
  match t with
  | MemLower.PInt _ => VPrim KInt32
  | MemLower.PBool => VPrim KBool
  | MemLower.PArr n e => VArray (vt_of_pty e) (Z.to_N n)
  | MemLower.PStruct _ => VUnresolved None
  | MemLower.PPtr u => VPointer (vt_of_pty u)
  | MemLower.PView u => VView (vt_of_pty u)
  | MemLower.PSlice e => VSlice (vt_of_pty e)
  | MemLower.PSlicePtr e => VSlicePointer (vt_of_pty e)
  | MemLower.PEndless e => VEndless (vt_of_pty e)
  end.

Definition astep_of_step (s : MemLower.step) : astep :=
  match s with
  | MemLower.SElem _ => AElement None
  | MemLower.SMember k => AMember (N.of_nat k)
  end.

(* a taken step as a resolved step, the index expression forgotten *)
Definition rstep_of_tstep (s : tstep) : MemLower.rstep :=
  match s with
  | TElement (Some b) => MemLower.RElem 0 b
  | TElement None => MemLower.RElem 0 false          (* resolver.rs:888 unwrap_or(false) *)
  | TMember m => MemLower.RMember (N.to_nat m)
  | TAutoderef => MemLower.RAutoderef
  | TAutoview => MemLower.RAutoview
  | TAutodesliceByView | TAutodesliceByPointer => MemLower.RDeslice0
  end.

Definition forget_index (s : MemLower.rstep) : MemLower.rstep :=
  match s with
  | MemLower.RElem _ b => MemLower.RElem 0 b
  | other => other
  end.

Lemma vt_of_pty_not_arraylike t : match vt_of_pty t with VArraylike _ => False | _ => True end.
Proof. destruct t; exact I. Qed.

Fixpoint struct_free (t : MemLower.pty) : bool :=
  match t with
  | MemLower.PStruct _ => false
  | MemLower.PInt _ | MemLower.PBool => true
  | MemLower.PArr _ e | MemLower.PPtr e | MemLower.PView e | MemLower.PSlice e
  | MemLower.PSlicePtr e | MemLower.PEndless e => struct_free e
  end.

Theorem elaborate_is_autoderef_loop : forall fuel t p rs t',
  struct_free t = true ->
  MemLower.elaborate_fuel fuel t p = Some (rs, t') ->
  exists taken,
    autoderef_loop no_members fuel (vt_of_pty t) (map astep_of_step p)
    = LoopDone taken (vt_of_pty t') [] /\
    map rstep_of_tstep taken = map forget_index rs.
Proof.
  induction fuel as [|fuel IH]; intros t p rs t' Hsf H.
  - destruct p as [|s p']; cbn in H; [|discriminate].
    injection H as <- <-. exists []. split; reflexivity.
  - destruct p as [|s p'].
    { cbn in H. injection H as <- <-. exists []. split; reflexivity. }
    cbn [MemLower.elaborate_fuel] in H.
    destruct t as [b| |n e|ms|u|u|e|e|e]; try discriminate H; try discriminate Hsf;
      cbn [struct_free] in Hsf.
    + (* PArr *)
      destruct s as [i|k]; [|discriminate H].
      destruct (MemLower.elaborate_fuel fuel e p') as [[rs0 t0]|] eqn:E; [|discriminate H].
      injection H as <- <-. destruct (IH _ _ _ _ Hsf E) as (tk & Hl & Hm).
      cbn [map astep_of_step vt_of_pty autoderef_loop]. rewrite Hl. cbn [loop_cons app].
      eexists. split; [reflexivity|]. cbn [map rstep_of_tstep forget_index]. now rewrite Hm.
    + (* PPtr *)
      destruct (MemLower.elaborate_fuel fuel u (s :: p')) as [[rs0 t0]|] eqn:E; [|discriminate H].
      injection H as <- <-. destruct (IH _ _ _ _ Hsf E) as (tk & Hl & Hm).
      cbn [map vt_of_pty autoderef_loop]. cbn [map] in Hl.
      pose proof (vt_of_pty_not_arraylike u) as Hna.
      destruct s as [i|k]; cbn [astep_of_step] in *.
      * destruct (vt_of_pty u) eqn:Eu; try contradiction; rewrite Hl; cbn [loop_cons app];
          (eexists; split; [reflexivity|]; cbn [map rstep_of_tstep forget_index]; now rewrite Hm).
      * rewrite Hl. cbn [loop_cons app].
        eexists; split; [reflexivity|]; cbn [map rstep_of_tstep forget_index]; now rewrite Hm.
    + (* PView *)
      destruct (MemLower.elaborate_fuel fuel u (s :: p')) as [[rs0 t0]|] eqn:E; [|discriminate H].
      injection H as <- <-. destruct (IH _ _ _ _ Hsf E) as (tk & Hl & Hm).
      cbn [map vt_of_pty autoderef_loop]. cbn [map] in Hl.
      pose proof (vt_of_pty_not_arraylike u) as Hna.
      destruct s as [i|k]; cbn [astep_of_step] in *.
      * destruct (vt_of_pty u) eqn:Eu; try contradiction; rewrite Hl; cbn [loop_cons app];
          (eexists; split; [reflexivity|]; cbn [map rstep_of_tstep forget_index]; now rewrite Hm).
      * rewrite Hl. cbn [loop_cons app].
        eexists; split; [reflexivity|]; cbn [map rstep_of_tstep forget_index]; now rewrite Hm.
    + (* PSlice *)
      destruct s as [i|k]; [|discriminate H].
      destruct (MemLower.elaborate_fuel fuel e p') as [[rs0 t0]|] eqn:E; [|discriminate H].
      injection H as <- <-. destruct (IH _ _ _ _ Hsf E) as (tk & Hl & Hm).
      cbn [map astep_of_step vt_of_pty autoderef_loop]. rewrite Hl. cbn [loop_cons app].
      eexists. split; [reflexivity|]. cbn [map rstep_of_tstep forget_index]. now rewrite Hm.
    + (* PSlicePtr *)
      destruct s as [i|k]; [|discriminate H].
      destruct (MemLower.elaborate_fuel fuel e p') as [[rs0 t0]|] eqn:E; [|discriminate H].
      injection H as <- <-. destruct (IH _ _ _ _ Hsf E) as (tk & Hl & Hm).
      cbn [map astep_of_step vt_of_pty autoderef_loop]. rewrite Hl. cbn [loop_cons app].
      eexists. split; [reflexivity|]. cbn [map rstep_of_tstep forget_index]. now rewrite Hm.
    + (* PEndless *)
      destruct s as [i|k]; [|discriminate H].
      destruct (MemLower.elaborate_fuel fuel e p') as [[rs0 t0]|] eqn:E; [|discriminate H].
      injection H as <- <-. destruct (IH _ _ _ _ Hsf E) as (tk & Hl & Hm).
      cbn [map astep_of_step vt_of_pty autoderef_loop]. rewrite Hl. cbn [loop_cons app].
      eexists. split; [reflexivity|]. cbn [map rstep_of_tstep forget_index]. now rewrite Hm.
Qed.

Lemma budgets_agree : MemLower.MAX_NUM_AUTODEREF_STEPS = max_num_autoderef_steps.
Proof. apply Nat2Z.inj. rewrite max_steps_Z. vm_compute. reflexivity. Qed.

(* (the two constants are generalised before rewriting: a conversion between
   127 * 128 + 127 and Z.to_nat 16383 in unary is too slow for the kernel) *)
Lemma elaborate_budget t p :
  MemLower.elaborate t p = MemLower.elaborate_fuel max_num_autoderef_steps t p.
Proof.
  unfold MemLower.elaborate. generalize budgets_agree.
  generalize MemLower.MAX_NUM_AUTODEREF_STEPS, max_num_autoderef_steps.
  intros a b ->. reflexivity.
Qed.

(* On MemLower's fragment, a read of a scalar (address_depth 0, the scalar type as target)
   takes exactly the resolved steps of MemLower.elaborate. *)
Corollary elaborate_is_autoderef t p rs t' :
  struct_free t = true ->
  MemLower.elaborate t p = Some (rs, t') ->
  (exists b, t' = MemLower.PInt b) \/ t' = MemLower.PBool ->
  exists taken,
    autoderef no_members (vt_of_pty t) (vt_of_pty t') (map astep_of_step p) 0
    = ADOk taken false (vt_of_pty t') None /\
    map rstep_of_tstep taken = map forget_index rs.
Proof.
  intros Hsf H Hscalar. rewrite elaborate_budget in H.
  destruct (elaborate_is_autoderef_loop _ _ _ _ _ Hsf H) as (taken & Hl & Hm).
  exists taken. split; [|exact Hm].
  assert (Hfin : autoderef_finish taken (vt_of_pty t') (vt_of_pty t') 0
                 = ADOk taken false (vt_of_pty t') None).
  { destruct Hscalar as [[b ->]| ->]; reflexivity. }
  unfold autoderef. rewrite Hl. exact Hfin.
Qed.

Print Assumptions equals_trans.
Print Assumptions loop_total.
Print Assumptions autoderef_no_solution_iff.
Print Assumptions autoderef_loop_never_panics.
Print Assumptions autoderef_coercion_implemented.
Print Assumptions argument_coercion_of_deref_implemented.
Print Assumptions promise_eq_ad0.
Print Assumptions promise_direct_ad0.
Print Assumptions loop_steps_reach.
Print Assumptions deep_pointer_type_exhausts_budget.
Print Assumptions elaborate_is_autoderef.
Print Assumptions finish_take_address.
Print Assumptions autoderef_take_address.
