(* Agreement between the two lexer models:
     A = Model/LexAlpha.v  (first generation, src/alpha/lexer.rs, code points)
     D = Model/LexDelta.v  (second generation, src/delta/lexer.rs, bytes; CURRENT code)

   a. tables_agree      keyword / bool / type / suffix tables and punctuation
   b. numeric_agree     every numeric lexeme [0-9][A-Za-z0-9_]* gets the same kind,
                        value, suffix type or error code, except the class
                        [known_bin_leading_zeros]
   c. ascii_agree_partial (see the end of the file for what is and is not covered) *)
From Coq Require Import Ascii String.
From PV Require Import Base.Common Base.IR Base.Tok.
From PV Require Model.LexAlpha Model.LexDelta Proofs.LexAlphaProofs Proofs.LexDeltaProofs.
Module A := PV.Model.LexAlpha.
Module D := PV.Model.LexDelta.
Module AP := PV.Proofs.LexAlphaProofs.
Module DP := PV.Proofs.LexDeltaProofs.
Open Scope N_scope.

(* ========================================================================== *)
(* a. Tables                                                                   *)
(* ========================================================================== *)
Definition kind_of (e : list N * (tkind * Z * option tykw)) : tkind := fst (fst (snd e)).
Definition is_plain_kw (e : list N * (tkind * Z * option tykw)) : bool :=
  match kind_of e with KBool | KType | KReturn => false | _ => true end.
Definition is_bool_kw (e : list N * (tkind * Z * option tykw)) : bool :=
  match kind_of e with KBool => true | _ => false end.
Definition is_type_kw (e : list N * (tkind * Z * option tykw)) : bool :=
  match kind_of e with KType => true | _ => false end.
Definition is_return_kw (e : list N * (tkind * Z * option tykw)) : bool :=
  match kind_of e with KReturn => true | _ => false end.

Definition w_return : list N := D.bs "return".

(* the second generation's keyword table is the first generation's plus `return`;
   same booleans; same type keywords (the integer types live in the suffix table
   of D); same integer suffixes *)
Theorem tables_agree :
  (* keywords, in the same order *)
  map (fun e => (fst e, kind_of e)) (filter is_plain_kw D.kw_table) = A.keyword_table /\
  Forall (fun e => snd e = (kind_of e, 0%Z, None)) (filter is_plain_kw D.kw_table) /\
  (* the only extra reserved word *)
  filter is_return_kw D.kw_table = [(w_return, (KReturn, 0%Z, None))] /\
  A.classify_word w_return = None /\
  (* booleans *)
  map (fun e => (fst e, snd (fst (snd e)))) (filter is_bool_kw D.kw_table) = A.bool_table /\
  (* type keywords *)
  A.type_table =
    [(D.bs "void", TyVoid)] ++ map (fun e => (fst e, TyPrim (snd e))) D.suffix_table ++
    [(D.bs "char8", TyPrim Char8); (D.bs "bool", TyPrim Bool)] /\
  map (fun e => (fst e, snd (snd e))) (filter is_type_kw D.kw_table) =
    [(D.bs "bool", Some (TyPrim Bool)); (D.bs "void", Some TyVoid); (D.bs "char8", Some (TyPrim Char8))] /\
  (* integer suffixes *)
  D.suffix_table = A.suffix_table /\
  (* simple escapes *)
  D.simple_escape_table = A.escape_table.
Proof. vm_compute. repeat (split; [reflexivity || (repeat constructor)|]). reflexivity. Qed.

(* ---- the same at the level of the lookup functions ------------------------- *)
Lemma bytes_eqb_true : forall a b, D.bytes_eqb a b = true -> a = b.
Proof.
  induction a as [|x a IH]; destruct b as [|y b]; cbn [D.bytes_eqb]; try discriminate; [reflexivity|].
  intros H. apply andb_true_iff in H as [H1 H2]. apply N.eqb_eq in H1. subst. f_equal. auto.
Qed.
Lemma bytes_eqb_refl : forall a, D.bytes_eqb a a = true.
Proof. induction a as [|x a IH]; cbn [D.bytes_eqb]; [reflexivity|]. now rewrite N.eqb_refl, IH. Qed.
Lemma str_eqb_bytes_eqb : forall a b, A.str_eqb a b = D.bytes_eqb a b.
Proof. induction a as [|x a IH]; destruct b as [|y b]; cbn [A.str_eqb D.bytes_eqb]; try reflexivity; now rewrite IH. Qed.
Lemma assoc_agree {V : Type} (k : list N) (t : list (list N * V)) : A.assoc k t = D.assoc_bytes k t.
Proof.
  induction t as [|[k' v] t IH]; cbn [A.assoc D.assoc_bytes]; [reflexivity|].
  now rewrite str_eqb_bytes_eqb, IH.
Qed.
Lemma assoc_bytes_none {V : Type} (k : list N) (t : list (list N * V)) :
  ~ In k (map fst t) -> D.assoc_bytes k t = None.
Proof.
  induction t as [|[k' v] t IH]; cbn [D.assoc_bytes map fst]; [reflexivity|].
  intros H. destruct (D.bytes_eqb k k') eqn:E.
  - apply bytes_eqb_true in E. subst. exfalso. apply H. now left.
  - apply IH. intros Hin. apply H. now right.
Qed.

Theorem suffix_agree s : A.parse_integer_suffix s = D.parse_integer_suffix s.
Proof.
  unfold A.parse_integer_suffix, D.parse_integer_suffix. rewrite assoc_agree.
  replace A.suffix_table with D.suffix_table by (vm_compute; reflexivity). reflexivity.
Qed.

(* all reserved spellings of either model *)
Definition all_keys : list (list N) := map fst D.kw_table ++ map fst D.suffix_table.

Definition classify_spec (w : list N) : option (tkind * Z * option tykw) :=
  if D.bytes_eqb w w_return then Some (KReturn, 0%Z, None) else A.classify_word w.

Lemma classify_on_keys : Forall (fun w => D.lookup_keyword w = classify_spec w) all_keys.
Proof. vm_compute. repeat constructor. Qed.

Lemma alpha_keys_known :
  forallb (fun k => existsb (D.bytes_eqb k) all_keys)
          (map fst A.keyword_table ++ map fst A.bool_table ++ map fst A.type_table) = true.
Proof. vm_compute. reflexivity. Qed.

Lemma alpha_key_in k :
  In k (map fst A.keyword_table ++ map fst A.bool_table ++ map fst A.type_table) -> In k all_keys.
Proof.
  intros H. pose proof alpha_keys_known as HK. rewrite forallb_forall in HK.
  specialize (HK _ H). apply existsb_exists in HK as (k' & Hin & He). apply bytes_eqb_true in He. now subst.
Qed.

(* keyword / bool / type recognition agrees on EVERY word, except that D reserves `return` *)
Theorem classify_agree w : D.lookup_keyword w = classify_spec w.
Proof.
  destruct (in_dec (list_eq_dec N.eq_dec) w all_keys) as [Hin|Hnot].
  - pose proof classify_on_keys as H. rewrite Forall_forall in H. auto.
  - assert (HD : D.lookup_keyword w = None).
    { unfold D.lookup_keyword, D.parse_integer_suffix.
      rewrite !assoc_bytes_none; [reflexivity| |]; intros Hin; apply Hnot; unfold all_keys; apply in_or_app; auto. }
    assert (Hret : D.bytes_eqb w w_return = false).
    { destruct (D.bytes_eqb w w_return) eqn:E; [|reflexivity]. apply bytes_eqb_true in E. subst.
      exfalso. apply Hnot. vm_compute. tauto. }
    assert (HA : A.classify_word w = None).
    { unfold A.classify_word. rewrite !assoc_agree.
      rewrite !assoc_bytes_none; [reflexivity| | |]; intros Hin; apply Hnot, alpha_key_in.
      - apply in_or_app; right. apply in_or_app; right. exact Hin.
      - apply in_or_app; right. apply in_or_app; left. exact Hin.
      - apply in_or_app; left. exact Hin. }
    unfold classify_spec. now rewrite HD, Hret, HA.
Qed.

(* ---- punctuation: A has no table, D's table describes A's if-chain ---------- *)
Definition punct_spec (seconds : list (N * tkind)) (k1 : tkind) (rest : list N) : A.step :=
  match rest with
  | y :: r' =>
      match D.assoc_N y seconds with
      | Some k2 => A.StTok k2 0%Z None [] 2 r'
      | None => A.StTok k1 0%Z None [] 1 rest
      end
  | [] => A.StTok k1 0%Z None [] 1 rest
  end.

Lemma assoc_N_In {V : Type} x (t : list (N * V)) v : D.assoc_N x t = Some v -> In (x, v) t.
Proof.
  induction t as [|[k' v'] t IH]; cbn [D.assoc_N]; [discriminate|].
  destruct (N.eqb_spec x k') as [->|Hne]; intros H; [inversion H; now left|right; auto].
Qed.
Lemma assoc_N_none {V : Type} x (t : list (N * V)) :
  D.assoc_N x t = None -> forall k, In k (map fst t) -> (x =? k) = false.
Proof.
  induction t as [|[k' v'] t IH]; cbn [D.assoc_N map fst]; [intros _ k []|].
  destruct (N.eqb_spec x k') as [->|Hne]; [discriminate|]. intros H k [<-|Hin]; [now apply N.eqb_neq|auto].
Qed.

Ltac split_tests y :=
  repeat match goal with
         | |- context [(y =? ?c)] => destruct (y =? c)
         end.

(* every entry of D's punctuation table is what A's [match x] does for that character *)
Theorem punct_agree x seconds k1 rest :
  D.assoc_N x D.punct_table = Some (seconds, k1) -> A.lex_step x rest = punct_spec seconds k1 rest.
Proof.
  intros H. apply assoc_N_In in H. cbn in H.
  repeat (destruct H as [H|H];
          [inversion H; subst; clear H; destruct rest as [|y r']; [reflexivity|];
           cbn; split_tests y; reflexivity|]).
  contradiction.
Qed.

(* ... and A knows no other punctuation (the slash is treated apart in both) *)
Definition nonpunct_spec (x : N) (rest : list N) : A.step :=
  if A.is_ident_start x then A.lex_word x rest
  else if x =? 48 then A.lex_zero rest
  else if A.is_nonzero_dec x then A.lex_decimal x rest
  else if (x =? 34) || (x =? 39) then A.lex_quote x rest
  else if (x =? 32) || (x =? 9) then A.StSkip
  else A.StTok KError E110 None [] 1 rest.

Theorem nonpunct_agree x rest :
  D.assoc_N x D.punct_table = None -> x <> 47 -> A.lex_step x rest = nonpunct_spec x rest.
Proof.
  intros H H47. pose proof (assoc_N_none _ _ H) as Hk. apply N.eqb_neq in H47.
  unfold A.lex_step, nonpunct_spec.
  rewrite (Hk 40), (Hk 41), (Hk 123), (Hk 125), (Hk 91), (Hk 93), (Hk 60), (Hk 62), (Hk 124),
          (Hk 38), (Hk 94), (Hk 33), (Hk 43), (Hk 42), (Hk 37), (Hk 58), (Hk 59), (Hk 46), (Hk 44),
          (Hk 61), (Hk 45), H47 by (vm_compute; tauto).
  reflexivity.
Qed.

(* the slash: division, or a comment up to the end of the line in both models *)
Theorem slash_agree rest :
  A.lex_step 47 rest = match rest with
                       | z :: _ => if z =? 47 then A.StEnd else A.StTok KDivide 0%Z None [] 1 rest
                       | [] => A.StTok KDivide 0%Z None [] 1 rest
                       end.
Proof. reflexivity. Qed.

(* ========================================================================== *)
(* b. Numeric lexemes                                                          *)
(* ========================================================================== *)
(* ---- character classes ------------------------------------------------------ *)
Lemma cont_agree y : A.is_ident_cont y = D.is_ident_cont y.
Proof. reflexivity. Qed.
Lemma dec_agree y : A.is_dec y = D.in_range 48 57 y.
Proof. reflexivity. Qed.

Lemma hex_agree y :
  (A.is_hex y = true -> exists h, D.hex_digit y = Some h /\ A.digit_val y = Z.of_N h) /\
  (A.is_hex y = false -> D.hex_digit y = None).
Proof.
  split.
  - intros H.
    assert (Hc : (48 <= y <= 57) \/ (97 <= y <= 102) \/ (65 <= y <= 70)).
    { revert H. AP.unfold_classes. AP.b2p. lia. }
    assert (He : In y [48;49;50;51;52;53;54;55;56;57;97;98;99;100;101;102;65;66;67;68;69;70]).
    { cbn [In]. lia. }
    cbn [In] in He.
    repeat (destruct He as [<-|He]; [eexists; split; reflexivity|]). contradiction.
  - intros H. unfold D.hex_digit.
    assert (H1 : D.in_range 65 70 y = false) by (revert H; AP.unfold_classes; unfold D.in_range; AP.b2p; lia).
    assert (H2 : D.in_range 97 102 y = false) by (revert H; AP.unfold_classes; unfold D.in_range; AP.b2p; lia).
    assert (H3 : D.in_range 48 57 y = false) by (revert H; AP.unfold_classes; unfold D.in_range; AP.b2p; lia).
    now rewrite H1, H2, H3.
Qed.

Lemma ends_stops tail : DP.ends_token tail = true -> AP.stops tail.
Proof. destruct tail as [|y t]; [exact (fun _ => I)|]. cbn. intros H. apply negb_true_iff in H. exact H. Qed.

(* split a run of identifier characters into digits/underscores and the rest *)
Definition head_not (isd : N -> bool) (l : list N) : Prop :=
  match l with [] => True | y :: _ => isd y = false /\ y <> 95 end.

Lemma split_digits (isd : N -> bool) : forall w, forallb A.is_ident_cont w = true ->
  exists ds suf, w = ds ++ suf /\ AP.digits_us isd ds = true /\ forallb A.is_ident_cont suf = true /\
                 head_not isd suf.
Proof.
  induction w as [|y w IH]; intros H.
  - exists [], []. repeat split.
  - cbn [forallb] in H. apply andb_true_iff in H as [Hy Hw].
    destruct (isd y || (y =? 95)) eqn:E.
    + destruct (IH Hw) as (ds & suf & -> & Hds & Hsuf & Hhd). exists (y :: ds), suf.
      split; [reflexivity|]. split; [|split; assumption]. cbn [AP.digits_us forallb]. rewrite E. exact Hds.
    + exists [], (y :: w). apply orb_false_iff in E as [E1 E2]. apply N.eqb_neq in E2.
      split; [reflexivity|]. split; [reflexivity|]. split; [|split; assumption].
      cbn [forallb]. now rewrite Hy, Hw.
Qed.

Lemma head_not_app isd suf tail : (forall c, isd c = true -> A.is_ident_cont c = true) ->
  head_not isd suf -> AP.stops tail -> head_not isd (suf ++ tail).
Proof.
  intros Hc Hs Ht. destruct suf as [|y suf]; [|exact Hs]. cbn [app].
  apply (AP.stops_not_digit isd tail Hc Ht).
Qed.

Lemma Forall_of_forallb (p : N -> bool) l : forallb p l = true -> Forall (fun y => p y = true) l.
Proof. intros H. apply Forall_forall. intros y Hy. rewrite forallb_forall in H. auto. Qed.

Lemma len_lenN l : A.len l = D.lenN l.
Proof. reflexivity. Qed.

Lemma two128_Z : Z.of_N D.two128 = (2 ^ 128)%Z.
Proof. reflexivity. Qed.

(* results of a numeric arm, as D actions *)
Definition payload_act (p : tkind * Z * option tykw) (i e : N) : D.action :=
  let '(k, v, ty) := p in
  match k with
  | KError => D.AErr v i e
  | _ => D.ATok k v ty e
  end.

Lemma suffixed_payload M suf i e :
  D.suffixed M suf i e =
  payload_act (match A.parse_integer_suffix suf with
               | Some p => (KSuffixedInteger, Z.of_N M, Some (TyPrim p))
               | None => (KError, E141, None)
               end) i e.
Proof. unfold D.suffixed. rewrite (suffix_agree suf). destruct (D.parse_integer_suffix suf); reflexivity. Qed.

Ltac ex3 := do 3 eexists; (split; [reflexivity|split; [reflexivity|split; [first [reflexivity|lia]|split; [reflexivity|first [discriminate|intros _; reflexivity]]]]]).

(* ---- decimal arm -------------------------------------------------------------- *)
Lemma dec_value_link : forall ds acc, AP.digits_us A.is_dec ds = true ->
  Z.of_N (DP.dec_value acc ds) =
  (Z.of_N acc * 10 ^ Z.of_nat (length (AP.strip_us ds)) + AP.value_of_digits 10 (AP.strip_us ds))%Z.
Proof.
  induction ds as [|y ds IH]; intros acc H.
  - cbn. lia.
  - cbn [AP.digits_us forallb] in H. apply andb_true_iff in H as [Hy Hds].
    cbn [DP.dec_value AP.strip_us filter]. fold (AP.strip_us ds).
    destruct (A.is_dec y) eqn:Hd.
    + destruct (DP.dec_digit_spec y Hd) as [Hdd _]. rewrite Hdd.
      assert (H95 : (y =? 95) = false) by (revert Hd; AP.unfold_classes; AP.b2p; lia).
      rewrite H95. cbn [negb AP.value_of_digits length]. rewrite IH by assumption.
      assert (Hdv : A.digit_val y = Z.of_N (y - 48)) by (unfold A.digit_val; now rewrite Hd).
      rewrite Hdv, Nat2Z.inj_succ. rewrite Z.pow_succ_r by lia. rewrite N2Z.inj_add, N2Z.inj_mul. change (Z.of_N 10) with 10%Z. ring.
    + cbn [orb] in Hy. rewrite Hy. cbn [negb].
      assert (Hn : D.dec_digit y = None) by (unfold D.dec_digit; rewrite <- dec_agree, Hd; reflexivity).
      rewrite Hn. apply IH. assumption.
Qed.

Lemma A_decimal x ds suf tail :
  A.is_nonzero_dec x = true -> AP.digits_us A.is_dec ds = true ->
  forallb A.is_ident_cont suf = true -> head_not A.is_dec suf -> AP.stops tail ->
  A.lex_step x (ds ++ suf ++ tail) =
  let V := AP.value_of_digits 10 (x :: AP.strip_us ds) in
  let '(kd, v, ty) := A.finish_number false (if (V <? 2 ^ 128)%Z then Some V else None)
                                      (x :: AP.strip_us ds) suf in
  A.StTok kd v ty [] (1 + A.len ds + A.len suf) tail.
Proof.
  intros Hx Hds Hsuf Hhd Ht.
  assert (Hxd : A.is_dec x = true) by (revert Hx; AP.unfold_classes; AP.b2p; lia).
  rewrite AP.lex_step_decimal by assumption. unfold A.lex_decimal.
  rewrite (AP.take_digits_app A.is_dec ds (suf ++ tail) eq_refl Hds (head_not_app _ _ _ AP.dec_is_cont Hhd Ht)).
  rewrite (AP.take_ident_app suf tail Hsuf Ht).
  assert (Hv : AP.valid_digits 10 (x :: AP.strip_us ds)).
  { constructor; [now apply AP.dec_valid|]. apply (AP.strip_us_valid A.is_dec 10 ds eq_refl AP.dec_valid Hds). }
  rewrite (AP.from_str_radix_spec A.U128_LIMIT 10 (x :: AP.strip_us ds));
    [|lia|apply AP.u128_limit_pos|discriminate|assumption].
  reflexivity.
Qed.

Lemma D_decimal f x ds suf tail i :
  A.is_nonzero_dec x = true -> AP.digits_us A.is_dec ds = true ->
  forallb A.is_ident_cont suf = true -> head_not A.is_dec suf -> AP.stops tail ->
  let s := D.lex_step f x (ds ++ suf ++ tail) i in
  let M := DP.dec_value (x - 48) ds in
  let e2 := i + 1 + D.lenN ds + D.lenN suf in
  D.srest s = tail /\ D.send s = e2 /\
  D.act s = if M <? D.two128
            then match suf with
                 | [] => D.ATok KNakedDecimal (Z.of_N M) None e2
                 | _ :: _ => D.suffixed M suf i e2
                 end
            else D.AErr E140 i e2.
Proof.
  intros Hx Hds Hsuf Hhd Ht. cbv zeta. unfold D.lex_step.
  rewrite DP.lex_step_decimal by exact Hx. unfold D.lex_decimal_with.
  assert (Hstop : DP.dec_stops (suf ++ tail)).
  { pose proof (head_not_app _ _ _ AP.dec_is_cont Hhd Ht) as Hh.
    destruct (suf ++ tail) as [|y l]; [exact I|]. destruct Hh as [H1 H2]. split.
    - unfold D.dec_digit. rewrite <- dec_agree, H1. reflexivity.
    - now apply N.eqb_neq. }
  rewrite DP.scan_dec_body by (assumption || exact Hds).
  rewrite (DP.span_while_all D.is_ident_cont suf tail (Forall_of_forallb _ _ Hsuf) Ht).
  cbn [D.srest D.send D.act].
  rewrite DP.first_digit by exact Hx.
  set (a0 := {| D.dval := x - 48; D.dov := false; D.dpanic := false |}).
  assert (Hi0 : DP.dinv a0 (x - 48)).
  { split; [|discriminate]. intros _. split; [reflexivity|].
    revert Hx. AP.unfold_classes. AP.b2p. unfold D.two128. lia. }
  split; [reflexivity|]. split; [reflexivity|].
  destruct (DP.dfold_inv ds a0 _ Hi0) as [H0 H1].
  destruct (D.dov (DP.dfold D.dec_push a0 ds)).
  - specialize (H1 eq_refl). destruct (N.ltb_spec (DP.dec_value (x - 48) ds) D.two128); [lia|reflexivity].
  - destruct (H0 eq_refl) as [Hv Hm]. rewrite Hv.
    destruct (N.ltb_spec (DP.dec_value (x - 48) ds) D.two128); [reflexivity|lia].
Qed.

Theorem decimal_agree f x w tail tailD i :
  A.is_nonzero_dec x = true -> forallb A.is_ident_cont w = true -> DP.ends_token tail = true -> DP.ends_token tailD = true ->
  exists k v ty,
    A.lex_step x (w ++ tail) = A.StTok k v ty [] (1 + A.len w) tail /\
    D.srest (D.lex_step f x (w ++ tailD) i) = tailD /\
    D.send (D.lex_step f x (w ++ tailD) i) = i + 1 + D.lenN w /\
    D.act (D.lex_step f x (w ++ tailD) i) = payload_act (k, v, ty) i (i + 1 + D.lenN w) /\
    (k = KError -> ty = None).
Proof.
  intros Hx Hw Ht HtD. apply ends_stops in Ht. apply ends_stops in HtD.
  destruct (split_digits A.is_dec w Hw) as (ds & suf & -> & Hds & Hsuf & Hhd).
  rewrite <- !app_assoc.
  pose proof (A_decimal x ds suf tail Hx Hds Hsuf Hhd Ht) as HA.
  pose proof (D_decimal f x ds suf tailD i Hx Hds Hsuf Hhd HtD) as HD. cbv zeta in HA, HD.
  destruct HD as (HD1 & HD2 & HD3). rewrite HA, HD1, HD2, HD3. clear HA HD1 HD2 HD3.
  assert (Hxd : A.is_dec x = true) by (revert Hx; AP.unfold_classes; AP.b2p; lia).
  assert (HV : AP.value_of_digits 10 (x :: AP.strip_us ds) = Z.of_N (DP.dec_value (x - 48) ds)).
  { rewrite dec_value_link by assumption. cbn [AP.value_of_digits].
    unfold A.digit_val. rewrite Hxd. reflexivity. }
  rewrite HV.
  assert (Hlen : 1 + A.len (ds ++ suf) = 1 + A.len ds + A.len suf) by (rewrite AP.len_app; lia).
  assert (HlenD : i + 1 + D.lenN (ds ++ suf) = i + 1 + D.lenN ds + D.lenN suf) by (rewrite DP.lenN_app; lia).
  rewrite Hlen, HlenD.
  set (M := DP.dec_value (x - 48) ds).
  destruct (N.ltb_spec M D.two128) as [Hlt|Hge].
  - assert (Hz : (Z.of_N M <? 2 ^ 128)%Z = true) by (apply Z.ltb_lt; rewrite <- two128_Z; lia).
    rewrite Hz. unfold A.finish_number. cbn [andb].
    destruct suf as [|c suf'].
    + cbn [A.is_nil]. ex3.
    + cbn [A.is_nil]. rewrite suffixed_payload.
      destruct (A.parse_integer_suffix (c :: suf')); ex3.
  - assert (Hz : (Z.of_N M <? 2 ^ 128)%Z = false) by (apply Z.ltb_ge; rewrite <- two128_Z; lia).
    rewrite Hz. cbn [A.finish_number]. ex3.
Qed.

(* ---- arm '0' ------------------------------------------------------------------ *)
Lemma slice_mid a b c : D.slice (a ++ b ++ c) (D.lenN a) (D.lenN a + D.lenN b) = b.
Proof.
  unfold D.slice, D.lenN.
  replace (N.to_nat (N.of_nat (length a) + N.of_nat (length b) - N.of_nat (length a))) with (length b) by lia.
  rewrite Nat2N.id. rewrite skipn_app, skipn_all, Nat.sub_diag. cbn [skipn app].
  rewrite firstn_app, firstn_all, Nat.sub_diag. cbn [firstn]. apply app_nil_r.
Qed.

Lemma slice_prefix b c n : n = D.lenN b -> D.slice (b ++ c) 0 n = b.
Proof. intros ->. apply (slice_mid [] b c). Qed.

Lemma D_parse_x s : D.parse_integer_suffix (120 :: s) = None.
Proof. reflexivity. Qed.
Lemma D_parse_b s : D.parse_integer_suffix (98 :: s) = None.
Proof. reflexivity. Qed.


(* plain zero: `0` followed by a run that does not start with x or b *)
Theorem zero_plain_agree f w tail tailD i :
  forallb A.is_ident_cont w = true -> DP.ends_token tail = true -> DP.ends_token tailD = true ->
  match w with y :: _ => y <> 120 /\ y <> 98 | [] => True end ->
  exists k v ty,
    A.lex_step 48 (w ++ tail) = A.StTok k v ty [] (1 + A.len w) tail /\
    D.srest (D.lex_step f 48 (w ++ tailD) i) = tailD /\
    D.send (D.lex_step f 48 (w ++ tailD) i) = i + 1 + D.lenN w /\
    D.act (D.lex_step f 48 (w ++ tailD) i) = payload_act (k, v, ty) i (i + 1 + D.lenN w) /\
    (k = KError -> ty = None).
Proof.
  intros Hw Ht HtD Hhd. pose proof (ends_stops _ Ht) as Hst. pose proof (ends_stops _ HtD) as HstD.
  assert (Hplain0 : forall tl, AP.stops tl ->
            match w ++ tl with y :: _ => (y =? 120) = false /\ (y =? 98) = false | [] => True end).
  { intros tl Hs. destruct w as [|y w']; cbn [app].
    - destruct tl as [|y t]; [exact I|]. cbn in Hs.
      split; apply N.eqb_neq; intros ->; discriminate.
    - destruct Hhd. split; now apply N.eqb_neq. }
  pose proof (Hplain0 tail Hst) as Hplain. pose proof (Hplain0 tailD HstD) as HplainD.
  (* A *)
  assert (HA : A.lex_step 48 (w ++ tail) =
               let '(kd, v, ty) := A.finish_number true (Some 0%Z) [] w in A.StTok kd v ty [] (1 + A.len w) tail).
  { change (A.lex_step 48 (w ++ tail)) with (A.lex_zero (w ++ tail)). unfold A.lex_zero.
    rewrite (AP.take_ident_app w tail Hw Hst).
    destruct (w ++ tail) as [|y r]; [reflexivity|]. destruct Hplain as [H1 H2]. now rewrite H1, H2. }
  (* D *)
  change (D.lex_step f 48 (w ++ tailD) i) with (D.lex_zero (w ++ tailD) i). unfold D.lex_zero.
  assert (Hz : D.zero_prefix (w ++ tailD) (i + 1) = (Some 0, i + 1, i + 1, w ++ tailD)).
  { unfold D.zero_prefix. destruct (w ++ tailD) as [|y r]; [reflexivity|]. destruct HplainD as [H1 H2]. now rewrite H1, H2. }
  rewrite Hz. rewrite (DP.span_while_all D.is_ident_cont w tailD (Forall_of_forallb _ _ Hw) HstD).
  cbn [D.srest D.send D.act D.mk_step]. rewrite HA. clear HA Hz.
  destruct w as [|c w'].
  - cbn [A.finish_number A.is_nil andb Z.eqb]. rewrite DP.lenN_nil.
    replace (i + 1 + 0) with (i + 1) by lia. rewrite !N.eqb_refl. cbn [andb].
    ex3.
  - assert (Hne : (i + 1 + D.lenN (c :: w') =? i + 1) = false) by (apply N.eqb_neq; rewrite DP.lenN_cons; lia).
    rewrite Hne, andb_false_r.
    replace (i + 1 - (i + 1)) with 0 by lia.
    rewrite (slice_prefix (c :: w') tailD) by lia.
    rewrite suffixed_payload. unfold A.finish_number. cbn [A.is_nil andb].
    destruct (A.parse_integer_suffix (c :: w')); ex3.
Qed.

(* ---- 0x ------------------------------------------------------------------------ *)
Lemma hex_body_agree ds : AP.digits_us A.is_hex ds = true -> DP.is_hex_body ds = true.
Proof.
  unfold AP.digits_us, DP.is_hex_body. intros H. rewrite forallb_forall in *. intros y Hy.
  specialize (H y Hy). destruct (A.is_hex y) eqn:E.
  - destruct (proj1 (hex_agree y) E) as (h & Hh & _). now rewrite Hh.
  - rewrite (proj2 (hex_agree y) E). exact H.
Qed.

Lemma hex_digit_nil ds : AP.digits_us A.is_hex ds = true ->
  DP.has_hex_digit ds = negb (A.is_nil (AP.strip_us ds)).
Proof.
  induction ds as [|y ds IH]; intros H; [reflexivity|].
  cbn [AP.digits_us forallb] in H. apply andb_true_iff in H as [Hy Hds].
  cbn [DP.has_hex_digit existsb AP.strip_us filter]. fold (AP.strip_us ds). fold (DP.has_hex_digit ds).
  destruct (A.is_hex y) eqn:E.
  - destruct (proj1 (hex_agree y) E) as (h & Hh & _). rewrite Hh.
    assert (H95 : (y =? 95) = false) by (destruct (N.eqb_spec y 95) as [->|]; [discriminate|reflexivity]).
    rewrite H95. reflexivity.
  - rewrite (proj2 (hex_agree y) E). cbn [orb] in Hy. rewrite Hy. cbn [negb orb]. now apply IH.
Qed.

Lemma hex_value_link : forall ds acc, AP.digits_us A.is_hex ds = true ->
  Z.of_N (DP.hex_value acc ds) =
  (Z.of_N acc * 16 ^ Z.of_nat (length (AP.strip_us ds)) + AP.value_of_digits 16 (AP.strip_us ds))%Z.
Proof.
  induction ds as [|y ds IH]; intros acc H.
  - cbn. lia.
  - cbn [AP.digits_us forallb] in H. apply andb_true_iff in H as [Hy Hds].
    cbn [DP.hex_value AP.strip_us filter]. fold (AP.strip_us ds).
    destruct (A.is_hex y) eqn:Hd.
    + destruct (proj1 (hex_agree y) Hd) as (h & Hh & Hv). rewrite Hh.
      assert (H95 : (y =? 95) = false) by (destruct (N.eqb_spec y 95) as [->|]; [discriminate|reflexivity]).
      rewrite H95. cbn [negb AP.value_of_digits length]. rewrite IH by assumption.
      rewrite Hv, Nat2Z.inj_succ. rewrite Z.pow_succ_r by lia. rewrite N2Z.inj_add, N2Z.inj_mul.
      change (Z.of_N 16) with 16%Z. ring.
    + rewrite (proj2 (hex_agree y) Hd). cbn [orb] in Hy. rewrite Hy. cbn [negb]. apply IH. assumption.
Qed.

(* the common shape of the result of a radix literal *)
Definition radix_payload (no_digits : bool) (V : Z) (suf : list N) : tkind * Z * option tykw :=
  if no_digits then (KError, E141, None)
  else if (V <? 2 ^ 128)%Z then
    (if A.is_nil suf then (KBitInteger, V, None)
     else match A.parse_integer_suffix suf with
          | Some p => (KSuffixedInteger, V, Some (TyPrim p))
          | None => (KError, E141, None)
          end)
  else (KError, E140, None).

Lemma A_radix isd base pc ds suf tail :
  isd 95 = false ->
  (forall c, isd c = true -> (0 <= A.digit_val c < base)%Z) ->
  (forall c, isd c = true -> A.is_ident_cont c = true) ->
  (0 < base)%Z ->
  (forall s, A.parse_integer_suffix (pc :: s) = None) ->
  AP.digits_us isd ds = true -> forallb A.is_ident_cont suf = true -> head_not isd suf -> AP.stops tail ->
  A.lex_radix isd base pc (ds ++ suf ++ tail) =
  let '(kd, v, ty) := radix_payload (A.is_nil (AP.strip_us ds)) (AP.value_of_digits base (AP.strip_us ds)) suf in
  A.StTok kd v ty [] (2 + A.len ds + A.len suf) tail.
Proof.
  intros H95 Hval Hcont Hb Hpc Hds Hsuf Hhd Ht. unfold A.lex_radix.
  rewrite (AP.take_digits_app isd ds (suf ++ tail) H95 Hds (head_not_app _ _ _ Hcont Hhd Ht)).
  rewrite (AP.take_ident_app suf tail Hsuf Ht).
  unfold radix_payload.
  destruct (AP.strip_us ds) as [|d l] eqn:E.
  - cbn [A.from_str_radix A.is_nil]. unfold A.finish_number. cbn [A.is_nil andb]. rewrite andb_false_r.
    rewrite Hpc. reflexivity.
  - rewrite (AP.from_str_radix_spec A.U128_LIMIT base (d :: l) Hb AP.u128_limit_pos ltac:(discriminate)).
    2:{ rewrite <- E. apply (AP.strip_us_valid isd base ds H95 Hval Hds). }
    change A.U128_LIMIT with (2 ^ 128)%Z. cbn [A.is_nil].
    destruct (AP.value_of_digits base (d :: l) <? 2 ^ 128)%Z; [|reflexivity].
    unfold A.finish_number. cbn [A.is_nil andb]. rewrite andb_false_r. reflexivity.
Qed.

Lemma A_parse_x s : A.parse_integer_suffix (120 :: s) = None.
Proof. reflexivity. Qed.
Lemma A_parse_b s : A.parse_integer_suffix (98 :: s) = None.
Proof. reflexivity. Qed.

Lemma D_hex f ds suf tail i :
  AP.digits_us A.is_hex ds = true -> forallb A.is_ident_cont suf = true ->
  head_not A.is_hex suf -> AP.stops tail ->
  let s := D.lex_step f 48 (120 :: ds ++ suf ++ tail) i in
  let M := DP.hex_value 0 ds in
  let e2 := i + 2 + D.lenN ds + D.lenN suf in
  D.srest s = tail /\ D.send s = e2 /\
  D.act s = if negb (DP.has_hex_digit ds) then D.AErr E141 i e2
            else if M <? D.two128
            then match suf with
                 | [] => D.ATok KBitInteger (Z.of_N M) None e2
                 | _ :: _ => D.suffixed M suf i e2
                 end
            else D.AErr E140 i e2.
Proof.
  intros Hds Hsuf Hhd Ht. cbv zeta.
  change (D.lex_step f 48 (120 :: ds ++ suf ++ tail) i) with (D.lex_zero (120 :: ds ++ suf ++ tail) i).
  unfold D.lex_zero, D.zero_prefix. rewrite N.eqb_refl.
  assert (Hstop : DP.hex_stops (suf ++ tail)).
  { pose proof (head_not_app _ _ _ AP.hex_is_cont Hhd Ht) as Hh.
    destruct (suf ++ tail) as [|y l]; [exact I|]. destruct Hh as [H1 H2]. split.
    - exact (proj2 (hex_agree y) H1).
    - now apply N.eqb_neq. }
  rewrite DP.scan_hex_body by (try assumption; now apply hex_body_agree).
  rewrite DP.hfold_digits. cbn [D.hdigits orb].
  set (a := DP.hfold _ ds).
  assert (Hi : DP.hinv a (DP.hex_value 0 ds)).
  { apply DP.hfold_inv. split; [|discriminate]. intros _. split; [reflexivity|]. unfold D.two128. lia. }
  destruct (DP.has_hex_digit ds) eqn:Hdig; cbn [negb].
  - rewrite (DP.span_while_all D.is_ident_cont suf tail (Forall_of_forallb _ _ Hsuf) Ht).
    cbn [D.srest D.send D.act D.mk_step].
    split; [reflexivity|]. split; [lia|].
    replace (i + 1 + 1 + D.lenN ds - (i + 1)) with (D.lenN (120 :: ds)) by (rewrite DP.lenN_cons; lia).
    replace (i + 1 + 1 + D.lenN ds + D.lenN suf - (i + 1)) with (D.lenN (120 :: ds) + D.lenN suf)
      by (rewrite DP.lenN_cons; lia).
    change (120 :: ds ++ suf ++ tail) with ((120 :: ds) ++ suf ++ tail). rewrite slice_mid.
    replace (i + 1 + 1 + D.lenN ds + D.lenN suf) with (i + 2 + D.lenN ds + D.lenN suf) by lia.
    destruct Hi as [H0 H1]. destruct (D.hov a).
    + specialize (H1 eq_refl). destruct (N.ltb_spec (DP.hex_value 0 ds) D.two128); [lia|reflexivity].
    + destruct (H0 eq_refl) as [Hv Hm]. rewrite Hv.
      destruct (N.ltb_spec (DP.hex_value 0 ds) D.two128); [|lia].
      assert (Hne : (i + 2 + D.lenN ds + D.lenN suf =? i + 1) = false) by (apply N.eqb_neq; lia).
      rewrite Hne, andb_false_r.
      destruct suf as [|c suf'].
      * rewrite DP.lenN_nil. replace (i + 2 + D.lenN ds + 0) with (i + 1 + 1 + D.lenN ds) by lia.
        rewrite N.eqb_refl. reflexivity.
      * assert (Hne2 : (i + 2 + D.lenN ds + D.lenN (c :: suf') =? i + 1 + 1 + D.lenN ds) = false)
          by (apply N.eqb_neq; rewrite DP.lenN_cons; lia).
        rewrite Hne2. reflexivity.
  - rewrite (DP.span_while_all D.is_ident_cont suf tail (Forall_of_forallb _ _ Hsuf) Ht).
    cbn [D.srest D.send D.act D.mk_step].
    split; [reflexivity|]. split; [lia|].
    replace (i + 1 - (i + 1)) with 0 by lia.
    replace (120 :: ds ++ suf ++ tail) with ((120 :: ds ++ suf) ++ tail) by (cbn [app]; now rewrite <- app_assoc).
    rewrite slice_prefix by (rewrite DP.lenN_cons, DP.lenN_app; lia).
    replace (i + 1 + 1 + D.lenN ds + D.lenN suf) with (i + 2 + D.lenN ds + D.lenN suf) by lia.
    assert (Hne : (i + 2 + D.lenN ds + D.lenN suf =? i + 1) = false) by (apply N.eqb_neq; lia).
    rewrite Hne, andb_false_r. unfold D.suffixed. rewrite D_parse_x. reflexivity.
Qed.

Theorem hex_agree_lexeme f w tail tailD i :
  forallb A.is_ident_cont w = true -> DP.ends_token tail = true -> DP.ends_token tailD = true ->
  exists k v ty,
    A.lex_step 48 (120 :: w ++ tail) = A.StTok k v ty [] (2 + A.len w) tail /\
    D.srest (D.lex_step f 48 (120 :: w ++ tailD) i) = tailD /\
    D.send (D.lex_step f 48 (120 :: w ++ tailD) i) = i + 2 + D.lenN w /\
    D.act (D.lex_step f 48 (120 :: w ++ tailD) i) = payload_act (k, v, ty) i (i + 2 + D.lenN w) /\
    (k = KError -> ty = None).
Proof.
  intros Hw Ht HtD. apply ends_stops in Ht. apply ends_stops in HtD.
  destruct (split_digits A.is_hex w Hw) as (ds & suf & -> & Hds & Hsuf & Hhd).
  rewrite <- !app_assoc.
  change (A.lex_step 48 (120 :: ds ++ suf ++ tail)) with (A.lex_radix A.is_hex 16 120 (ds ++ suf ++ tail)).
  rewrite (A_radix A.is_hex 16 120 ds suf tail eq_refl AP.hex_valid AP.hex_is_cont ltac:(lia) A_parse_x Hds Hsuf Hhd Ht).
  destruct (D_hex f ds suf tailD i Hds Hsuf Hhd HtD) as (HD1 & HD2 & HD3). cbv zeta in HD1, HD2, HD3.
  rewrite HD1, HD2, HD3. clear HD1 HD2 HD3.
  rewrite (hex_digit_nil ds Hds), negb_involutive.
  assert (HV : AP.value_of_digits 16 (AP.strip_us ds) = Z.of_N (DP.hex_value 0 ds)).
  { rewrite hex_value_link by assumption. cbn. lia. }
  rewrite HV.
  assert (Hlen : 2 + A.len (ds ++ suf) = 2 + A.len ds + A.len suf) by (rewrite AP.len_app; lia).
  assert (HlenD : i + 2 + D.lenN (ds ++ suf) = i + 2 + D.lenN ds + D.lenN suf) by (rewrite DP.lenN_app; lia).
  rewrite Hlen, HlenD. unfold radix_payload.
  destruct (A.is_nil (AP.strip_us ds)); [ex3|].
  set (M := DP.hex_value 0 ds).
  destruct (N.ltb_spec M D.two128) as [Hlt|Hge].
  - assert (Hz : (Z.of_N M <? 2 ^ 128)%Z = true) by (apply Z.ltb_lt; rewrite <- two128_Z; lia).
    rewrite Hz. destruct suf as [|c suf']; cbn [A.is_nil]; [ex3|].
    rewrite suffixed_payload. destruct (A.parse_integer_suffix (c :: suf')); ex3.
  - assert (Hz : (Z.of_N M <? 2 ^ 128)%Z = false) by (apply Z.ltb_ge; rewrite <- two128_Z; lia).
    rewrite Hz. ex3.
Qed.

(* ---- 0b ------------------------------------------------------------------------ *)
Lemma bin_body_agree ds : AP.digits_us A.is_bin ds = true -> DP.is_bin_body ds = true.
Proof. intros H. exact H. Qed.

Lemma bin_digits_strip ds : AP.digits_us A.is_bin ds = true -> DP.bin_digits ds = A.len (AP.strip_us ds).
Proof.
  induction ds as [|y ds IH]; intros H; [reflexivity|].
  cbn [AP.digits_us forallb] in H. apply andb_true_iff in H as [Hy Hds].
  cbn [DP.bin_digits AP.strip_us filter]. fold (AP.strip_us ds). rewrite (IH Hds).
  unfold A.is_bin in Hy. destruct ((y =? 48) || (y =? 49)) eqn:E.
  - assert (H95 : (y =? 95) = false).
    { apply orb_true_iff in E as [E|E]; apply N.eqb_eq in E; subst; reflexivity. }
    rewrite H95. cbn [negb]. rewrite AP.len_cons. reflexivity.
  - cbn [orb] in Hy. rewrite Hy. cbn [negb]. lia.
Qed.

Lemma bin_value_link : forall ds acc, AP.digits_us A.is_bin ds = true ->
  Z.of_N (DP.bin_value acc ds) =
  (Z.of_N acc * 2 ^ Z.of_nat (length (AP.strip_us ds)) + AP.value_of_digits 2 (AP.strip_us ds))%Z.
Proof.
  induction ds as [|y ds IH]; intros acc H.
  - cbn. lia.
  - cbn [AP.digits_us forallb] in H. apply andb_true_iff in H as [Hy Hds].
    cbn [DP.bin_value AP.strip_us filter]. fold (AP.strip_us ds).
    destruct (N.eqb_spec y 48) as [->|H48].
    + cbn [N.eqb Pos.eqb negb AP.value_of_digits length]. rewrite IH by assumption.
      rewrite Nat2Z.inj_succ. rewrite Z.pow_succ_r by lia. rewrite N2Z.inj_mul.
      change (A.digit_val 48) with 0%Z. change (Z.of_N 2) with 2%Z. ring.
    + destruct (N.eqb_spec y 49) as [->|H49].
      * cbn [N.eqb Pos.eqb negb AP.value_of_digits length]. rewrite IH by assumption.
        rewrite Nat2Z.inj_succ. rewrite Z.pow_succ_r by lia. rewrite N2Z.inj_add, N2Z.inj_mul.
        change (A.digit_val 49) with 1%Z. change (Z.of_N 2) with 2%Z. change (Z.of_N 1) with 1%Z. ring.
      * unfold A.is_bin in Hy. apply N.eqb_neq in H48, H49. rewrite H48, H49 in Hy. cbn [orb] in Hy.
        rewrite Hy. cbn [negb]. apply IH. assumption.
Qed.

Lemma D_bin f ds suf tail i :
  AP.digits_us A.is_bin ds = true -> forallb A.is_ident_cont suf = true ->
  head_not A.is_bin suf -> AP.stops tail ->
  let s := D.lex_step f 48 (98 :: ds ++ suf ++ tail) i in
  let M := DP.bin_value 0 ds in
  let e2 := i + 2 + D.lenN ds + D.lenN suf in
  D.srest s = tail /\ D.send s = e2 /\
  D.act s = if DP.bin_digits ds =? 0 then D.AErr E141 i e2
            else if DP.bin_digits ds <=? 128
            then match suf with
                 | [] => D.ATok KBitInteger (Z.of_N M) None e2
                 | _ :: _ => D.suffixed M suf i e2
                 end
            else D.AErr E140 i e2.
Proof.
  intros Hds Hsuf Hhd Ht. cbv zeta.
  change (D.lex_step f 48 (98 :: ds ++ suf ++ tail) i) with (D.lex_zero (98 :: ds ++ suf ++ tail) i).
  unfold D.lex_zero, D.zero_prefix. change (98 =? 120) with false. cbn iota. rewrite N.eqb_refl.
  assert (Hstop : DP.bin_stops (suf ++ tail)).
  { pose proof (head_not_app _ _ _ AP.bin_is_cont Hhd Ht) as Hh.
    destruct (suf ++ tail) as [|y l]; [exact I|]. destruct Hh as [H1 H2].
    unfold A.is_bin in H1. apply orb_false_iff in H1 as [H48 H49]. repeat split; try assumption.
    now apply N.eqb_neq. }
  pose proof (bin_body_agree ds Hds) as Hb.
  destruct (N.leb_spec (DP.bin_digits ds) 128) as [Hle|Hgt].
  - destruct (DP.scan_bin_body ds 0 0 (i + 1 + 1) (suf ++ tail) Hb Hstop ltac:(lia) ltac:(reflexivity)) as [Hsc _].
    rewrite Hsc. rewrite N.add_0_l.
    destruct (N.ltb_spec 128 (DP.bin_digits ds)) as [Hc|_]; [lia|].
    destruct (N.eqb_spec (DP.bin_digits ds) 0) as [H0|H0].
    + rewrite H0. change (0 <? 0) with false. cbn iota.
      rewrite (DP.span_while_all D.is_ident_cont suf tail (Forall_of_forallb _ _ Hsuf) Ht).
      cbn [D.srest D.send D.act D.mk_step].
      split; [reflexivity|]. split; [lia|].
      replace (i + 1 - (i + 1)) with 0 by lia.
      replace (98 :: ds ++ suf ++ tail) with ((98 :: ds ++ suf) ++ tail) by (cbn [app]; now rewrite <- app_assoc).
      rewrite slice_prefix by (rewrite DP.lenN_cons, DP.lenN_app; lia).
      replace (i + 1 + 1 + D.lenN ds + D.lenN suf) with (i + 2 + D.lenN ds + D.lenN suf) by lia.
      assert (Hne : (i + 2 + D.lenN ds + D.lenN suf =? i + 1) = false) by (apply N.eqb_neq; lia).
      rewrite !N.eqb_refl, Hne. cbn [andb]. unfold D.suffixed. rewrite D_parse_b. reflexivity.
    + destruct (N.ltb_spec 0 (DP.bin_digits ds)) as [_|Hc]; [|lia].
      rewrite (DP.span_while_all D.is_ident_cont suf tail (Forall_of_forallb _ _ Hsuf) Ht).
      cbn [D.srest D.send D.act D.mk_step].
      split; [reflexivity|]. split; [lia|].
      replace (i + 1 + 1 + D.lenN ds - (i + 1)) with (D.lenN (98 :: ds)) by (rewrite DP.lenN_cons; lia).
      replace (i + 1 + 1 + D.lenN ds + D.lenN suf - (i + 1)) with (D.lenN (98 :: ds) + D.lenN suf)
        by (rewrite DP.lenN_cons; lia).
      change (98 :: ds ++ suf ++ tail) with ((98 :: ds) ++ suf ++ tail). rewrite slice_mid.
      replace (i + 1 + 1 + D.lenN ds + D.lenN suf) with (i + 2 + D.lenN ds + D.lenN suf) by lia.
      assert (Hne : (i + 2 + D.lenN ds + D.lenN suf =? i + 1) = false) by (apply N.eqb_neq; lia).
      rewrite Hne, andb_false_r.
      destruct suf as [|c suf'].
      * rewrite DP.lenN_nil. replace (i + 2 + D.lenN ds + 0) with (i + 1 + 1 + D.lenN ds) by lia.
        rewrite N.eqb_refl. reflexivity.
      * assert (Hne2 : (i + 2 + D.lenN ds + D.lenN (c :: suf') =? i + 1 + 1 + D.lenN ds) = false)
          by (apply N.eqb_neq; rewrite DP.lenN_cons; lia).
        rewrite Hne2. reflexivity.
  - destruct (DP.scan_bin_over ds 0 0 (i + 1 + 1) (suf ++ tail) Hb ltac:(lia) ltac:(lia)) as (v' & pre & post & Hbody & Hsc).
    rewrite Hsc. change (128 <? 129) with true. cbn iota.
    assert (Hpost : Forall (fun y => D.is_ident_cont y = true) (post ++ suf)).
    { apply Forall_app. split; [|exact (Forall_of_forallb _ _ Hsuf)].
      pose proof (DP.bin_body_cont ds Hb) as Hall. rewrite Hbody in Hall. apply Forall_app in Hall. tauto. }
    replace (post ++ suf ++ tail) with ((post ++ suf) ++ tail) by (now rewrite <- app_assoc).
    rewrite (DP.span_while_all D.is_ident_cont (post ++ suf) tail Hpost Ht).
    cbn [D.srest D.send D.act D.mk_step].
    assert (He : i + 1 + 1 + D.lenN pre + D.lenN (post ++ suf) = i + 2 + D.lenN ds + D.lenN suf).
    { rewrite Hbody, !DP.lenN_app. lia. }
    rewrite He.
    destruct (N.eqb_spec (DP.bin_digits ds) 0) as [H0|_]; [lia|].
    repeat split; reflexivity.
Qed.

(* THE KNOWN DIVERGENCE: a `0b` literal with more than 128 binary digits (leading
   zeros included) whose value still fits 128 bits.  D: E140 (digit count);
   A: the value (BitInteger / SuffixedInteger, or E141 for a bad suffix). *)
Definition known_bin_leading_zeros (lexeme : list N) : bool :=
  match lexeme with
  | 48 :: 98 :: w =>
      let body := fst (D.span_while (fun y => A.is_bin y || (y =? 95)) w) in
      (128 <? DP.bin_digits body) && (DP.bin_value 0 body <? D.two128)
  | _ => false
  end.

Theorem bin_agree_lexeme f w tail tailD i :
  forallb A.is_ident_cont w = true -> DP.ends_token tail = true -> DP.ends_token tailD = true ->
  known_bin_leading_zeros (48 :: 98 :: w) = false ->
  exists k v ty,
    A.lex_step 48 (98 :: w ++ tail) = A.StTok k v ty [] (2 + A.len w) tail /\
    D.srest (D.lex_step f 48 (98 :: w ++ tailD) i) = tailD /\
    D.send (D.lex_step f 48 (98 :: w ++ tailD) i) = i + 2 + D.lenN w /\
    D.act (D.lex_step f 48 (98 :: w ++ tailD) i) = payload_act (k, v, ty) i (i + 2 + D.lenN w) /\
    (k = KError -> ty = None).
Proof.
  intros Hw Ht HtD Hknown. apply ends_stops in Ht. apply ends_stops in HtD.
  destruct (split_digits A.is_bin w Hw) as (ds & suf & -> & Hds & Hsuf & Hhd).
  (* the exception, in terms of ds *)
  assert (Hk : (128 <? DP.bin_digits ds) && (DP.bin_value 0 ds <? D.two128) = false).
  { unfold known_bin_leading_zeros in Hknown.
    rewrite (DP.span_while_all (fun y => A.is_bin y || (y =? 95)) ds suf) in Hknown; [exact Hknown| |].
    - apply Forall_of_forallb. exact Hds.
    - destruct suf as [|y suf']; [exact I|]. destruct Hhd as [H1 H2]. apply N.eqb_neq in H2. now rewrite H1, H2. }
  rewrite <- !app_assoc.
  change (A.lex_step 48 (98 :: ds ++ suf ++ tail)) with (A.lex_radix A.is_bin 2 98 (ds ++ suf ++ tail)).
  rewrite (A_radix A.is_bin 2 98 ds suf tail eq_refl AP.bin_valid AP.bin_is_cont ltac:(lia) A_parse_b Hds Hsuf Hhd Ht).
  destruct (D_bin f ds suf tailD i Hds Hsuf Hhd HtD) as (HD1 & HD2 & HD3). cbv zeta in HD1, HD2, HD3.
  rewrite HD1, HD2, HD3. clear HD1 HD2 HD3.
  assert (HV : AP.value_of_digits 2 (AP.strip_us ds) = Z.of_N (DP.bin_value 0 ds)).
  { rewrite bin_value_link by assumption. cbn. lia. }
  rewrite HV.
  assert (Hlen : 2 + A.len (ds ++ suf) = 2 + A.len ds + A.len suf) by (rewrite AP.len_app; lia).
  assert (HlenD : i + 2 + D.lenN (ds ++ suf) = i + 2 + D.lenN ds + D.lenN suf) by (rewrite DP.lenN_app; lia).
  rewrite Hlen, HlenD. unfold radix_payload.
  pose proof (bin_digits_strip ds Hds) as Hcnt.
  destruct (AP.strip_us ds) as [|d0 l0] eqn:Estrip.
  - cbn [A.is_nil]. rewrite Hcnt. change (A.len [] =? 0) with true. cbn iota. ex3.
  - cbn [A.is_nil].
    assert (Hnz : (DP.bin_digits ds =? 0) = false) by (apply N.eqb_neq; rewrite Hcnt, AP.len_cons; lia).
    rewrite Hnz. set (M := DP.bin_value 0 ds) in *.
    destruct (N.leb_spec (DP.bin_digits ds) 128) as [Hle|Hgt].
    + pose proof (DP.bin_value_fits ds (bin_body_agree ds Hds) Hle) as Hfit. fold M in Hfit.
      assert (Hz : (Z.of_N M <? 2 ^ 128)%Z = true) by (apply Z.ltb_lt; rewrite <- two128_Z; lia).
      rewrite Hz. destruct suf as [|c suf']; cbn [A.is_nil]; [ex3|].
      rewrite suffixed_payload. destruct (A.parse_integer_suffix (c :: suf')); ex3.
    + assert (Hbig : D.two128 <= M).
      { apply andb_false_iff in Hk as [Hk|Hk]; [apply N.ltb_ge in Hk; lia|apply N.ltb_ge in Hk; exact Hk]. }
      assert (Hz : (Z.of_N M <? 2 ^ 128)%Z = false) by (apply Z.ltb_ge; rewrite <- two128_Z; lia).
      rewrite Hz. ex3.
Qed.

(* ---- all numeric lexemes ------------------------------------------------------- *)
(* a digit, then any run of [A-Za-z0-9_], then the end or a byte that cannot continue
   an identifier: both lexers consume exactly the run and produce the same kind, value
   and suffix type, or the same error code (E140 / E141) *)
Theorem numeric_agree f d w tail tailD i :
  A.is_dec d = true -> forallb A.is_ident_cont w = true -> DP.ends_token tail = true -> DP.ends_token tailD = true ->
  known_bin_leading_zeros (d :: w) = false ->
  exists k v ty,
    A.lex_step d (w ++ tail) = A.StTok k v ty [] (1 + A.len w) tail /\
    D.srest (D.lex_step f d (w ++ tailD) i) = tailD /\
    D.send (D.lex_step f d (w ++ tailD) i) = i + 1 + D.lenN w /\
    D.act (D.lex_step f d (w ++ tailD) i) = payload_act (k, v, ty) i (i + 1 + D.lenN w) /\
    (k = KError -> ty = None).
Proof.
  intros Hd Hw Ht HtD Hknown.
  destruct (N.eqb_spec d 48) as [->|Hd48].
  - destruct w as [|y w'].
    + apply zero_plain_agree; auto.
    + destruct (N.eqb_spec y 120) as [->|Hx].
      { cbn [forallb] in Hw. apply andb_true_iff in Hw as [_ Hw].
        destruct (hex_agree_lexeme f w' tail tailD i Hw Ht HtD) as (k & v & ty & H1 & H2 & H3 & H4 & H5).
        exists k, v, ty. cbn [app]. rewrite AP.len_cons, DP.lenN_cons.
        replace (1 + (1 + A.len w')) with (2 + A.len w') by lia.
        replace (i + 1 + (D.lenN w' + 1)) with (i + 2 + D.lenN w') by lia. auto. }
      destruct (N.eqb_spec y 98) as [->|Hb].
      { cbn [forallb] in Hw. apply andb_true_iff in Hw as [_ Hw].
        destruct (bin_agree_lexeme f w' tail tailD i Hw Ht HtD Hknown) as (k & v & ty & H1 & H2 & H3 & H4 & H5).
        exists k, v, ty. cbn [app]. rewrite AP.len_cons, DP.lenN_cons.
        replace (1 + (1 + A.len w')) with (2 + A.len w') by lia.
        replace (i + 1 + (D.lenN w' + 1)) with (i + 2 + D.lenN w') by lia. auto. }
      apply zero_plain_agree; auto.
  - apply decimal_agree; auto. revert Hd Hd48. AP.unfold_classes. AP.b2p. lia.
Qed.

(* inside the class the two lexers DISAGREE: `0b` followed by 129 zeros *)
Theorem numeric_agree_refuted :
  exists w, known_bin_leading_zeros (48 :: w) = true /\ forallb A.is_ident_cont w = true /\
    A.lex_step 48 w = A.StTok KBitInteger 0%Z None [] 131 [] /\
    D.act (D.lex_step 0 48 w 0) = D.AErr E140 0 131.
Proof. exists (98 :: repeat 48 129). vm_compute. repeat split. Qed.

(* the class is exactly "more than 128 binary digits but the value fits": 128 zeros
   and a one is outside it and agrees *)
Example known_class_boundary :
  known_bin_leading_zeros (D.bs "0b" ++ repeat 48 127 ++ D.bs "1") = false /\
  known_bin_leading_zeros (D.bs "0b" ++ repeat 48 128 ++ D.bs "1") = true /\
  known_bin_leading_zeros (D.bs "0b" ++ repeat 49 129) = false /\
  known_bin_leading_zeros (D.bs "0b" ++ repeat 48 128 ++ D.bs "1_u8") = true /\
  known_bin_leading_zeros (D.bs "0x" ++ repeat 48 200) = false.
Proof. vm_compute. repeat split. Qed.

(* ========================================================================== *)
(* c. Whole sources without quotes and carriage returns                        *)
(* ========================================================================== *)
(* characters allowed in a line: no LF (it ends the line), no CR, no quote *)
Definition okb (y : N) : bool := negb (y =? 10) && negb (y =? 13) && negb (y =? 34) && negb (y =? 39).

(* what follows the current line in D's byte stream *)
Definition stream_suffix (S : list N) : Prop := S = [] \/ exists rest, S = 10 :: rest.

Definition pay_rel (pa pd : tkind * Z * option tykw) : Prop :=
  pd = pa \/ (pa = (KIdentifier, 0%Z, None) /\ pd = (KReturn, 0%Z, None)).

(* A works on the rest [r] of the line, D on the rest of the stream [r ++ S] *)
Definition step_rel (r S : list N) (i : N) (sa : A.step) (sd : D.step) : Prop :=
  match sa with
  | A.StEnd => D.act sd = D.ASkip /\ D.srest sd = S /\ D.send sd = i + 1 + D.lenN r
  | A.StSkip => D.act sd = D.ASkip /\ D.srest sd = r ++ S /\ D.send sd = i + 1
  | A.StTok k v ty bs n rest' =>
      bs = [] /\ D.srest sd = rest' ++ S /\ D.send sd = i + n /\ (k = KError -> ty = None) /\
      exists pd, pay_rel (k, v, ty) pd /\ D.act sd = payload_act pd i (i + n)
  | A.StStrErr _ _ _ _ _ _ _ => False
  end.

Lemma stream_head_10 S : stream_suffix S -> match S with [] => True | y :: _ => y = 10 end.
Proof. intros [->|(rest & ->)]; auto. Qed.

Lemma okb_spec y : okb y = true -> y <> 10 /\ y <> 13 /\ y <> 34 /\ y <> 39.
Proof.
  unfold okb. intros H. repeat (apply andb_true_iff in H as [H ?]).
  repeat match goal with Hn : negb _ = true |- _ => apply negb_true_iff, N.eqb_neq in Hn end. auto.
Qed.

Lemma take_ident_span cs : A.take_ident cs = D.span_while D.is_ident_cont cs.
Proof.
  induction cs as [|y cs IH]; [reflexivity|]. cbn [A.take_ident D.span_while].
  rewrite cont_agree, IH. reflexivity.
Qed.

(* a scan that stops at the newline does not see the rest of the stream *)
Lemma span_while_stream p l S : p 10 = false -> stream_suffix S ->
  D.span_while p (l ++ S) = (fst (D.span_while p l), snd (D.span_while p l) ++ S).
Proof.
  intros H10 HS. induction l as [|y l IH]; cbn [app D.span_while].
  - destruct HS as [->|(rest & ->)]; [reflexivity|]. cbn [D.span_while]. now rewrite H10.
  - destruct (p y); [|reflexivity]. rewrite IH. destruct (D.span_while p l). reflexivity.
Qed.

Lemma ends_token_stream tl S : AP.stops tl -> stream_suffix S -> DP.ends_token (tl ++ S) = true.
Proof.
  intros Ht HS. destruct tl as [|y t]; cbn [app].
  - destruct HS as [->|(rest & ->)]; reflexivity.
  - cbn in Ht. cbn [DP.ends_token]. rewrite <- cont_agree, Ht. reflexivity.
Qed.

Lemma stops_ends tl : AP.stops tl -> DP.ends_token tl = true.
Proof. intros H. rewrite <- (app_nil_r tl). apply ends_token_stream; [assumption|now left]. Qed.

Lemma payload_act_tok k v ty i e : k <> KError -> payload_act (k, v, ty) i e = D.ATok k v ty e.
Proof. intros H. unfold payload_act. destruct k; try reflexivity. congruence. Qed.

(* D's dispatch for a punctuation character *)
Lemma D_punct f x seconds k1 R i :
  D.assoc_N x D.punct_table = Some (seconds, k1) ->
  D.lex_step f x R i =
  match R with
  | y :: r' =>
      match D.assoc_N y seconds with
      | Some k2 => D.mk_step (D.ATok k2 0%Z None (i + 1 + 1)) r' (i + 1 + 1)
      | None => D.mk_step (D.ATok k1 0%Z None (i + 1)) R (i + 1)
      end
  | [] => D.mk_step (D.ATok k1 0%Z None (i + 1)) R (i + 1)
  end.
Proof.
  intros H. pose proof H as Hin. apply assoc_N_In in Hin. cbn in Hin.
  repeat (destruct Hin as [Hin|Hin]; [inversion Hin; subst; reflexivity|]). contradiction.
Qed.

Lemma D_slash f R i :
  D.lex_step f 47 R i =
  match R with
  | y :: r' => if y =? 47
               then let '(t, r'') := D.span_while (fun z => negb (z =? 10)) r' in
                    D.mk_step D.ASkip r'' (i + 1 + 1 + D.lenN t)
               else D.mk_step (D.ATok KDivide 0%Z None (i + 1)) R (i + 1)
  | [] => D.mk_step (D.ATok KDivide 0%Z None (i + 1)) R (i + 1)
  end.
Proof. reflexivity. Qed.

(* D's dispatch for everything else *)
Lemma D_nonpunct f x R i :
  D.assoc_N x D.punct_table = None -> x <> 47 -> x <> 10 -> x <> 13 -> x <> 32 -> x <> 9 ->
  D.lex_step f x R i =
  if D.is_ident_start x then D.lex_ident x R i
  else if x =? 48 then D.lex_zero R i
  else if D.in_range 49 57 x then D.lex_decimal x R i
  else if x =? 39 then D.lex_literal f true 39 R i
  else if x =? 34 then D.lex_literal f false 34 R i
  else D.mk_step (D.AErr E110 i (i + 1)) R (i + 1).
Proof.
  intros H H47 H10 H13 H32 H9. unfold D.lex_step, D.lex_step_with. rewrite H.
  apply N.eqb_neq in H47, H10, H13, H32, H9. rewrite H47, H10, H13, H32, H9. reflexivity.
Qed.

(* the divergence around `return`: D reserves the word, so `return!` is Return followed
   by `!` (or `!=`) in D but the builtin `return!` in A *)
Definition return_bang_free (src : list N) : Prop :=
  forall pre post, src <> pre ++ w_return ++ 33 :: post.

(* no `0b` lexeme of the known class starts at the head of (x :: r) *)
Definition no_known_bin_here (x : N) (r : list N) : Prop :=
  forall w tl, r = w ++ tl -> forallb A.is_ident_cont w = true -> AP.stops tl ->
               known_bin_leading_zeros (x :: w) = false.

Ltac lens := unfold D.lenN, A.len in *; cbn [length] in *; lia.
Tactic Notation "rel_tok" uconstr(pd) :=
  cbn [step_rel D.mk_step D.act D.srest D.send];
  split; [reflexivity|]; split; [try reflexivity|]; split; [try lens|];
  split; [try (intros; congruence); try (intros _; reflexivity)|];
  exists (pd : tkind * Z * option tykw); split.

Theorem step_agree f x r S i :
  okb x = true -> forallb okb r = true -> stream_suffix S ->
  no_known_bin_here x r ->
  (forall post, x :: r <> w_return ++ 33 :: post) ->
  step_rel r S i (A.lex_step x r) (D.lex_step f x (r ++ S) i).
Proof.
  intros Hx Hr HS Hbin Hret.
  destruct (okb_spec x Hx) as (Hx10 & Hx13 & Hx34 & Hx39).
  pose proof (stream_head_10 S HS) as HS10.
  (* whitespace *)
  destruct (N.eqb_spec x 32) as [->|H32]; [cbn; auto|].
  destruct (N.eqb_spec x 9) as [->|H9]; [cbn; auto|].
  (* slash *)
  destruct (N.eqb_spec x 47) as [->|H47].
  { rewrite slash_agree, D_slash.
    destruct r as [|z r']; cbn [app].
    - assert (Hd : match S with
                   | y :: r' => if y =? 47
                                then let '(t, r'') := D.span_while (fun z => negb (z =? 10)) r' in
                                     D.mk_step D.ASkip r'' (i + 1 + 1 + D.lenN t)
                                else D.mk_step (D.ATok KDivide 0%Z None (i + 1)) S (i + 1)
                   | [] => D.mk_step (D.ATok KDivide 0%Z None (i + 1)) S (i + 1)
                   end = D.mk_step (D.ATok KDivide 0%Z None (i + 1)) S (i + 1)).
      { destruct HS as [->|(rest & ->)]; reflexivity. }
      rewrite Hd. rel_tok (KDivide, 0%Z, None); [now left|reflexivity].
    - destruct (N.eqb_spec z 47) as [->|Hz].
      + cbn [forallb] in Hr. apply andb_true_iff in Hr as [_ Hr'].
        rewrite (span_while_stream (fun z => negb (z =? 10)) r' S eq_refl HS).
        assert (Hall : D.span_while (fun z => negb (z =? 10)) r' = (r', [])).
        { rewrite <- (app_nil_r r') at 1. apply DP.span_while_all; [|exact I].
          apply Forall_forall. intros y Hy. rewrite forallb_forall in Hr'.
          destruct (okb_spec y (Hr' y Hy)) as (Hy10 & _). apply negb_true_iff. now apply N.eqb_neq. }
        rewrite Hall. cbn [fst snd app D.mk_step D.act D.srest D.send step_rel].
        repeat split. rewrite !DP.lenN_cons. lia.
      + rel_tok (KDivide, 0%Z, None); [now left|reflexivity]. }
  (* punctuation *)
  destruct (D.assoc_N x D.punct_table) as [[seconds k1]|] eqn:Hp.
  { rewrite (punct_agree x seconds k1 r Hp), (D_punct f x seconds k1 (r ++ S) i Hp).
    destruct (DP.punct_kinds x seconds k1 Hp) as [Hk1 Hk2].
    assert (Hone : forall r0 : list N, step_rel r0 S i (A.StTok k1 0%Z None [] 1 r0)
                               (D.mk_step (D.ATok k1 0%Z None (i + 1)) (r0 ++ S) (i + 1))).
    { intros r0. rel_tok (k1, 0%Z, None); [now left|]. now rewrite payload_act_tok. }
    unfold punct_spec. destruct r as [|y r']; cbn [app].
    - destruct S as [|s S']; [apply (Hone []) |]. subst s.
      destruct (D.assoc_N 10 seconds) as [k2|] eqn:E; [|apply (Hone [])].
      destruct (Hk2 _ _ E) as [_ Hc]. congruence.
    - destruct (D.assoc_N y seconds) as [k2|] eqn:E; [|apply (Hone (y :: r'))].
      destruct (Hk2 _ _ E) as [Hk _]. rel_tok (k2, 0%Z, None); [now left|].
      rewrite payload_act_tok by assumption. f_equal. lia. }
  rewrite (nonpunct_agree x r Hp H47), (D_nonpunct f x (r ++ S) i Hp H47 Hx10 Hx13 H32 H9).
  unfold nonpunct_spec. change (A.is_ident_start x) with (D.is_ident_start x).
  (* words *)
  destruct (D.is_ident_start x) eqn:Hstart.
  { unfold A.lex_word, D.lex_ident. rewrite take_ident_span.
    rewrite (span_while_stream D.is_ident_cont r S eq_refl HS).
    destruct (D.span_while D.is_ident_cont r) as [t r1] eqn:Hsp. cbn [fst snd].
    apply DP.span_while_spec in Hsp as (Hrr & _ & _).
    rewrite classify_agree. unfold classify_spec.
    destruct (D.bytes_eqb (x :: t) w_return) eqn:Eret.
    - apply bytes_eqb_true in Eret. rewrite Eret.
      replace (A.classify_word w_return) with (@None (tkind * Z * option tykw)) by (vm_compute; reflexivity).
      assert (Hnb : match r1 with y :: _ => (y =? 33) = false | [] => True end).
      { destruct r1 as [|y r2]; [exact I|]. apply N.eqb_neq. intros ->.
        apply (Hret r2). rewrite <- Eret, Hrr. reflexivity. }
      assert (Hlen : 1 + A.len t = 6) by (apply (f_equal (@length N)) in Eret; cbn in Eret; unfold A.len; lia).
      destruct r1 as [|y r2].
      + rel_tok (KReturn, 0%Z, None); [right; split; reflexivity|]. cbn [payload_act]. f_equal. lens.
      + rewrite Hnb. rel_tok (KReturn, 0%Z, None); [right; split; reflexivity|]. cbn [payload_act]. f_equal. lens.
    - destruct (A.classify_word (x :: t)) as [[[k v] ty]|] eqn:Ecl.
      + assert (Hk : k <> KError).
        { apply (DP.lookup_keyword_kind (x :: t) k v ty). rewrite classify_agree. unfold classify_spec.
          now rewrite Eret. }
        rel_tok (k, v, ty); [now left|]. rewrite payload_act_tok by assumption. f_equal. lens.
      + assert (Hid : step_rel r S i (A.StTok KIdentifier 0%Z None [] (1 + A.len t) r1)
                        (D.mk_step (D.ATok KIdentifier 0%Z None (i + 1 + D.lenN t)) (r1 ++ S) (i + 1 + D.lenN t))).
        { rel_tok (KIdentifier, 0%Z, None); [now left|]. cbn [payload_act]. f_equal. lens. }
        destruct r1 as [|y r2]; cbn [app].
        * destruct S as [|s S']; [exact Hid|]. subst s. change (10 =? 33) with false. cbn iota. exact Hid.
        * destruct (y =? 33); [|exact Hid].
          rel_tok (KBuiltin, 0%Z, None); [now left|]. cbn [payload_act]. f_equal. lens. }
  (* numbers *)
  assert (Hnum : A.is_dec x = true ->
            step_rel r S i (A.lex_step x r) (D.lex_step f x (r ++ S) i)).
  { intros Hd. destruct (A.take_ident r) as [w tl] eqn:Hti.
    pose proof (AP.take_ident_wf r w tl Hti) as Hrw.
    rewrite take_ident_span in Hti. apply DP.span_while_spec in Hti as (_ & Hw & Htl).
    assert (Hwb : forallb A.is_ident_cont w = true).
    { apply forallb_forall. intros y Hy. rewrite Forall_forall in Hw. rewrite cont_agree. auto. }
    assert (Hst : AP.stops tl) by (destruct tl; [exact I|cbn; rewrite cont_agree; exact Htl]).
    destruct (numeric_agree f x w tl (tl ++ S) i Hd Hwb (stops_ends _ Hst) (ends_token_stream _ _ Hst HS)
                (Hbin w tl Hrw Hwb Hst)) as (k & v & ty & H1 & H2 & H3 & H4 & H5).
    rewrite Hrw, <- app_assoc, H1. cbn [step_rel]. rewrite H2, H3, H4.
    split; [reflexivity|]. split; [reflexivity|]. split; [lens|]. split; [exact H5|].
    exists (k, v, ty). split; [now left|]. f_equal; lens. }
  destruct (N.eqb_spec x 48) as [->|H48].
  { specialize (Hnum eq_refl). change (A.lex_step 48 r) with (A.lex_zero r) in Hnum.
    change (D.lex_step f 48 (r ++ S) i) with (D.lex_zero (r ++ S) i) in Hnum. exact Hnum. }
  change (A.is_nonzero_dec x) with (D.in_range 49 57 x).
  destruct (D.in_range 49 57 x) eqn:Hnz.
  { assert (Hd : A.is_dec x = true) by (revert Hnz; AP.unfold_classes; unfold D.in_range; AP.b2p; lia).
    specialize (Hnum Hd). rewrite AP.lex_step_decimal in Hnum by exact Hnz.
    unfold D.lex_step in Hnum. rewrite DP.lex_step_decimal in Hnum by exact Hnz. exact Hnum. }
  (* no quotes, no blanks left: E110 *)
  apply N.eqb_neq in Hx34, Hx39, H32, H9. rewrite Hx34, Hx39, H32, H9. cbn [orb].
  rel_tok (KError, E110, None); [now left|reflexivity].
Qed.

(* ---- from steps to lines ---------------------------------------------------------- *)
(* the only kind-level difference that remains: D's Return is A's Identifier *)
Definition erase_return (t : tok) : tok :=
  match kind t with
  | KReturn => {| kind := KIdentifier; value := value t; vtype := vtype t; bytes := bytes t;
                  tstart := tstart t; tend := tend t; line := line t; lstart := lstart t |}
  | _ => t
  end.

Definition lr_prepend (ts : list tok) (r : D.loop_result) : D.loop_result := fold_right D.lr_cons r ts.

(* hypotheses on (a suffix of) the source *)
Definition bin_free (src : list N) : Prop :=
  forall pre x w tl, src = pre ++ x :: w ++ tl -> forallb A.is_ident_cont w = true ->
                     DP.ends_token tl = true -> known_bin_leading_zeros (x :: w) = false.

Lemma bin_free_suffix p src : bin_free (p ++ src) -> bin_free src.
Proof. intros H pre x w tl E. apply (H (p ++ pre)). rewrite E, <- app_assoc. reflexivity. Qed.
Lemma return_bang_free_suffix p src : return_bang_free (p ++ src) -> return_bang_free src.
Proof. intros H pre post E. apply (H (p ++ pre) post). rewrite E, <- app_assoc. reflexivity. Qed.

Lemma lr_panic_false r : D.lr_panic false r = r.
Proof. destruct r; reflexivity. Qed.

Lemma count_err_erase ts : DP.count_err (map erase_return ts) = DP.count_err ts.
Proof.
  induction ts as [|t ts IH]; [reflexivity|]. cbn [map DP.count_err]. rewrite IH. f_equal.
  unfold erase_return, DP.is_error. destruct (kind t) eqn:E; cbn [kind]; rewrite ?E; reflexivity.
Qed.

Lemma erase_return_idem t : erase_return (erase_return t) = erase_return t.
Proof. unfold erase_return. destruct (kind t) eqn:E; cbn [kind]; rewrite ?E; reflexivity. Qed.

Lemma mk_tok_payload kd vd tyd ka va tya i n ln sol :
  pay_rel (ka, va, tya) (kd, vd, tyd) ->
  erase_return (D.mk_tok kd vd tyd i (i + n) ln sol) = erase_return (A.mk ka va tya [] i (i + n) ln (i - sol)).
Proof.
  intros [H|[H1 H2]].
  - inversion H; subst. reflexivity.
  - inversion H1; inversion H2; subst. reflexivity.
Qed.

Definition line_post (l S : list N) (fa : nat) (pos ln sol ntok npay nerr cap errcap : N)
           (r : D.loop_result) : Prop :=
  exists TD fd' npay',
    map erase_return TD = map erase_return (A.lex_line_fuel fa ln pos (pos - sol) l) /\
    (length S < fd')%nat /\ DP.lenT TD <= D.lenN l /\ npay' <= npay + D.lenN l /\
    r = lr_prepend TD (D.lex_loop fd' S (pos + D.lenN l) ln sol (ntok + DP.lenT TD) npay'
                                  (nerr + DP.count_err TD) cap errcap).

Lemma line_agree cap errcap : forall n l S fa fd pos ln sol ntok npay nerr,
  (length l <= n)%nat -> (length l <= fa)%nat -> (length (l ++ S) < fd)%nat ->
  forallb okb l = true -> stream_suffix S -> sol <= pos ->
  bin_free (l ++ S) -> return_bang_free (l ++ S) ->
  ntok + D.lenN l + 2 <= cap -> npay + D.lenN l <= D.MAX_NUM_PAYLOADS ->
  nerr + DP.count_err (A.lex_line_fuel fa ln pos (pos - sol) l) <= errcap ->
  line_post l S fa pos ln sol ntok npay nerr cap errcap
            (D.lex_loop fd (l ++ S) pos ln sol ntok npay nerr cap errcap).
Proof.
  induction n as [|n IH]; intros l S fa fd pos ln sol ntok npay nerr Hn Hfa Hfd Hok HS Hsol Hbin Hret Hcap Hpay Herr.
  - destruct l; [|cbn in Hn; lia]. exists [], fd, npay. cbn [map lr_prepend fold_right app].
    rewrite AP.lex_line_fuel_nil. cbn [DP.count_err]. rewrite DP.lenN_nil, DP.lenT_nil, !N.add_0_r.
    repeat split; try lia. exact Hfd.
  - destruct l as [|x r].
    { exists [], fd, npay. cbn [map lr_prepend fold_right app].
      rewrite AP.lex_line_fuel_nil. cbn [DP.count_err]. rewrite DP.lenN_nil, DP.lenT_nil, !N.add_0_r.
      repeat split; try lia. exact Hfd. }
    cbn [length] in Hn, Hfa. cbn [forallb] in Hok. apply andb_true_iff in Hok as [Hx Hr].
    destruct fa as [|fa']; [lia|]. destruct fd as [|fd']; [lia|].
    cbn [app] in *. cbn [length] in Hfd.
    assert (Hbh : no_known_bin_here x r).
    { intros w tl E Hw Hst. apply (Hbin [] x w (tl ++ S)); [cbn [app]; rewrite E, <- app_assoc; reflexivity|assumption|].
      now apply ends_token_stream. }
    assert (Hrh : forall post, x :: r <> w_return ++ 33 :: post).
    { intros post E. apply (Hret [] (post ++ S)). cbn [app]. change (x :: r ++ S) with ((x :: r) ++ S).
      rewrite E, <- app_assoc. reflexivity. }
    pose proof (step_agree fd' x r S pos Hx Hr HS Hbh Hrh) as Hstep.
    pose proof (AP.lex_step_wf x r) as Hwf.
    pose proof (DP.lex_step_no_panic D.dec_push fd' x (r ++ S) pos ltac:(intros a d H; exact H)) as Hnp.
    change (D.lex_step_with D.dec_push fd' x (r ++ S) pos) with (D.lex_step fd' x (r ++ S) pos) in Hnp.
    unfold D.lex_loop. cbn [D.lex_loop_with]. fold D.lex_loop.
    change (D.lex_step_with D.dec_push fd' x (r ++ S) pos) with (D.lex_step fd' x (r ++ S) pos).
    rewrite Hnp, lr_panic_false.
    unfold line_post. cbn [A.lex_line_fuel] in Herr |- *.
    destruct (A.lex_step x r) as [| |k v ty bs m rest'|c es ee eo m1 m2 rest'] eqn:HA; cbn [step_rel] in Hstep.
    + (* comment: the rest of the line is skipped by both *)
      destruct Hstep as (Ha & Hsr & Hse). rewrite Ha, Hsr, Hse.
      exists [], fd', npay. cbn [map lr_prepend fold_right DP.count_err].
      rewrite DP.lenT_nil, !N.add_0_r.
      split; [reflexivity|]. split; [rewrite app_length in Hfd; lia|]. split; [rewrite DP.lenN_cons; lia|]. split; [lia|].
      f_equal. rewrite DP.lenN_cons. lia.
    + (* blank *)
      destruct Hstep as (Ha & Hsr & Hse). rewrite Ha, Hsr, Hse.
      destruct (IH r S fa' fd' (pos + 1) ln sol ntok npay nerr) as (TD & fd2 & npay2 & H1 & H2 & H3 & H4 & H5);
        try assumption; try lia.
      * eapply bin_free_suffix with (p := [x]). exact Hbin.
      * eapply return_bang_free_suffix with (p := [x]). exact Hret.
      * rewrite DP.lenN_cons in Hcap. lia.
      * rewrite DP.lenN_cons in Hpay. lia.
      * replace (pos + 1 - sol) with (pos - sol + 1) by lia. exact Herr.
      * exists TD, fd2, npay2. rewrite H5.
        split; [rewrite H1; replace (pos + 1 - sol) with (pos - sol + 1) by lia; reflexivity|]. split; [exact H2|].
        split; [rewrite DP.lenN_cons; lia|]. split; [rewrite DP.lenN_cons; lia|].
        f_equal. f_equal. rewrite DP.lenN_cons. lia.
    + (* token *)
      destruct Hstep as (-> & Hsr & Hse & Hty & pd & Hrel & Ha). rewrite Ha, Hsr, Hse.
      destruct Hwf as (used & Hused & Hlen & Hm & _).
      assert (Hr' : r = tl used ++ rest' /\ used <> []).
      { destruct used as [|u used']; [cbn in Hlen; lia|]. cbn [app] in Hused. inversion Hused. split; [reflexivity|discriminate]. }
      destruct Hr' as [Hr' Hune].
      assert (Hlr : D.lenN (x :: r) = m + D.lenN rest').
      { rewrite Hused, DP.lenN_app. unfold A.len in Hlen. unfold D.lenN at 1. lia. }
      assert (Hokr : forallb okb rest' = true).
      { rewrite Hr', forallb_app in Hr. apply andb_true_iff in Hr. tauto. }
      assert (Hlr2 : (length rest' <= length r)%nat).
      { apply (f_equal (@length N)) in Hused. rewrite app_length in Hused. cbn [length] in Hused.
        destruct used; [congruence|]. cbn [length] in Hused. lia. }
      assert (Hlenr : (length rest' <= n)%nat) by lia.
      assert (Hstream : x :: r ++ S = used ++ rest' ++ S).
      { change (x :: r ++ S) with ((x :: r) ++ S). rewrite Hused, <- app_assoc. reflexivity. }
      destruct pd as [[kd vd] tyd].
      pose proof (mk_tok_payload kd vd tyd k v ty pos m ln sol Hrel) as Htok.
      assert (HIH : forall ntok2 npay2 nerr2,
                ntok2 + D.lenN rest' + 2 <= cap -> npay2 + D.lenN rest' <= D.MAX_NUM_PAYLOADS ->
                nerr2 + DP.count_err (A.lex_line_fuel fa' ln (pos + m) (pos + m - sol) rest') <= errcap ->
                line_post rest' S fa' (pos + m) ln sol ntok2 npay2 nerr2 cap errcap
                  (D.lex_loop fd' (rest' ++ S) (pos + m) ln sol ntok2 npay2 nerr2 cap errcap)).
      { intros ntok2 npay2 nerr2 G1 G2 G3.
        apply IH; [exact Hlenr|lia| |exact Hokr|exact HS|lia| | |exact G1|exact G2|exact G3].
        - rewrite app_length in Hfd. rewrite app_length. lia.
        - rewrite Hstream in Hbin. exact (bin_free_suffix used _ Hbin).
        - rewrite Hstream in Hret. exact (return_bang_free_suffix used _ Hret). }
      replace (pos - sol + m) with (pos + m - sol) in * by lia.
      assert (Hkd : kd = KError \/ kd <> KError) by (destruct kd; (left; reflexivity) || (right; discriminate)).
      destruct Hkd as [->|Hkd].
      * (* an error token (E110 / E140 / E141) *)
        cbn [payload_act].
        assert (Hk : k = KError) by (destruct Hrel as [E|[E1 E2]]; [inversion E; reflexivity|inversion E2]).
        subst k. specialize (Hty eq_refl). subst ty.
        assert (Htyd : tyd = None /\ vd = v) by (destruct Hrel as [E|[E1 E2]]; [inversion E; auto|inversion E2]).
        destruct Htyd as [-> ->].
        cbn [DP.count_err] in Herr.
        change (DP.is_error (A.mk KError v None [] pos (pos + m) ln (pos - sol))) with true in Herr. cbn iota in Herr.
        destruct (N.leb_spec errcap nerr) as [Hc|_]; [lia|].
        destruct (N.leb_spec cap ntok) as [Hc|_]; [lia|].
        destruct (HIH (ntok + 1) npay (nerr + 1) ltac:(lia) ltac:(lia) ltac:(lia))
          as (TD & fd2 & npay2 & H1 & H2 & H3 & H4 & H5).
        exists (D.mk_tok KError v None pos (pos + m) ln sol :: TD), fd2, npay2. rewrite H5.
        split; [cbn [map]; rewrite H1, Htok; reflexivity|].
        split; [exact H2|]. split; [rewrite DP.lenT_cons; lia|]. split; [lia|].
        unfold lr_prepend. cbn [fold_right DP.count_err]. rewrite DP.lenT_cons.
        change (DP.is_error (D.mk_tok KError v None pos (pos + m) ln sol)) with true. cbn iota.
        f_equal. f_equal. f_equal; lia.
      * (* an ordinary token *)
        rewrite payload_act_tok by assumption.
        assert (Hkne : k <> KError).
        { destruct Hrel as [E|[E1 E2]]; [inversion E; subst; assumption|inversion E1; subst; discriminate]. }
        assert (Hce : DP.count_err (A.mk k v ty [] pos (pos + m) ln (pos - sol) :: A.lex_line_fuel fa' ln (pos + m) (pos + m - sol) rest')
                      = DP.count_err (A.lex_line_fuel fa' ln (pos + m) (pos + m - sol) rest')).
        { cbn [DP.count_err]. unfold DP.is_error. cbn [kind A.mk]. destruct k; try reflexivity. congruence. }
        rewrite Hce in Herr.
        destruct (N.leb_spec D.MAX_NUM_PAYLOADS npay) as [Hc|_]; [lia|]. rewrite andb_false_r. cbn [orb].
        destruct (N.leb_spec cap ntok) as [Hc|_]; [lia|].
        destruct (HIH (ntok + 1) (if D.has_payload kd then npay + 1 else npay) nerr
                      ltac:(lia) ltac:(destruct (D.has_payload kd); lia) ltac:(lia))
          as (TD & fd2 & npay2 & H1 & H2 & H3 & H4 & H5).
        exists (D.mk_tok kd vd tyd pos (pos + m) ln sol :: TD), fd2, npay2. rewrite H5.
        split; [cbn [map]; rewrite H1, Htok; reflexivity|].
        split; [exact H2|]. split; [rewrite DP.lenT_cons; lia|].
        split; [destruct (D.has_payload kd); lia|].
        unfold lr_prepend. cbn [fold_right DP.count_err]. rewrite DP.lenT_cons.
        rewrite DP.is_error_mk_tok by assumption.
        f_equal. f_equal. f_equal; lia.
    + contradiction.
Qed.

(* ---- from lines to the whole source ----------------------------------------------- *)
(* characters allowed in the source: everything except CR and the two quotes *)
Definition okS (y : N) : bool := negb (y =? 13) && negb (y =? 34) && negb (y =? 39).

Lemma split_line : forall src, forallb okS src = true ->
  forallb okb src = true \/
  exists l rest, src = l ++ 10 :: rest /\ forallb okb l = true /\ forallb okS rest = true.
Proof.
  induction src as [|y src IH]; intros H; [now left|].
  cbn [forallb] in H. apply andb_true_iff in H as [Hy Hs].
  destruct (N.eqb_spec y 10) as [->|Hne].
  - right. exists [], src. auto.
  - assert (Hyb : okb y = true).
    { unfold okb, okS in *. apply N.eqb_neq in Hne. rewrite Hne. exact Hy. }
    destruct (IH Hs) as [Hl|(l & rest & -> & Hl & Hr)].
    + left. cbn [forallb]. now rewrite Hyb, Hl.
    + right. exists (y :: l), rest. cbn [forallb app]. rewrite Hyb, Hl. auto.
Qed.

Lemma lines_of_line l rest : forallb okb l = true -> A.lines_of (l ++ 10 :: rest) = l :: A.lines_of rest.
Proof.
  induction l as [|y l IH]; intros H; [reflexivity|].
  cbn [forallb] in H. apply andb_true_iff in H as [Hy Hl].
  destruct (okb_spec y Hy) as (H10 & H13 & _). apply N.eqb_neq in H10, H13.
  cbn [app A.lines_of]. rewrite H10, H13. cbn [andb]. rewrite (IH Hl). reflexivity.
Qed.

Lemma lines_of_last l : forallb okb l = true -> l <> [] -> A.lines_of l = [l].
Proof.
  intros H Hne. apply AP.no_nl_lines; [assumption|].
  apply forallb_forall. intros y Hy. rewrite forallb_forall in H.
  destruct (okb_spec y (H y Hy)) as (H10 & H13 & _). apply N.eqb_neq in H10, H13. now rewrite H10, H13.
Qed.

Lemma lr_prepend_done ts l a c p : lr_prepend ts (D.Done l a c p) = D.Done (ts ++ l) a c p.
Proof. induction ts as [|t ts IH]; [reflexivity|]. cbn [lr_prepend fold_right app]. fold (lr_prepend ts (D.Done l a c p)). now rewrite IH. Qed.

Lemma count_err_app a b : DP.count_err (a ++ b) = DP.count_err a + DP.count_err b.
Proof. induction a as [|t a IH]; cbn [app DP.count_err]; [lia|]. rewrite IH. lia. Qed.

Lemma newline_step f r i : D.lex_step f 10 r i = D.mk_step D.ANewline r (i + 1).
Proof. reflexivity. Qed.

Lemma stream_agree cap errcap : forall m src fd pos ln ntok npay nerr,
  (length src <= m)%nat -> (length src < fd)%nat -> forallb okS src = true -> 1 <= ln ->
  bin_free src -> return_bang_free src ->
  ntok + D.lenN src + 2 <= cap -> npay + D.lenN src <= D.MAX_NUM_PAYLOADS ->
  nerr + DP.count_err (A.lex_lines (A.lines_of src) pos (ln - 1)) <= errcap ->
  exists TD eln esol,
    D.lex_loop fd src pos ln pos ntok npay nerr cap errcap = D.Done TD eln esol false /\
    map erase_return TD = map erase_return (A.lex_lines (A.lines_of src) pos (ln - 1)).
Proof.
  induction m as [|m IH]; intros src fd pos ln ntok npay nerr Hm Hfd Hok Hln Hbin Hret Hcap Hpay Herr.
  - destruct src; [|cbn in Hm; lia]. destruct fd as [|fd']; [cbn in Hfd; lia|].
    unfold D.lex_loop. cbn [D.lex_loop_with]. rewrite DP.lenN_nil in Hcap.
    destruct (N.leb_spec cap (ntok + 1)); [lia|]. exists [], ln, pos. split; reflexivity.
  - destruct (split_line src Hok) as [Hl|(l & rest & -> & Hl & Hrest)].
    + (* the last line, not terminated *)
      destruct src as [|x r].
      { destruct fd as [|fd']; [cbn in Hfd; lia|].
        unfold D.lex_loop. cbn [D.lex_loop_with]. rewrite DP.lenN_nil in Hcap.
        destruct (N.leb_spec cap (ntok + 1)); [lia|]. exists [], ln, pos. split; reflexivity. }
      rewrite (lines_of_last (x :: r) Hl ltac:(discriminate)) in Herr |- *.
      cbn [A.lex_lines] in Herr |- *. rewrite app_nil_r in Herr |- *. unfold A.lex_line in Herr |- *.
      replace (1 + (ln - 1)) with ln in * by lia.
      pose proof (line_agree cap errcap (length (x :: r)) (x :: r) [] (length (x :: r)) fd pos ln pos ntok npay nerr
                    ltac:(lia) ltac:(lia)) as HL.
      rewrite app_nil_r in HL. replace (pos - pos) with 0 in HL by lia.
      destruct (HL Hfd Hl ltac:(now left) ltac:(lia) Hbin Hret Hcap Hpay Herr)
        as (TD & fd2 & npay2 & H1 & H2 & H3 & H4 & H5).
      rewrite N.sub_diag in H1.
      rewrite H5. destruct fd2 as [|fd3]; [cbn in H2; lia|].
      unfold D.lex_loop. cbn [D.lex_loop_with].
      destruct (N.leb_spec cap (ntok + DP.lenT TD + 1)); [lia|].
      rewrite lr_prepend_done, app_nil_r. exists TD, ln, pos. split; [reflexivity|exact H1].
    + (* a line terminated by LF *)
      rewrite (lines_of_line l rest Hl) in Herr |- *.
      cbn [A.lex_lines] in Herr |- *. unfold A.lex_line in Herr |- *.
      replace (1 + (ln - 1)) with ln in * by lia.
      rewrite count_err_app in Herr.
      pose proof (line_agree cap errcap (length l) l (10 :: rest) (length l) fd pos ln pos ntok npay nerr
                    ltac:(lia) ltac:(lia)) as HL.
      replace (pos - pos) with 0 in HL by lia.
      assert (HlenS : D.lenN (l ++ 10 :: rest) = D.lenN l + 1 + D.lenN rest) by (rewrite DP.lenN_app, DP.lenN_cons; lia).
      destruct (HL Hfd Hl ltac:(right; eauto) ltac:(lia) Hbin Hret ltac:(lia) ltac:(lia) ltac:(lia))
        as (TD & fd2 & npay2 & H1 & H2 & H3 & H4 & H5).
      rewrite N.sub_diag in H1.
      rewrite H5. destruct fd2 as [|fd3]; [cbn in H2; lia|]. cbn [length] in H2.
      unfold D.lex_loop at 1. cbn [D.lex_loop_with]. fold D.lex_loop.
      change (D.lex_step_with D.dec_push fd3 10 rest (pos + D.lenN l)) with (D.lex_step fd3 10 rest (pos + D.lenN l)).
      rewrite newline_step. cbn [D.mk_step D.act D.srest D.send D.spanic]. rewrite lr_panic_false.
      assert (HcTD : DP.count_err TD = DP.count_err (A.lex_line_fuel (length l) ln pos 0 l)).
      { rewrite <- (count_err_erase TD), H1, count_err_erase. reflexivity. }
      assert (Hlm : (length rest <= m)%nat) by (rewrite app_length in Hm; cbn [length] in Hm; lia).
      destruct (IH rest fd3 (pos + D.lenN l + 1) (ln + 1) (ntok + DP.lenT TD) npay2 (nerr + DP.count_err TD))
        as (TD2 & eln & esol & G1 & G2); try assumption; try lia.
      * exact (bin_free_suffix (l ++ [10]) rest ltac:(rewrite <- app_assoc; exact Hbin)).
      * exact (return_bang_free_suffix (l ++ [10]) rest ltac:(rewrite <- app_assoc; exact Hret)).
      * replace (ln + 1 - 1) with (ln - 1 + 1) by lia. rewrite HcTD.
        replace (pos + D.lenN l + 1) with (pos + (A.len l + 1)) by (unfold A.len, D.lenN; lia). lia.
      * rewrite G1, lr_prepend_done. exists (TD ++ TD2), eln, esol. split; [reflexivity|].
        rewrite !map_app, H1, G2. f_equal.
        replace (ln + 1 - 1) with (ln - 1 + 1) by lia.
        replace (pos + D.lenN l + 1) with (pos + (A.len l + 1)) by (unfold A.len, D.lenN; lia). reflexivity.
Qed.

(* c. THE PARTIAL AGREEMENT THEOREM.  For every non-empty source
        - without carriage returns and without quote characters (so: identifiers,
          keywords, numbers, punctuation, comments, blanks, LF, and arbitrary other
          bytes, which are E110 in both; for the two REAL lexers the source must also be
          ASCII, because A reads code points and D bytes),
        - without a `0b` literal of the class [known_bin_leading_zeros],
        - without the text `return!`,
        - small enough for D's buffers (fewer than 65535 bytes, and no more errors than
          D's error cap),
      the two lexers produce the same tokens: kind, value, value type, bytes, start, end,
      line and line offset, up to Return (D) versus Identifier (A). *)
Theorem ascii_agree_partial src :
  src <> [] -> forallb okS src = true -> bin_free src -> return_bang_free src ->
  D.lenN src + 2 <= 65536 ->
  DP.count_err (A.lex_alpha src) <= D.error_capacity (D.lenN src) ->
  map erase_return (D.lex_delta src) = map erase_return (A.lex_alpha src).
Proof.
  intros Hne Hok Hbin Hret Hlen Herr.
  assert (HA : A.lex_alpha src = A.lex_lines (A.lines_of src) 0 0).
  { unfold A.lex_alpha. destruct src; [congruence|]. cbn [A.is_nil]. apply app_nil_r. }
  rewrite HA in *.
  pose proof (DP.token_capacity_bounds (D.lenN src)) as Hc.
  destruct (stream_agree (D.token_capacity (D.lenN src)) (D.error_capacity (D.lenN src))
              (length src) src (S (length src)) 0 1 0 1 0 ltac:(lia) ltac:(lia) Hok ltac:(lia) Hbin Hret
              ltac:(lia) ltac:(unfold D.MAX_NUM_PAYLOADS; lia) ltac:(exact Herr))
    as (TD & eln & esol & H1 & H2).
  unfold D.lex_delta, D.lex_delta_with, D.lex_result_with.
  destruct (N.eqb_spec (D.lenN src) 0) as [H0|_].
  { destruct src; [congruence|]. rewrite DP.lenN_cons in H0. lia. }
  destruct (N.ltb_spec D.MAX_SOURCE_LEN (D.lenN src)) as [Hbig|_]; [unfold D.MAX_SOURCE_LEN in Hbig; lia|].
  change (D.lex_loop_with D.dec_push) with D.lex_loop. rewrite H1. exact H2.
Qed.

(* ---- the three excluded classes really are divergences ---------------------------- *)
Example return_bang_diverges :
  map (fun t => (kind t, tstart t, tend t)) (D.lex_delta (D.bs "return!")) = [(KReturn, 0, 6); (KExclamation, 6, 7)] /\
  map (fun t => (kind t, tstart t, tend t)) (A.lex_alpha (D.bs "return!")) = [(KBuiltin, 0, 7)].
Proof. vm_compute. split; reflexivity. Qed.
Example empty_source_diverges :
  map (fun t => (kind t, value t, line t, lstart t)) (D.lex_delta []) = [(KError, E101, 0, 0)] /\
  map (fun t => (kind t, value t, line t, lstart t)) (A.lex_alpha []) = [(KError, E101, 1, 1)].
Proof. vm_compute. split; reflexivity. Qed.
Example agree_instance :
  let src := D.bs "fn f(x: u8) -> u8 { return x + 0x1F_u8; } // c" ++ [10] ++ D.bs "  goto l # 12ab 1_000" in
  map erase_return (D.lex_delta src) = map erase_return (A.lex_alpha src) /\ length (A.lex_alpha src) = 21%nat.
Proof. vm_compute. split; reflexivity. Qed.

(* ---- decidable sufficient conditions for the two Prop hypotheses -------------------- *)
Fixpoint is_prefix (p l : list N) : bool :=
  match p, l with
  | [], _ => true
  | a :: p', c :: l' => (a =? c) && is_prefix p' l'
  | _ :: _, [] => false
  end.
Fixpoint has_sub (p l : list N) : bool :=
  is_prefix p l || match l with [] => false | _ :: l' => has_sub p l' end.

Lemma is_prefix_app p post : is_prefix p (p ++ post) = true.
Proof. induction p as [|a p IH]; [reflexivity|]. cbn [app is_prefix]. now rewrite N.eqb_refl, IH. Qed.

Lemma has_sub_false p : forall l, has_sub p l = false -> forall pre post, l <> pre ++ p ++ post.
Proof.
  induction l as [|c l IH]; intros H pre post E.
  - destruct pre; [|discriminate]. cbn [app] in E. cbn [has_sub] in H. apply orb_false_iff in H as [H _].
    rewrite E, is_prefix_app in H. discriminate.
  - cbn [has_sub] in H. apply orb_false_iff in H as [H1 H2]. destruct pre as [|a pre].
    + cbn [app] in E. rewrite E, is_prefix_app in H1. discriminate.
    + cbn [app] in E. inversion E; subst. eapply IH; [exact H2|reflexivity].
Qed.

Lemma return_bang_free_dec src : has_sub (w_return ++ [33]) src = false -> return_bang_free src.
Proof.
  intros H pre post E. apply (has_sub_false _ _ H pre post). rewrite E, <- app_assoc. reflexivity.
Qed.

(* no `0b` at all *)
Lemma known_shape l : known_bin_leading_zeros l = true -> exists w, l = 48 :: 98 :: w.
Proof.
  unfold known_bin_leading_zeros. destruct l as [|x l]; [discriminate|].
  destruct x as [|p]; [discriminate|].
  do 6 (try (destruct p as [p|p|]; try discriminate)).
  destruct l as [|y l]; [discriminate|]. destruct y as [|q]; [discriminate|].
  do 7 (try (destruct q as [q|q|]; try discriminate)).
  intros _. eexists; reflexivity.
Qed.

Lemma bin_free_no_0b src : has_sub [48; 98] src = false -> bin_free src.
Proof.
  intros H pre x w tl E _ _. destruct (known_bin_leading_zeros (x :: w)) eqn:K; [|reflexivity].
  apply known_shape in K as (w' & K). inversion K; subst. exfalso.
  apply (has_sub_false _ _ H pre (w' ++ tl)). reflexivity.
Qed.

Example hypotheses_hold :
  let src := D.bs "fn f(x: u8) -> u8 { return x + 0x1F_u8; } // c" ++ [10] ++ D.bs "  goto l # 12ab 1_000" in
  forallb okS src = true /\ has_sub (w_return ++ [33]) src = false /\ has_sub [48; 98] src = false /\
  D.lenN src + 2 <= 65536 /\ DP.count_err (A.lex_alpha src) <= D.error_capacity (D.lenN src).
Proof. vm_compute. repeat split; discriminate. Qed.

Print Assumptions tables_agree.
Print Assumptions classify_agree.
Print Assumptions punct_agree.
Print Assumptions nonpunct_agree.
Print Assumptions numeric_agree.
Print Assumptions numeric_agree_refuted.
Print Assumptions step_agree.
Print Assumptions ascii_agree_partial.
