(* Shape of the text produced by Model/Fuzzer.v, independent of any lexer.

   The text is a sequence of ATOMS (blank, line break, punctuation character,
   word, number, char literal, string literal, comment).  [emit_atoms] shows
   that whatever the choices, the buffer is the concatenation of the spellings
   of well-formed atoms ([atom_ok]) in which no two WORDY atoms (word, number)
   are adjacent ([adj_ok]).  FuzzerDeltaProofs.v and FuzzerAlphaProofs.v show
   that each lexer tokenises every such sequence without an error;
   FuzzerProofs.v states the property.

   Contents
     1. draws: bounds, positive weights only, every positive weight reachable
     2. digits: [digits_spec] (value, digit range, no leading zero), lengths
     3. atoms: [atom], [spell], [atom_ok], [wordy], [adj_ok], [WF]
     4. what the closures produce (escapes, random characters, string bodies,
        comments, identifiers, numbers)
     5. [token_shape]: the spelling of every token kind as atoms
     6. the buffer: text, length in bytes, capacity; [Good], one iteration
     7. [emit_atoms], [loop_exit_condition], [size_at_least]
     8. [emit_scalar]: Unicode scalar values only
     9. [spelled], [token_spelled]: every spelling rule, precisely; sizes
    10. fuel: [fuzz_tokens_fuel], [fuzz_tokens_status] *)
From Coq Require Import Ascii String.
From PV Require Import Base.Common Base.IR Base.Tok Model.Fuzzer.
From PV Require Proofs.LexAlphaProofs.
Open Scope N_scope.

Notation sitem := LexAlphaProofs.sitem.
Notation IChar := LexAlphaProofs.IChar.
Notation ISimple := LexAlphaProofs.ISimple.
Notation IHex := LexAlphaProofs.IHex.
Notation IUni := LexAlphaProofs.IUni.
Notation render := LexAlphaProofs.render.
Notation renders := LexAlphaProofs.renders.

Definition lenN (l : list N) : N := N.of_nat (length l).
Lemma lenN_nil : lenN [] = 0.
Proof. reflexivity. Qed.
Lemma lenN_cons y l : lenN (y :: l) = 1 + lenN l.
Proof. unfold lenN. cbn [length]. lia. Qed.
Lemma lenN_app l1 l2 : lenN (l1 ++ l2) = lenN l1 + lenN l2.
Proof. unfold lenN. rewrite app_length. lia. Qed.

Ltac b2p :=
  repeat rewrite ?andb_true_iff, ?orb_true_iff, ?andb_false_iff, ?orb_false_iff,
                 ?N.leb_le, ?N.leb_gt, ?N.eqb_eq, ?N.eqb_neq, ?N.ltb_lt, ?N.ltb_ge,
                 ?negb_true_iff, ?negb_false_iff in *.

(* ========================================================================== *)
(* 1. Draws                                                                   *)
(* ========================================================================== *)
Lemma rrange_bounds lo hi cs : lo < hi -> lo <= fst (rrange lo hi cs) < hi.
Proof.
  intros H. unfold rrange. destruct (draw cs) as [c r]. cbn [fst].
  assert (Hm : c mod (hi - lo) < hi - lo) by (apply N.mod_lt; lia).
  set (m := c mod (hi - lo)) in *. clearbody m. lia.
Qed.

Lemma pick_weighted_pos {A} (d : A) t : forall r, r < total_weight t ->
  exists w, In (pick_weighted d t r, w) t /\ 0 < w.
Proof.
  induction t as [|[a w] t IH]; intros r Hr.
  - cbn in Hr. lia.
  - cbn [total_weight fold_right snd] in Hr. fold (total_weight t) in Hr. cbn [pick_weighted].
    destruct (N.ltb_spec r w) as [Hlt|Hge].
    + exists w. split; [now left|lia].
    + destruct (IH (r - w) ltac:(lia)) as (w' & Hin & Hw). exists w'. split; [now right|exact Hw].
Qed.

Lemma sample_pos {A} (d : A) t cs : 0 < total_weight t ->
  exists w, In (fst (sample d t cs), w) t /\ 0 < w.
Proof.
  intros Ht. unfold sample. destruct (draw cs) as [c r]. cbn [fst].
  apply pick_weighted_pos. apply N.mod_lt. lia.
Qed.

(* every alternative of positive weight is reachable *)
Lemma pick_weighted_reach {A} (d : A) : forall pre a w post, 0 < w ->
  pick_weighted d (pre ++ (a, w) :: post) (total_weight pre) = a.
Proof.
  intros pre. induction pre as [|[a0 w0] pre IH]; intros a w post Hw.
  - cbn. destruct (N.ltb_spec 0 w); [reflexivity|lia].
  - cbn [app pick_weighted total_weight fold_right snd]. fold (total_weight pre).
    destruct (N.ltb_spec (w0 + total_weight pre) w0) as [H|H]; [lia|].
    replace (w0 + total_weight pre - w0) with (total_weight pre) by lia.
    apply IH. exact Hw.
Qed.

(* ========================================================================== *)
(* 2. Digits                                                                  *)
(* ========================================================================== *)
(* most significant digit first *)
Definition horner (b : N) (ds : list N) (acc : N) : N := fold_left (fun a d => a * b + d) ds acc.

Lemma horner_app b l1 l2 acc : horner b (l1 ++ l2) acc = horner b l2 (horner b l1 acc).
Proof. unfold horner. apply fold_left_app. Qed.

Lemma digits_rev_spec b : 2 <= b -> forall f v, v < 2 ^ N.of_nat f ->
  horner b (rev (digits_rev (S f) b v)) 0 = v /\
  Forall (fun d => d < b) (digits_rev (S f) b v) /\
  digits_rev (S f) b v <> [] /\
  (1 <= v -> 1 <= last (digits_rev (S f) b v) 0).
Proof.
  intros Hb. induction f as [|f IH]; intros v Hv.
  - cbn in Hv. assert (v = 0) by lia. subst v. cbn [digits_rev].
    destruct (N.ltb_spec 0 b) as [_|Hc]; [|lia]. cbn.
    repeat split; [repeat constructor; lia|discriminate|lia].
  - remember (S f) as f1 eqn:Ef1. cbn [digits_rev]. destruct (N.ltb_spec v b) as [Hlt|Hge].
    + cbn. repeat split; [repeat constructor; assumption|discriminate|auto].
    + assert (Hdiv : v / b < 2 ^ N.of_nat f).
      { subst f1. rewrite Nat2N.inj_succ, N.pow_succ_r' in Hv. apply N.div_lt_upper_bound; [lia|]. nia. }
      assert (Hq : 1 <= v / b) by (apply N.div_le_lower_bound; lia).
      subst f1. destruct (IH (v / b) Hdiv) as (H1 & H2 & H3 & H4).
      cbn [rev]. rewrite horner_app, H1. cbn [horner fold_left].
      repeat split.
      * rewrite (N.div_mod v b) at 3 by lia. lia.
      * constructor; [apply N.mod_lt; lia|assumption].
      * discriminate.
      * intros _. destruct (digits_rev (S f) b (v / b)) as [|d l] eqn:E; [congruence|].
        cbn [last]. cbn [last] in H4. apply H4. exact Hq.
Qed.

Definition fits128 (v : N) : Prop := v < 2 ^ 128.

Lemma digits_spec b v : 2 <= b -> fits128 v ->
  horner b (digits b v) 0 = v /\ Forall (fun d => d < b) (digits b v) /\
  exists d ds, digits b v = d :: ds /\ (1 <= v -> 1 <= d).
Proof.
  intros Hb Hv. unfold digits.
  assert (Hf : v < 2 ^ N.of_nat 128) by exact Hv.
  destruct (digits_rev_spec b Hb 128 v Hf) as (H1 & H2 & H3 & H4).
  split; [exact H1|]. split; [apply Forall_rev; exact H2|].
  destruct (digits_rev 129 b v) as [|d l] eqn:E using rev_ind; [congruence|].
  rewrite rev_app_distr. cbn [rev app]. exists d, (rev l). split; [reflexivity|].
  intros H. specialize (H4 H). rewrite last_last in H4. exact H4.
Qed.

(* number of digits *)
Lemma digits_rev_length b : 2 <= b -> forall f n v, v < b ^ N.of_nat (S n) ->
  (length (digits_rev f b v) <= S n)%nat.
Proof.
  intros Hb. induction f as [|f IH]; intros n v Hv; cbn [digits_rev length]; [lia|].
  destruct (N.ltb_spec v b) as [Hlt|Hge]; cbn [length]; [lia|].
  destruct n as [|n].
  - change (N.of_nat 1) with 1 in Hv. rewrite N.pow_1_r in Hv. lia.
  - assert (Hdiv : v / b < b ^ N.of_nat (S n)).
    { rewrite (Nat2N.inj_succ (S n)), N.pow_succ_r' in Hv. apply N.div_lt_upper_bound; [lia|]. exact Hv. }
    specialize (IH n (v / b) Hdiv). lia.
Qed.

Lemma digits_length b v n : 2 <= b -> v < b ^ N.of_nat (S n) -> (length (digits b v) <= S n)%nat.
Proof. intros Hb Hv. unfold digits. rewrite rev_length. now apply digits_rev_length. Qed.

Lemma digits_zero b : 2 <= b -> digits b 0 = [0].
Proof. intros Hb. unfold digits. cbn. destruct (N.ltb_spec 0 b); [reflexivity|lia]. Qed.

(* ========================================================================== *)
(* 3. Atoms                                                                   *)
(* ========================================================================== *)
Definition scalar (c : N) : bool := (c <? 55296) || ((57344 <=? c) && (c <? 1114112)).
Definition is_word_start (c : N) : bool := in_range 97 122 c || in_range 65 90 c || (c =? 95).
Definition is_hex_upper (c : N) : bool := in_range 48 57 c || in_range 65 70 c.
Definition is_hex_lower (c : N) : bool := in_range 48 57 c || in_range 97 102 c.
Definition hex_digit_val (c : N) : N :=
  if in_range 48 57 c then c - 48 else if in_range 97 102 c then c - 87 else c - 55.
Definition hexval (ds : list N) : N := horner 16 (map hex_digit_val ds) 0.

(* the characters that are tokens by themselves: ( ) { } [ ] < > | & ^ ! + - * / % : ; . , = *)
Definition punct_chars : list N := str "(){}[]<>|&^!+-*/%:;.,=".
Definition is_punct (c : N) : bool := existsb (N.eqb c) punct_chars.

(* the escapes escape_default produces *)
Definition simple_escapes : list (N * N) := [(116, 9); (114, 13); (110, 10); (39, 39); (34, 34); (92, 92)].

(* items of quoted literals as the fuzzer writes them *)
Definition fitem_ok (i : sitem) : bool :=
  match i with
  | IChar c =>
      (in_range 32 126 c && negb (c =? 92) && negb (c =? 39) && negb (c =? 34))
      || ((128 <=? c) && scalar c)
  | ISimple c b => existsb (fun p => (fst p =? c) && (snd p =? b)) simple_escapes
  | IHex h1 h2 => is_hex_upper h1 && is_hex_upper h2
  | IUni ds => forallb is_hex_lower ds && (1 <=? lenN ds) && (lenN ds <=? 6) && scalar (hexval ds)
  end.
(* the single item of a char literal: one byte *)
Definition citem_ok (i : sitem) : bool :=
  fitem_ok i && match i with IChar c => c <? 128 | IUni _ => false | _ => true end.

Inductive numbody := NDec (v : N) | NHex (upper : bool) (v : N) | NBin (v : N).
Definition body_text (b : numbody) : list N :=
  match b with
  | NDec v => to_decimal v
  | NHex u v => 48 :: 120 :: to_hex u v
  | NBin v => 48 :: 98 :: to_binary v
  end.
Definition body_value (b : numbody) : N := match b with NDec v | NHex _ v | NBin v => v end.
Definition int_types : list value_type :=
  [VInt8; VInt16; VInt32; VInt64; VInt128; VUint8; VUint16; VUint32; VUint64; VUint128; VUsize].
Definition vt_eqb (a b : value_type) : bool :=
  match a, b with
  | VNoKeyword, VNoKeyword | VVoid, VVoid | VInt8, VInt8 | VInt16, VInt16 | VInt32, VInt32
  | VInt64, VInt64 | VInt128, VInt128 | VUint8, VUint8 | VUint16, VUint16 | VUint32, VUint32
  | VUint64, VUint64 | VUint128, VUint128 | VUsize, VUsize | VChar8, VChar8 | VBool, VBool => true
  | _, _ => false
  end.

Definition sfx_text (sfx : option value_type) : list N :=
  match sfx with Some t => vt_display t | None => [] end.
Definition sfx_ok (sfx : option value_type) : bool :=
  match sfx with Some t => existsb (vt_eqb t) int_types | None => true end.

(* the token kind a number is expected to lex to *)
Definition num_kind (b : numbody) (sfx : option value_type) : tkind :=
  match sfx with
  | Some _ => KSuffixedInteger
  | None => match b with NDec _ => KNakedDecimal | _ => KBitInteger end
  end.

Inductive atom :=
| AWs (c : N)                                   (* space or tab *)
| ANl (cr : bool)                               (* LF or CR LF *)
| APunct (c : N)
| AWord (w : list N)                            (* [a-zA-Z_][a-zA-Z0-9_]* *)
| ANum (b : numbody) (sfx : option value_type)
| AChar (i : sitem)
| AStr (items : list sitem)
| AComment (body : list N).                     (* two slashes and the body *)

Definition spell (a : atom) : list N :=
  match a with
  | AWs c => [c]
  | ANl cr => if cr then [13; 10] else [10]
  | APunct c => [c]
  | AWord w => w
  | ANum b sfx => body_text b ++ sfx_text sfx
  | AChar i => 39 :: render i ++ [39]
  | AStr items => 34 :: renders items ++ [34]
  | AComment body => 47 :: 47 :: body
  end.
Definition flatc (l : list atom) : list N := flat_map spell l.

Definition atom_ok (a : atom) : bool :=
  match a with
  | AWs c => (c =? 32) || (c =? 9)
  | ANl _ => true
  | APunct c => is_punct c
  | AWord w => match w with x :: _ => is_word_start x | [] => false end && forallb is_ident_cont w
  | ANum b sfx => (body_value b <? 2 ^ 128) && sfx_ok sfx
  | AChar i => citem_ok i
  | AStr items => forallb fitem_ok items
  | AComment body => forallb (fun c => negb (c =? 10) && scalar c) body
  end.

Definition wordy (a : atom) : bool := match a with AWord _ | ANum _ _ => true | _ => false end.
Definition first_wordy (l : list atom) : bool := match l with a :: _ => wordy a | [] => false end.
Fixpoint last_wordy (l : list atom) : bool :=
  match l with
  | [] => false
  | [a] => wordy a
  | _ :: t => last_wordy t
  end.
Fixpoint adj_ok (l : list atom) : bool :=
  match l with
  | [] => true
  | a :: t => negb (wordy a && first_wordy t) && adj_ok t
  end.

(* well-formed atom sequences *)
Definition WF (l : list atom) : Prop := forallb atom_ok l = true /\ adj_ok l = true.

Lemma flatc_app l1 l2 : flatc (l1 ++ l2) = flatc l1 ++ flatc l2.
Proof. unfold flatc. apply flat_map_app. Qed.

Lemma last_wordy_app l a : last_wordy (l ++ [a]) = wordy a.
Proof.
  induction l as [|b l IH]; [reflexivity|]. cbn [app last_wordy].
  destruct (l ++ [a]) as [|c t] eqn:E; [destruct l; discriminate|]. exact IH.
Qed.

Lemma last_wordy_app2 l1 l2 : l2 <> [] -> last_wordy (l1 ++ l2) = last_wordy l2.
Proof.
  intros Hne. destruct l2 as [|a l2] using rev_ind; [congruence|].
  rewrite app_assoc, !last_wordy_app. reflexivity.
Qed.

Lemma adj_ok_app l1 l2 : adj_ok l1 = true -> adj_ok l2 = true ->
  last_wordy l1 && first_wordy l2 = false -> adj_ok (l1 ++ l2) = true.
Proof.
  induction l1 as [|a l1 IH]; intros H1 H2 Hj; [exact H2|].
  cbn [app adj_ok] in *. apply andb_true_iff in H1 as [Ha H1]. apply andb_true_iff. split.
  - destruct l1 as [|b l1]; [cbn [app]; cbn [last_wordy] in Hj; now rewrite Hj|exact Ha].
  - apply IH; [exact H1|exact H2|]. destruct l1 as [|b l1]; [reflexivity|exact Hj].
Qed.

Lemma WF_app l1 l2 : WF l1 -> WF l2 -> last_wordy l1 && first_wordy l2 = false -> WF (l1 ++ l2).
Proof.
  intros [A1 B1] [A2 B2] Hj. split; [rewrite forallb_app, A1, A2; reflexivity|now apply adj_ok_app].
Qed.

Lemma WF_tail a l : WF (a :: l) -> WF l.
Proof. intros [A B]. cbn [forallb adj_ok] in *. apply andb_true_iff in A, B. split; tauto. Qed.

Lemma WF_head a l : WF (a :: l) -> atom_ok a = true.
Proof. intros [A _]. cbn [forallb] in A. apply andb_true_iff in A. tauto. Qed.

Lemma WF_nil : WF [].
Proof. split; reflexivity. Qed.

(* ---- character level facts about atoms ------------------------------------- *)
Lemma is_ident_cont_ascii c : is_ident_cont c = true -> c < 128.
Proof. unfold is_ident_cont, in_range. b2p. lia. Qed.

Lemma word_start_cont c : is_word_start c = true -> is_ident_cont c = true.
Proof. unfold is_word_start, is_ident_cont. intros H. b2p. tauto. Qed.

Lemma digits_chars_cont (f : N -> N) b v : 2 <= b -> fits128 v ->
  (forall d, d < b -> is_ident_cont (f d) = true) -> forallb is_ident_cont (map f (digits b v)) = true.
Proof.
  intros Hb Hv Hf. destruct (digits_spec b v Hb Hv) as (_ & Hall & _).
  apply forallb_forall. intros c Hc. apply in_map_iff in Hc as (d & <- & Hd).
  rewrite Forall_forall in Hall. apply Hf, Hall, Hd.
Qed.

Lemma dec_char_cont d : d < 10 -> is_ident_cont (dec_char d) = true.
Proof. intros H. unfold dec_char, is_ident_cont, in_range. b2p. lia. Qed.
Lemma hex_char_cont u d : d < 16 -> is_ident_cont (hex_char u d) = true.
Proof.
  intros H. unfold hex_char, is_ident_cont, in_range.
  destruct (N.ltb_spec d 10); [b2p; lia|]. destruct u; b2p; lia.
Qed.

Lemma vt_display_cont t : forallb is_ident_cont (vt_display t) = true.
Proof. destruct t; reflexivity. Qed.

Lemma body_text_cont b : body_value b < 2 ^ 128 -> forallb is_ident_cont (body_text b) = true.
Proof.
  intros Hv. destruct b as [v|u v|v]; cbn [body_text body_value] in *.
  - apply digits_chars_cont; [lia|exact Hv|]. apply dec_char_cont.
  - cbn [forallb]. change (is_ident_cont 48) with true. change (is_ident_cont 120) with true. cbn [andb].
    apply digits_chars_cont; [lia|exact Hv|]. apply hex_char_cont.
  - cbn [forallb]. change (is_ident_cont 48) with true. change (is_ident_cont 98) with true. cbn [andb].
    apply digits_chars_cont; [lia|exact Hv|]. intros d Hd. apply dec_char_cont. lia.
Qed.

Lemma body_text_head b : body_value b < 2 ^ 128 -> exists x r, body_text b = x :: r /\ in_range 48 57 x = true.
Proof.
  intros Hv. destruct b as [v|u v|v]; cbn [body_text body_value] in *.
  - destruct (digits_spec 10 v ltac:(lia) Hv) as (_ & Hall & d & ds & E & _).
    unfold to_decimal. rewrite E. cbn [map]. eexists _, _. split; [reflexivity|].
    rewrite E in Hall. inversion Hall; subst. unfold dec_char, in_range. b2p. lia.
  - eexists _, _. split; reflexivity.
  - eexists _, _. split; reflexivity.
Qed.

(* a wordy atom consists of identifier characters only *)
Lemma wordy_spell_cont a : atom_ok a = true -> wordy a = true ->
  forallb is_ident_cont (spell a) = true /\ spell a <> [].
Proof.
  destruct a as [c|cr|c|w|b sfx|i|items|body]; try discriminate; intros Hok _; cbn [atom_ok spell] in *.
  - apply andb_true_iff in Hok as [H1 H2]. split; [exact H2|]. destruct w; [discriminate|discriminate].
  - apply andb_true_iff in Hok as [H1 H2]. apply N.ltb_lt in H1. split.
    + rewrite forallb_app, body_text_cont by exact H1. destruct sfx as [t|]; [apply vt_display_cont|reflexivity].
    + destruct (body_text_head b H1) as (x & r & E & _). rewrite E. discriminate.
Qed.

(* the first character of an atom tells whether it is wordy *)
Lemma atom_first a : atom_ok a = true -> exists x r, spell a = x :: r /\ is_ident_cont x = wordy a.
Proof.
  destruct a as [c|cr|c|w|b sfx|i|items|body]; intros Hok; cbn [atom_ok spell wordy] in *.
  - eexists _, _. split; [reflexivity|]. b2p. destruct Hok; subst; reflexivity.
  - destruct cr; eexists _, _; split; reflexivity.
  - eexists _, _. split; [reflexivity|]. unfold is_punct in Hok. apply existsb_exists in Hok as (y & Hin & Hy).
    apply N.eqb_eq in Hy. subst y. cbn in Hin.
    repeat (destruct Hin as [<-|Hin]; [reflexivity|]). contradiction.
  - destruct w as [|x r]; [discriminate|]. apply andb_true_iff in Hok as [H1 _].
    eexists _, _. split; [reflexivity|]. now apply word_start_cont.
  - apply andb_true_iff in Hok as [H1 _]. apply N.ltb_lt in H1.
    destruct (body_text_head b H1) as (x & r & E & Hx). rewrite E. cbn [app].
    eexists _, _. split; [reflexivity|]. unfold is_ident_cont. rewrite Hx. now rewrite !orb_true_r.
  - eexists _, _. split; reflexivity.
  - eexists _, _. split; reflexivity.
  - eexists _, _. split; reflexivity.
Qed.

(* ========================================================================== *)
(* 4. What the closures produce                                               *)
(* ========================================================================== *)
Lemma ops_text_app a b : ops_text (a ++ b) = ops_text a ++ ops_text b.
Proof. unfold ops_text. apply flat_map_app. Qed.
Lemma ops_text_chars l : ops_text (map OChar l) = l.
Proof. induction l as [|c l IH]; [reflexivity|]. cbn. f_equal. exact IH. Qed.
Lemma ops_text_repeat c n : ops_text (repeat (OChar c) n) = repeat c n.
Proof. induction n as [|n IH]; [reflexivity|]. cbn. f_equal. exact IH. Qed.

(* ---- escapes ---------------------------------------------------------------- *)
Definition item_of_escape (c : N) : sitem :=
  if c =? 9 then ISimple 116 9
  else if c =? 13 then ISimple 114 13
  else if c =? 10 then ISimple 110 10
  else if c =? 39 then ISimple 39 39
  else if c =? 34 then ISimple 34 34
  else if c =? 92 then ISimple 92 92
  else if in_range 32 126 c then IChar c
  else IUni (to_hex false c).

Lemma escape_default_render c : escape_default c = render (item_of_escape c).
Proof.
  unfold escape_default, item_of_escape.
  repeat match goal with |- context [if ?b then _ else _] => destruct b; [reflexivity|] end.
  reflexivity.
Qed.

Lemma hex_digit_val_char u d : d < 16 -> hex_digit_val (hex_char u d) = d.
Proof.
  intros H. assert (Hc : d = 0 \/ d = 1 \/ d = 2 \/ d = 3 \/ d = 4 \/ d = 5 \/ d = 6 \/ d = 7 \/ d = 8 \/
    d = 9 \/ d = 10 \/ d = 11 \/ d = 12 \/ d = 13 \/ d = 14 \/ d = 15) by lia.
  destruct u; repeat (destruct Hc as [->|Hc]; [reflexivity|]); subst; reflexivity.
Qed.

Lemma hexval_to_hex u c : fits128 c -> hexval (to_hex u c) = c.
Proof.
  intros Hc. destruct (digits_spec 16 c ltac:(lia) Hc) as (H1 & Hall & _).
  unfold hexval, to_hex. rewrite map_map. rewrite <- H1 at 2. f_equal.
  rewrite <- (map_id (digits 16 c)) at 2. apply map_ext_in. intros d Hd.
  rewrite Forall_forall in Hall. apply hex_digit_val_char, Hall, Hd.
Qed.

Lemma scalar_fits c : scalar c = true -> fits128 c /\ c < 16 ^ N.of_nat 6.
Proof. unfold scalar, fits128. intros H. b2p. split; [|change (16 ^ N.of_nat 6) with 16777216]; lia. Qed.

Lemma item_of_escape_ok c : scalar c = true -> fitem_ok (item_of_escape c) = true.
Proof.
  intros Hs. unfold item_of_escape.
  destruct (N.eqb_spec c 9); [reflexivity|]. destruct (N.eqb_spec c 13); [reflexivity|].
  destruct (N.eqb_spec c 10); [reflexivity|]. destruct (N.eqb_spec c 39); [reflexivity|].
  destruct (N.eqb_spec c 34); [reflexivity|]. destruct (N.eqb_spec c 92); [reflexivity|].
  destruct (in_range 32 126 c) eqn:Hr.
  - cbn [fitem_ok]. rewrite Hr. cbn [andb]. b2p. left. repeat split; assumption.
  - cbn [fitem_ok]. destruct (scalar_fits c Hs) as [Hf H6].
    destruct (digits_spec 16 c ltac:(lia) Hf) as (_ & Hall & d & ds & E & _).
    rewrite hexval_to_hex, Hs by exact Hf. rewrite andb_true_r.
    apply andb_true_iff. split; [apply andb_true_iff; split|].
    + unfold to_hex. apply forallb_forall. intros x Hx. apply in_map_iff in Hx as (y & <- & Hy).
      rewrite Forall_forall in Hall. specialize (Hall y Hy). unfold hex_char, is_hex_lower, in_range.
      destruct (N.ltb_spec y 10); b2p; lia.
    + unfold to_hex, lenN. rewrite map_length, E. cbn [length]. b2p. lia.
    + unfold to_hex, lenN. rewrite map_length. pose proof (digits_length 16 c 5 ltac:(lia) H6). b2p. lia.
Qed.

Lemma hex_escape_render v : v < 256 ->
  hex_escape v = render (IHex (hex_char true (v / 16)) (hex_char true (v mod 16))) /\
  fitem_ok (IHex (hex_char true (v / 16)) (hex_char true (v mod 16))) = true.
Proof.
  intros Hv. split; [reflexivity|]. cbn [fitem_ok].
  assert (H1 : v / 16 < 16) by (apply N.div_lt_upper_bound; lia).
  assert (H2 : v mod 16 < 16) by (apply N.mod_lt; lia).
  assert (Hu : forall d, d < 16 -> is_hex_upper (hex_char true d) = true).
  { intros d Hd. unfold hex_char, is_hex_upper, in_range. destruct (N.ltb_spec d 10); b2p; lia. }
  now rewrite !Hu.
Qed.

(* ---- random characters ------------------------------------------------------- *)
Lemma ascii_table_from_In w : forall n i a x, In (a, x) (ascii_table_from n i w) ->
  i <= a < i + N.of_nat n /\ x = w a.
Proof.
  induction n as [|n IH]; intros i a x Hin; [contradiction|].
  cbn [ascii_table_from] in Hin. destruct Hin as [Hin|Hin].
  - inversion Hin; subst. split; [lia|reflexivity].
  - apply IH in Hin. split; [lia|tauto].
Qed.

Lemma sample_ascii w cs : 0 < total_weight (ascii_table w) ->
  let a := fst (sample 0 (ascii_table w) cs) in a < 128 /\ 0 < w a.
Proof.
  intros Ht. cbv zeta. destruct (sample_pos 0 (ascii_table w) cs Ht) as (x & Hin & Hx).
  apply ascii_table_from_In in Hin. destruct Hin as [Hr ->]. split; [|exact Hx].
  change (N.of_nat 128) with 128 in Hr. lia.
Qed.

Lemma random_scalar_ok cs : scalar (fst (random_scalar cs)) = true.
Proof.
  unfold random_scalar. destruct (draw cs) as [c r]. cbn [fst].
  assert (Hm : c mod 1112064 < 1112064) by (apply N.mod_lt; lia).
  set (v := c mod 1112064) in *. clearbody v. unfold scalar.
  destruct (N.ltb_spec v 55296); b2p; lia.
Qed.

Lemma random_char_ok cs : scalar (fst (random_char cs)) = true.
Proof.
  unfold random_char. destruct (rbool 1 20 cs) as [uni cs1]. destruct uni.
  - apply random_scalar_ok.
  - destruct (sample_ascii us_ascii_weight cs1 ltac:(reflexivity)) as [H _].
    unfold scalar. b2p. lia.
Qed.

(* ---- the body of a string literal --------------------------------------------- *)
Lemma string_body_shape : forall n cs, exists items,
  ops_text (fst (string_body_ops n cs)) = renders items /\ forallb fitem_ok items = true.
Proof.
  induction n as [|n IH]; intros cs; [exists []; split; reflexivity|].
  cbn [string_body_ops]. destruct (rbool 1 100 cs) as [hex cs1].
  assert (Hpiece : forall piece cs2, (exists i, ops_text piece = render i /\ fitem_ok i = true) ->
    exists items, ops_text (fst (let '(rest, cs3) := string_body_ops n cs2 in (piece ++ rest, cs3))) =
                  renders items /\ forallb fitem_ok items = true).
  { intros piece cs2 (i & Hi & Hok). destruct (IH cs2) as (items & Ht & Hall).
    destruct (string_body_ops n cs2) as [rest cs3]. cbn [fst] in *.
    exists (i :: items). rewrite ops_text_app, Hi, Ht. split; [reflexivity|]. cbn [forallb].
    now rewrite Hok, Hall. }
  destruct hex.
  - pose proof (rrange_bounds 0 256 cs1 ltac:(lia)) as Hv. destruct (rrange 0 256 cs1) as [v r]. cbn [fst] in Hv.
    apply Hpiece. destruct (hex_escape_render v ltac:(lia)) as [E Hok].
    eexists. split; [|exact Hok]. unfold ops_text. cbn [flat_map op_text]. rewrite app_nil_r. exact E.
  - pose proof (random_char_ok cs1) as Hs. destruct (random_char cs1) as [c r]. cbn [fst] in Hs.
    destruct (N.ltb_spec c 128) as [Ha|Hna].
    + apply Hpiece. exists (item_of_escape c). rewrite ops_text_chars. split; [apply escape_default_render|].
      now apply item_of_escape_ok.
    + destruct (rbool 1 2 r) as [raw r']. destruct raw.
      * apply Hpiece. exists (IChar c). split; [reflexivity|]. cbn [fitem_ok]. rewrite Hs.
        apply orb_true_iff. right. b2p. split; [lia|reflexivity].
      * apply Hpiece. exists (item_of_escape c). rewrite ops_text_chars. split; [apply escape_default_render|].
        now apply item_of_escape_ok.
Qed.

(* ---- the body of a comment ------------------------------------------------------ *)
Lemma comment_chars_shape : forall n cs,
  forallb (fun c => negb (c =? 10) && scalar c) (ops_text (fst (comment_chars n cs))) = true.
Proof.
  induction n as [|n IH]; intros cs; [reflexivity|]. cbn [comment_chars].
  pose proof (random_char_ok cs) as Hs. destruct (random_char cs) as [c cs1]. cbn [fst] in Hs.
  specialize (IH cs1). destruct (comment_chars n cs1) as [rest cs2]. cbn [fst] in *.
  rewrite ops_text_app, forallb_app, IH, andb_true_r.
  destruct (N.eqb_spec c 10) as [->|Hc]; [reflexivity|]. cbn. rewrite Hs.
  apply N.eqb_neq in Hc. now rewrite Hc.
Qed.

(* ---- identifiers ------------------------------------------------------------------ *)
Lemma ident_loop_shape : forall n first cs,
  forallb is_ident_cont (fst (ident_loop n first cs)) = true /\
  (first = true -> n <> O -> match fst (ident_loop n first cs) with
                             | x :: _ => is_word_start x = true
                             | [] => False
                             end).
Proof.
  induction n as [|n IH]; intros first cs; [split; [reflexivity|congruence]|].
  cbn [ident_loop].
  set (D := if first then (false, cs) else rbool 1 10 cs). destruct D as [dig cs1] eqn:ED.
  assert (Hfd : first = true -> dig = false) by (intros ->; subst D; now inversion ED).
  set (P := if dig then let '(d, r) := rrange 48 58 cs1 in ([d], r)
            else let '(low, r) := rbool 7 10 cs1 in
                 if low then let '(l, r') := rrange 97 123 r in ([l], r') else ([], r)).
  assert (HP : forallb is_ident_cont (fst P) = true /\
               (dig = false -> match fst P with x :: _ => is_word_start x = true | [] => True end)).
  { subst P. destruct dig.
    - pose proof (rrange_bounds 48 58 cs1 ltac:(lia)) as Hb. destruct (rrange 48 58 cs1) as [d r].
      cbn [fst forallb] in *. split; [|discriminate]. rewrite andb_true_r. unfold is_ident_cont, in_range. b2p. lia.
    - destruct (rbool 7 10 cs1) as [low r]. destruct low; [|split; [reflexivity|intros _; exact I]].
      pose proof (rrange_bounds 97 123 r ltac:(lia)) as Hb. destruct (rrange 97 123 r) as [l r'].
      cbn [fst forallb] in *. rewrite andb_true_r.
      split; [|intros _]; unfold is_ident_cont, is_word_start, in_range; b2p; lia. }
  destruct P as [pre cs2]. cbn [fst] in HP. destruct HP as [HP1 HP2].
  destruct (rbool 9 10 cs2) as [up cs3].
  set (Q := if up then let '(u, r) := rrange 65 91 cs3 in ([u], r) else ([95], cs3)).
  assert (HQ : exists y, fst Q = [y] /\ is_word_start y = true).
  { subst Q. destruct up; [|exists 95; split; reflexivity].
    pose proof (rrange_bounds 65 91 cs3 ltac:(lia)) as Hb. destruct (rrange 65 91 cs3) as [u r].
    cbn [fst] in *. exists u. split; [reflexivity|]. unfold is_word_start, in_range. b2p. lia. }
  destruct Q as [post cs4]. cbn [fst] in HQ. destruct HQ as (y & -> & Hy).
  destruct (IH false cs4) as [IH1 _]. destruct (ident_loop n false cs4) as [rest cs5]. cbn [fst] in *.
  split.
  - rewrite forallb_app, HP1. cbn [app forallb]. rewrite IH1, (word_start_cont y Hy). reflexivity.
  - intros Hf _. specialize (HP2 (Hfd Hf)). destruct pre as [|x pre]; [exact Hy|exact HP2].
Qed.

Lemma random_identifier_shape cs :
  atom_ok (AWord (fst (random_identifier cs))) = true.
Proof.
  unfold random_identifier. pose proof (rrange_bounds 1 20 cs ltac:(lia)) as Hb.
  destruct (rrange 1 20 cs) as [n cs1]. cbn [fst] in Hb.
  destruct (ident_loop_shape (N.to_nat n) true cs1) as [H1 H2].
  specialize (H2 eq_refl ltac:(lia)). cbn [atom_ok]. rewrite H1.
  destruct (fst (ident_loop (N.to_nat n) true cs1)); [contradiction|]. now rewrite H2.
Qed.

(* ---- numbers ------------------------------------------------------------------------ *)
Lemma random_uint_fits cs : fst (random_uint cs) < 2 ^ 128.
Proof.
  unfold random_uint. destruct (rbool 1 5 cs) as [zero cs1]. destruct zero; [cbn; lia|].
  destruct (rbool 1 20 cs1) as [big cs2]. destruct big.
  { pose proof (rrange_bounds 1 (U128_MAX + 1) cs2 ltac:(unfold U128_MAX; lia)) as H.
    unfold U128_MAX in *. change (2 ^ 128) with 340282366920938463463374607431768211456. lia. }
  destruct (rbool 1 4 cs2) as [medium cs3]. destruct medium.
  - pose proof (rrange_bounds 3 20 cs3 ltac:(lia)) as Hd. destruct (rrange 3 20 cs3) as [nd cs4]. cbn [fst] in Hd.
    assert (Hp : 10 ^ nd <= 10 ^ 19) by (apply N.pow_le_mono_r; lia).
    assert (H1 : 1 < 10 ^ nd).
    { apply N.lt_le_trans with (10 ^ 3); [reflexivity|]. apply N.pow_le_mono_r; lia. }
    pose proof (rrange_bounds 1 (10 ^ nd) cs4 H1) as H.
    change (10 ^ 19) with 10000000000000000000 in Hp.
    change (2 ^ 128) with 340282366920938463463374607431768211456. lia.
  - pose proof (rrange_bounds 1 1000 cs3 ltac:(lia)) as H.
    change (2 ^ 128) with 340282366920938463463374607431768211456. lia.
Qed.

Lemma bit_integer_text_shape v cs : exists b,
  fst (bit_integer_text v cs) = body_text b /\ body_value b = v.
Proof.
  unfold bit_integer_text. destruct (rbool 1 2 cs) as [hex cs1]. destruct hex.
  - destruct (rbool 1 2 cs1) as [up cs2]. exists (NHex up v). split; reflexivity.
  - exists (NBin v). split; reflexivity.
Qed.

Lemma suffixed_integer_text_shape v cs : exists b,
  fst (suffixed_integer_text v cs) = body_text b /\ body_value b = v.
Proof.
  unfold suffixed_integer_text. destruct (rbool 3 4 cs) as [dec cs1]. destruct dec.
  - exists (NDec v). split; reflexivity.
  - apply bit_integer_text_shape.
Qed.

Lemma sample_int_type cs : existsb (vt_eqb (fst (sample VNoKeyword int_type_table cs))) int_types = true.
Proof.
  destruct (sample_pos VNoKeyword int_type_table cs ltac:(reflexivity)) as (w & Hin & Hw).
  set (t := fst (sample VNoKeyword int_type_table cs)) in *. clearbody t.
  cbn in Hin. repeat (destruct Hin as [Hin|Hin]; [inversion Hin; subst; first [lia|reflexivity]|]).
  contradiction.
Qed.

(* ---- checking a property of all 128 ASCII values by computation ------------------- *)
Lemma forall_below (P : N -> bool) (n : nat) :
  forallb P (map N.of_nat (seq 0 n)) = true -> forall a, a < N.of_nat n -> P a = true.
Proof.
  intros H a Ha. rewrite forallb_forall in H. apply H. apply in_map_iff.
  exists (N.to_nat a). split; [apply N2Nat.id|]. apply in_seq. lia.
Qed.

Lemma single_char_item a : a < 128 -> 0 < single_char_weight a -> citem_ok (item_of_escape a) = true.
Proof.
  intros Ha Hw.
  pose proof (forall_below (fun a => if 0 <? single_char_weight a then citem_ok (item_of_escape a) else true)
                128 ltac:(vm_compute; reflexivity) a Ha) as H.
  cbn beta in H. destruct (N.ltb_spec 0 (single_char_weight a)); [exact H|lia].
Qed.

(* ========================================================================== *)
(* 5. The spelling of every token kind                                        *)
(* ========================================================================== *)
Definition const_atoms (s : list N) : list atom :=
  match s with
  | x :: _ => if is_ident_cont x then [AWord s] else map APunct s
  | [] => []
  end.

Definition shape_ok (k : token_kind) (text : list N) (B : list atom) : Prop :=
  text = flatc B /\ B <> [] /\ WF B /\ first_wordy B = calls_add_space k.

Lemma value_type_word cs : atom_ok (AWord (vt_display (fst (sample VNoKeyword value_type_table cs)))) = true.
Proof.
  destruct (sample_pos VNoKeyword value_type_table cs ltac:(reflexivity)) as (w & Hin & Hw).
  set (t := fst (sample VNoKeyword value_type_table cs)) in *. clearbody t.
  cbn in Hin. repeat (destruct Hin as [Hin|Hin]; [inversion Hin; subst; first [lia|reflexivity]|]).
  contradiction.
Qed.

Lemma WF_single a : atom_ok a = true -> WF [a].
Proof. intros H. split; cbn [forallb adj_ok first_wordy]; [now rewrite H|now rewrite andb_false_r]. Qed.

Definition variable_kind (k : token_kind) : bool :=
  match k with
  | TValueTypeKeyword | TIdentifier | TBuiltin | TNakedDecimal | TBitInteger | TSuffixedInteger
  | TCharLiteral | TBoolLiteral | TStringLiteral => true
  | _ => false
  end.
Definition const_text (k : token_kind) : list N :=
  match k with TBraceLeft => [123] | TBraceRight => [125] | _ => display k end.
Definition list_eqb (a b : list N) : bool := (length a =? length b)%nat && forallb (fun p => fst p =? snd p) (combine a b).
Definition const_check (k : token_kind) : bool :=
  variable_kind k || (weight k =? 0) ||
  let B := const_atoms (const_text k) in
  list_eqb (const_text k) (flatc B) && negb (length B =? 0)%nat && forallb atom_ok B && adj_ok B &&
  Bool.eqb (first_wordy B) (calls_add_space k).

Lemma list_eqb_eq a : forall b, list_eqb a b = true -> a = b.
Proof.
  unfold list_eqb. induction a as [|x a IH]; intros [|y b] H; try reflexivity; try discriminate.
  cbn [length combine forallb fst snd] in H. b2p. destruct H as [H1 [H2 H3]]. subst y. f_equal.
  apply IH. b2p. split; [cbn in H1; apply Nat.eqb_eq in H1; apply Nat.eqb_eq; lia|exact H3].
Qed.

Lemma all_kinds_complete k : In k all_kinds.
Proof. destruct k; cbn; tauto. Qed.

Lemma const_kinds_checked : forallb const_check all_kinds = true.
Proof. vm_compute. reflexivity. Qed.

Lemma const_token_text k cs : variable_kind k = false -> ops_text (fst (token_ops k cs)) = const_text k.
Proof. destruct k; try discriminate; intros _; reflexivity. Qed.

Lemma shape_single k text a : text = spell a -> atom_ok a = true -> wordy a = calls_add_space k ->
  shape_ok k text [a].
Proof.
  intros Ht Hok Hw. split; [|split; [discriminate|split; [now apply WF_single|exact Hw]]].
  unfold flatc. cbn [flat_map]. now rewrite app_nil_r.
Qed.
Lemma ops_text_single s : ops_text [OStr s] = s.
Proof. unfold ops_text. cbn [flat_map op_text]. apply app_nil_r. Qed.

Theorem token_shape k cs : 0 < weight k -> exists B, shape_ok k (fst (emit_token k cs)) B.
Proof.
  intros Hw. unfold emit_token, shape_ok.
  assert (Hfst : forall k cs, fst (let '(ops, cs') := token_ops k cs in (ops_text ops, cs')) = ops_text (fst (token_ops k cs))).
  { intros k0 cs0. destruct (token_ops k0 cs0); reflexivity. }
  rewrite Hfst.
  destruct (variable_kind k) eqn:Hvar.
  2:{ rewrite const_token_text by exact Hvar.
      pose proof const_kinds_checked as Hc. rewrite forallb_forall in Hc.
      specialize (Hc k (all_kinds_complete k)). unfold const_check in Hc. rewrite Hvar in Hc.
      destruct (N.eqb_spec (weight k) 0) as [H0|_]; [lia|]. cbn [orb] in Hc.
      exists (const_atoms (const_text k)). b2p. destruct Hc as [[[[H1 H2] H3] H4] H5].
      split; [now apply list_eqb_eq|]. split; [destruct (const_atoms (const_text k)); [discriminate|discriminate]|].
      split; [split; assumption|now apply eqb_prop]. }
  clear Hfst. destruct k; try discriminate; clear Hvar.
  - (* value type keyword *)
    cbn [token_ops]. pose proof (value_type_word cs) as H.
    destruct (sample VNoKeyword value_type_table cs) as [t cs1]. cbn [fst] in *.
    exists [AWord (vt_display t)]. apply shape_single; [apply ops_text_single|exact H|reflexivity].
  - (* identifier *)
    cbn [token_ops]. pose proof (random_identifier_shape cs) as H.
    destruct (random_identifier cs) as [id cs1]. cbn [fst] in *.
    exists [AWord id]. apply shape_single; [apply ops_text_single|exact H|reflexivity].
  - (* builtin *)
    cbn [token_ops]. pose proof (random_identifier_shape cs) as H.
    destruct (random_identifier cs) as [id cs1]. cbn [fst] in *.
    exists [AWord id; APunct 33]. split; [|split; [discriminate|split; [split|reflexivity]]].
    + unfold ops_text, flatc. cbn [flat_map op_text spell]. reflexivity.
    + cbn [forallb]. rewrite H. reflexivity.
    + reflexivity.
  - (* naked decimal *)
    cbn [token_ops]. pose proof (random_uint_fits cs) as H.
    destruct (random_uint cs) as [v cs1]. cbn [fst] in *.
    exists [ANum (NDec v) None]. apply shape_single; [|cbn [atom_ok body_value]; apply N.ltb_lt in H; now rewrite H|reflexivity].
    rewrite ops_text_single. cbn [spell body_text]. now rewrite app_nil_r.
  - (* bit integer *)
    cbn [token_ops]. pose proof (random_uint_fits cs) as H.
    destruct (random_uint cs) as [v cs1]. cbn [fst] in *.
    destruct (bit_integer_text_shape v cs1) as (b & Hb & Hv).
    destruct (bit_integer_text v cs1) as [text cs2]. cbn [fst] in *.
    exists [ANum b None]. apply shape_single; [|cbn [atom_ok]; rewrite Hv; apply N.ltb_lt in H; now rewrite H|reflexivity].
    rewrite ops_text_single. cbn [spell]. now rewrite app_nil_r.
  - (* suffixed integer *)
    cbn [token_ops]. pose proof (random_uint_fits cs) as H.
    destruct (random_uint cs) as [v cs1]. cbn [fst] in *.
    destruct (suffixed_integer_text_shape v cs1) as (b & Hb & Hv).
    destruct (suffixed_integer_text v cs1) as [text cs2]. cbn [fst] in *.
    pose proof (sample_int_type cs2) as Ht.
    destruct (sample VNoKeyword int_type_table cs2) as [t cs3]. cbn [fst] in *.
    exists [ANum b (Some t)]. apply shape_single; [|cbn [atom_ok sfx_ok]; rewrite Hv, Ht; apply N.ltb_lt in H; now rewrite H|reflexivity].
    unfold ops_text. cbn [flat_map op_text spell]. now rewrite app_nil_r, Hb.
  - (* char literal *)
    cbn [token_ops]. unfold char_literal_ops. destruct (rbool 1 20 cs) as [hex cs1]. destruct hex.
    + pose proof (rrange_bounds 0 256 cs1 ltac:(lia)) as Hv. destruct (rrange 0 256 cs1) as [v cs2].
      cbn [fst] in *. destruct (hex_escape_render v ltac:(lia)) as [E Hok].
      eexists [AChar _]. apply shape_single; [|cbn [atom_ok]; unfold citem_ok; now rewrite Hok|reflexivity].
      unfold ops_text. cbn [flat_map op_text spell]. rewrite E, !app_nil_r. reflexivity.
    + destruct (sample_ascii single_char_weight cs1 ltac:(reflexivity)) as [Ha Hpos].
      destruct (sample 0 (ascii_table single_char_weight) cs1) as [a cs2]. cbn [fst] in *.
      exists [AChar (item_of_escape a)]. apply shape_single; [|now apply single_char_item|reflexivity].
      change (OChar 39 :: map OChar (escape_default a) ++ [OChar 39])
        with (map OChar [39] ++ map OChar (escape_default a) ++ map OChar [39]).
      rewrite <- !map_app, ops_text_chars, escape_default_render. reflexivity.
  - (* bool literal *)
    cbn [token_ops]. destruct (rbool 1 2 cs) as [b cs1]. cbn [fst].
    destruct b; [exists [AWord (str "true")]|exists [AWord (str "false")]];
      (apply shape_single; [apply ops_text_single|reflexivity|reflexivity]).
  - (* string literal *)
    cbn [token_ops]. unfold string_literal_ops. destruct (rrange 0 100 cs) as [n cs1].
    destruct (string_body_shape (N.to_nat n) cs1) as (items & Ht & Hall).
    destruct (string_body_ops (N.to_nat n) cs1) as [body cs2]. cbn [fst] in *.
    exists [AStr items]. apply shape_single; [|exact Hall|reflexivity].
    change (OChar 34 :: body ++ [OChar 34]) with ([OChar 34] ++ body ++ [OChar 34]).
    rewrite !ops_text_app, Ht. reflexivity.
Qed.

(* ========================================================================== *)
(* 6. The buffer                                                              *)
(* ========================================================================== *)
Lemma str_len_app a b : str_len (a ++ b) = str_len a + str_len b.
Proof. induction a as [|c a IH]; [reflexivity|]. cbn [app str_len fold_right] in *. fold (str_len (a ++ b)). fold (str_len a). lia. Qed.

Lemma utf8_len_length c : utf8_len c = lenN (utf8 c).
Proof. unfold utf8_len, utf8. repeat destruct (_ <? _); reflexivity. Qed.

Lemma str_len_encode s : str_len s = lenN (encode s).
Proof.
  induction s as [|c s IH]; [reflexivity|]. cbn [str_len fold_right encode flat_map].
  fold (str_len s). fold (encode s). rewrite lenN_app, IH, utf8_len_length. reflexivity.
Qed.

Lemma buf_text_rev b : buf_text b = rev (brev b).
Proof. unfold buf_text. symmetry. apply rev_alt. Qed.

Lemma buf_text_push o b : buf_text (push o b) = buf_text b ++ op_text o.
Proof. rewrite !buf_text_rev. unfold push. cbn [brev]. rewrite rev_append_rev, rev_app_distr, rev_involutive. reflexivity. Qed.

Lemma apply_ops_spec ops : forall b,
  buf_text (apply_ops ops b) = buf_text b ++ ops_text ops /\
  blen (apply_ops ops b) = blen b + str_len (ops_text ops) /\
  bcap b <= bcap (apply_ops ops b).
Proof.
  induction ops as [|o ops IH]; intros b.
  - cbn. rewrite app_nil_r. repeat split; lia.
  - cbn [apply_ops fold_left]. fold (apply_ops ops (push o b)).
    destruct (IH (push o b)) as (H1 & H2 & H3). rewrite H1, H2, buf_text_push.
    cbn [ops_text flat_map]. fold (ops_text ops). rewrite str_len_app, <- app_assoc.
    repeat split; [unfold push; cbn [blen]; lia|].
    eapply N.le_trans; [|exact H3]. unfold push, reserve. cbn [bcap].
    destruct (_ <? _); lia.
Qed.

Lemma last_byte_snoc b t c : buf_text b = t ++ [c] -> c < 128 -> last_byte b = Some c.
Proof.
  rewrite buf_text_rev. unfold last_byte. intros H Hc. apply (f_equal (@rev N)) in H.
  rewrite rev_involutive, rev_app_distr in H. cbn in H. rewrite H.
  destruct (N.ltb_spec c 128); [reflexivity|lia].
Qed.

Lemma last_byte_wordy b A : buf_text b = flatc A -> WF A -> last_wordy A = true ->
  exists l, last_byte b = Some l /\ is_ident_cont l = true.
Proof.
  intros Ht [Hok _] Hl. destruct A as [|a A] using rev_ind; [discriminate|]. clear IHA.
  rewrite last_wordy_app in Hl. rewrite forallb_app in Hok. apply andb_true_iff in Hok as [_ Ha].
  cbn [forallb] in Ha. rewrite andb_true_r in Ha.
  destruct (wordy_spell_cont a Ha Hl) as [Hall Hne].
  rewrite flatc_app in Ht. cbn [flatc flat_map] in Ht. rewrite app_nil_r in Ht.
  destruct (spell a) as [|c s] using rev_ind; [congruence|]. clear IHs.
  rewrite forallb_app in Hall. apply andb_true_iff in Hall as [_ Hc]. cbn in Hc. rewrite andb_true_r in Hc.
  exists c. split; [|exact Hc]. eapply last_byte_snoc; [rewrite Ht, app_assoc; reflexivity|].
  now apply is_ident_cont_ascii.
Qed.

(* the buffer is a well-formed atom sequence, its length is accounted for in
   bytes, and its capacity never shrinks below [cap0] *)
Definition Good (cap0 : N) (b : buf) : Prop :=
  (exists A, buf_text b = flatc A /\ WF A) /\ blen b = str_len (buf_text b) /\ cap0 <= bcap b.

Lemma Good_empty cap : Good cap (empty_buf cap).
Proof. split; [exists []; split; [reflexivity|apply WF_nil]|split; [reflexivity|cbn; lia]]. Qed.

Lemma Good_apply cap0 b ops C : Good cap0 b -> ops_text ops = flatc C -> WF C ->
  (first_wordy C = true -> match last_byte b with Some l => is_ident_cont l = false | None => True end) ->
  Good cap0 (apply_ops ops b).
Proof.
  intros ((A & Ht & HA) & Hlen & Hcap) Hops HC Hj.
  destruct (apply_ops_spec ops b) as (H1 & H2 & H3). split; [|split].
  - exists (A ++ C). rewrite H1, Ht, Hops, flatc_app. split; [reflexivity|].
    apply WF_app; [exact HA|exact HC|].
    destruct (first_wordy C) eqn:Hf; [|apply andb_false_r]. rewrite andb_true_r.
    destruct (last_wordy A) eqn:Hl; [|reflexivity].
    destruct (last_byte_wordy b A Ht HA Hl) as (l & Hb & Hi). specialize (Hj eq_refl).
    rewrite Hb in Hj. congruence.
  - rewrite H1, H2, str_len_app, Hlen. reflexivity.
  - lia.
Qed.

(* atoms that are not wordy can be appended anywhere *)
Definition calm (C : list atom) : bool := forallb (fun a => atom_ok a && negb (wordy a)) C.

Lemma calm_WF C : calm C = true -> WF C /\ first_wordy C = false.
Proof.
  unfold calm. induction C as [|a C IH]; intros H; [split; [apply WF_nil|reflexivity]|].
  cbn [forallb] in H. b2p. destruct H as [[Ha Hw] HC]. destruct (IH HC) as [[H1 H2] H3].
  split; [split|exact Hw]; cbn [forallb adj_ok]; [now rewrite Ha, H1|now rewrite Hw, H2].
Qed.

Lemma Good_apply_calm cap0 b ops C : Good cap0 b -> ops_text ops = flatc C -> calm C = true ->
  Good cap0 (apply_ops ops b).
Proof.
  intros Hg Hops Hc. destruct (calm_WF C Hc) as [HW Hf].
  eapply Good_apply; [exact Hg|exact Hops|exact HW|]. rewrite Hf. discriminate.
Qed.

(* ---- the pieces of one iteration ------------------------------------------------------ *)
Lemma whitespace_shape last cs : exists C, ops_text (fst (whitespace_ops last cs)) = flatc C /\ calm C = true.
Proof.
  assert (Hrep : forall c n, (c = 32 \/ c = 9) ->
            ops_text (repeat (OChar c) n) = flatc (repeat (AWs c) n) /\ calm (repeat (AWs c) n) = true).
  { intros c n Hc. induction n as [|n [IH1 IH2]]; [split; reflexivity|].
    cbn [repeat]. split; [cbn; f_equal; exact IH1|]. unfold calm in *. cbn [forallb]. rewrite IH2.
    destruct Hc as [->| ->]; reflexivity. }
  unfold whitespace_ops. destruct last as [l|]; [|exists []; split; reflexivity].
  destruct (l =? 10).
  - destruct (rrange 0 4 cs) as [nt cs1]. destruct (rbool 1 5 cs1) as [tabs cs2]. destruct tabs; cbn [fst].
    + exists (repeat (AWs 9) (N.to_nat nt)). apply Hrep. now right.
    + exists (repeat (AWs 32) (N.to_nat (4 * nt))). apply Hrep. now left.
  - destruct (rbool 1 5 cs) as [sp cs1]. destruct sp; cbn [fst].
    + exists [AWs 32]. split; reflexivity.
    + exists []. split; reflexivity.
Qed.

Lemma comment_shape cs : exists C, ops_text (fst (comment_ops cs)) = flatc C /\ calm C = true.
Proof.
  unfold comment_ops. destruct (rbool 4 5 cs) as [nl cs1]. destruct (rrange 0 160 cs1) as [n cs2].
  pose proof (comment_chars_shape (N.to_nat n) cs2) as Hb.
  destruct (comment_chars (N.to_nat n) cs2) as [body cs3]. cbn [fst] in *.
  exists ((if nl then [ANl false] else []) ++ [AComment (ops_text body); ANl false]). split.
  - rewrite ops_text_app, flatc_app. f_equal; [destruct nl; reflexivity|].
    change (OStr [47; 47] :: body ++ [OChar 10]) with ([OStr [47; 47]] ++ body ++ [OChar 10]).
    rewrite !ops_text_app. unfold ops_text, flatc. cbn [flat_map op_text spell app]. reflexivity.
  - unfold calm. rewrite forallb_app. cbn [forallb atom_ok wordy negb andb]. rewrite Hb. destruct nl; reflexivity.
Qed.

Lemma push_token_good cap0 k b cs : 0 < weight k -> Good cap0 b ->
  Good cap0 (apply_ops (fst (push_token k (last_byte b) cs)) b).
Proof.
  intros Hw Hg. unfold push_token.
  destruct (token_shape k cs Hw) as (B & Ht & Hne & HB & Hf). unfold emit_token in Ht.
  destruct (token_ops k cs) as [ops cs']. cbn [fst] in *.
  destruct (calls_add_space k) eqn:Hc.
  - unfold space_ops. destruct (last_byte b) as [l|] eqn:Hl.
    + destruct (is_ident_cont l) eqn:Hi.
      * apply (Good_apply cap0 b _ ([AWs 32] ++ B)); [exact Hg| | |discriminate].
        -- rewrite ops_text_app, flatc_app, Ht. reflexivity.
        -- apply WF_app; [apply WF_single; reflexivity|exact HB|reflexivity].
      * apply (Good_apply cap0 b _ B); [exact Hg|exact Ht|exact HB|]. rewrite Hl. intros _. exact Hi.
    + apply (Good_apply cap0 b _ B); [exact Hg|exact Ht|exact HB|]. rewrite Hl. auto.
  - apply (Good_apply cap0 b _ B); [exact Hg|exact Ht|exact HB|]. rewrite Hf. discriminate.
Qed.

Definition GoodSt (cap0 : N) (st : fstate) : Prop := Good cap0 (fbuf st).

Lemma newline_loop_good cap0 : forall fuel st cs, GoodSt cap0 st -> GoodSt cap0 (fst (newline_loop fuel st cs)).
Proof.
  induction fuel as [|f IH]; intros st cs Hg; [exact Hg|]. cbn [newline_loop].
  destruct (nl_at st <? blen (fbuf st)); [|exact Hg].
  destruct (rbool 1 20 cs) as [cr cs1].
  assert (Hb : Good cap0 (apply_ops ((if cr then [OChar 13] else []) ++ [OChar 10]) (fbuf st))).
  { apply (Good_apply_calm cap0 _ _ [ANl cr]); [exact Hg| |reflexivity]. destruct cr; reflexivity. }
  destruct (rbool 4 5 cs1) as [upd cs2]. destruct upd.
  - destruct (rrange 10 80 cs2) as [r cs3]. apply IH. exact Hb.
  - apply IH. exact Hb.
Qed.

Lemma comment_loop_good cap0 : forall fuel st cs, GoodSt cap0 st -> GoodSt cap0 (fst (comment_loop fuel st cs)).
Proof.
  induction fuel as [|f IH]; intros st cs Hg; [exact Hg|]. cbn [comment_loop].
  destruct (cm_at st <? blen (fbuf st)); [|exact Hg].
  destruct (comment_shape cs) as (C & Ht & Hc). destruct (comment_ops cs) as [ops cs1]. cbn [fst] in *.
  assert (Hb : Good cap0 (apply_ops ops (fbuf st))) by (eapply Good_apply_calm; eassumption).
  destruct (rbool 9 10 cs1) as [upd cs2]. destruct upd.
  - destruct (rrange 200 500 cs2) as [r cs3]. apply IH. exact Hb.
  - apply IH. exact Hb.
Qed.

Lemma sample_token_weight cs : 0 < weight (fst (sample TEndOfSource token_table cs)).
Proof.
  destruct (sample_pos TEndOfSource token_table cs ltac:(reflexivity)) as (w & Hin & Hw).
  unfold token_table in Hin. apply in_map_iff in Hin as (k & E & _). inversion E; subst. exact Hw.
Qed.

Lemma iteration_good cap0 fuel st cs : GoodSt cap0 st -> GoodSt cap0 (fst (iteration fuel st cs)).
Proof.
  intros Hg. unfold iteration.
  pose proof (newline_loop_good cap0 fuel st cs Hg) as H1.
  destruct (newline_loop fuel st cs) as [st1 cs1]. cbn [fst] in H1.
  pose proof (comment_loop_good cap0 fuel st1 cs1 H1) as H2.
  destruct (comment_loop fuel st1 cs1) as [st2 cs2]. cbn [fst] in H2.
  destruct (whitespace_shape (last_byte (fbuf st2)) cs2) as (C & Ht & Hc).
  destruct (whitespace_ops (last_byte (fbuf st2)) cs2) as [ws cs3]. cbn [fst] in *.
  assert (H3 : Good cap0 (apply_ops ws (fbuf st2))) by (eapply Good_apply_calm; eassumption).
  pose proof (sample_token_weight cs3) as Hw.
  destruct (sample TEndOfSource token_table cs3) as [k cs4]. cbn [fst] in Hw.
  pose proof (push_token_good cap0 k _ cs4 Hw H3) as H4.
  destruct (push_token k (last_byte (apply_ops ws (fbuf st2))) cs4) as [ops cs5]. cbn [fst] in *.
  exact H4.
Qed.

Lemma emit_loop_good cap0 pct : forall fuel st cs, GoodSt cap0 st ->
  GoodSt cap0 (snd (emit_loop fuel pct st cs)) /\
  (fst (emit_loop fuel pct st cs) = Finished ->
   pct * bcap (fbuf (snd (emit_loop fuel pct st cs))) <= 100 * blen (fbuf (snd (emit_loop fuel pct st cs)))).
Proof.
  induction fuel as [|f IH]; intros st cs Hg; [split; [exact Hg|discriminate]|]. cbn [emit_loop].
  destruct (N.ltb_spec (100 * blen (fbuf st)) (pct * bcap (fbuf st))) as [Hlt|Hge].
  - destruct cs as [|c cs]; [split; [exact Hg|discriminate]|].
    pose proof (iteration_good cap0 (S f) st (c :: cs) Hg) as H. destruct (iteration (S f) st (c :: cs)) as [st' cs'].
    apply IH. exact H.
  - split; [exact Hg|]. intros _. exact Hge.
Qed.

(* ========================================================================== *)
(* 7. The whole run                                                           *)
(* ========================================================================== *)
Lemma emit_run_good fuel cs cap pct : GoodSt cap (snd (emit_run fuel cs cap pct)) /\
  (fst (emit_run fuel cs cap pct) = Finished ->
   let b := fbuf (snd (emit_run fuel cs cap pct)) in pct * bcap b <= 100 * blen b).
Proof.
  unfold emit_run. destruct (rrange 10 80 cs) as [n1 cs1]. destruct (rrange 200 500 cs1) as [n2 cs2].
  set (st0 := {| fbuf := empty_buf cap; nl_at := n1; cm_at := n2; foof := false |}).
  assert (H0 : GoodSt cap st0) by apply Good_empty.
  destruct (pct <? 100); [|split; [exact H0|discriminate]].
  destruct (emit_loop_good cap pct fuel st0 cs2 H0) as [H1 H2].
  destruct (emit_loop fuel pct st0 cs2) as [s st]. cbn [fst snd] in *. split; [exact H1|].
  destruct (foof st); [discriminate|exact H2].
Qed.

(* MAIN SHAPE THEOREM: whatever the choices (and the fuel, the capacity, the
   percentage), the text is the spelling of a well-formed atom sequence *)
Theorem emit_atoms fuel cs cap pct : exists A, emit fuel cs cap pct = flatc A /\ WF A.
Proof. destruct (emit_run_good fuel cs cap pct) as [[H _] _]. exact H. Qed.

(* the loop only stops once `100 * len >= percentage * capacity`, and the
   capacity never shrinks below the requested one *)
Theorem loop_exit_condition fuel cs cap pct :
  fst (emit_run fuel cs cap pct) = Finished ->
  pct * cap <= 100 * lenN (emit_bytes fuel cs cap pct).
Proof.
  intros Hf. destruct (emit_run_good fuel cs cap pct) as [(_ & Hlen & Hcap) H]. specialize (H Hf). cbv zeta in H.
  unfold emit_bytes, emit. rewrite <- str_len_encode, <- Hlen. nia.
Qed.

(* src/main.rs: capacity = kb * 1096, percentage 95: at least kb KiB *)
Theorem size_at_least cs kb :
  fst (fuzz_tokens cs kb) = Finished -> kb * 1024 <= lenN (snd (fuzz_tokens cs kb)).
Proof.
  unfold fuzz_tokens. cbn [fst snd]. intros Hf.
  pose proof (loop_exit_condition _ _ _ _ Hf) as H. unfold emit_bytes, emit in H. unfold buf_bytes. lia.
Qed.

(* ========================================================================== *)
(* 8. Unicode scalar values only                                              *)
(* ========================================================================== *)
Lemma ascii_scalar c : c < 128 -> scalar c = true.
Proof. intros H. unfold scalar. b2p. left. lia. Qed.

Lemma item_scalar i0 : fitem_ok i0 = true -> forallb scalar (render i0) = true.
Proof.
  intros Hok. apply forallb_forall. intros z Hz.
  destruct i0 as [c|c b|h1 h2|ds]; cbn [fitem_ok LexAlphaProofs.render] in *.
  - destruct Hz as [<-|[]]. apply orb_true_iff in Hok as [Hok|Hok].
    + apply ascii_scalar. unfold in_range in Hok. b2p. lia.
    + apply andb_true_iff in Hok. tauto.
  - unfold simple_escapes in Hok. cbn [existsb fst snd] in Hok. apply ascii_scalar.
    destruct Hz as [<-|[<-|[]]]; [lia|]. b2p. lia.
  - apply andb_true_iff in Hok as [H1 H2]. unfold is_hex_upper, in_range in *. apply ascii_scalar.
    destruct Hz as [<-|[<-|[<-|[<-|[]]]]]; b2p; lia.
  - repeat apply andb_true_iff in Hok as [Hok ?]. apply ascii_scalar.
    destruct Hz as [<-|[<-|[<-|Hz]]]; try lia. apply in_app_iff in Hz as [Hz|[<-|[]]]; [|lia].
    rewrite forallb_forall in Hok. specialize (Hok z Hz). unfold is_hex_lower, in_range in Hok. b2p. lia.
Qed.

Lemma atom_scalar a : atom_ok a = true -> forallb scalar (spell a) = true.
Proof.
  intros Hok.
  assert (Hcont : forall l, forallb is_ident_cont l = true -> forallb scalar l = true).
  { intros l Hl. apply forallb_forall. intros z Hz. rewrite forallb_forall in Hl.
    apply ascii_scalar, is_ident_cont_ascii, Hl, Hz. }
  destruct a as [c|cr|c|w|b sfx|i0|items|body]; cbn [spell atom_ok] in *.
  - b2p. destruct Hok; subst; reflexivity.
  - destruct cr; reflexivity.
  - unfold is_punct in Hok. apply existsb_exists in Hok as (y & Hin & Hy). apply N.eqb_eq in Hy. subst y.
    cbn in Hin. repeat (destruct Hin as [<-|Hin]; [reflexivity|]). contradiction.
  - apply Hcont. apply andb_true_iff in Hok. tauto.
  - apply Hcont. apply (wordy_spell_cont (ANum b sfx) Hok eq_refl).
  - unfold citem_ok in Hok. apply andb_true_iff in Hok as [Hok _].
    cbn [forallb]. rewrite forallb_app, (item_scalar i0 Hok). reflexivity.
  - cbn [forallb]. rewrite forallb_app. cbn [forallb]. rewrite andb_true_r. change (scalar 34) with true. cbn [andb].
    unfold LexAlphaProofs.renders. apply forallb_forall. intros z Hz. apply in_flat_map in Hz as (i0 & Hi & Hz).
    rewrite forallb_forall in Hok. pose proof (item_scalar i0 (Hok i0 Hi)) as Hs. rewrite forallb_forall in Hs. auto.
  - cbn [forallb]. change (scalar 47) with true. cbn [andb]. apply forallb_forall. intros z Hz.
    rewrite forallb_forall in Hok. specialize (Hok z Hz). apply andb_true_iff in Hok. tauto.
Qed.

Lemma WF_scalar A : WF A -> forallb scalar (flatc A) = true.
Proof.
  intros [Hok _]. induction A as [|a A IH]; [reflexivity|]. cbn [forallb] in Hok.
  apply andb_true_iff in Hok as [Ha Hok]. cbn [flatc flat_map]. rewrite forallb_app, (atom_scalar a Ha). now apply IH.
Qed.

(* every character of the text is a Unicode scalar value *)
Theorem emit_scalar fuel cs cap pct : forallb scalar (emit fuel cs cap pct) = true.
Proof. destruct (emit_atoms fuel cs cap pct) as (A & -> & HW). now apply WF_scalar. Qed.

(* ========================================================================== *)
(* 9. Every spelling rule, precisely                                          *)
(* ========================================================================== *)
(* an identifier contains an upper-case letter or an underscore (so it is no
   keyword, except the lone underscore) *)
Definition has_marker (w : list N) : bool := existsb (fun c => in_range 65 90 c || (c =? 95)) w.

Lemma ident_loop_more : forall n first cs,
  (n <> O -> has_marker (fst (ident_loop n first cs)) = true) /\
  (length (fst (ident_loop n first cs)) <= 2 * n)%nat.
Proof.
  induction n as [|n IH]; intros first cs; [split; [congruence|cbn; lia]|].
  cbn [ident_loop].
  destruct (if first then (false, cs) else rbool 1 10 cs) as [dig cs1].
  set (P := if dig then let '(d, r) := rrange 48 58 cs1 in ([d], r)
            else let '(low, r) := rbool 7 10 cs1 in
                 if low then let '(l, r') := rrange 97 123 r in ([l], r') else ([], r)).
  assert (HP : (length (fst P) <= 1)%nat).
  { subst P. destruct dig.
    - destruct (rrange 48 58 cs1). cbn. lia.
    - destruct (rbool 7 10 cs1) as [low r]. destruct low; [destruct (rrange 97 123 r)|]; cbn; lia. }
  destruct P as [pre cs2]. cbn [fst] in HP.
  destruct (rbool 9 10 cs2) as [up cs3].
  set (Q := if up then let '(u, r) := rrange 65 91 cs3 in ([u], r) else ([95], cs3)).
  assert (HQ : exists y, fst Q = [y] /\ in_range 65 90 y || (y =? 95) = true).
  { subst Q. destruct up; [|exists 95; split; reflexivity].
    pose proof (rrange_bounds 65 91 cs3 ltac:(lia)) as Hb. destruct (rrange 65 91 cs3) as [u r].
    cbn [fst] in *. exists u. split; [reflexivity|]. unfold in_range. b2p. left. lia. }
  destruct Q as [post cs4]. cbn [fst] in HQ. destruct HQ as (y & -> & Hy).
  destruct (IH false cs4) as [_ IH2]. destruct (ident_loop n false cs4) as [rest cs5]. cbn [fst] in *.
  split.
  - intros _. unfold has_marker. rewrite existsb_app. cbn [app existsb]. rewrite Hy. now rewrite orb_true_r.
  - rewrite !app_length. cbn [length]. lia.
Qed.

Lemma random_identifier_more cs :
  has_marker (fst (random_identifier cs)) = true /\ (length (fst (random_identifier cs)) <= 38)%nat.
Proof.
  unfold random_identifier. pose proof (rrange_bounds 1 20 cs ltac:(lia)) as Hb.
  destruct (rrange 1 20 cs) as [n cs1]. cbn [fst] in Hb.
  destruct (ident_loop_more (N.to_nat n) true cs1) as [H1 H2]. split; [apply H1; lia|lia].
Qed.

Lemma string_body_count : forall n cs, exists items,
  ops_text (fst (string_body_ops n cs)) = renders items /\ forallb fitem_ok items = true /\
  (length items <= n)%nat.
Proof.
  induction n as [|n IH]; intros cs; [exists []; repeat split; reflexivity|].
  cbn [string_body_ops]. destruct (rbool 1 100 cs) as [hex cs1].
  assert (Hpiece : forall piece cs2, (exists i, ops_text piece = render i /\ fitem_ok i = true) ->
    exists items, ops_text (fst (let '(rest, cs3) := string_body_ops n cs2 in (piece ++ rest, cs3))) =
                  renders items /\ forallb fitem_ok items = true /\ (length items <= S n)%nat).
  { intros piece cs2 (i & Hi & Hok). destruct (IH cs2) as (items & Ht & Hall & Hlen).
    destruct (string_body_ops n cs2) as [rest cs3]. cbn [fst] in *.
    exists (i :: items). rewrite ops_text_app, Hi, Ht. split; [reflexivity|]. cbn [forallb length].
    rewrite Hok, Hall. split; [reflexivity|lia]. }
  destruct hex.
  - pose proof (rrange_bounds 0 256 cs1 ltac:(lia)) as Hv. destruct (rrange 0 256 cs1) as [v r]. cbn [fst] in Hv.
    apply Hpiece. destruct (hex_escape_render v ltac:(lia)) as [E Hok].
    eexists. split; [|exact Hok]. unfold ops_text. cbn [flat_map op_text]. rewrite app_nil_r. exact E.
  - pose proof (random_char_ok cs1) as Hs. destruct (random_char cs1) as [c r]. cbn [fst] in Hs.
    destruct (N.ltb_spec c 128) as [Ha|Hna].
    + apply Hpiece. exists (item_of_escape c). rewrite ops_text_chars. split; [apply escape_default_render|].
      now apply item_of_escape_ok.
    + destruct (rbool 1 2 r) as [raw r']. destruct raw.
      * apply Hpiece. exists (IChar c). split; [reflexivity|]. cbn [fitem_ok]. rewrite Hs.
        apply orb_true_iff. right. b2p. split; [lia|reflexivity].
      * apply Hpiece. exists (item_of_escape c). rewrite ops_text_chars. split; [apply escape_default_render|].
        now apply item_of_escape_ok.
Qed.

Definition bit_body (b : numbody) : bool := match b with NDec _ => false | _ => true end.

Lemma bit_integer_text_bit v cs : exists b,
  fst (bit_integer_text v cs) = body_text b /\ body_value b = v /\ bit_body b = true.
Proof.
  unfold bit_integer_text. destruct (rbool 1 2 cs) as [hex cs1]. destruct hex.
  - destruct (rbool 1 2 cs1) as [up cs2]. exists (NHex up v). repeat split.
  - exists (NBin v). repeat split.
Qed.

(* how each kind of token is spelled *)
Inductive spelled : token_kind -> list N -> Prop :=
| Sp_const k : variable_kind k = false -> spelled k (const_text k)
| Sp_type t w : In (t, w) value_type_table -> 0 < w -> spelled TValueTypeKeyword (vt_display t)
| Sp_ident w : atom_ok (AWord w) = true -> has_marker w = true -> (length w <= 38)%nat -> spelled TIdentifier w
| Sp_builtin w : atom_ok (AWord w) = true -> has_marker w = true -> (length w <= 38)%nat ->
    spelled TBuiltin (w ++ [33])
| Sp_dec v : v < 2 ^ 128 -> spelled TNakedDecimal (to_decimal v)
| Sp_bit b : body_value b < 2 ^ 128 -> bit_body b = true -> spelled TBitInteger (body_text b)
| Sp_sfx b t : body_value b < 2 ^ 128 -> sfx_ok (Some t) = true ->
    spelled TSuffixedInteger (body_text b ++ vt_display t)
| Sp_char i : citem_ok i = true -> spelled TCharLiteral (39 :: render i ++ [39])
| Sp_bool (b : bool) : spelled TBoolLiteral (if b then str "true" else str "false")
| Sp_str items : forallb fitem_ok items = true -> (length items <= 99)%nat ->
    spelled TStringLiteral (34 :: renders items ++ [34]).

Theorem token_spelled k cs : 0 < weight k -> spelled k (fst (emit_token k cs)).
Proof.
  intros Hw. unfold emit_token.
  assert (Hfst : forall k cs, fst (let '(ops, cs') := token_ops k cs in (ops_text ops, cs')) = ops_text (fst (token_ops k cs))).
  { intros k0 cs0. destruct (token_ops k0 cs0); reflexivity. }
  rewrite Hfst. clear Hfst.
  destruct (variable_kind k) eqn:Hvar; [|rewrite const_token_text by exact Hvar; now apply Sp_const].
  destruct k; try discriminate; clear Hvar; cbn [token_ops].
  - destruct (sample_pos VNoKeyword value_type_table cs ltac:(reflexivity)) as (w & Hin & Hpos).
    destruct (sample VNoKeyword value_type_table cs) as [t cs1]. cbn [fst] in *.
    rewrite ops_text_single. eapply Sp_type; eassumption.
  - pose proof (random_identifier_shape cs) as H. destruct (random_identifier_more cs) as [Hm Hl].
    destruct (random_identifier cs) as [id cs1]. cbn [fst] in *. rewrite ops_text_single. now apply Sp_ident.
  - pose proof (random_identifier_shape cs) as H. destruct (random_identifier_more cs) as [Hm Hl].
    destruct (random_identifier cs) as [id cs1]. cbn [fst] in *.
    replace (ops_text [OStr id; OChar 33]) with (id ++ [33]) by (unfold ops_text; cbn [flat_map op_text]; reflexivity).
    now apply Sp_builtin.
  - pose proof (random_uint_fits cs) as H. destruct (random_uint cs) as [v cs1]. cbn [fst] in *.
    rewrite ops_text_single. now apply Sp_dec.
  - pose proof (random_uint_fits cs) as H. destruct (random_uint cs) as [v cs1]. cbn [fst] in *.
    destruct (bit_integer_text_bit v cs1) as (b & Hb & Hv & Hbit).
    destruct (bit_integer_text v cs1) as [text cs2]. cbn [fst] in *. rewrite ops_text_single, Hb.
    apply Sp_bit; [now rewrite Hv|exact Hbit].
  - pose proof (random_uint_fits cs) as H. destruct (random_uint cs) as [v cs1]. cbn [fst] in *.
    destruct (suffixed_integer_text_shape v cs1) as (b & Hb & Hv).
    destruct (suffixed_integer_text v cs1) as [text cs2]. cbn [fst] in *.
    pose proof (sample_int_type cs2) as Ht. destruct (sample VNoKeyword int_type_table cs2) as [t cs3]. cbn [fst] in *.
    replace (ops_text [OStr text; OStr (vt_display t)]) with (text ++ vt_display t)
      by (unfold ops_text; cbn [flat_map op_text]; now rewrite app_nil_r).
    rewrite Hb. apply Sp_sfx; [now rewrite Hv|exact Ht].
  - unfold char_literal_ops. destruct (rbool 1 20 cs) as [hex cs1]. destruct hex.
    + pose proof (rrange_bounds 0 256 cs1 ltac:(lia)) as Hv. destruct (rrange 0 256 cs1) as [v cs2].
      cbn [fst] in *. destruct (hex_escape_render v ltac:(lia)) as [E Hok].
      replace (ops_text [OChar 39; OStr (hex_escape v); OChar 39]) with (39 :: hex_escape v ++ [39])
        by (unfold ops_text; cbn [flat_map op_text app]; reflexivity).
      rewrite E. apply Sp_char. unfold citem_ok. now rewrite Hok.
    + destruct (sample_ascii single_char_weight cs1 ltac:(reflexivity)) as [Ha Hpos].
      destruct (sample 0 (ascii_table single_char_weight) cs1) as [a cs2]. cbn [fst] in *.
      change (OChar 39 :: map OChar (escape_default a) ++ [OChar 39])
        with (map OChar [39] ++ map OChar (escape_default a) ++ map OChar [39]).
      rewrite <- !map_app, ops_text_chars, escape_default_render. apply Sp_char. now apply single_char_item.
  - destruct (rbool 1 2 cs) as [b cs1]. cbn [fst]. rewrite ops_text_single. apply (Sp_bool b).
  - unfold string_literal_ops. pose proof (rrange_bounds 0 100 cs ltac:(lia)) as Hn.
    destruct (rrange 0 100 cs) as [n cs1]. cbn [fst] in Hn.
    destruct (string_body_count (N.to_nat n) cs1) as (items & Ht & Hall & Hlen).
    destruct (string_body_ops (N.to_nat n) cs1) as [body cs2]. cbn [fst] in *.
    change (OChar 34 :: body ++ [OChar 34]) with ([OChar 34] ++ body ++ [OChar 34]).
    rewrite !ops_text_app, Ht. apply Sp_str; [exact Hall|lia].
Qed.

(* sizes: no spelling is longer than 1000 characters, 4000 bytes *)
Lemma digits_len b v : (length (digits b v) <= 129)%nat.
Proof.
  unfold digits. rewrite rev_length. generalize 129%nat. intros f. revert v.
  induction f as [|f IH]; intros v; cbn [digits_rev length]; [lia|].
  destruct (v <? b); cbn [length]; [lia|]. specialize (IH (v / b)). lia.
Qed.

Lemma render_len i0 : fitem_ok i0 = true -> (length (render i0) <= 10)%nat.
Proof.
  destruct i0 as [c|c b|h1 h2|ds]; cbn [fitem_ok LexAlphaProofs.render length]; try lia.
  intros H. repeat apply andb_true_iff in H as [H ?]. rewrite app_length. cbn [length].
  unfold lenN in *. b2p. lia.
Qed.

Lemma renders_len items : forallb fitem_ok items = true -> (length (renders items) <= 10 * length items)%nat.
Proof.
  induction items as [|i0 items IH]; intros H; [cbn; lia|]. cbn [forallb] in H. apply andb_true_iff in H as [Hi H].
  unfold LexAlphaProofs.renders in *. cbn [flat_map length]. rewrite app_length.
  pose proof (render_len i0 Hi). specialize (IH H). lia.
Qed.

Lemma body_text_len b : (length (body_text b) <= 131)%nat.
Proof.
  destruct b as [v|u v|v]; cbn [body_text length]; unfold to_decimal, to_hex, to_binary; rewrite map_length.
  - pose proof (digits_len 10 v). lia.
  - pose proof (digits_len 16 v). lia.
  - pose proof (digits_len 2 v). lia.
Qed.

Lemma spelled_len k s : spelled k s -> (1 <= length s <= 1000)%nat.
Proof.
  intros H. destruct H as [k Hv|t w Hin Hw|w Hok Hm Hl|w Hok Hm Hl|v Hv|b Hv Hb|b t Hv Ht|i0 Hc|b|items Hall Hl].
  - destruct k; try discriminate Hv; cbn; lia.
  - destruct t; cbn; lia.
  - split; [|lia]. cbn [atom_ok] in Hok. destruct w; [discriminate|cbn; lia].
  - rewrite app_length. cbn [length]. lia.
  - pose proof (body_text_len (NDec v)) as Hlen. cbn [body_text] in Hlen.
    destruct (body_text_head (NDec v) Hv) as (x & r & E & _). cbn [body_text] in E. rewrite E in *. cbn [length] in *. lia.
  - pose proof (body_text_len b). destruct (body_text_head b Hv) as (x & r & E & _). rewrite E in *. cbn [length] in *. lia.
  - rewrite app_length. pose proof (body_text_len b). destruct t; cbn; lia.
  - unfold citem_ok in Hc. apply andb_true_iff in Hc as [Hc _]. pose proof (render_len i0 Hc).
    cbn [length]. rewrite app_length. cbn [length]. lia.
  - destruct b; cbn; lia.
  - pose proof (renders_len items Hall). cbn [length]. rewrite app_length. cbn [length]. lia.
Qed.

Lemma encode_len s : (length s <= length (encode s) <= 4 * length s)%nat.
Proof.
  induction s as [|c s IH]; [cbn; lia|]. cbn [encode flat_map length]. fold (encode s). rewrite app_length.
  assert (1 <= length (utf8 c) <= 4)%nat by (unfold utf8; repeat destruct (_ <? _); cbn; lia). lia.
Qed.

(* ========================================================================== *)
(* 10. Fuel: [S (length choices)] is enough, the model never runs out         *)
(* ========================================================================== *)
Lemma draw_len cs : (length (snd (draw cs)) <= length cs)%nat /\
  (cs <> [] -> length (snd (draw cs)) < length cs)%nat.
Proof. destruct cs; cbn; split; try lia; congruence. Qed.
Lemma rbool_len a b cs : (length (snd (rbool a b cs)) <= length cs)%nat.
Proof. unfold rbool. pose proof (draw_len cs). destruct (draw cs). cbn [snd] in *. lia. Qed.
Lemma rbool_lt a b cs : cs <> [] -> (length (snd (rbool a b cs)) < length cs)%nat.
Proof. intros H. unfold rbool. pose proof (proj2 (draw_len cs) H). destruct (draw cs). cbn [snd] in *. lia. Qed.
Lemma rrange_len a b cs : (length (snd (rrange a b cs)) <= length cs)%nat.
Proof. unfold rrange. pose proof (draw_len cs). destruct (draw cs). cbn [snd] in *. lia. Qed.
Lemma random_scalar_len cs : (length (snd (random_scalar cs)) <= length cs)%nat.
Proof. unfold random_scalar. pose proof (draw_len cs). destruct (draw cs). cbn [snd] in *. lia. Qed.
Lemma sample_len {A} (d : A) t cs : (length (snd (sample d t cs)) <= length cs)%nat /\
  (cs <> [] -> length (snd (sample d t cs)) < length cs)%nat.
Proof. unfold sample. pose proof (draw_len cs). destruct (draw cs). cbn [snd] in *. exact H. Qed.

Ltac len_step :=
  match goal with
  | |- context [rbool ?a ?b ?cs] =>
      let H := fresh "Hlen" in pose proof (rbool_len a b cs) as H; destruct (rbool a b cs) as [? ?]; cbn [snd fst] in *
  | |- context [rrange ?a ?b ?cs] =>
      let H := fresh "Hlen" in pose proof (rrange_len a b cs) as H; destruct (rrange a b cs) as [? ?]; cbn [snd fst] in *
  | |- context [random_scalar ?cs] =>
      let H := fresh "Hlen" in pose proof (random_scalar_len cs) as H; destruct (random_scalar cs) as [? ?]; cbn [snd fst] in *
  | |- context [sample ?d ?t ?cs] =>
      let H := fresh "Hlen" in pose proof (proj1 (sample_len d t cs)) as H; destruct (sample d t cs) as [? ?]; cbn [snd fst] in *
  | |- context [if ?b then _ else _] => destruct b
  end.
Ltac len_tac := repeat len_step; cbn [snd fst] in *; try lia.

Lemma random_uint_len cs : (length (snd (random_uint cs)) <= length cs)%nat.
Proof. unfold random_uint. len_tac. Qed.
Lemma random_char_len cs : (length (snd (random_char cs)) <= length cs)%nat.
Proof. unfold random_char. len_tac. Qed.

Lemma ident_loop_len : forall n first cs, (length (snd (ident_loop n first cs)) <= length cs)%nat.
Proof.
  induction n as [|n IH]; intros first cs; [cbn; lia|]. cbn [ident_loop].
  destruct first.
  - len_tac; match goal with |- context [ident_loop n false ?c] =>
      pose proof (IH false c); destruct (ident_loop n false c); cbn [snd] in *; lia end.
  - len_tac; match goal with |- context [ident_loop n false ?c] =>
      pose proof (IH false c); destruct (ident_loop n false c); cbn [snd] in *; lia end.
Qed.

Lemma random_identifier_len cs : (length (snd (random_identifier cs)) <= length cs)%nat.
Proof.
  unfold random_identifier. len_step.
  match goal with |- context [ident_loop ?n true ?c] => pose proof (ident_loop_len n true c) end. lia.
Qed.

Lemma string_body_len : forall n cs, (length (snd (string_body_ops n cs)) <= length cs)%nat.
Proof.
  induction n as [|n IH]; intros cs; [cbn; lia|]. cbn [string_body_ops].
  repeat first
    [ len_step
    | match goal with |- context [random_char ?c] =>
        let H := fresh "Hlen" in pose proof (random_char_len c) as H; destruct (random_char c) as [? ?]; cbn [snd fst] in * end
    | match goal with |- context [string_body_ops n ?c] =>
        let H := fresh "Hlen" in pose proof (IH c) as H; destruct (string_body_ops n c) as [? ?]; cbn [snd fst] in * end ];
  lia.
Qed.

Lemma comment_chars_len : forall n cs, (length (snd (comment_chars n cs)) <= length cs)%nat.
Proof.
  induction n as [|n IH]; intros cs; [cbn; lia|]. cbn [comment_chars].
  pose proof (random_char_len cs) as Hc. destruct (random_char cs) as [c r]. cbn [snd] in Hc.
  pose proof (IH r). destruct (comment_chars n r). cbn [snd] in *. lia.
Qed.

Lemma comment_ops_len cs : (length (snd (comment_ops cs)) <= length cs)%nat.
Proof.
  unfold comment_ops. len_step. len_step.
  match goal with |- context [comment_chars ?n ?c] =>
    pose proof (comment_chars_len n c); destruct (comment_chars n c); cbn [snd] in *; lia end.
Qed.

Lemma whitespace_ops_len last cs : (length (snd (whitespace_ops last cs)) <= length cs)%nat.
Proof. unfold whitespace_ops. destruct last as [l|]; [|cbn; lia]. destruct (l =? 10); len_tac. Qed.

Lemma token_ops_len k cs : (length (snd (token_ops k cs)) <= length cs)%nat.
Proof.
  destruct k; cbn [token_ops snd]; try lia.
  - len_tac.
  - pose proof (random_identifier_len cs). destruct (random_identifier cs). cbn [snd] in *. lia.
  - pose proof (random_identifier_len cs). destruct (random_identifier cs). cbn [snd] in *. lia.
  - pose proof (random_uint_len cs). destruct (random_uint cs). cbn [snd] in *. lia.
  - pose proof (random_uint_len cs). destruct (random_uint cs) as [v c1]. cbn [snd] in *.
    unfold bit_integer_text. len_tac.
  - pose proof (random_uint_len cs). destruct (random_uint cs) as [v c1]. cbn [snd] in *.
    unfold suffixed_integer_text, bit_integer_text. len_tac.
  - unfold char_literal_ops. len_tac.
  - len_tac.
  - unfold string_literal_ops. len_step.
    match goal with |- context [string_body_ops ?n ?c] =>
      pose proof (string_body_len n c); destruct (string_body_ops n c); cbn [snd] in *; lia end.
Qed.

Lemma push_token_len k last cs : (length (snd (push_token k last cs)) <= length cs)%nat.
Proof. unfold push_token. pose proof (token_ops_len k cs). destruct (token_ops k cs). cbn [snd] in *. lia. Qed.

(* the inner loops: two units of fuel more than there are choices are enough *)
Lemma newline_loop_fuel : forall fuel st cs, (length cs + 2 <= fuel)%nat ->
  foof (fst (newline_loop fuel st cs)) = foof st /\
  (length (snd (newline_loop fuel st cs)) <= length cs)%nat.
Proof.
  induction fuel as [|f IH]; intros st cs Hf; [lia|]. cbn [newline_loop].
  destruct (nl_at st <? blen (fbuf st)); [|cbn; split; [reflexivity|lia]].
  destruct cs as [|c cs].
  - (* no choices left: every draw is 0, the loop updates its mark and exits *)
    cbn [rbool rrange draw]. change (0 mod 5 <? 4) with true. cbn iota.
    destruct f as [|f]; [lia|]. cbn [newline_loop nl_at fbuf blen].
    set (b := apply_ops _ (fbuf st)). change (10 + 0 mod (80 - 10)) with 10.
    destruct (N.ltb_spec (blen b + 10) (blen b)) as [Hc|_]; [lia|].
    cbn. split; [reflexivity|lia].
  - pose proof (rbool_lt 1 20 (c :: cs) ltac:(discriminate)) as Hd.
    destruct (rbool 1 20 (c :: cs)) as [cr cs1]. cbn [snd] in Hd. cbn [length] in *.
    len_step. destruct b.
    + len_step. match goal with |- context [newline_loop f ?s ?c] => destruct (IH s c ltac:(lia)) as [H1 H2] end.
      rewrite H1. cbn [foof]. split; [reflexivity|lia].
    + match goal with |- context [newline_loop f ?s ?c] => destruct (IH s c ltac:(lia)) as [H1 H2] end.
      rewrite H1. cbn [foof]. split; [reflexivity|lia].
Qed.

Lemma comment_loop_fuel : forall fuel st cs, (length cs + 2 <= fuel)%nat ->
  foof (fst (comment_loop fuel st cs)) = foof st /\
  (length (snd (comment_loop fuel st cs)) <= length cs)%nat.
Proof.
  induction fuel as [|f IH]; intros st cs Hf; [lia|]. cbn [comment_loop].
  destruct (cm_at st <? blen (fbuf st)); [|cbn; split; [reflexivity|lia]].
  destruct cs as [|c cs].
  - change (comment_ops []) with ([OChar 10; OStr [47; 47]; OChar 10], @nil choice).
    cbn [rbool rrange draw]. change (0 mod 10 <? 9) with true. cbn iota.
    destruct f as [|f]; [lia|]. cbn [comment_loop cm_at fbuf blen].
    set (b := apply_ops _ (fbuf st)). change (200 + 0 mod (500 - 200)) with 200.
    destruct (N.ltb_spec (blen b + 200) (blen b)) as [Hc|_]; [lia|].
    cbn. split; [reflexivity|lia].
  - assert (Hd : (length (snd (comment_ops (c :: cs))) < length (c :: cs))%nat).
    { unfold comment_ops. pose proof (rbool_lt 4 5 (c :: cs) ltac:(discriminate)) as Hd.
      destruct (rbool 4 5 (c :: cs)) as [nl cs1]. cbn [snd] in Hd. len_step.
      match goal with |- context [comment_chars ?n ?c] =>
        pose proof (comment_chars_len n c); destruct (comment_chars n c); cbn [snd] in *; lia end. }
    destruct (comment_ops (c :: cs)) as [ops cs1]. cbn [snd length] in *.
    len_step. destruct b.
    + len_step. match goal with |- context [comment_loop f ?s ?c] => destruct (IH s c ltac:(lia)) as [H1 H2] end.
      rewrite H1. cbn [foof]. split; [reflexivity|lia].
    + match goal with |- context [comment_loop f ?s ?c] => destruct (IH s c ltac:(lia)) as [H1 H2] end.
      rewrite H1. cbn [foof]. split; [reflexivity|lia].
Qed.

Lemma iteration_fuel fuel st c cs : (length (c :: cs) + 2 <= fuel)%nat ->
  foof (fst (iteration fuel st (c :: cs))) = foof st /\
  (length (snd (iteration fuel st (c :: cs))) < length (c :: cs))%nat.
Proof.
  intros Hf. unfold iteration.
  destruct (newline_loop_fuel fuel st (c :: cs) Hf) as [H1 L1].
  destruct (newline_loop fuel st (c :: cs)) as [st1 cs1]. cbn [fst snd] in *.
  destruct (comment_loop_fuel fuel st1 cs1 ltac:(lia)) as [H2 L2].
  destruct (comment_loop fuel st1 cs1) as [st2 cs2]. cbn [fst snd] in *.
  pose proof (whitespace_ops_len (last_byte (fbuf st2)) cs2) as L3.
  destruct (whitespace_ops (last_byte (fbuf st2)) cs2) as [ws cs3]. cbn [snd] in L3.
  pose proof (sample_len TEndOfSource token_table cs3) as [L4 L4'].
  destruct (sample TEndOfSource token_table cs3) as [k cs4]. cbn [snd] in L4, L4'.
  match goal with |- context [push_token k ?l cs4] =>
    pose proof (push_token_len k l cs4) as L5; destruct (push_token k l cs4) as [ops cs5] end.
  cbn [fst snd foof] in *. split; [congruence|].
  (* the token draw is the one that is certainly consumed, unless nothing is left *)
  destruct cs3 as [|c3 cs3']; [|specialize (L4' ltac:(discriminate)); lia].
  cbn [length] in *. lia.
Qed.

Lemma emit_loop_fuel pct : forall fuel st cs, (length cs + 2 <= fuel)%nat ->
  fst (emit_loop fuel pct st cs) <> OutOfFuel /\ foof (snd (emit_loop fuel pct st cs)) = foof st.
Proof.
  induction fuel as [|f IH]; intros st cs Hf; [lia|]. cbn [emit_loop].
  destruct (100 * blen (fbuf st) <? pct * bcap (fbuf st)); [|cbn; split; [discriminate|reflexivity]].
  destruct cs as [|c cs]; [cbn; split; [discriminate|reflexivity]|].
  destruct (iteration_fuel (S f) st c cs Hf) as [H1 L1].
  destruct (iteration (S f) st (c :: cs)) as [st' cs']. cbn [fst snd] in *.
  destruct (IH st' cs' ltac:(cbn [length] in *; lia)) as [H2 H3]. split; [exact H2|congruence].
Qed.

(* do_fuzzing never runs out of fuel in the model *)
Theorem fuzz_tokens_fuel cs kb : fst (fuzz_tokens cs kb) <> OutOfFuel.
Proof.
  unfold fuzz_tokens. cbn [fst]. unfold emit_run.
  pose proof (rrange_len 10 80 cs) as L1. destruct (rrange 10 80 cs) as [n1 cs1] eqn:E1. cbn [snd] in L1.
  pose proof (rrange_len 200 500 cs1) as L2. destruct (rrange 200 500 cs1) as [n2 cs2] eqn:E2. cbn [snd] in L2.
  change (95 <? 100) with true. cbn iota.
  set (st0 := {| fbuf := empty_buf (kb * 1096); nl_at := n1; cm_at := n2; foof := false |}).
  destruct cs2 as [|c2 cs2'].
  - (* all choices were used up by the two initial draws *)
    destruct (length cs) as [|m] eqn:El; cbn [emit_loop].
    + destruct (_ <? _); cbn; discriminate.
    + destruct (_ <? _); cbn; discriminate.
  - assert (Hlen : (length (c2 :: cs2') + 2 <= S (length cs))%nat).
    { (* both initial draws consumed a choice *)
      destruct cs as [|a [|a' cs']]; cbn in E1; inversion E1; subst; cbn in E2; inversion E2; subst; cbn [length] in *; try lia;
        discriminate. }
    destruct (emit_loop_fuel 95 (S (length cs)) st0 (c2 :: cs2') Hlen) as [H1 H2].
    destruct (emit_loop (S (length cs)) 95 st0 (c2 :: cs2')) as [s st]. cbn [fst snd] in *.
    rewrite H2. cbn [foof st0]. exact H1.
Qed.

Lemma emit_loop_status pct : forall fuel st cs, fst (emit_loop fuel pct st cs) <> AssertFailed.
Proof.
  induction fuel as [|f IH]; intros st cs; [discriminate|]. cbn [emit_loop].
  destruct (_ <? _); [|discriminate]. destruct cs as [|c cs]; [discriminate|].
  destruct (iteration (S f) st (c :: cs)) as [st' cs']. apply IH.
Qed.

(* with enough choices the run finishes; otherwise it reports that the choices ran out *)
Theorem fuzz_tokens_status cs kb :
  fst (fuzz_tokens cs kb) = Finished \/ fst (fuzz_tokens cs kb) = OutOfChoices.
Proof.
  pose proof (fuzz_tokens_fuel cs kb) as Hf.
  assert (Ha : fst (fuzz_tokens cs kb) <> AssertFailed).
  { unfold fuzz_tokens, emit_run. cbn [fst]. destruct (rrange 10 80 cs) as [n1 cs1]. destruct (rrange 200 500 cs1) as [n2 cs2].
    change (95 <? 100) with true. cbn iota.
    pose proof (emit_loop_status 95 (S (length cs))
                  {| fbuf := empty_buf (kb * 1096); nl_at := n1; cm_at := n2; foof := false |} cs2) as H.
    destruct (emit_loop _ _ _ _) as [s st]. cbn [fst] in *. destruct (foof st); [discriminate|exact H]. }
  destruct (fst (fuzz_tokens cs kb)); auto; congruence.
Qed.
