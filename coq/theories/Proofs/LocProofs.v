(* Proofs about Model/Loc.v: diagnostic locations stay anchored in the source (C13).

   1. positions: take / count_lf / tail_len / line_at / col_at
   2. anchored (the specification), anchored_lex (what string-error tokens satisfy)
   3. the lexer: lexer_locations_anchored_lex, lexer_locations_anchored_ok,
      lexer_locations_classified, lexer_locations_anchored_refuted
   4. combined_with: anchored, covers, comm, trees; the pinned code refuted
   5. ordering: key order = position order; the stable sort; determinism *)
From Coq Require Import String Permutation Sorted.
From PV Require Import Base.Common Base.IR Base.Tok Model.LexAlpha Proofs.LexAlphaProofs Model.Loc.

Local Open Scope N_scope.

(* ================================================================== *)
(* 1. Positions *)

Lemma slen_len cs : slen cs = len cs.
Proof. reflexivity. Qed.

Lemma count_lf_count_nl s : count_lf s = count_nl s.
Proof. reflexivity. Qed.

Lemma take_nil k : take k [] = [].
Proof. reflexivity. Qed.

Lemma take_0 cs : take 0 cs = [].
Proof. destruct cs; reflexivity. Qed.

Lemma take_cons k c r : k <> 0 -> take k (c :: r) = c :: take (N.pred k) r.
Proof. intros H. cbn [take]. apply N.eqb_neq in H. now rewrite H. Qed.

Lemma take_app_len A B : take (len A) (A ++ B) = A.
Proof.
  induction A as [|c A IH]; [apply take_0|].
  cbn [app]. rewrite take_cons by (rewrite len_cons; lia).
  rewrite len_cons. replace (N.pred (1 + len A)) with (len A) by lia. now rewrite IH.
Qed.

Lemma take_all cs k : len cs <= k -> take k cs = cs.
Proof.
  revert k. induction cs as [|c r IH]; intros k H; [reflexivity|].
  rewrite len_cons in H. rewrite take_cons by lia. rewrite IH; [reflexivity|lia].
Qed.

Lemma take_prefix cs : forall k1 k2, k1 <= k2 -> exists mid, take k2 cs = take k1 cs ++ mid.
Proof.
  induction cs as [|c r IH]; intros k1 k2 H; [exists []; reflexivity|].
  destruct (N.eq_dec k1 0) as [->|H1].
  - rewrite take_0. eexists. reflexivity.
  - rewrite !take_cons by lia. destruct (IH (N.pred k1) (N.pred k2)) as [mid Hm]; [lia|].
    exists mid. now rewrite Hm.
Qed.

Lemma len_take_le cs : forall k, len (take k cs) <= k.
Proof.
  induction cs as [|c r IH]; intros k; [cbn; lia|].
  destruct (N.eq_dec k 0) as [->|H1]; [rewrite take_0; cbn; lia|].
  rewrite take_cons by lia. rewrite len_cons. specialize (IH (N.pred k)). lia.
Qed.

Lemma len_take_src cs : forall k, len (take k cs) <= len cs.
Proof.
  induction cs as [|c r IH]; intros k; [cbn; lia|].
  destruct (N.eq_dec k 0) as [->|H1]; [rewrite take_0; cbn; lia|].
  rewrite take_cons by lia. rewrite !len_cons. specialize (IH (N.pred k)). lia.
Qed.

Lemma tail_len_go_app a b acc : tail_len_go (a ++ b) acc = tail_len_go b (tail_len_go a acc).
Proof. revert acc. induction a as [|c a IH]; intros acc; [reflexivity|]. cbn [app tail_len_go]. apply IH. Qed.

Lemma tail_len_go_free l acc : ~ In 10 l -> tail_len_go l acc = acc + len l.
Proof.
  revert acc. induction l as [|c l IH]; intros acc H; [cbn; lia|].
  cbn [tail_len_go]. destruct (c =? 10) eqn:E.
  - apply N.eqb_eq in E. subst. exfalso. apply H. now left.
  - rewrite IH by (intros H'; apply H; now right). rewrite len_cons. lia.
Qed.

Lemma tail_len_go_le p : forall acc, tail_len_go p acc <= acc + len p.
Proof.
  induction p as [|c p IH]; intros acc; [cbn; lia|].
  cbn [tail_len_go]. rewrite len_cons. destruct (c =? 10).
  - specialize (IH 0). lia.
  - specialize (IH (acc + 1)). lia.
Qed.

Lemma tail_len_le p : tail_len p <= len p.
Proof. unfold tail_len. pose proof (tail_len_go_le p 0). lia. Qed.

Lemma tail_len_lines A0 A1 : ends_lines A0 -> ~ In 10 A1 -> tail_len (A0 ++ A1) = len A1.
Proof.
  intros [->|[b ->]] H; unfold tail_len.
  - cbn [app]. rewrite tail_len_go_free by assumption. lia.
  - rewrite !tail_len_go_app. cbn [tail_len_go]. change (10 =? 10) with true. cbv iota.
    rewrite tail_len_go_free by assumption. lia.
Qed.

Lemma count_nl_zero_free l : count_nl l = 0 -> ~ In 10 l.
Proof.
  unfold count_nl. induction l as [|c l IH]; intros H; [intros []|].
  cbn [filter] in H. destruct (10 =? c) eqn:E.
  - rewrite len_cons in H. lia.
  - apply N.eqb_neq in E. intros [H'|H']; [congruence|now apply IH].
Qed.

Lemma line_start_le src k : line_start src k <= k.
Proof. unfold line_start. change slen with len. pose proof (len_take_le src k). lia. Qed.

(* Walking forward never decreases the line; while the line stays the same the
   line start stays the same, so the column grows with the offset. *)
Lemma line_at_mono src k1 k2 : k1 <= k2 -> line_at src k1 <= line_at src k2.
Proof.
  intros H. unfold line_at. destruct (take_prefix src k1 k2 H) as [mid Hm].
  rewrite Hm, !count_lf_count_nl, count_nl_app. lia.
Qed.

Lemma same_line_same_start src k1 k2 :
  k1 <= k2 -> line_at src k1 = line_at src k2 -> line_start src k1 = line_start src k2.
Proof.
  intros H Hl. unfold line_at in Hl. unfold line_start.
  destruct (take_prefix src k1 k2 H) as [mid Hm].
  rewrite Hm, !count_lf_count_nl, count_nl_app in Hl.
  assert (Hfree : ~ In 10 mid) by (apply count_nl_zero_free; lia).
  rewrite Hm. change slen with len. rewrite len_app. unfold tail_len. rewrite tail_len_go_app, (tail_len_go_free mid) by assumption.
  pose proof (tail_len_le (take k1 src)) as Ht. unfold tail_len in Ht. lia.
Qed.

Lemma position_order src k1 k2 : k1 < k2 ->
  line_at src k1 < line_at src k2 \/
  (line_at src k1 = line_at src k2 /\ col_at src k1 < col_at src k2).
Proof.
  intros H. pose proof (line_at_mono src k1 k2 ltac:(lia)) as Hm.
  destruct (N.eq_dec (line_at src k1) (line_at src k2)) as [E|E]; [right|left; lia].
  split; [exact E|]. unfold col_at.
  rewrite <- (same_line_same_start src k1 k2) by (try lia; exact E).
  pose proof (line_start_le src k1). lia.
Qed.

(* The offset [len A0 + k] lies on the line [L] that follows the complete lines [A0]. *)
Lemma pos_in_line A0 L after k :
  ends_lines A0 -> ~ In 10 L -> k <= len L ->
  line_at (A0 ++ L ++ after) (len A0 + k) = 1 + count_nl A0 /\
  col_at (A0 ++ L ++ after) (len A0 + k) = k.
Proof.
  intros HA HL Hk.
  set (L1 := firstn (N.to_nat k) L). set (L2 := skipn (N.to_nat k) L).
  assert (HL12 : L = L1 ++ L2) by (symmetry; apply firstn_skipn).
  assert (Hlen1 : len L1 = k).
  { unfold L1, len. rewrite firstn_length_le; [lia|]. unfold len in Hk. lia. }
  assert (Hfree1 : ~ In 10 L1) by (intros H; apply HL; rewrite HL12; apply in_or_app; now left).
  assert (Htake : take (len A0 + k) (A0 ++ L ++ after) = A0 ++ L1).
  { replace (A0 ++ L ++ after) with ((A0 ++ L1) ++ (L2 ++ after))
      by (rewrite HL12, <- !app_assoc; reflexivity).
    replace (len A0 + k) with (len (A0 ++ L1)) by (rewrite len_app; lia).
    apply take_app_len. }
  split.
  - unfold line_at. rewrite Htake, count_lf_count_nl, count_nl_app, (count_nl_free L1 Hfree1). lia.
  - unfold col_at, line_start. rewrite Htake. change slen with len. rewrite len_app.
    rewrite (tail_len_lines A0 L1 HA Hfree1). lia.
Qed.

(* ================================================================== *)
(* 2. The specification *)

(* The location points into [src]: its span is a range of offsets of [src]
   (errors at the end of the last line may extend one past the end), its line is
   the line of its first character and its line_offset is the column of its
   first character. *)
Definition anchored (src : list N) (l : loc) : Prop :=
  l_start l <= l_end l /\ l_end l <= len src + 1 /\
  l_line l = line_at src (l_start l) /\ l_offset l = col_at src (l_start l).

(* What EVERY location made by the lexer satisfies: the reported column lies
   between the column of the first and of the last character position of the
   span (errors inside quoted literals report a later column, see section 3). *)
Definition anchored_lex (src : list N) (l : loc) : Prop :=
  l_start l <= l_end l /\ l_end l <= len src + 1 /\
  l_line l = line_at src (l_start l) /\
  col_at src (l_start l) <= l_offset l <= col_at src (l_start l) + (l_end l - l_start l).

Lemma anchored_is_lex src l : anchored src l -> anchored_lex src l.
Proof. intros (H1 & H2 & H3 & H4). repeat split; try assumption; lia. Qed.

Lemma anchoredb_spec src l : anchoredb src l = true <-> anchored src l.
Proof.
  unfold anchoredb, anchored. change slen with len. rewrite !andb_true_iff, !N.leb_le, !N.eqb_eq. tauto.
Qed.

Lemma anchored_lexb_spec src l : anchored_lexb src l = true <-> anchored_lex src l.
Proof.
  unfold anchored_lexb, anchored_lex. change slen with len. rewrite !andb_true_iff, !N.leb_le, !N.eqb_eq. tauto.
Qed.

(* ================================================================== *)
(* 3. The lexer *)

Lemma lex_step_quote x rest : x = 34 \/ x = 39 -> lex_step x rest = lex_quote x rest.
Proof. intros [->| ->]; reflexivity. Qed.

(* The error recorded in first_error_token: its line_offset [eo] (relative to
   the opening quote) is one more than the start [es] of its span, except for
   MissingClosingQuote whose span starts at the quote and whose line_offset is
   end_of_line_offset; in every case it lies inside the span. *)
Lemma lex_quote_err_offset q rest c es ee eo n m r :
  lex_quote q rest = StStrErr c es ee eo n m r ->
  es + 1 <= eo <= ee /\ (eo = es + 1 \/ (c = E160 /\ es = 0)).
Proof.
  unfold lex_quote.
  pose proof (str_loop_wf (length rest) q 1 1 rest (le_n _)) as Hwf.
  set (res := str_loop (length rest) q 1 1 rest) in *.
  destruct Hwf as (u & Hu & Hc & Hsoe & Heolo & Herr & Hcl).
  destruct (sr_err res) as [[[[c0 es0] ee0] eo0]|] eqn:Ee.
  - intros H. injection H as -> -> -> -> _ _ _.
    destruct (Herr _ _ _ _ eq_refl) as (H1 & H2 & H3 & H4 & H5 & H6). lia.
  - destruct Hsoe as [Hsoe|(_ & _ & _ & Hne)]; [|congruence].
    destruct (sr_closed res) eqn:Ecl.
    + destruct (q =? 34); [discriminate|].
      destruct (sr_bytes res) as [|b [|b' bs]]; discriminate.
    + intros H. injection H as <- <- <- <- _ _ _. split; [lia|]. right. split; reflexivity.
Qed.

Lemma lex_step_err_offset x rest c es ee eo n m r :
  lex_step x rest = StStrErr c es ee eo n m r ->
  es + 1 <= eo <= ee /\ (eo = es + 1 \/ (c = E160 /\ es = 0)).
Proof.
  intros H. pose proof (strerr_is_quote _ _ _ _ _ _ _ _ _ H) as Hq.
  rewrite (lex_step_quote x rest Hq) in H. eapply lex_quote_err_offset; exact H.
Qed.

(* Where a token of the repaired lexer lies: on the line [L] that follows the
   complete lines [A0], at column [k]. *)
Lemma tok_anchor src t :
  src <> [] -> In t (lex_alpha_fixed src) ->
  exists A0 L after k,
    src = A0 ++ L ++ after /\ ends_lines A0 /\ ~ In 10 L /\ k <= len L /\
    tstart t = len A0 + k /\ line t = 1 + count_nl A0 /\
    tstart t < tend t /\ tend t <= len src + 1 /\
    ((lstart t = k /\ tend t <= len src) \/
     (kind t = KError /\ k + 1 <= lstart t <= k + (tend t - tstart t) /\
      (lstart t = k + 1 \/ (value t = E160 /\ lstart t <= len L)))).
Proof.
  intros Hne Hin.
  destruct (span_exact_fixed src t Hne Hin) as (before & l & after & Hsrc & Hb & Ha & Hnl & Hat).
  destruct Hat as (pre & used & post & Hl & Hu & Hoof & Hstep).
  assert (Hlu : 1 <= len used).
  { destruct used; [congruence|rewrite len_cons; lia]. }
  assert (Hls : len src = len before + (len pre + (len used + len post)) + len after).
  { rewrite Hsrc, Hl, !len_app. lia. }
  assert (Hll : len l = len pre + (len used + len post)) by (rewrite Hl, !len_app; lia).
  destruct (lex_step (hd 0 used) (tl used ++ post)) as [| |k v ty bs n r|c es ee eo n m r] eqn:E;
    try contradiction.
  - destruct Hstep as (-> & -> & ->).
    exists before, l, after, (len pre). cbn [tstart tend line lstart kind value mk].
    repeat (split; [first [assumption|lia]|]). left. split; [reflexivity|lia].
  - destruct Hstep as (-> & -> & -> & H1 & H2 & H3).
    destruct (lex_step_err_offset _ _ _ _ _ _ _ _ _ E) as (H4 & H5).
    exists before, l, after, (len pre + es). cbn [tstart tend line lstart kind value mk].
    repeat (split; [first [assumption|lia]|]). right. split; [reflexivity|]. split; [lia|].
    destruct H5 as [H5|(H5 & H6)]; [left; lia|right]. split; [exact H5|lia].
Qed.

(* 3a. Every location of the lexer is anchored in the weak sense. *)
Theorem lexer_locations_anchored_lex src t :
  src <> [] -> In t (lex_alpha_fixed src) -> anchored_lex src (loc_of_tok t).
Proof.
  intros Hne Hin.
  destruct (tok_anchor src t Hne Hin) as (A0 & L & after & k & Hsrc & HA & HL & Hk & Hs & Hln & Hse & He & Hoff).
  destruct (pos_in_line A0 L after k HA HL Hk) as (Hline & Hcol).
  unfold anchored_lex, loc_of_tok. cbn [l_start l_end l_line l_offset].
  rewrite <- Hsrc, <- Hs in Hline, Hcol. rewrite Hline, Hcol.
  split; [lia|]. split; [exact He|]. split; [exact Hln|].
  destruct Hoff as [(Ho & _)|(_ & Ho & _)]; lia.
Qed.

(* 3a'. Every token that is not an error inside a quoted literal (in
   particular every valid token) is anchored exactly, and does not extend past
   the end of the source. *)
Theorem lexer_locations_classified src t :
  src <> [] -> In t (lex_alpha_fixed src) ->
  (anchored src (loc_of_tok t) /\ tend t <= len src) \/
  (kind t = KError /\ anchored_lex src (loc_of_tok t) /\
   (lstart t = col_at src (tstart t) + 1 \/
    (value t = E160 /\ col_at src (tstart t) + 1 <= lstart t))).
Proof.
  intros Hne Hin. pose proof (lexer_locations_anchored_lex src t Hne Hin) as Hlex.
  destruct (tok_anchor src t Hne Hin) as (A0 & L & after & k & Hsrc & HA & HL & Hk & Hs & Hln & Hse & He & Hoff).
  destruct (pos_in_line A0 L after k HA HL Hk) as (Hline & Hcol).
  rewrite <- Hsrc, <- Hs in Hline, Hcol.
  destruct Hoff as [(Ho & He')|(Hk' & Ho & Hd)].
  - left. split; [|exact He'].
    unfold anchored, loc_of_tok. cbn [l_start l_end l_line l_offset].
    rewrite Hline, Hcol. repeat split; try assumption; lia.
  - right. split; [exact Hk'|]. split; [exact Hlex|]. rewrite Hcol.
    destruct Hd as [Hd|(Hd & _)]; [left; exact Hd|right; split; [exact Hd|lia]].
Qed.

Theorem lexer_locations_anchored_ok src t :
  src <> [] -> In t (lex_alpha_fixed src) -> kind t <> KError -> anchored src (loc_of_tok t).
Proof.
  intros Hne Hin Hk. destruct (lexer_locations_classified src t Hne Hin) as [(H & _)|(H & _)];
    [exact H|contradiction].
Qed.

(* The natural statement (exact anchoring of EVERY token) is false: the
   line_offset of an error inside a quoted literal is end_of_line_offset =
   inner_line_offset + 1, one more than the column where its span starts.
   Source: the four characters  quote backslash q quote  (an invalid escape). *)
Theorem lexer_locations_anchored_refuted :
  exists src t, src <> [] /\ In t (lex_alpha_fixed src) /\ ~ anchored src (loc_of_tok t).
Proof.
  exists [34; 92; 113; 34], (mk KError E162 None [] 1 3 1 2).
  split; [discriminate|]. split; [vm_compute; now left|].
  rewrite <- anchoredb_spec. vm_compute. discriminate.
Qed.

(* Why [src <> []]: the placeholder of the zero-byte file has span 0..0 and
   line_offset 1 (lexer.rs 168-180), which is not anchored even in the weak form. *)
Example zero_byte_location_not_anchored :
  lex_alpha_fixed [] = [zero_byte_tok] /\ anchored_lexb [] (loc_of_tok zero_byte_tok) = false.
Proof. vm_compute. split; reflexivity. Qed.

(* MissingClosingQuote: the span starts at the opening quote, the reported
   column is the end of the line.  Source: x, blank, quote, abc. *)
Example missing_quote_location :
  map loc_of_tok (lex_alpha_fixed [120; 32; 34; 97; 98; 99]) =
    [ {| l_start := 0; l_end := 1; l_line := 1; l_offset := 0 |};
      {| l_start := 2; l_end := 6; l_line := 1; l_offset := 6 |} ].
Proof. vm_compute. reflexivity. Qed.

(* A backslash at the very end of the last line: the span ends one past the source. *)
Example trailing_backslash_location :
  map loc_of_tok (lex_alpha_fixed [34; 97; 92]) =
    [ {| l_start := 2; l_end := 4; l_line := 1; l_offset := 3 |} ] /\ len [34; 97; 92] = 3.
Proof. vm_compute. split; reflexivity. Qed.

(* Non-trivial satisfiability: CRLF, bare CR, several lines. *)
Example anchored_example :
  let src := str "ab"%string ++ [13; 10] ++ str "c = ""x\q"" + d"%string ++ [10; 13] ++ str "e"%string in
  map (anchoredb src) (map loc_of_tok (lex_alpha_fixed src)) = [true; true; true; false; true; true; true; true] /\
  forallb (anchored_lexb src) (map loc_of_tok (lex_alpha_fixed src)) = true.
Proof. vm_compute. split; reflexivity. Qed.

(* ================================================================== *)
(* 4. combined_with *)

Lemma combined_with_cases a b :
  (l_start b < l_start a /\
   combined_with a b = {| l_start := l_start b; l_end := N.max (l_end a) (l_end b);
                          l_line := l_line b; l_offset := l_offset b |}) \/
  (l_start a <= l_start b /\
   combined_with a b = {| l_start := l_start a; l_end := N.max (l_end a) (l_end b);
                          l_line := l_line a; l_offset := l_offset a |}).
Proof.
  unfold combined_with. destruct (l_start b <? l_start a) eqn:E.
  - apply N.ltb_lt in E. left. split; [exact E|reflexivity].
  - apply N.ltb_ge in E. right. split; [exact E|reflexivity].
Qed.

(* The combined location covers exactly the hull of the two spans (no hypothesis). *)
Theorem combined_with_covers a b :
  l_start (combined_with a b) = N.min (l_start a) (l_start b) /\
  l_end (combined_with a b) = N.max (l_end a) (l_end b).
Proof.
  destruct (combined_with_cases a b) as [(H & ->)|(H & ->)]; cbn [l_start l_end]; lia.
Qed.

(* Its line fields are those of the argument that starts first (the receiver on a tie). *)
Theorem combined_with_fields a b :
  exists c, (c = a \/ c = b) /\
    l_start c = l_start (combined_with a b) /\
    l_line c = l_line (combined_with a b) /\ l_offset c = l_offset (combined_with a b).
Proof.
  destruct (combined_with_cases a b) as [(H & ->)|(H & ->)]; cbn [l_start l_line l_offset].
  - exists b. repeat split. now right.
  - exists a. repeat split. now left.
Qed.

Theorem combined_with_anchored src a b :
  anchored src a -> anchored src b -> anchored src (combined_with a b).
Proof.
  intros (A1 & A2 & A3 & A4) (B1 & B2 & B3 & B4). unfold anchored.
  destruct (combined_with_cases a b) as [(H & ->)|(H & ->)]; cbn [l_start l_end l_line l_offset];
    repeat split; try assumption; lia.
Qed.

(* The weak form is preserved too (the lexer's error locations reach
   combined_with through Tokens::last_location). *)
Theorem combined_with_anchored_lex src a b :
  anchored_lex src a -> anchored_lex src b -> anchored_lex src (combined_with a b).
Proof.
  intros (A1 & A2 & A3 & A4) (B1 & B2 & B3 & B4). unfold anchored_lex.
  destruct (combined_with_cases a b) as [(H & ->)|(H & ->)]; cbn [l_start l_end l_line l_offset];
    repeat split; try assumption; lia.
Qed.

(* Receiver and argument can be exchanged whenever the starts differ or the
   line fields agree; both hold for exactly anchored locations of one source. *)
Theorem combined_with_comm_gen a b :
  l_start a <> l_start b \/ (l_line a = l_line b /\ l_offset a = l_offset b) ->
  combined_with a b = combined_with b a.
Proof.
  intros H. unfold combined_with. rewrite (N.max_comm (l_end b) (l_end a)).
  destruct (l_start b <? l_start a) eqn:E1, (l_start a <? l_start b) eqn:E2;
    try apply N.ltb_lt in E1; try apply N.ltb_lt in E2;
    try apply N.ltb_ge in E1; try apply N.ltb_ge in E2; try reflexivity; try lia.
  destruct H as [H|(H1 & H2)]; [lia|].
  assert (Hs : l_start a = l_start b) by lia. now rewrite Hs, H1, H2.
Qed.

Theorem combined_with_comm src a b :
  anchored src a -> anchored src b -> combined_with a b = combined_with b a.
Proof.
  intros (A1 & A2 & A3 & A4) (B1 & B2 & B3 & B4). apply combined_with_comm_gen.
  destruct (N.eq_dec (l_start a) (l_start b)) as [E|E]; [right|now left].
  rewrite A3, A4, B3, B4, E. split; reflexivity.
Qed.

(* With the weak form only, the order matters on a tie of the starts: the
   MissingClosingQuote location of the source  quote a b  and an exact location
   at the same start. *)
Theorem combined_with_comm_lex_refuted :
  exists src a b, anchored_lex src a /\ anchored_lex src b /\
    In a (map loc_of_tok (lex_alpha_fixed src)) /\ anchored src b /\
    combined_with a b <> combined_with b a.
Proof.
  exists [34; 97; 98],
         {| l_start := 0; l_end := 3; l_line := 1; l_offset := 3 |},
         {| l_start := 0; l_end := 1; l_line := 1; l_offset := 0 |}.
  rewrite <- !anchored_lexb_spec, <- anchoredb_spec.
  split; [vm_compute; reflexivity|]. split; [vm_compute; reflexivity|].
  split; [vm_compute; now left|]. split; [vm_compute; reflexivity|].
  vm_compute. discriminate.
Qed.

(* ---- trees of combined_with *)

Inductive ltree :=
| Leaf (l : loc)
| Node (a b : ltree).           (* eval a .combined_with( eval b ) *)

Fixpoint eval (t : ltree) : loc :=
  match t with
  | Leaf l => l
  | Node a b => combined_with (eval a) (eval b)
  end.

Fixpoint leaves (t : ltree) : list loc :=
  match t with
  | Leaf l => [l]
  | Node a b => leaves a ++ leaves b
  end.

Theorem tree_anchored src t : Forall (anchored src) (leaves t) -> anchored src (eval t).
Proof.
  induction t as [l|a IHa b IHb]; cbn [leaves eval]; intros H.
  - now inversion H.
  - apply Forall_app in H. destruct H as [Ha Hb]. apply combined_with_anchored; auto.
Qed.

Theorem tree_anchored_lex src t : Forall (anchored_lex src) (leaves t) -> anchored_lex src (eval t).
Proof.
  induction t as [l|a IHa b IHb]; cbn [leaves eval]; intros H.
  - now inversion H.
  - apply Forall_app in H. destruct H as [Ha Hb]. apply combined_with_anchored_lex; auto.
Qed.

(* The hull: the result starts at the least start and ends at the greatest end
   of the leaves, both are attained, and the line fields are those of a leaf
   that starts there.  No hypothesis on the leaves. *)
Theorem tree_hull t :
  (forall l, In l (leaves t) -> l_start (eval t) <= l_start l /\ l_end l <= l_end (eval t)) /\
  (exists l, In l (leaves t) /\ l_start l = l_start (eval t) /\
             l_line l = l_line (eval t) /\ l_offset l = l_offset (eval t)) /\
  (exists l, In l (leaves t) /\ l_end l = l_end (eval t)).
Proof.
  induction t as [l|a IHa b IHb]; cbn [leaves eval].
  - split; [intros l' [<-|[]]; lia|]. split; exists l; repeat split; now left.
  - destruct IHa as (Ha1 & (la & Hla & Ha2 & Ha3 & Ha4) & (ea & Hea & Ha5)).
    destruct IHb as (Hb1 & (lb & Hlb & Hb2 & Hb3 & Hb4) & (eb & Heb & Hb5)).
    destruct (combined_with_covers (eval a) (eval b)) as (Hs & He).
    split; [|split].
    + intros l Hl. apply in_app_or in Hl. destruct Hl as [Hl|Hl].
      * destruct (Ha1 l Hl). lia.
      * destruct (Hb1 l Hl). lia.
    + destruct (combined_with_cases (eval a) (eval b)) as [(H & ->)|(H & ->)];
        cbn [l_start l_line l_offset].
      * exists lb. split; [apply in_or_app; now right|]. repeat split; assumption.
      * exists la. split; [apply in_or_app; now left|]. repeat split; assumption.
    + rewrite He. destruct (N.max_spec (l_end (eval a)) (l_end (eval b))) as [(_ & ->)|(_ & ->)].
      * exists eb. split; [apply in_or_app; now right|assumption].
      * exists ea. split; [apply in_or_app; now left|assumption].
Qed.

(* Two trees over the same set of exactly anchored leaves give the same
   location: shape, order and repetition of the combinations do not matter. *)
Theorem tree_canonical src t1 t2 :
  Forall (anchored src) (leaves t1) -> Forall (anchored src) (leaves t2) ->
  (forall l, In l (leaves t1) <-> In l (leaves t2)) ->
  eval t1 = eval t2.
Proof.
  intros F1 F2 Hsame.
  destruct (tree_anchored src t1 F1) as (_ & _ & L1 & O1).
  destruct (tree_anchored src t2 F2) as (_ & _ & L2 & O2).
  destruct (tree_hull t1) as (H1 & (s1 & Hs1 & Hs1' & _) & (e1 & He1 & He1')).
  destruct (tree_hull t2) as (H2 & (s2 & Hs2 & Hs2' & _) & (e2 & He2 & He2')).
  assert (Es : l_start (eval t1) = l_start (eval t2)).
  { apply Hsame in Hs1 as Hs1t. apply Hsame in Hs2 as Hs2t.
    destruct (H2 _ Hs1t). destruct (H1 _ Hs2t). lia. }
  assert (Ee : l_end (eval t1) = l_end (eval t2)).
  { apply Hsame in He1 as He1t. apply Hsame in He2 as He2t.
    destruct (H2 _ He1t). destruct (H1 _ He2t). lia. }
  destruct (eval t1) as [s e ln o], (eval t2) as [s' e' ln' o'].
  cbn [l_start l_end l_line l_offset] in *. subst ln o ln' o'. rewrite Es, Ee. reflexivity.
Qed.

Example tree_example :
  let src := [97; 10; 98; 32; 99] in
  let toks := map loc_of_tok (lex_alpha_fixed src) in
  let a := nth 0 toks (loc_of_tok zero_byte_tok) in
  let b := nth 1 toks (loc_of_tok zero_byte_tok) in
  let c := nth 2 toks (loc_of_tok zero_byte_tok) in
  forallb (anchoredb src) toks = true /\
  eval (Node (Leaf c) (Node (Leaf b) (Leaf a))) = {| l_start := 0; l_end := 5; l_line := 1; l_offset := 0 |} /\
  eval (Node (Node (Leaf a) (Leaf c)) (Leaf b)) = {| l_start := 0; l_end := 5; l_line := 1; l_offset := 0 |}.
Proof. vm_compute. repeat split; reflexivity. Qed.

(* ---- the pinned code (NOT the code) *)

(* Source: a LF b.  [b.combined_with(&a)] with the pinned code spans from
   offset 0 but reports line 2. *)
Theorem combined_with_pinned_refuted :
  exists src a b, anchored src a /\ anchored src b /\ ~ anchored src (combined_with_pinned a b).
Proof.
  exists [97; 10; 98],
         {| l_start := 2; l_end := 3; l_line := 2; l_offset := 0 |},
         {| l_start := 0; l_end := 1; l_line := 1; l_offset := 0 |}.
  rewrite <- !anchoredb_spec. repeat split; try (vm_compute; reflexivity).
  vm_compute. discriminate.
Qed.

(* the two locations of the witness are the two tokens of that source *)
Example combined_with_pinned_witness_real :
  map loc_of_tok (lex_alpha_fixed [97; 10; 98]) =
    [ {| l_start := 0; l_end := 1; l_line := 1; l_offset := 0 |};
      {| l_start := 2; l_end := 3; l_line := 2; l_offset := 0 |} ].
Proof. vm_compute. reflexivity. Qed.

Theorem combined_with_pinned_not_comm :
  exists src a b, anchored src a /\ anchored src b /\
    combined_with_pinned a b <> combined_with_pinned b a.
Proof.
  exists [97; 10; 98],
         {| l_start := 2; l_end := 3; l_line := 2; l_offset := 0 |},
         {| l_start := 0; l_end := 1; l_line := 1; l_offset := 0 |}.
  rewrite <- !anchoredb_spec. repeat split; try (vm_compute; reflexivity).
  vm_compute. discriminate.
Qed.

(* The pinned code was right exactly when the receiver started first. *)
Theorem combined_with_pinned_agrees a b :
  l_start a <= l_start b -> combined_with_pinned a b = combined_with a b.
Proof.
  intros H. unfold combined_with_pinned, combined_with.
  apply N.ltb_ge in H as H'. rewrite H'. now rewrite N.min_l by exact H.
Qed.

(* ================================================================== *)
(* 5. Ordering *)

Lemma key_leb_spec a b :
  key_leb a b = true <-> fst a < fst b \/ (fst a = fst b /\ snd a <= snd b).
Proof.
  unfold key_leb. rewrite orb_true_iff, andb_true_iff, N.ltb_lt, N.eqb_eq, N.leb_le. tauto.
Qed.

Lemma key_eqb_spec a b : key_eqb a b = true <-> a = b.
Proof.
  unfold key_eqb. rewrite andb_true_iff, !N.eqb_eq. destruct a, b; cbn [fst snd]. split.
  - intros (-> & ->). reflexivity.
  - intros H. injection H as -> ->. split; reflexivity.
Qed.

Lemma key_eqb_refl a : key_eqb a a = true.
Proof. now apply key_eqb_spec. Qed.

Lemma key_leb_refl a : key_leb a a = true.
Proof. apply key_leb_spec. right. split; [reflexivity|lia]. Qed.

Lemma key_leb_trans a b c : key_leb a b = true -> key_leb b c = true -> key_leb a c = true.
Proof. rewrite !key_leb_spec. lia. Qed.

Lemma key_leb_total a b : key_leb a b = true \/ key_leb b a = true.
Proof. rewrite !key_leb_spec. lia. Qed.

Lemma key_leb_antisym a b : key_leb a b = true -> key_leb b a = true -> a = b.
Proof.
  rewrite !key_leb_spec. destruct a, b; cbn [fst snd]. intros H1 H2.
  assert (n = n1) by lia. assert (n0 = n2) by lia. now subst.
Qed.

Lemma key_leb_false a b : key_leb a b = false -> key_leb b a = true /\ a <> b.
Proof.
  intros H. split.
  - destruct (key_leb_total a b) as [H'|H']; [congruence|exact H'].
  - intros ->. rewrite key_leb_refl in H. discriminate.
Qed.

(* 5a. For exactly anchored locations of one source the key order is the
   order of the start offsets, and equal keys mean equal starts. *)
Theorem key_order_is_position_order src a b :
  anchored src a -> anchored src b ->
  (key_leb (comparison_key a) (comparison_key b) = true <-> l_start a <= l_start b).
Proof.
  intros (_ & _ & A3 & A4) (_ & _ & B3 & B4).
  rewrite key_leb_spec. unfold comparison_key. cbn [fst snd]. rewrite A3, A4, B3, B4.
  destruct (N.lt_trichotomy (l_start a) (l_start b)) as [H|[H|H]].
  - pose proof (position_order src _ _ H). split; [lia|]. intros _. lia.
  - rewrite H. split; [lia|]. intros _. right. split; [reflexivity|lia].
  - pose proof (position_order src _ _ H). split; [lia|]. intros H'. lia.
Qed.

Theorem key_eq_is_same_start src a b :
  anchored src a -> anchored src b ->
  (comparison_key a = comparison_key b <-> l_start a = l_start b).
Proof.
  intros Ha Hb. split.
  - intros E.
    pose proof (proj1 (key_order_is_position_order src a b Ha Hb)) as H1.
    pose proof (proj1 (key_order_is_position_order src b a Hb Ha)) as H2.
    rewrite E in H1, H2. specialize (H1 (key_leb_refl _)). specialize (H2 (key_leb_refl _)). lia.
  - destruct Ha as (_ & _ & A3 & A4), Hb as (_ & _ & B3 & B4). intros E.
    unfold comparison_key. now rewrite A3, A4, B3, B4, E.
Qed.

(* With the weak form the key order can contradict the position order: in
   the source  quote a b  the MissingClosingQuote location (start 0) has a
   greater key than an exact location at offset 1. *)
Theorem key_order_lex_refuted :
  exists src a b, anchored_lex src a /\ anchored_lex src b /\
    l_start a < l_start b /\ key_leb (comparison_key a) (comparison_key b) = false.
Proof.
  exists [34; 97; 98],
         {| l_start := 0; l_end := 3; l_line := 1; l_offset := 3 |},
         {| l_start := 1; l_end := 2; l_line := 1; l_offset := 1 |}.
  rewrite <- !anchored_lexb_spec. repeat split; vm_compute; reflexivity.
Qed.

(* ---- 5b. the stable sort, for any element type and key function *)

Section Sort.
  Context {A : Type} (key : A -> N * N).

  Definition kle (a b : A) : Prop := key_leb (key a) (key b) = true.
  Definition has (k : N * N) (x : A) : bool := key_eqb (key x) k.
  Definition key_sorted (l : list A) : Prop := StronglySorted kle l.

  Lemma insert_perm x l : Permutation (insert_by key x l) (x :: l).
  Proof.
    induction l as [|y r IH]; cbn [insert_by]; [apply Permutation_refl|].
    destruct (key_leb (key x) (key y)); [apply Permutation_refl|].
    eapply perm_trans; [apply perm_skip, IH|apply perm_swap].
  Qed.

  Theorem sort_perm l : Permutation (sort_by key l) l.
  Proof.
    induction l as [|x r IH]; cbn [sort_by]; [apply perm_nil|].
    eapply perm_trans; [apply insert_perm|now apply perm_skip].
  Qed.

  Lemma Forall_insert (P : A -> Prop) x l : P x -> Forall P l -> Forall P (insert_by key x l).
  Proof.
    intros Hx. induction 1 as [|y r Hy Hr IH]; cbn [insert_by]; [repeat constructor; exact Hx|].
    destruct (key_leb (key x) (key y)); repeat constructor; assumption.
  Qed.

  Lemma insert_sorted x l : key_sorted l -> key_sorted (insert_by key x l).
  Proof.
    induction 1 as [|y r Hs IH Hall]; cbn [insert_by]; [repeat constructor|].
    destruct (key_leb (key x) (key y)) eqn:E.
    - constructor; [constructor; assumption|]. constructor; [exact E|].
      eapply Forall_impl; [|exact Hall]. intros z Hz. unfold kle in *. eapply key_leb_trans; eassumption.
    - constructor; [exact IH|]. apply Forall_insert; [|exact Hall].
      unfold kle. now apply key_leb_false in E.
  Qed.

  Theorem sort_sorted l : key_sorted (sort_by key l).
  Proof. induction l as [|x r IH]; cbn [sort_by]; [constructor|now apply insert_sorted]. Qed.

  Lemma insert_stable k x l :
    filter (has k) (insert_by key x l) = filter (has k) (x :: l).
  Proof.
    induction l as [|y r IH]; cbn [insert_by]; [reflexivity|].
    destruct (key_leb (key x) (key y)) eqn:E; [reflexivity|].
    apply key_leb_false in E. destruct E as [_ Hne].
    cbn [filter] in *. rewrite IH.
    destruct (has k y) eqn:Ey, (has k x) eqn:Ex; try reflexivity.
    unfold has in Ey, Ex. apply key_eqb_spec in Ey, Ex. congruence.
  Qed.

  (* Stability: the elements with any given key come out in the order they went in. *)
  Theorem sort_stable k l : filter (has k) (sort_by key l) = filter (has k) l.
  Proof.
    induction l as [|x r IH]; cbn [sort_by]; [reflexivity|].
    rewrite insert_stable. cbn [filter]. now rewrite IH.
  Qed.

  Lemma has_key x : has (key x) x = true.
  Proof. apply key_eqb_refl. Qed.

  Lemma filter_has_nil l : (forall k, filter (has k) l = []) -> l = [].
  Proof.
    destruct l as [|x r]; [reflexivity|]. intros H. specialize (H (key x)).
    cbn [filter] in H. rewrite has_key in H. discriminate.
  Qed.

  Lemma sorted_head_le x l z : key_sorted (x :: l) -> In z (x :: l) -> kle x z.
  Proof.
    intros Hs [<-|Hz]; [apply key_leb_refl|].
    apply StronglySorted_inv in Hs. destruct Hs as [_ Hall].
    rewrite Forall_forall in Hall. now apply Hall.
  Qed.

  (* A list that is sorted by the key is determined by its key classes. *)
  Theorem sorted_unique s1 : forall s2,
    key_sorted s1 -> key_sorted s2 ->
    (forall k, filter (has k) s1 = filter (has k) s2) -> s1 = s2.
  Proof.
    induction s1 as [|x r1 IH]; intros s2 H1 H2 Hf.
    - symmetry. apply filter_has_nil. intros k. now rewrite <- Hf.
    - destruct s2 as [|y r2]; [apply filter_has_nil; intros k; now rewrite Hf|].
      assert (Hxy : key x = key y).
      { apply key_leb_antisym.
        - apply (sorted_head_le x r1 y H1).
          apply (filter_In (has (key y))). rewrite Hf. cbn [filter]. rewrite has_key. now left.
        - apply (sorted_head_le y r2 x H2).
          apply (filter_In (has (key x))). rewrite <- Hf. cbn [filter]. rewrite has_key. now left. }
      assert (Exy : x = y).
      { specialize (Hf (key x)). cbn [filter] in Hf. rewrite has_key in Hf.
        unfold has at 2 in Hf. rewrite <- Hxy, key_eqb_refl in Hf. congruence. }
      subst y. f_equal. apply IH.
      + now apply StronglySorted_inv in H1.
      + now apply StronglySorted_inv in H2.
      + intros k. specialize (Hf k). cbn [filter] in Hf. destruct (has k x); congruence.
  Qed.

  (* 5c. DETERMINISM.  Two inputs whose elements of every key are the same and
     in the same relative order sort to the same list (the inputs are then
     permutations of each other; how the key classes are interleaved does not
     matter). *)
  Theorem sort_canonical l1 l2 :
    (forall k, filter (has k) l1 = filter (has k) l2) -> sort_by key l1 = sort_by key l2.
  Proof.
    intros H. apply sorted_unique; try apply sort_sorted.
    intros k. now rewrite !sort_stable.
  Qed.

  (* Any stable sort by the key (Rust's merge sort) returns what sort_by returns. *)
  Theorem sort_characterized l s :
    key_sorted s -> (forall k, filter (has k) s = filter (has k) l) -> s = sort_by key l.
  Proof.
    intros Hs Hf. apply sorted_unique; [exact Hs|apply sort_sorted|].
    intros k. now rewrite sort_stable.
  Qed.

  Theorem sort_sorted_id l : key_sorted l -> sort_by key l = l.
  Proof. intros H. symmetry. apply sort_characterized; [exact H|reflexivity]. Qed.

  Lemma filter_perm (f : A -> bool) l1 l2 :
    Permutation l1 l2 -> Permutation (filter f l1) (filter f l2).
  Proof.
    induction 1 as [|x l l' _ IH|x y l|l l' l'' _ IH1 _ IH2]; cbn [filter].
    - apply perm_nil.
    - destruct (f x); [now apply perm_skip|exact IH].
    - destruct (f x), (f y); try apply Permutation_refl. apply perm_swap.
    - eapply perm_trans; eassumption.
  Qed.

  Lemma distinct_keys_class l k :
    NoDup (map key l) -> filter (has k) l = [] \/ exists x, filter (has k) l = [x].
  Proof.
    induction l as [|x r IH]; intros Hnd; [now left|].
    cbn [map] in Hnd. apply NoDup_cons_iff in Hnd. destruct Hnd as [Hnin Hnd].
    cbn [filter]. destruct (has k x) eqn:E; [|now apply IH].
    right. exists x. f_equal.
    destruct (filter (has k) r) as [|z r'] eqn:F; [reflexivity|exfalso].
    assert (Hz : In z (filter (has k) r)) by (rewrite F; now left).
    apply filter_In in Hz. destruct Hz as [Hz1 Hz2].
    unfold has in E, Hz2. apply key_eqb_spec in E, Hz2.
    apply Hnin. rewrite E, <- Hz2. now apply in_map.
  Qed.

  (* When no two elements have the same key the input order is irrelevant. *)
  Theorem sort_canonical_distinct_keys l1 l2 :
    Permutation l1 l2 -> NoDup (map key l1) -> sort_by key l1 = sort_by key l2.
  Proof.
    intros Hp Hnd. apply sort_canonical. intros k.
    pose proof (filter_perm (has k) _ _ Hp) as Hpf.
    destruct (distinct_keys_class l1 k Hnd) as [E|[x E]]; rewrite E in *.
    - symmetry. now apply Permutation_nil.
    - symmetry. now apply Permutation_length_1_inv.
  Qed.
End Sort.

(* Without the hypothesis the result depends on the input order: two
   locations at the same position (an expression and its first operand). *)
Theorem sort_depends_on_input_order :
  exists src a b, anchored src a /\ anchored src b /\ a <> b /\
    Permutation [a; b] [b; a] /\ sort_locs [a; b] <> sort_locs [b; a].
Proof.
  exists [97; 43; 98],
         {| l_start := 0; l_end := 1; l_line := 1; l_offset := 0 |},
         {| l_start := 0; l_end := 3; l_line := 1; l_offset := 0 |}.
  rewrite <- !anchoredb_spec.
  split; [vm_compute; reflexivity|]. split; [vm_compute; reflexivity|].
  split; [discriminate|]. split; [apply perm_swap|]. vm_compute. discriminate.
Qed.

(* ---- 5d. diagnostics of one source *)

Definition loc_key {A : Type} (f : A -> loc) (x : A) : N * N := comparison_key (f x).

Section OneSource.
  Context {A : Type} (f : A -> loc) (src : list N).
  Notation fkey := (loc_key f).

  (* Sorting by the key sorts by the start offset. *)
  Theorem sort_by_position l :
    Forall (fun x => anchored src (f x)) l ->
    StronglySorted (fun a b => l_start (f a) <= l_start (f b)) (sort_by fkey l).
  Proof.
    intros Hall.
    assert (Hall' : Forall (fun x => anchored src (f x)) (sort_by fkey l)).
    { eapply Permutation_Forall; [apply Permutation_sym, sort_perm|exact Hall]. }
    pose proof (sort_sorted fkey l) as Hs. unfold key_sorted in Hs.
    induction Hs as [|x r Hs IH Hx]; [constructor|].
    apply Forall_cons_iff in Hall'. destruct Hall' as [Ax Ar].
    constructor; [now apply IH|].
    rewrite Forall_forall in *. intros y Hy.
    apply (key_order_is_position_order src (f x) (f y) Ax (Ar y Hy)). now apply Hx.
  Qed.

  Lemma distinct_starts_distinct_keys l :
    Forall (fun x => anchored src (f x)) l ->
    NoDup (map (fun x => l_start (f x)) l) -> NoDup (map fkey l).
  Proof.
    induction 1 as [|x r Ax Ar IH]; cbn [map]; intros Hnd; [constructor|].
    apply NoDup_cons_iff in Hnd. destruct Hnd as [Hnin Hnd].
    constructor; [|now apply IH].
    intros Hin. apply in_map_iff in Hin. destruct Hin as (y & Hk & Hy).
    apply Hnin. apply in_map_iff. exists y. split; [|exact Hy].
    rewrite Forall_forall in Ar.
    now apply (key_eq_is_same_start src (f y) (f x) (Ar y Hy) Ax).
  Qed.

  (* Diagnostics at pairwise different positions come out in the same order
     whatever order they were found in. *)
  Theorem sort_canonical_distinct_positions l1 l2 :
    Permutation l1 l2 -> Forall (fun x => anchored src (f x)) l1 ->
    NoDup (map (fun x => l_start (f x)) l1) -> sort_by fkey l1 = sort_by fkey l2.
  Proof.
    intros Hp Hall Hnd. apply sort_canonical_distinct_keys; [exact Hp|].
    now apply distinct_starts_distinct_keys.
  Qed.
End OneSource.

Theorem sort_locs_by_position src l :
  Forall (anchored src) l ->
  StronglySorted (fun a b => l_start a <= l_start b) (sort_locs l).
Proof. intros H. apply (sort_by_position (fun x => x) src l H). Qed.

Theorem sort_diags_by_position src (l : list (code * loc)) :
  Forall (fun d => anchored src (snd d)) l ->
  StronglySorted (fun a b => l_start (snd a) <= l_start (snd b)) (sort_diags l).
Proof. intros H. apply (sort_by_position (@snd code loc) src l H). Qed.

Theorem sort_diags_canonical (l1 l2 : list (code * loc)) :
  (forall k, filter (has diag_key k) l1 = filter (has diag_key k) l2) ->
  sort_diags l1 = sort_diags l2.
Proof. apply sort_canonical. Qed.

Theorem sort_diags_distinct_positions src (l1 l2 : list (code * loc)) :
  Permutation l1 l2 -> Forall (fun d => anchored src (snd d)) l1 ->
  NoDup (map (fun d => l_start (snd d)) l1) -> sort_diags l1 = sort_diags l2.
Proof. apply (sort_canonical_distinct_positions (@snd code loc) src). Qed.

(* ---- 5e. the weak form: spans that follow each other *)

(* If [a] ends before [b] starts, the key of [a] is not greater, even when the
   reported columns are displaced inside the spans (string errors). *)
Theorem key_order_lex_disjoint src a b :
  anchored_lex src a -> anchored_lex src b -> l_end a <= l_start b ->
  key_leb (comparison_key a) (comparison_key b) = true.
Proof.
  intros (A1 & A2 & A3 & A4) (B1 & B2 & B3 & B4) Hd.
  apply key_leb_spec. unfold comparison_key. cbn [fst snd]. rewrite A3, B3.
  pose proof (line_at_mono src (l_start a) (l_start b) ltac:(lia)) as Hm.
  destruct (N.eq_dec (line_at src (l_start a)) (line_at src (l_start b))) as [E|E]; [right|left; lia].
  split; [exact E|].
  pose proof (same_line_same_start src (l_start a) (l_start b) ltac:(lia) E) as Hs.
  pose proof (line_start_le src (l_start a)) as Hle.
  unfold col_at in *. rewrite <- Hs in *. lia.
Qed.

(* Hence a list of such locations in source order is left alone by the sort. *)
Theorem sort_locs_in_order_id src l :
  Forall (anchored_lex src) l -> StronglySorted (fun a b => l_end a <= l_start b) l ->
  sort_locs l = l.
Proof.
  intros Hall Hs. apply sort_sorted_id. unfold key_sorted.
  induction Hs as [|x r Hs IH Hx]; [constructor|].
  apply Forall_cons_iff in Hall. destruct Hall as [Ax Ar].
  constructor; [now apply IH|].
  rewrite Forall_forall in *. intros y Hy. unfold kle.
  apply (key_order_lex_disjoint src x y Ax (Ar y Hy)). now apply Hx.
Qed.

(* with a displaced string error among the tokens *)
Example sort_in_order_example :
  let src := str "ab"%string ++ [13; 10] ++ str "c = ""x\q"" + d"%string ++ [10; 13] ++ str "e"%string in
  let toks := map loc_of_tok (lex_alpha_fixed src) in
  forallb (anchored_lexb src) toks = true /\ forallb (anchoredb src) toks = false /\
  sort_locs toks = toks.
Proof. vm_compute. repeat split; reflexivity. Qed.

(* The tokens of a source, shuffled, sort back into source order. *)
Example sort_example :
  let src := str "a = ""x"""%string ++ [13; 10] ++ str "b c"%string in
  let toks := map loc_of_tok (lex_alpha_fixed src) in
  forallb (anchoredb src) toks = true /\ length toks = 5%nat /\
  sort_locs (rev toks) = toks /\
  sort_locs (nth 3 toks (loc_of_tok zero_byte_tok) :: nth 1 toks (loc_of_tok zero_byte_tok) :: toks) =
    [nth 0 toks (loc_of_tok zero_byte_tok); nth 1 toks (loc_of_tok zero_byte_tok);
     nth 1 toks (loc_of_tok zero_byte_tok); nth 2 toks (loc_of_tok zero_byte_tok);
     nth 3 toks (loc_of_tok zero_byte_tok); nth 3 toks (loc_of_tok zero_byte_tok);
     nth 4 toks (loc_of_tok zero_byte_tok)].
Proof. vm_compute. repeat split; reflexivity. Qed.

(* Stability seen on diagnostics: two codes at one position keep their order. *)
Example sort_diags_example :
  let p := {| l_start := 4; l_end := 5; l_line := 2; l_offset := 1 |} in
  let q := {| l_start := 0; l_end := 1; l_line := 1; l_offset := 0 |} in
  sort_diags [(500, p); (300, p); (400, q)] = [(400, q); (500, p); (300, p)] /\
  sort_diags [(300, p); (400, q); (500, p)] = [(400, q); (300, p); (500, p)].
Proof. vm_compute. split; reflexivity. Qed.

Print Assumptions lexer_locations_anchored_lex.
Print Assumptions lexer_locations_classified.
Print Assumptions lexer_locations_anchored_ok.
Print Assumptions lexer_locations_anchored_refuted.
Print Assumptions combined_with_anchored.
Print Assumptions combined_with_anchored_lex.
Print Assumptions combined_with_covers.
Print Assumptions combined_with_comm.
Print Assumptions combined_with_comm_lex_refuted.
Print Assumptions tree_anchored.
Print Assumptions tree_hull.
Print Assumptions tree_canonical.
Print Assumptions combined_with_pinned_refuted.
Print Assumptions combined_with_pinned_not_comm.
Print Assumptions key_order_is_position_order.
Print Assumptions key_order_lex_refuted.
Print Assumptions sort_perm.
Print Assumptions sort_sorted.
Print Assumptions sort_stable.
Print Assumptions sorted_unique.
Print Assumptions sort_canonical.
Print Assumptions sort_characterized.
Print Assumptions sort_canonical_distinct_keys.
Print Assumptions sort_depends_on_input_order.
Print Assumptions sort_diags_by_position.
Print Assumptions key_order_lex_disjoint.
Print Assumptions sort_locs_in_order_id.
Print Assumptions sort_diags_distinct_positions.
