(* Proofs about Model/DeltaNodes.v (property C15): the node-count bound
   5 + 4 * tokens, refutation of the factors 2 (pinned commit) and 3, cursor
   bounds, the declaration loop reaching EndOfSource, absence of every modelled
   panic on lexer-shaped token arrays, and sufficiency of the model's fuel. *)
From PV Require Import Base.Common Base.IR Base.Tok Model.DeltaNodes.

(* ------------------------------------------------------------------------- *)
(* Basic facts about tokens and the cursor *)

(* Number of leading non-EOS tokens of a slice: how many tokens can be taken
   before an EndOfSource (real or, for an exhausted slice, virtual) is taken. *)
Fixpoint room (l : list btok) : nat :=
  match l with T _ :: r => S (room r) | _ => 0 end.

(* Potential: invariant under taking a non-EOS token. *)
Definition phi (c : cursor) : nat := cur c + room (span c).

Lemma cur_advance c : cur (advance c) = S (cur c).
Proof. reflexivity. Qed.

Lemma room_T c k : peek c = T k -> room (span c) = S (room (span (advance c))).
Proof.
  unfold peek, advance. destruct c as [p [|t r]]; cbn [span cur tl room]; [discriminate|].
  intros ->. reflexivity.
Qed.

Lemma room_EOS c : peek c = EOS -> room (span c) = 0.
Proof.
  unfold peek. destruct c as [p [|t r]]; cbn [span room]; [reflexivity|].
  intros ->. reflexivity.
Qed.

Lemma btok_eqb_T k t : btok_eqb (T k) t = true -> exists k', t = T k'.
Proof. destruct t as [k'|]; [eauto|discriminate]. Qed.

Lemma room_is c k : is k (peek c) = true -> room (span c) = S (room (span (advance c))).
Proof. intros H. apply btok_eqb_T in H as [k' H]. eapply room_T; eassumption. Qed.

Lemma room_eqb c op :
  is_eos op = false -> btok_eqb op (peek c) = true ->
  room (span c) = S (room (span (advance c))).
Proof.
  destruct op as [k|]; [|discriminate]. intros _ H.
  apply btok_eqb_T in H as [k' H]. eapply room_T; eassumption.
Qed.

(* ------------------------------------------------------------------------- *)
(* The specification every production is proved against.

   [V]    which potentials the cursor-related clauses are claimed for
          ([VT]: all; [Vn n]: cursors in sync with a lexer-shaped array of [n]
          real tokens),
   [a b]  nodes <= a * tokens taken + b, always (nodes pushed before an error
          stay in the buffer),
   [k]    extra slack available when the production succeeds,
   [pan]  the panic sites the production may report,
   [g]    fuel threshold: no out-of-fuel when fewer than [g] tokens are left
          before the next EndOfSource. *)
Definition VT (v : nat) : Prop := True.
Definition Vn (n v : nat) : Prop := v = n.
Definition PF (s : N) : Prop := False.
Definition PC (s : N) : Prop := s = P_CONSUME.

Definition spec (V : nat -> Prop) (a b k : N) (pan : N -> Prop) (g : nat)
    (c : cursor) (r : res) : Prop :=
  cur c <= cur (rc r)
  /\ (rn r <= a * N.of_nat (cur (rc r) - cur c) + b)%N
  /\ (rs r = Ok -> (rn r + k <= a * N.of_nat (cur (rc r) - cur c) + b)%N)
  /\ (rs r = Ok -> V (phi c) -> phi (rc r) = phi c)
  /\ (V (phi c) -> cur (rc r) <= phi c + 1)
  /\ (forall s, rs r = Panic s -> V (phi c) -> pan s)
  /\ (rs r = Oof -> V (phi c) -> g <= room (span c)).

Lemma push_0 r : push 0 r = r.
Proof. destruct r; reflexivity. Qed.

Lemma push_push m j r : push m (push j r) = push (m + j) r.
Proof. unfold push; cbn [rc rn rs]. now rewrite N.add_assoc. Qed.

Lemma push_bind_ok m r k :
  rs r = Ok -> push m (bind r k) = push (m + rn r) (k (rc r)).
Proof. intros H. unfold push, bind. rewrite H. cbn [rc rn rs]. now rewrite N.add_assoc. Qed.

Lemma push_bind_nok m r k : rs r <> Ok -> push m (bind r k) = push m r.
Proof. intros H. unfold bind. destruct (rs r); [congruence|reflexivity..]. Qed.

Lemma push_bind_okres m c j k : push m (bind (ok c j) k) = push (m + j) (k c).
Proof. unfold push, bind, ok; cbn [rc rn rs]. now rewrite N.add_assoc. Qed.

Lemma bind_assoc r k1 k2 :
  bind (bind r k1) k2 = bind r (fun c => bind (k1 c) k2).
Proof.
  unfold bind. destruct (rs r) eqn:H; cbn [rc rn rs]; rewrite ?H; try reflexivity.
  destruct (rs (k1 (rc r))) eqn:H1; cbn [rc rn rs]; rewrite ?H1; try reflexivity.
  now rewrite N.add_assoc.
Qed.

(* Facts about Tokens::consume, in the two flavours of the expectation table. *)
Definition consume_facts (pan : N -> Prop) (c : cursor) (r : res) : Prop :=
  rn r = 0%N /\ cur (rc r) = S (cur c)
  /\ (rs r = Ok -> room (span c) = S (room (span (rc r))))
  /\ (rs r = Oof -> False)
  /\ (forall s, rs r = Panic s -> pan s).

Lemma consume_tab k c :
  in_expectation_table k = true -> consume_facts PF c (consume k c).
Proof.
  intros Hk. unfold consume_facts, consume. rewrite Hk.
  destruct (is k (peek c)) eqn:Hi; cbn [ok err rc rn rs]; rewrite ?cur_advance;
    repeat split; try discriminate; eauto using room_is.
Qed.

Lemma consume_notab k c :
  in_expectation_table k = false -> consume_facts PC c (consume k c).
Proof.
  intros Hk. unfold consume_facts, consume. rewrite Hk.
  destruct (is k (peek c)) eqn:Hi; cbn [ok err rc rn rs]; rewrite ?cur_advance;
    repeat split; try discriminate; eauto using room_is.
  intros s [= <-]. reflexivity.
Qed.

(* ------------------------------------------------------------------------- *)
(* Proof automation: symbolic execution of a production in the normal form
   [spec .. c0 (push m X)], collecting the specifications of the sub-parsers
   that are run, then linear arithmetic at the leaves. *)

Ltac simp_status :=
  repeat match goal with
  | H : @eq status ?a ?a -> _ |- _ => specialize (H eq_refl)
  | H : @eq status ?a ?b -> _ |- _ =>
      let X := fresh in assert (X : a <> b) by discriminate; clear X H
  | H : forall s, Panic ?s0 = Panic s -> _ |- _ => specialize (H s0 eq_refl)
  | H : forall s, @eq status ?a (Panic s) -> _ |- _ =>
      let X := fresh in assert (X : forall s, a <> Panic s) by (intro; discriminate); clear X H
  end.

Ltac open_spec H :=
  first
  [ unfold spec in H; destruct H as (? & ? & ? & ? & ? & ? & ?)
  | unfold consume_facts in H; destruct H as (? & ? & ? & ? & ?) ].

(* Where the specification of a sub-parser call comes from: a hypothesis of the
   context (induction hypotheses, assumptions about parser arguments) or a
   lemma ([find_spec] is extended after each lemma). *)
Ltac find_spec r H := fail "no specification known for" r.

Ltac hyp_spec r H :=
  lazymatch r with
  | ?P ?x =>
      match goal with
      | Hh : forall c, spec _ _ _ _ _ _ c (P c) |- _ => pose proof (Hh x) as H
      end
  end.

(* the assumption about a parser argument [P] of a production *)
Ltac with_hyp P tac :=
  match goal with
  | Hh : forall c, spec _ _ _ _ _ ?g c (P c) |- _ => tac g Hh
  end.

Ltac get_spec r :=
  let H := fresh "Hsp" in
  lazymatch r with
  | consume ?k ?x =>
      first [ pose proof (consume_tab k x eq_refl) as H
            | pose proof (consume_notab k x eq_refl) as H ]
  | _ => first [ hyp_spec r H | find_spec r H ]
  end;
  open_spec H.

Ltac case_status r :=
  let Hs := fresh "Hs" in
  destruct (rs r) eqn:Hs; rewrite ?Hs in *; simp_status.

Ltac case_bool b :=
  let Hb := fresh "Hb" in
  destruct b eqn:Hb;
  [ try lazymatch type of Hb with
        | is ?k (peek ?x) = true => pose proof (room_is x k Hb)
        | btok_eqb ?o (peek ?x) = true =>
            lazymatch goal with
            | Ho : is_eos o = false |- _ => pose proof (room_eqb x o Ho Hb)
            end
        | Nat.ltb _ _ = true => apply Nat.ltb_lt in Hb
        end
  | try lazymatch type of Hb with
        | Nat.ltb _ _ = false => apply Nat.ltb_ge in Hb
        end ].

Ltac case_peek c :=
  let Hp := fresh "Hp" in
  let k := fresh "k" in
  destruct (peek c) as [k|] eqn:Hp;
  [ pose proof (room_T c k Hp); destruct k | pose proof (room_EOS c Hp) ];
  cbv beta iota.

Ltac leaf_goal :=
  intros; simp_status;
  try discriminate;
  try match goal with H : @eq status (Panic _) (Panic _) |- _ => injection H as <- end;
  try contradiction;
  unfold VT, Vn, PF, PC, P_CONSUME in *;
  lia.

Ltac leaf0 :=
  unfold spec, phi in *;
  cbn [push ok err oof rc rn rs cur span] in *;
  rewrite ?cur_advance in *;
  repeat match goal with H : rs ?r = _ |- _ => rewrite H in * end;
  simp_status;
  repeat split; leaf_goal.

Ltac leaf := abstract leaf0.

Ltac go :=
  lazymatch goal with
  | |- spec _ _ _ _ _ _ _ (push _ (bind (if ?b then _ else _) _)) => case_bool b; go
  | |- spec _ _ _ _ _ _ _ (push _ (bind (bind _ _) _)) => rewrite bind_assoc; go
  | |- spec _ _ _ _ _ _ _ (push _ (bind (ok _ _) _)) => rewrite push_bind_okres; cbv beta; go
  | |- spec _ _ _ _ _ _ _ (push ?m (bind ?r ?k)) =>
      get_spec r;
      let X := fresh "X" in
      let HX := fresh "HX" in
      remember r as X eqn:HX in *; clear HX;
      let Hs := fresh "Hs" in
      destruct (rs X) eqn:Hs;
      [ rewrite (push_bind_ok m X k Hs); cbv beta; simp_status; go
      | rewrite (push_bind_nok m X k) by (rewrite Hs; discriminate); leaf .. ]
  | |- spec _ _ _ _ _ _ _ (push _ (push _ _)) => rewrite push_push; go
  | |- spec _ _ _ _ _ _ _ (push _ (if ?b then _ else _)) => case_bool b; go
  | |- spec _ _ _ _ _ _ _ (push _ (match peek ?c with _ => _ end)) => case_peek c; go
  | |- spec _ _ _ _ _ _ _ (push _ (ok _ _)) => leaf
  | |- spec _ _ _ _ _ _ _ (push _ (err _)) => leaf
  | |- spec _ _ _ _ _ _ _ (push _ (oof _)) => leaf
  | |- spec _ _ _ _ _ _ _ (push _ (mkRes _ _ _)) => leaf
  | |- spec _ _ _ _ _ _ _ (push _ ?r) =>
      get_spec r;
      let X := fresh "X" in
      let HX := fresh "HX" in
      remember r as X eqn:HX in *; clear HX;
      let Hs := fresh "Hs" in destruct (rs X) eqn:Hs; leaf
  end.

Ltac start := rewrite <- push_0; cbv zeta.

(* ------------------------------------------------------------------------- *)
(* Types *)

Lemma parse_inner_type_spec : forall f c, spec VT 1 0 0 PF f c (parse_inner_type f c).
Proof. induction f as [|f IH]; intro c; cbn [parse_inner_type]; start; go. Qed.

Ltac find_spec r H ::=
  lazymatch r with
  | parse_inner_type ?f ?x => pose proof (parse_inner_type_spec f x) as H
  end.

Lemma parse_type_spec f c : spec VT 2 0 0 PF f c (parse_type f c).
Proof. unfold parse_type; start. go. Qed.

(* ------------------------------------------------------------------------- *)
(* Expressions *)

Lemma amp_loop_spec : forall r c, spec VT 0 0 0 PF (S (room (span c))) c (amp_loop r c).
Proof.
  induction r as [|r IH]; intro c; cbn [amp_loop]; start.
  - go.
  - case_bool (is KAmpersand (peek c)); [|go].
    pose proof (IH (advance c)) as Hi. open_spec Hi.
    remember (amp_loop r (advance c)) as X eqn:HX in *; clear HX.
    destruct (rs X) eqn:Hs; leaf.
Qed.

Ltac find_spec r H ::=
  lazymatch r with
  | parse_inner_type ?f ?x => pose proof (parse_inner_type_spec f x) as H
  | parse_type ?f ?x => pose proof (parse_type_spec f x) as H
  | amp_loop ?a ?x => pose proof (amp_loop_spec a x) as H
  end.

Lemma take_while_facts k : forall sp n,
  n <= cur (take_while k n sp)
  /\ cur (take_while k n sp) + room (span (take_while k n sp)) = n + room sp.
Proof.
  induction sp as [|t rest IH]; intro n; cbn [take_while].
  - cbn [cur span room]. lia.
  - destruct (is k t) eqn:Hi.
    + apply btok_eqb_T in Hi as [k' ->]. cbn [room]. specialize (IH (S n)). lia.
    + cbn [cur span]. lia.
Qed.

Lemma deref_steps_loop_spec E g (HE : forall c, spec VT 4 1 0 PF g c (E c)) :
  forall n c, spec VT 4 1 0 PF (S g) c (deref_steps_loop E n c).
Proof. induction n as [|n IH]; intro c; cbn [deref_steps_loop]; start; go. Qed.

Lemma parse_deref_steps_list_spec E g (HE : forall c, spec VT 4 1 0 PF g c (E c)) c :
  spec VT 4 1 0 PF (S g) c (parse_deref_steps_list E c).
Proof. apply deref_steps_loop_spec; assumption. Qed.

Lemma args_loop_spec E g (HE : forall c, spec VT 4 1 0 PF g c (E c)) :
  forall f c, spec VT 4 1 0 PF (Nat.min f g) c (args_loop E f c).
Proof. induction f as [|f IH]; intro c; cbn [args_loop]; start; go. Qed.

Lemma structural_loop_spec E g (HE : forall c, spec VT 4 1 0 PF g c (E c)) :
  forall f c, spec VT 4 1 0 PF (Nat.min f g) c (structural_loop E f c).
Proof. induction f as [|f IH]; intro c; cbn [structural_loop]; start; go. Qed.

Lemma array_loop_spec E g (HE : forall c, spec VT 4 1 0 PF g c (E c)) :
  forall f c, spec VT 4 1 1 PF (Nat.min f g) c (array_loop E f c).
Proof. induction f as [|f IH]; intro c; cbn [array_loop]; start; go. Qed.

Ltac find_spec r H ::=
  lazymatch r with
  | parse_inner_type ?f ?x => pose proof (parse_inner_type_spec f x) as H
  | parse_type ?f ?x => pose proof (parse_type_spec f x) as H
  | amp_loop ?a ?x => pose proof (amp_loop_spec a x) as H
  | parse_deref_steps_list ?E ?x =>
      with_hyp E ltac:(fun g HE => pose proof (parse_deref_steps_list_spec E g HE x) as H)
  | args_loop ?E ?f ?x =>
      with_hyp E ltac:(fun g HE => pose proof (args_loop_spec E g HE f x) as H)
  | structural_loop ?E ?f ?x =>
      with_hyp E ltac:(fun g HE => pose proof (structural_loop_spec E g HE f x) as H)
  | array_loop ?E ?f ?x =>
      with_hyp E ltac:(fun g HE => pose proof (array_loop_spec E g HE f x) as H)
  end.

Lemma parse_reference_spec E g (HE : forall c, spec VT 4 1 0 PF g c (E c)) c :
  spec VT 4 1 0 PF (S g) c (parse_reference E c).
Proof. unfold parse_reference; start; go. Qed.

Ltac find_spec r H ::=
  lazymatch r with
  | parse_inner_type ?f ?x => pose proof (parse_inner_type_spec f x) as H
  | parse_type ?f ?x => pose proof (parse_type_spec f x) as H
  | amp_loop ?a ?x => pose proof (amp_loop_spec a x) as H
  | parse_deref_steps_list ?E ?x =>
      with_hyp E ltac:(fun g HE => pose proof (parse_deref_steps_list_spec E g HE x) as H)
  | args_loop ?E ?f ?x =>
      with_hyp E ltac:(fun g HE => pose proof (args_loop_spec E g HE f x) as H)
  | structural_loop ?E ?f ?x =>
      with_hyp E ltac:(fun g HE => pose proof (structural_loop_spec E g HE f x) as H)
  | array_loop ?E ?f ?x =>
      with_hyp E ltac:(fun g HE => pose proof (array_loop_spec E g HE f x) as H)
  | parse_reference ?E ?x =>
      with_hyp E ltac:(fun g HE => pose proof (parse_reference_spec E g HE x) as H)
  end.

Lemma parse_primary_expression_spec E g (HE : forall c, spec VT 4 1 0 PF g c (E c)) c :
  spec VT 4 1 0 PF (S g) c (parse_primary_expression E (S g) c).
Proof.
  unfold parse_primary_expression; start.
  pose proof (take_while_facts KStringLiteral (span (advance c)) (cur (advance c))) as [? ?].
  go.
Qed.

Ltac find_spec_expr0 r H :=
  lazymatch r with
  | parse_inner_type ?f ?x => pose proof (parse_inner_type_spec f x) as H
  | parse_type ?f ?x => pose proof (parse_type_spec f x) as H
  | amp_loop ?a ?x => pose proof (amp_loop_spec a x) as H
  | parse_deref_steps_list ?E ?x =>
      with_hyp E ltac:(fun g HE => pose proof (parse_deref_steps_list_spec E g HE x) as H)
  | args_loop ?E ?f ?x =>
      with_hyp E ltac:(fun g HE => pose proof (args_loop_spec E g HE f x) as H)
  | structural_loop ?E ?f ?x =>
      with_hyp E ltac:(fun g HE => pose proof (structural_loop_spec E g HE f x) as H)
  | array_loop ?E ?f ?x =>
      with_hyp E ltac:(fun g HE => pose proof (array_loop_spec E g HE f x) as H)
  | parse_reference ?E ?x =>
      with_hyp E ltac:(fun g HE => pose proof (parse_reference_spec E g HE x) as H)
  | parse_primary_expression ?E (S ?g) ?x =>
      with_hyp E ltac:(fun g' HE => pose proof (parse_primary_expression_spec E g HE x) as H)
  end.
Ltac find_spec r H ::= find_spec_expr0 r H.

Lemma parse_unary_expression_spec E g (HE : forall c, spec VT 4 1 0 PF g c (E c)) c :
  spec VT 4 1 0 PF (S g) c (parse_unary_expression E (S g) c).
Proof. unfold parse_unary_expression; start; go. Qed.

Lemma as_loop_spec tf : forall f c, spec VT 4 0 0 PF (Nat.min f tf) c (as_loop f tf c).
Proof. induction f as [|f IH]; intros c; cbn [as_loop]; start; go. Qed.

Ltac find_spec_expr1 r H :=
  lazymatch r with
  | parse_unary_expression ?E (S ?g) ?x =>
      with_hyp E ltac:(fun g' HE => pose proof (parse_unary_expression_spec E g HE x) as H)
  | as_loop ?f ?tf ?x => pose proof (as_loop_spec tf f x) as H
  | _ => find_spec_expr0 r H
  end.
Ltac find_spec r H ::= find_spec_expr1 r H.

Lemma parse_singular_expression_spec E g (HE : forall c, spec VT 4 1 0 PF g c (E c)) c :
  spec VT 4 1 0 PF (S g) c (parse_singular_expression E (S g) c).
Proof.
  unfold parse_singular_expression, consume_optional.
  case_bool (is KCast (peek c)); start; go.
Qed.

(* loops over an operand parser [Sg] / [M] / [U] *)
Lemma mul_loop_spec Sg G (HS : forall c, spec VT 4 1 0 PF G c (Sg c)) :
  forall f c, spec VT 4 0 0 PF (Nat.min f (S G)) c (mul_loop Sg f c).
Proof. induction f as [|f IH]; intro c; cbn [mul_loop]; start; go. Qed.

Lemma bitwise_loop_spec U G (HU : forall c, spec VT 4 1 0 PF G c (U c)) op
    (Hop : is_eos op = false) :
  forall f c, spec VT 4 4 0 PF (Nat.min f G) c (bitwise_loop U op f c).
Proof. induction f as [|f IH]; intro c; cbn [bitwise_loop]; start; go. Qed.

Ltac find_spec_expr2 r H :=
  lazymatch r with
  | parse_singular_expression ?E (S ?g) ?x =>
      with_hyp E ltac:(fun g' HE => pose proof (parse_singular_expression_spec E g HE x) as H)
  | mul_loop ?Sg ?f ?x =>
      with_hyp Sg ltac:(fun G HS => pose proof (mul_loop_spec Sg G HS f x) as H)
  | bitwise_loop ?U ?op ?f ?x =>
      with_hyp U ltac:(fun G HU => pose proof (bitwise_loop_spec U G HU op eq_refl f x) as H)
  | _ => find_spec_expr1 r H
  end.
Ltac find_spec r H ::= find_spec_expr2 r H.

Lemma parse_multiplication_spec E g (HE : forall c, spec VT 4 1 0 PF g c (E c)) c :
  spec VT 4 1 0 PF (S g) c (parse_multiplication E (S g) c).
Proof.
  pose proof (parse_singular_expression_spec E g HE) as HS.
  unfold parse_multiplication; start; go.
Qed.

Lemma add_loop_spec M U g
    (HM : forall c, spec VT 4 1 0 PF (S g) c (M c))
    (HU : forall c, spec VT 4 1 0 PF (S g) c (U c)) :
  forall f c, spec VT 4 0 0 PF (Nat.min f (S g)) c (add_loop M U f c).
Proof. induction f as [|f IH]; intro c; cbn [add_loop]; start; go. Qed.

Lemma parse_addition_spec E g (HE : forall c, spec VT 4 1 0 PF g c (E c)) c :
  spec VT 4 1 0 PF (S g) c (parse_addition E (S g) c).
Proof.
  pose proof (parse_multiplication_spec E g HE) as HM.
  pose proof (parse_unary_expression_spec E g HE) as HU.
  unfold parse_addition; start.
  get_spec (parse_multiplication E (S g) c).
  remember (parse_multiplication E (S g) c) as X eqn:HX in *; clear HX.
  destruct (rs X) eqn:Hs;
    [ rewrite (push_bind_ok _ X _ Hs); cbv beta; simp_status
    | rewrite (push_bind_nok _ X _) by (rewrite Hs; discriminate); leaf .. ].
  pose proof (add_loop_spec _ _ g HM HU (S g) (rc X)) as Hl. open_spec Hl.
  remember (add_loop (parse_multiplication E (S g)) (parse_unary_expression E (S g)) (S g) (rc X))
    as Y eqn:HY in *; clear HY.
  destruct (rs Y) eqn:Hs'; leaf.
Qed.

Lemma parse_expression_spec : forall f c, spec VT 4 1 0 PF f c (parse_expression f c).
Proof.
  induction f as [|f IH]; intro c; cbn [parse_expression].
  - start; go.
  - apply parse_addition_spec; assumption.
Qed.

Lemma parse_comparison_spec E g (HE : forall c, spec VT 4 1 0 PF g c (E c)) c :
  spec VT 4 1 0 PF g c (parse_comparison E c).
Proof. unfold parse_comparison; start; go. Qed.

Ltac find_spec_expr r H :=
  lazymatch r with
  | parse_expression ?f ?x => pose proof (parse_expression_spec f x) as H
  | parse_comparison ?E ?x =>
      with_hyp E ltac:(fun g HE => pose proof (parse_comparison_spec E g HE x) as H)
  | _ => find_spec_expr2 r H
  end.
Ltac find_spec r H ::= find_spec_expr r H.

(* ------------------------------------------------------------------------- *)
(* Token arrays as the lexer produces them: real tokens, then exactly two
   EndOfSource tokens (lexer/tokens.rs push_end_of_source). *)

Definition lexed (body : list tkind) : list btok := map T body ++ [EOS; EOS].

Lemma room_firstn_le : forall l k, room (firstn k l) <= k.
Proof.
  induction l as [|t l IH]; intros [|k]; cbn [firstn room]; try lia.
  destruct t; [specialize (IH k); lia|lia].
Qed.

Lemma length_lexed body : length (lexed body) = length body + 2.
Proof. unfold lexed. rewrite app_length, map_length. reflexivity. Qed.

Lemma room_skipn_lexed : forall body p,
  p <= length body -> room (skipn p (lexed body)) = length body - p.
Proof.
  unfold lexed. induction body as [|k body IH]; intros p Hp.
  - cbn [length] in Hp. replace p with 0 by lia. reflexivity.
  - destruct p as [|p]; cbn [map app skipn room length].
    + specialize (IH 0 ltac:(lia)). cbn [skipn] in IH. lia.
    + apply IH. cbn [length] in Hp. lia.
Qed.

Lemma find_idx_lexed q : forall body p,
  p <= length body ->
  exists k, find_idx q (skipn p (lexed body)) = Some k /\ p + k <= length body.
Proof.
  unfold lexed. induction body as [|t body IH]; intros p Hp.
  - cbn [length] in Hp. replace p with 0 by lia. cbn [map app skipn find_idx is_eos].
    rewrite orb_true_r. exists 0. cbn [length]. split; [reflexivity|lia].
  - destruct p as [|p]; cbn [map app skipn length].
    + cbn [find_idx]. destruct (q (T t) || is_eos (T t)).
      * exists 0. split; [reflexivity|lia].
      * destruct (IH 0 ltac:(lia)) as [k [Hk Hle]]. cbn [skipn] in Hk. rewrite Hk.
        exists (S k). split; [reflexivity|lia].
    + cbn [length] in Hp. destruct (IH p ltac:(lia)) as [k [Hk Hle]].
      exists k. split; [assumption|lia].
Qed.

Lemma find_next_lexed q body from :
  from <= length body ->
  exists e, find_next q (lexed body) from = Some e /\ from <= e <= length body.
Proof.
  intros H. destruct (find_idx_lexed q body from H) as [k [Hk Hle]].
  unfold find_next. rewrite Hk. exists (from + k). split; [reflexivity|lia].
Qed.

Lemma find_next_lexed_last q body :
  find_next q (lexed body) (S (length body)) = Some (S (length body)).
Proof.
  unfold find_next, lexed.
  replace (skipn (S (length body)) (map T body ++ [EOS; EOS])) with [EOS].
  - cbn [find_idx is_eos]. rewrite orb_true_r. f_equal. lia.
  - rewrite skipn_app, map_length.
    rewrite skipn_all2 by (rewrite map_length; lia).
    replace (S (length body) - length body) with 1 by lia. reflexivity.
Qed.

Section Stmt.
  Variable body : list tkind.
  Let ts := lexed body.
  Let n := length body.

  Lemma with_reservation_spec q P G (HP : forall c, spec VT 4 1 0 PF G c (P c)) c :
    spec (Vn n) 4 1 0 PF G c (with_reservation ts q P c).
  Proof.
    unfold with_reservation.
    destruct (find_next q ts (cur c)) as [e|] eqn:Hf.
    - set (ct := mkCur (cur c) (firstn (e - cur c) (skipn (cur c) ts))).
      pose proof (HP ct) as Hr. open_spec Hr.
      pose proof (room_firstn_le (skipn (cur c) ts) (e - cur c)) as Hroom.
      assert (Hfn : phi c = n -> cur c <= e <= n).
      { unfold phi. intros Hphi.
        destruct (find_next_lexed q body (cur c) ltac:(fold n; lia)) as [e' [He' Hle]].
        fold ts in He'. rewrite Hf in He'. injection He' as <-. fold n in Hle. lia. }
      assert (Hrs : forall p, p <= n -> room (skipn p ts) = n - p).
      { intros p Hp. apply room_skipn_lexed. assumption. }
      assert (Hlen : length ts = n + 2) by apply length_lexed.
      remember (P ct) as X eqn:HX in *; clear HX.
      destruct (Nat.ltb (length ts) (cur (rc X))) eqn:Hlt;
        [apply Nat.ltb_lt in Hlt | apply Nat.ltb_ge in Hlt].
      + unfold spec, phi, Vn, VT, PF in *. cbn [rc rn rs cur span ct] in *.
        repeat split; intros; try discriminate; try lia.
      + pose proof (Hrs (cur (rc X))) as Hrs'.
        unfold spec, phi, Vn, VT, PF in *. cbn [rc rn rs cur span ct] in *.
        destruct (rs X) eqn:Hs; simp_status;
          repeat split; intros; simp_status; try discriminate;
          try match goal with Hq : @eq status (Panic _) (Panic _) |- _ => injection Hq as <- end;
          try lia.
    - unfold spec, phi, Vn, VT, PF. cbn [rc rn rs].
      repeat split; intros; try discriminate; try lia.
      exfalso. destruct (find_next_lexed q body (cur c)) as [e' [He' Hle]].
      + fold n. unfold phi in *. lia.
      + fold ts in He'. congruence.
  Qed.
End Stmt.

(* ------------------------------------------------------------------------- *)
(* Statements *)

Ltac find_spec_stmt0 r H :=
  lazymatch r with
  | with_reservation (lexed ?body) ?q ?P ?x =>
      with_hyp P ltac:(fun G HP => pose proof (with_reservation_spec body q P G HP x) as H)
  | _ => find_spec_expr r H
  end.
Ltac find_spec r H ::= find_spec_stmt0 r H.

Lemma block_loop_spec n St g (HSt : forall c, spec (Vn n) 4 0 1 PF g c (St c)) :
  forall f c, spec (Vn n) 4 0 0 PF (Nat.min f g) c (block_loop St f c).
Proof. induction f as [|f IH]; intro c; cbn [block_loop]; start; go. Qed.

Lemma parse_then_spec n St g (HSt : forall c, spec (Vn n) 4 0 1 PF g c (St c)) c :
  spec (Vn n) 4 0 0 PF g c (parse_then St c).
Proof. unfold parse_then; start; go. Qed.

Ltac find_spec_stmt1 r H :=
  lazymatch r with
  | block_loop ?St ?f ?x =>
      match goal with
      | HSt : forall c, spec (Vn ?n) _ _ _ _ ?g c (St c) |- _ =>
          pose proof (block_loop_spec n St g HSt f x) as H
      end
  | parse_then ?St ?x =>
      match goal with
      | HSt : forall c, spec (Vn ?n) _ _ _ _ ?g c (St c) |- _ =>
          pose proof (parse_then_spec n St g HSt x) as H
      end
  | _ => find_spec_stmt0 r H
  end.
Ltac find_spec r H ::= find_spec_stmt1 r H.

Lemma parse_statement_spec body St g
    (HSt : forall c, spec (Vn (length body)) 4 0 1 PF g c (St c)) c :
  spec (Vn (length body)) 4 0 1 PF (S g) c (parse_statement (lexed body) St (S g) c).
Proof.
  pose proof (parse_expression_spec (S g)) as HE.
  pose proof (parse_comparison_spec _ _ HE) as HC.
  unfold parse_statement, assignment_tail; start.
  go.
Qed.

Lemma parse_stmt_spec body :
  forall f c, spec (Vn (length body)) 4 0 1 PF f c (parse_stmt (lexed body) f c).
Proof.
  induction f as [|f IH]; intro c; cbn [parse_stmt].
  - start; go.
  - apply parse_statement_spec; assumption.
Qed.

(* ------------------------------------------------------------------------- *)
(* Declarations *)

Ltac find_spec_decl0 r H :=
  lazymatch r with
  | parse_stmt (lexed ?body) ?f ?x => pose proof (parse_stmt_spec body f x) as H
  | _ => find_spec_stmt1 r H
  end.
Ltac find_spec r H ::= find_spec_decl0 r H.

Lemma body_loop_spec body F :
  forall f c, spec (Vn (length body)) 4 0 3 PF (Nat.min f F) c (body_loop (lexed body) F f c).
Proof. induction f as [|f IH]; intro c; cbn [body_loop]; start; go. Qed.

Lemma parse_function_body_spec body F c :
  spec (Vn (length body)) 4 0 6 PF F c (parse_function_body (lexed body) F c).
Proof.
  unfold parse_function_body; start.
  get_spec (consume KBraceLeft c).
  remember (consume KBraceLeft c) as X eqn:HX in *; clear HX.
  destruct (rs X) eqn:Hs;
    [ rewrite (push_bind_ok _ X _ Hs); cbv beta; simp_status
    | rewrite (push_bind_nok _ X _) by (rewrite Hs; discriminate); leaf .. ].
  pose proof (body_loop_spec body F F (rc X)) as Hl. open_spec Hl.
  remember (body_loop (lexed body) F F (rc X)) as Y eqn:HY in *; clear HY.
  destruct (rs Y) eqn:Hs'; leaf.
Qed.

Lemma parse_identifier_and_type_spec F c :
  spec VT 4 0 4 PF F c (parse_identifier_and_type F c).
Proof. unfold parse_identifier_and_type; start; go. Qed.

Ltac find_spec_decl1 r H :=
  lazymatch r with
  | parse_function_body (lexed ?body) ?F ?x => pose proof (parse_function_body_spec body F x) as H
  | parse_identifier_and_type ?F ?x => pose proof (parse_identifier_and_type_spec F x) as H
  | _ => find_spec_decl0 r H
  end.
Ltac find_spec r H ::= find_spec_decl1 r H.

Lemma params_loop_spec F :
  forall f c, spec VT 4 0 4 PF (Nat.min f F) c (params_loop F f c).
Proof. induction f as [|f IH]; intro c; cbn [params_loop]; start; go. Qed.

Lemma members_loop_spec F :
  forall f c, spec VT 4 0 3 PF (Nat.min f F) c (members_loop F f c).
Proof. induction f as [|f IH]; intro c; cbn [members_loop]; start; go. Qed.

Ltac find_spec_decl2 r H :=
  lazymatch r with
  | params_loop ?F ?f ?x => pose proof (params_loop_spec F f x) as H
  | members_loop ?F ?f ?x => pose proof (members_loop_spec F f x) as H
  | _ => find_spec_decl1 r H
  end.
Ltac find_spec r H ::= find_spec_decl2 r H.

Lemma parse_rest_of_function_signature_spec F c :
  spec VT 4 0 6 PF F c (parse_rest_of_function_signature F c).
Proof. unfold parse_rest_of_function_signature; start; go. Qed.

Lemma parse_struct_members_spec F c :
  spec VT 4 0 7 PF F c (parse_struct_members F c).
Proof. unfold parse_struct_members; start; go. Qed.

Ltac find_spec_decl3 r H :=
  lazymatch r with
  | parse_rest_of_function_signature ?F ?x =>
      pose proof (parse_rest_of_function_signature_spec F x) as H
  | parse_struct_members ?F ?x => pose proof (parse_struct_members_spec F x) as H
  | _ => find_spec_decl2 r H
  end.
Ltac find_spec r H ::= find_spec_decl3 r H.

Lemma parse_import_declaration_spec G c : spec VT 4 3 0 PF G c (parse_import_declaration c).
Proof. unfold parse_import_declaration; start; go. Qed.

Lemma parse_constant_declaration_spec F c :
  spec VT 4 3 0 PF F c (parse_constant_declaration F c).
Proof. unfold parse_constant_declaration; start; go. Qed.

Lemma parse_word_declaration_spec F c : spec VT 4 3 0 PF F c (parse_word_declaration F c).
Proof. unfold parse_word_declaration; start; go. Qed.

Lemma parse_struct_declaration_spec F c : spec VT 4 3 0 PF F c (parse_struct_declaration F c).
Proof. unfold parse_struct_declaration; start; go. Qed.

Lemma function_head_spec F c :
  spec VT 4 0 10 PF F c
    (bind (consume KIdentifier c) (fun c1 => parse_rest_of_function_signature F c1)).
Proof. start; go. Qed.

Lemma spec_weaken n a b k g c r : spec VT a b k PF g c r -> spec (Vn n) a b k PF g c r.
Proof.
  unfold spec, VT, Vn. intros (H1 & H2 & H3 & H4 & H5 & H6 & H7).
  repeat split; auto.
Qed.

Lemma parse_function_declaration_spec body F is_pub pz c :
  spec (Vn (length body)) 4 3 0 PF F c
    (fst (parse_function_declaration (lexed body) F is_pub pz c)).
Proof.
  unfold parse_function_declaration.
  pose proof (function_head_spec F c) as Hh. open_spec Hh.
  remember (bind (consume KIdentifier c) (fun c1 => parse_rest_of_function_signature F c1))
    as R1 eqn:HR in *; clear HR.
  destruct (rs R1) eqn:Hs1; cbn [fst]; simp_status; [| leaf ..].
  case_bool (is KSemicolon (peek (rc R1))); cbn [fst]; [leaf|].
  pose proof (parse_function_body_spec body F (rc R1)) as Hfb. open_spec Hfb.
  remember (parse_function_body (lexed body) F (rc R1)) as RB eqn:HRB in *; clear HRB.
  destruct is_pub, pz; cbn [set_private set_public];
    destruct (rs RB) eqn:Hsb; cbn [fst set_private set_public]; leaf.
Qed.

Definition decl_spec (n F : nat) (c : cursor) (r : res) : Prop :=
  spec (Vn n) 4 0 0 PF F c r
  /\ cur c < cur (rc r)
  /\ (rs r = Ok ->
      exists j, j < cur (rc r) - cur c /\ starts_declaration (nth j (span c) EOS) = true).

Lemma nth_span_0 c : nth 0 (span c) EOS = peek c.
Proof. unfold peek. destruct (span c); reflexivity. Qed.

Lemma nth_span_S c j : nth (S j) (span c) EOS = nth j (span (advance c)) EOS.
Proof. unfold advance; cbn [span]. destruct (span c); [destruct j|]; reflexivity. Qed.

Definition decl_dispatch (ts : list btok) (F : nat) (is_pub pz1 : bool) (c2 : cursor) : res * bool :=
  let c3 := advance c2 in
  match peek c2 with
  | T KImport => (parse_import_declaration c3, pz1)
  | T KConst => (parse_constant_declaration F c3, pz1)
  | T KFn => parse_function_declaration ts F is_pub pz1 c3
  | T KStruct => (parse_struct_declaration F c3, pz1)
  | T KWord8 | T KWord16 | T KWord32 | T KWord64 | T KWord128 =>
      (parse_word_declaration F c3, pz1)
  | _ => (err c3, pz1)
  end.

Lemma decl_dispatch_inner body F is_pub pz1 c2 k :
  peek c2 = T k ->
  spec (Vn (length body)) 4 3 0 PF F (advance c2)
    (fst (decl_dispatch (lexed body) F is_pub pz1 c2))
  /\ (rs (fst (decl_dispatch (lexed body) F is_pub pz1 c2)) = Ok ->
      starts_declaration (peek c2) = true).
Proof.
  intros Hp. unfold decl_dispatch. cbv zeta. rewrite Hp.
  destruct k; cbn [fst];
    try (split; [ | intros _; reflexivity ]);
    try (split; [ | cbn [err rs]; discriminate ]);
    first [ apply spec_weaken, parse_import_declaration_spec
          | apply spec_weaken, parse_constant_declaration_spec
          | apply parse_function_declaration_spec
          | apply spec_weaken, parse_struct_declaration_spec
          | apply spec_weaken, parse_word_declaration_spec
          | idtac ].
  all: rewrite <- push_0; go.
Qed.

(* parse_declaration from the declaring token on *)
Definition dd_spec (n F : nat) (c2 : cursor) (r : res) : Prop :=
  cur c2 < cur (rc r)
  /\ (rn r + 1 <= 4 * N.of_nat (cur (rc r) - cur c2))%N
  /\ (rs r = Ok -> phi c2 = n -> phi (rc r) = phi c2)
  /\ (phi c2 = n -> cur (rc r) <= phi c2 + 1)
  /\ (forall s, rs r = Panic s -> phi c2 = n -> False)
  /\ (rs r = Oof -> phi c2 = n -> F <= room (span c2))
  /\ (rs r = Ok -> starts_declaration (peek c2) = true).

Lemma decl_dispatch_spec body F is_pub pz1 c2 :
  dd_spec (length body) F c2 (fst (decl_dispatch (lexed body) F is_pub pz1 c2)).
Proof.
  destruct (peek c2) as [k|] eqn:Hp.
  - destruct (decl_dispatch_inner body F is_pub pz1 c2 k Hp) as [Hd Hok].
    pose proof (room_T c2 k Hp) as Hroom.
    remember (fst (decl_dispatch (lexed body) F is_pub pz1 c2)) as X eqn:HX in *. clear HX.
    unfold dd_spec, spec, phi, Vn, PF in *. rewrite ?cur_advance in *.
    destruct Hd as (H1 & H2 & H3 & H4 & H5 & H6 & H7).
    destruct (rs X) eqn:Hs; simp_status;
      repeat split; intros; simp_status; try discriminate;
      try match goal with Hq : @eq status (Panic _) (Panic _) |- _ => injection Hq as <- end;
      auto; try lia.
  - pose proof (room_EOS c2 Hp) as Hroom.
    unfold decl_dispatch. rewrite Hp. cbv zeta. cbn [fst err rc rn rs].
    unfold dd_spec, phi, err. cbn [rc rn rs]. rewrite ?cur_advance.
    repeat split; intros; try discriminate; lia.
Qed.

Lemma parse_declaration_eq ts F pz c :
  fst (parse_declaration ts F pz c) =
  let (is_pub, c1) := consume_optional KPub c in
  let (n0, pz1) := if is_pub then set_public pz else set_private pz in
  let (_, c2) := consume_optional KExtern c1 in
  push n0 (fst (decl_dispatch ts F is_pub pz1 c2)).
Proof.
  unfold parse_declaration, decl_dispatch.
  destruct (consume_optional KPub c) as [is_pub c1].
  destruct (if is_pub then set_public pz else set_private pz) as [n0 pz1].
  destruct (consume_optional KExtern c1) as [e c2]. cbv zeta.
  destruct (peek c2) as [[]|]; try reflexivity.
  destruct (parse_function_declaration ts F is_pub pz1 (advance c2)); reflexivity.
Qed.

Lemma parse_declaration_spec body F pz c :
  decl_spec (length body) F c (fst (parse_declaration (lexed body) F pz c)).
Proof.
  rewrite parse_declaration_eq. unfold consume_optional, decl_spec.
  case_bool (is KPub (peek c)).
  - (* pub *)
    case_bool (is KExtern (peek (advance c))).
    + pose proof (decl_dispatch_spec body F true (snd (set_public pz)) (advance (advance c))) as Hd.
      destruct pz; cbn [set_public snd] in *;
      remember (fst (decl_dispatch (lexed body) F true false (advance (advance c)))) as X eqn:HX in *;
      clear HX; unfold dd_spec, spec, phi, Vn, PF in *;
      destruct Hd as (H1 & H2 & H3 & H4 & H5 & H6 & H7);
      cbn [push rc rn rs]; rewrite ?cur_advance in *;
      (destruct (rs X) eqn:Hs; simp_status;
       repeat split; intros; simp_status; try discriminate;
       try match goal with Hq : @eq status (Panic _) (Panic _) |- _ => injection Hq as <- end;
       try lia);
      exists 2; rewrite !nth_span_S, nth_span_0; (split; [lia | auto]).
    + pose proof (decl_dispatch_spec body F true (snd (set_public pz)) (advance c)) as Hd.
      destruct pz; cbn [set_public snd] in *;
      remember (fst (decl_dispatch (lexed body) F true false (advance c))) as X eqn:HX in *;
      clear HX; unfold dd_spec, spec, phi, Vn, PF in *;
      destruct Hd as (H1 & H2 & H3 & H4 & H5 & H6 & H7);
      cbn [push rc rn rs]; rewrite ?cur_advance in *;
      (destruct (rs X) eqn:Hs; simp_status;
       repeat split; intros; simp_status; try discriminate;
       try match goal with Hq : @eq status (Panic _) (Panic _) |- _ => injection Hq as <- end;
       try lia);
      exists 1; rewrite !nth_span_S, nth_span_0; (split; [lia | auto]).
  - case_bool (is KExtern (peek c)).
    + pose proof (decl_dispatch_spec body F false (snd (set_private pz)) (advance c)) as Hd.
      destruct pz; cbn [set_private snd] in *;
      remember (fst (decl_dispatch (lexed body) F false true (advance c))) as X eqn:HX in *;
      clear HX; unfold dd_spec, spec, phi, Vn, PF in *;
      destruct Hd as (H1 & H2 & H3 & H4 & H5 & H6 & H7);
      cbn [push rc rn rs]; rewrite ?cur_advance in *;
      (destruct (rs X) eqn:Hs; simp_status;
       repeat split; intros; simp_status; try discriminate;
       try match goal with Hq : @eq status (Panic _) (Panic _) |- _ => injection Hq as <- end;
       try lia);
      exists 1; rewrite !nth_span_S, nth_span_0; (split; [lia | auto]).
    + pose proof (decl_dispatch_spec body F false (snd (set_private pz)) c) as Hd.
      destruct pz; cbn [set_private snd] in *;
      remember (fst (decl_dispatch (lexed body) F false true c)) as X eqn:HX in *;
      clear HX; unfold dd_spec, spec, phi, Vn, PF in *;
      destruct Hd as (H1 & H2 & H3 & H4 & H5 & H6 & H7);
      cbn [push rc rn rs]; rewrite ?cur_advance in *;
      (destruct (rs X) eqn:Hs; simp_status;
       repeat split; intros; simp_status; try discriminate;
       try match goal with Hq : @eq status (Panic _) (Panic _) |- _ => injection Hq as <- end;
       try lia);
      exists 0; rewrite nth_span_0; (split; [lia | auto]).
Qed.

(* ------------------------------------------------------------------------- *)
(* The declaration loop *)

(* declaration-starting tokens from position [s] on *)
Definition mcount (ts : list btok) (s : nat) : nat :=
  length (filter starts_declaration (skipn s ts)).

Lemma skipn_nth_cons : forall (l : list btok) p,
  p < length l -> skipn p l = nth p l EOS :: skipn (S p) l.
Proof.
  induction l as [|t l IH]; intros p Hp; cbn [length] in Hp; [lia|].
  destruct p as [|p]; [reflexivity|]. cbn [skipn nth]. apply IH. lia.
Qed.

Lemma nth_skipn_add : forall (l : list btok) p j, nth j (skipn p l) EOS = nth (p + j) l EOS.
Proof.
  induction l as [|t l IH]; intros p j.
  - rewrite skipn_nil. destruct j, p; reflexivity.
  - destruct p as [|p]; [reflexivity|]. cbn [skipn plus nth]. apply IH.
Qed.

Lemma peek_skipn l s : peek (mkCur s (skipn s l)) = nth s l EOS.
Proof.
  unfold peek; cbn [span].
  destruct (Nat.lt_ge_cases s (length l)) as [H|H].
  - rewrite (skipn_nth_cons l s H). reflexivity.
  - rewrite skipn_all2 by assumption. now rewrite nth_overflow.
Qed.

Lemma starts_declaration_T t : starts_declaration t = true -> exists k, t = T k.
Proof. destruct t; [eauto|discriminate]. Qed.

Lemma mcount_hit ts p :
  starts_declaration (nth p ts EOS) = true -> mcount ts p = S (mcount ts (S p)).
Proof.
  intros H. unfold mcount.
  destruct (Nat.lt_ge_cases p (length ts)) as [Hl|Hl].
  - rewrite (skipn_nth_cons ts p Hl). cbn [filter]. rewrite H. reflexivity.
  - rewrite nth_overflow in H by assumption. discriminate.
Qed.

Lemma mcount_S_le ts p : mcount ts (S p) <= mcount ts p.
Proof.
  unfold mcount. destruct (Nat.lt_ge_cases p (length ts)) as [Hl|Hl].
  - rewrite (skipn_nth_cons ts p Hl). cbn [filter].
    destruct (starts_declaration (nth p ts EOS)); cbn [length]; lia.
  - rewrite !skipn_all2 by lia. reflexivity.
Qed.

Lemma mcount_mono ts : forall q p, p <= q -> mcount ts q <= mcount ts p.
Proof.
  induction q as [|q IH]; intros p Hp.
  - replace p with 0 by lia. lia.
  - destruct (Nat.eq_dec p (S q)) as [->|Hne]; [lia|].
    specialize (IH p ltac:(lia)). pose proof (mcount_S_le ts q). lia.
Qed.

Lemma mcount_pass ts s p q :
  s <= p -> p < q -> starts_declaration (nth p ts EOS) = true ->
  S (mcount ts q) <= mcount ts s.
Proof.
  intros H1 H2 H3. pose proof (mcount_hit ts p H3).
  pose proof (mcount_mono ts q (S p) ltac:(lia)).
  pose proof (mcount_mono ts p s ltac:(lia)). lia.
Qed.

Lemma find_idx_sound q : forall l k,
  find_idx q l = Some k ->
  k < length l /\ (q (nth k l EOS) || is_eos (nth k l EOS)) = true.
Proof.
  induction l as [|t l IH]; intros k H; cbn [find_idx] in H; [discriminate|].
  destruct (q t || is_eos t) eqn:Ht.
  - injection H as <-. cbn [length nth]. split; [lia|assumption].
  - destruct (find_idx q l) as [k'|] eqn:Hk; [|discriminate]. injection H as <-.
    destruct (IH k' eq_refl) as [H1 H2]. cbn [length nth]. split; [lia|assumption].
Qed.

Lemma find_next_sound q ts from e :
  find_next q ts from = Some e ->
  from <= e /\ (q (nth e ts EOS) || is_eos (nth e ts EOS)) = true.
Proof.
  unfold find_next. destruct (find_idx q (skipn from ts)) as [k|] eqn:Hk; [|discriminate].
  intros [= <-]. destruct (find_idx_sound q _ _ Hk) as [_ H].
  rewrite nth_skipn_add in H. split; [lia|assumption].
Qed.

Lemma nth_lexed_T body p k : nth p (lexed body) EOS = T k -> p < length body.
Proof.
  unfold lexed. intros H. destruct (Nat.lt_ge_cases p (length body)) as [Hl|Hl]; [assumption|].
  rewrite app_nth2 in H by (rewrite map_length; lia). rewrite map_length in H.
  destruct (p - length body) as [|[|[|?]]]; discriminate.
Qed.

Definition aligned_b (ts : list btok) (s : nat) : bool :=
  starts_declaration (nth s ts EOS) || is_eos (nth s ts EOS).

Definition log_ok (n : nat) (d : decl_info) : Prop :=
  d_start d < d_end d /\ d_end d <= n + 1.

Section Loop.
  Variable body : list tkind.
  Let ts := lexed body.
  Let n := length body.
  Variable F : nat.
  Hypothesis HF : n < F.
  Variable cap : N.

  (* One iteration that does not break. *)
  Lemma iteration_facts start pz k :
    nth start ts EOS = T k ->
    let c := mkCur start (skipn start ts) in
    let r := fst (parse_declaration ts F pz c) in
    start < cur (rc r) /\ cur (rc r) <= n + 1
    /\ (rn r <= 4 * N.of_nat (cur (rc r) - start))%N
    /\ (rs r = Ok \/ rs r = Err)
    /\ (rs r = Ok -> exists p, start <= p < cur (rc r)
                                /\ starts_declaration (nth p ts EOS) = true)
    /\ exists nxt, find_next starts_declaration ts (cur (rc r)) = Some nxt
                   /\ cur (rc r) <= nxt /\ nxt <= n + 1
                   /\ aligned_b ts nxt = true.
  Proof.
    intros Hk c r.
    pose proof (nth_lexed_T body start k Hk) as Hlt. fold n in Hlt.
    pose proof (parse_declaration_spec body F pz c) as [Hs [Hadv Hok]].
    fold ts r in Hs, Hadv, Hok.
    assert (Hphi : phi c = n).
    { unfold phi, c; cbn [cur span]. unfold ts. rewrite room_skipn_lexed by (fold n; lia).
      fold n. lia. }
    assert (Hroom : room (span c) = n - start).
    { unfold c; cbn [span]. unfold ts. now rewrite room_skipn_lexed by (fold n; lia). }
    unfold spec, Vn, PF in Hs. destruct Hs as (H1 & H2 & H3 & H4 & H5 & H6 & H7).
    fold n in H4, H5, H6, H7. cbn [cur] in *.
    assert (Hst : rs r = Ok \/ rs r = Err).
    { destruct (rs r) eqn:Hrs; auto.
      - specialize (H7 eq_refl Hphi). lia.
      - exfalso. exact (H6 _ eq_refl Hphi). }
    assert (Hend : cur (rc r) <= n + 1) by (specialize (H5 Hphi); lia).
    repeat split; try assumption; try lia.
    - replace (cur c) with start in H2 by reflexivity.
      replace (4 * N.of_nat (cur (rc r) - start) + 0)%N with (4 * N.of_nat (cur (rc r) - start))%N in H2 by lia.
      exact H2.
    - intros Hrs. destruct (Hok Hrs) as [j [Hj Hsd]].
      exists (start + j). unfold c in Hsd; cbn [span] in Hsd. rewrite nth_skipn_add in Hsd.
      unfold c in Hj; cbn [cur] in Hj. split; [lia|assumption].
    - destruct (Nat.le_gt_cases (cur (rc r)) n) as [Hle|Hgt].
      + destruct (find_next_lexed starts_declaration body (cur (rc r)) ltac:(fold n; lia))
          as [e [He Hbe]].
        fold ts n in He, Hbe. exists e. destruct (find_next_sound _ _ _ _ He) as [_ Hal].
        repeat split; try assumption; lia.
      + assert (Heq : cur (rc r) = S n) by lia.
        pose proof (find_next_lexed_last starts_declaration body) as He. fold ts n in He.
        exists (S n). rewrite Heq. destruct (find_next_sound _ _ _ _ He) as [_ Hal].
        repeat split; try assumption; lia.
  Qed.

  Lemma decl_loop_ok : forall iters start pz nd,
    start <= n + 1 ->
    (N.of_nat (mcount ts start) + nd <= cap)%N ->
    let out := decl_loop ts F cap iters start pz nd in
    (l_nodes out <= 4 * N.of_nat (n + 1 - start))%N
    /\ start <= l_final out /\ l_final out <= n + 1
    /\ Forall (log_ok n) (l_log out)
    /\ l_status out = Ok
    /\ (N.of_nat (mcount ts start) >= l_decls out)%N
    /\ (mcount ts start + (if aligned_b ts start then 1 else 2) <= iters ->
        nth (l_final out) ts EOS = EOS).
  Proof.
    induction iters as [|i IH]; intros start pz nd Hstart Hcap; cbn [decl_loop].
    - cbn [l_nodes l_final l_log l_status l_decls]. repeat split; try lia; auto.
      destruct (aligned_b ts start); lia.
    - assert (Hlen : length ts = n + 2) by apply length_lexed.
      destruct (Nat.ltb (length ts) start) eqn:Hlt;
        [apply Nat.ltb_lt in Hlt; lia | clear Hlt].
      rewrite peek_skipn.
      destruct (nth start ts EOS) as [k|] eqn:Hk.
      + (* a declaration is parsed *)
        destruct (iteration_facts start pz k Hk)
          as (Hadv & Hend & Hn & Hst & Hok & nxt & Hfind & Hnx1 & Hnx2 & Hal).
        destruct (parse_declaration ts F pz (mkCur start (skipn start ts))) as [r pz'] eqn:Hpd.
        cbn [fst] in *.
        assert (Hm : mcount ts nxt <= mcount ts start) by (apply mcount_mono; lia).
        destruct Hst as [Hrs|Hrs]; rewrite Hrs in *; cbn [andb].
        * (* Ok: finish_declaration *)
          destruct (Hok eq_refl) as [p [Hp Hsd]].
          pose proof (mcount_pass ts start p nxt ltac:(lia) ltac:(lia) Hsd) as Hpass.
          destruct (N.leb cap nd) eqn:Hcn; [apply N.leb_le in Hcn; lia|].
          rewrite Hfind.
          specialize (IH nxt pz' (nd + 1)%N Hnx2 ltac:(lia)).
          destruct IH as (I1 & I2 & I3 & I4 & I5 & I6 & I7).
          unfold add_iter; cbn [l_nodes l_final l_log l_status l_decls d_nodes d_status].
          repeat split; try lia; auto.
          -- constructor; [|assumption]. unfold log_ok; cbn [d_start d_end]. lia.
          -- intros Hit. apply I7. rewrite Hal.
             destruct (aligned_b ts start); lia.
        * (* Err: store_error *)
          rewrite Hfind.
          specialize (IH nxt pz' nd Hnx2 ltac:(lia)).
          destruct IH as (I1 & I2 & I3 & I4 & I5 & I6 & I7).
          unfold add_iter; cbn [l_nodes l_final l_log l_status l_decls d_nodes d_status].
          repeat split; try lia; auto.
          -- constructor; [|assumption]. unfold log_ok; cbn [d_start d_end]. lia.
          -- intros Hit. apply I7. rewrite Hal.
             unfold aligned_b in Hit. rewrite Hk in Hit. cbn [is_eos] in Hit. rewrite orb_false_r in Hit.
             destruct (starts_declaration (T k)) eqn:Hsd.
             ++ pose proof (mcount_pass ts start start nxt ltac:(lia) ltac:(lia)
                              ltac:(rewrite Hk; exact Hsd)). lia.
             ++ lia.
      + (* break *)
        cbn [l_nodes l_final l_log l_status l_decls]. repeat split; try lia; auto.
  Qed.
End Loop.

(* ------------------------------------------------------------------------- *)
(* Main theorems *)

(* What delta::lexer::lex produces when it reports no error. *)
Definition lexer_shaped (ts : list btok) : Prop := exists body, ts = lexed body.

Lemma mcount_0 ts : mcount ts 0 = num_possible_declarations ts.
Proof. reflexivity. Qed.

Lemma aligned_slack ts : (if aligned_b ts 0 then 1 else 2) <= 2.
Proof. destruct (aligned_b ts 0); lia. Qed.

Lemma parse_full_unfold ts :
  ts <> [] ->
  parse_full ts =
    let npd := num_possible_declarations ts in
    let l := decl_loop ts (fuel_for ts) (N.of_nat npd) (npd + 2) 0 false 0%N in
    let st :=
      match l_status l with
      | Ok =>
          if Nat.ltb (length ts) (l_final l) then Panic P_SLICE
          else match peek (mkCur (l_final l) (skipn (l_final l) ts)) with
               | EOS => Ok
               | T _ => Panic P_ASSERT_EOS
               end
      | s => s
      end in
    mkOutcome (MAX_PARSE_NODE_CONTEXT + l_nodes l)%N (l_errs l)
              (N.min (l_errs l) (N.min (capacity ts) MAX_NUM_PARSING_ERRORS))
              (l_decls l) (l_final l) st (l_log l).
Proof. destruct ts; [congruence|reflexivity]. Qed.

Theorem parse_full_lexed body :
  let ts := lexed body in
  let o := parse_full ts in
  o_status o = Ok
  /\ (o_nodes o <= 1 + 4 * N.of_nat (length ts))%N
  /\ (o_decls o <= N.of_nat (num_possible_declarations ts))%N
  /\ o_final o < length ts
  /\ nth (o_final o) ts EOS = EOS
  /\ Forall (fun d => d_start d < d_end d /\ d_end d < length ts) (o_log o).
Proof.
  intros ts o.
  assert (Hlen : length ts = length body + 2) by apply length_lexed.
  assert (Hne : ts <> []) by (intros E; rewrite E in Hlen; cbn [length] in Hlen; lia).
  unfold o. rewrite (parse_full_unfold ts Hne). cbv zeta.
  pose proof (decl_loop_ok body (fuel_for ts) ltac:(unfold fuel_for; fold ts; lia)
                (N.of_nat (num_possible_declarations ts))
                (num_possible_declarations ts + 2) 0 false 0%N ltac:(lia)
                ltac:(fold ts; rewrite mcount_0; lia)) as H.
  fold ts in H. cbv zeta in H.
  destruct H as (H1 & H2 & H3 & H4 & H5 & H6 & H7).
  specialize (H7 ltac:(rewrite mcount_0; pose proof (aligned_slack ts); lia)).
  remember (decl_loop ts (fuel_for ts) (N.of_nat (num_possible_declarations ts))
              (num_possible_declarations ts + 2) 0 false 0%N) as l eqn:Hl. clear Hl.
  cbn [o_status o_nodes o_decls o_final o_log]. rewrite H5.
  destruct (Nat.ltb (length ts) (l_final l)) eqn:Hlt; [apply Nat.ltb_lt in Hlt; lia|].
  rewrite peek_skipn, H7.
  change (mcount ts 0) with (num_possible_declarations ts) in H6.
  repeat split; try lia; try assumption.
  - unfold MAX_PARSE_NODE_CONTEXT. lia.
  - eapply Forall_impl; [|exact H4]. unfold log_ok. intros d [Ha Hb]. lia.
Qed.

(* 2. The node bound, against a capacity parameterised by its factor:
      MAX_PARSE_NODE_CONTEXT + 4 * base_tokens().len() is always enough. *)
Theorem nodes_within_capacity ts :
  lexer_shaped ts ->
  (o_nodes (parse_full ts) <= node_capacity 4 5 (N.of_nat (length ts)))%N.
Proof.
  intros [body ->]. pose proof (parse_full_lexed body) as H. cbv zeta in H.
  destruct H as (_ & H & _). unfold node_capacity. lia.
Qed.

Corollary node_bound ts :
  lexer_shaped ts ->
  (fst (fst (parse_nodes ts)) <= 5 + 4 * N.of_nat (length ts))%N.
Proof. intros H. apply nodes_within_capacity in H. unfold node_capacity in H. exact H. Qed.

Corollary never_overflows ts : lexer_shaped ts -> overflows ts = false.
Proof.
  intros H. apply nodes_within_capacity in H. unfold overflows, capacity.
  apply N.ltb_ge. unfold MAX_PARSE_NODE_CONTEXT. exact H.
Qed.

(* 3. + 5. No modelled panic can fire: in particular the assert_eq! after the
   declaration loop holds (the cursor is at EndOfSource), skip_until finds an
   EndOfSource, no slice is out of range, finish_declaration has room, and
   Tokens::consume never reaches unreachable!() with the repaired table.
   Also: the model never runs out of fuel. *)
Theorem parse_never_panics ts : lexer_shaped ts -> o_status (parse_full ts) = Ok.
Proof. intros [body ->]. apply (parse_full_lexed body). Qed.

Corollary decl_loop_reaches_eos ts :
  lexer_shaped ts -> nth (o_final (parse_full ts)) ts EOS = EOS.
Proof. intros [body ->]. apply (parse_full_lexed body). Qed.

Corollary parse_complete ts : lexer_shaped ts -> snd (parse_nodes ts) = true.
Proof.
  intros H. unfold parse_nodes; cbn [snd]. now rewrite (parse_never_panics ts H).
Qed.

Corollary parse_panics_none ts : lexer_shaped ts -> parse_panics ts = None.
Proof. intros H. unfold parse_panics. now rewrite (parse_never_panics ts H). Qed.

(* 4. The cursor stays inside the token array: every declaration iteration
   starts before it ends and ends before the last EndOfSource; inside an
   iteration the cursor only grows (first clause of [spec]). *)
Theorem cursor_in_bounds ts :
  lexer_shaped ts ->
  o_final (parse_full ts) < length ts
  /\ Forall (fun d => d_start d < d_end d /\ d_end d < length ts) (o_log (parse_full ts)).
Proof. intros [body ->]. pose proof (parse_full_lexed body) as H. cbv zeta in H. tauto. Qed.

Theorem declarations_fit ts :
  lexer_shaped ts ->
  (o_decls (parse_full ts) <= N.of_nat (num_possible_declarations ts))%N.
Proof. intros [body ->]. apply (parse_full_lexed body). Qed.

(* The per-production form of the bound, for the expression sub-grammar and for
   statements: nodes <= 4 * tokens taken (+ 1 for expressions), whatever the
   input and the fuel. *)
Theorem expression_node_bound f c :
  let r := parse_expression f c in
  cur c <= cur (rc r) /\ (rn r <= 4 * N.of_nat (cur (rc r) - cur c) + 1)%N.
Proof. pose proof (parse_expression_spec f c) as H. unfold spec in H. cbv zeta. tauto. Qed.

Theorem statement_node_bound body f c :
  let r := parse_stmt (lexed body) f c in
  cur c <= cur (rc r) /\ (rn r <= 4 * N.of_nat (cur (rc r) - cur c))%N.
Proof.
  pose proof (parse_stmt_spec body f c) as H. unfold spec in H. cbv zeta.
  destruct H as (H1 & H2 & _). split; [assumption|lia].
Qed.

(* ------------------------------------------------------------------------- *)
(* Refutations and witnesses *)

Definition lx (l : list tkind) : list btok := lexed l.
Definition kx := KIdentifier.

(* `fn f(){x=x;}` : 10 tokens + 2 EndOfSource, 31 nodes > 5 + 2 * 12 = 29. *)
Definition witness_pinned : list btok :=
  lx [KFn; kx; KParenLeft; KParenRight; KBraceLeft; kx; KAssignment; kx; KSemicolon; KBraceRight].

Example witness_pinned_counts :
  parse_nodes witness_pinned = (31%N, 0%N, true) /\ capacity_pinned witness_pinned = 29%N.
Proof. vm_compute. split; reflexivity. Qed.

(* 1. The capacity of the pinned commit (factor 2) is too small. *)
Theorem node_bound_pinned_refuted :
  exists ts, lexer_shaped ts /\
    (o_nodes (parse_full ts) > node_capacity 2 5 (N.of_nat (length ts)))%N.
Proof.
  exists witness_pinned. split; [eexists; reflexivity|]. vm_compute. reflexivity.
Qed.

Theorem node_bound_2_refuted :
  exists ts, lexer_shaped ts /\
    (fst (fst (parse_nodes ts)) > 5 + 2 * N.of_nat (length ts))%N.
Proof.
  exists witness_pinned. split; [eexists; reflexivity|]. vm_compute. reflexivity.
Qed.

(* `fn f(){x=x+x+x+x+x+x+x` (no semicolon): 20 tokens + 2 EndOfSource,
   72 nodes > 5 + 3 * 22 = 71: no factor below 4 works with the constant 5. *)
Definition witness_3 : list btok :=
  lx ([KFn; kx; KParenLeft; KParenRight; KBraceLeft; kx; KAssignment; kx]
      ++ concat (repeat [KPlus; kx] 6)).

Theorem node_bound_3_refuted :
  exists ts, lexer_shaped ts /\
    (o_nodes (parse_full ts) > node_capacity 3 5 (N.of_nat (length ts)))%N.
Proof.
  exists witness_3. split; [eexists; reflexivity|]. vm_compute. reflexivity.
Qed.

(* Whatever the additive constant, factor 3 fails on a long enough sum:
   here with constant 1000. *)
Example factor_3_fails_with_constant_1000 :
  let ts := lx ([KFn; kx; KParenLeft; KParenRight; KBraceLeft; kx; KAssignment; kx]
                ++ concat (repeat [KPlus; kx] 520)) in
  (o_nodes (parse_full ts) > node_capacity 3 1000 (N.of_nat (length ts)))%N.
Proof. vm_compute. reflexivity. Qed.

(* The bound 1 + 4 * len of [parse_full_lexed] is missed by the constant 17 only
   on that family. *)
Example factor_4_is_nearly_attained :
  let ts := lx ([KFn; kx; KParenLeft; KParenRight; KBraceLeft; kx; KAssignment; kx]
                ++ concat (repeat [KPlus; kx] 100)) in
  (o_nodes (parse_full ts) + 17 = 1 + 4 * N.of_nat (length ts))%N.
Proof. vm_compute. reflexivity. Qed.

(* 4'. Two EndOfSource tokens are needed: with a single one, `fn` alone makes
   skip_until run off the array ("there is always an EndOfSource token"). *)
Example one_eos_insufficient :
  o_status (parse_full [T KFn; EOS]) = Panic P_SKIP_UNTIL.
Proof. vm_compute. reflexivity. Qed.

Example empty_array_panics : o_status (parse_full []) = Panic P_FIRST_TOKEN.
Proof. reflexivity. Qed.

(* Tokens::empty_with_one_error is [Error] without any EndOfSource: parse must
   not be called on it (all callers test tokens.errors() first). *)
Example error_only_array_panics : o_status (parse_full [T KError]) = Panic P_SKIP_UNTIL.
Proof. vm_compute. reflexivity. Qed.

(* 5. The expectation table: complete now, incomplete in the pinned commit. *)
Lemma expectation_table_complete :
  forallb in_expectation_table consumed_kinds = true.
Proof. reflexivity. Qed.

Lemma expectation_table_pinned_incomplete :
  in_expectation_table_pinned KColon = false /\ in_expectation_table_pinned KComma = false.
Proof. split; reflexivity. Qed.

(* The hypotheses are satisfiable by non-trivial inputs. *)
Example lexer_shaped_witness : lexer_shaped witness_3.
Proof. eexists; reflexivity. Qed.

Example two_declarations :
  decl_node_counts (lx [KPub; KFn; kx; KParenLeft; KParenRight; KBraceLeft; KBraceRight;
                        KStruct; kx; KBraceLeft; kx; KColon; KType; KBraceRight])
  = [14%N; 10%N].
Proof. vm_compute. reflexivity. Qed.

Print Assumptions nodes_within_capacity.
Print Assumptions parse_never_panics.
Print Assumptions decl_loop_reaches_eos.
Print Assumptions cursor_in_bounds.
Print Assumptions parse_complete.
Print Assumptions declarations_fit.
Print Assumptions node_bound_pinned_refuted.
Print Assumptions node_bound_3_refuted.
Print Assumptions expression_node_bound.
Print Assumptions statement_node_bound.
