(* Proofs about Model/LabelScope.v: the reverse stack scan of the code computes
   exactly the forward "later in the same or an enclosing block" specification. *)
From PV Require Import Base.Common Model.LabelScope.

Section stmt_ind2.
  Variable P : stmt -> Prop.
  Hypothesis HL : forall l, P (SLabel l).
  Hypothesis HG : forall l, P (SGoto l).
  Hypothesis HI1 : forall t, P t -> P (SIf t None).
  Hypothesis HI2 : forall t e, P t -> P e -> P (SIf t (Some e)).
  Hypothesis HB : forall b, Forall P b -> P (SBlock b).
  Hypothesis HO : P SOther.
  Fixpoint stmt_ind2 (s : stmt) : P s :=
    match s with
    | SLabel l => HL l
    | SGoto l => HG l
    | SIf t None => HI1 t (stmt_ind2 t)
    | SIf t (Some e) => HI2 t e (stmt_ind2 t) (stmt_ind2 e)
    | SBlock b => HB b ((fix go (l : list stmt) : Forall P l :=
                           match l with
                           | [] => Forall_nil P
                           | x :: xs => Forall_cons x (stmt_ind2 x) (go xs)
                           end) b)
    | SOther => HO
    end.
End stmt_ind2.

Lemma scan_block b st :
  scan_stmt (SBlock b) st =
  let '(st1, c) := scan_rev b (st ++ [[]]) in (removelast st1, c).
Proof. reflexivity. Qed.

Lemma spec_block b V : spec_stmt (SBlock b) V = spec_list b V.
Proof.
  cbn [spec_stmt]. induction b as [|s rest IH]; cbn [spec_list]; [reflexivity|].
  now rewrite IH.
Qed.

(* The specification only looks at membership in V. *)
Definition same_set (V W : list name) : Prop := forall l, mem_name l V = mem_name l W.

Lemma same_set_app_l A V W : same_set V W -> same_set (A ++ V) (A ++ W).
Proof. intros H l. rewrite !mem_name_app. now rewrite H. Qed.

Lemma spec_stmt_ext : forall s V W, same_set V W -> spec_stmt s V = spec_stmt s W.
Proof.
  induction s as [l|l|t IHt|t e IHt IHe|b IHb|] using stmt_ind2; intros V W H.
  - cbn [spec_stmt]. now rewrite H.
  - cbn [spec_stmt]. now rewrite H.
  - cbn [spec_stmt]. now rewrite (IHt V W H).
  - cbn [spec_stmt]. rewrite (IHt V W H).
    now rewrite (IHe _ _ (same_set_app_l (labels_of t) V W H)).
  - rewrite !spec_block. induction IHb as [|s rest Hs _ IH]; [reflexivity|].
    cbn [spec_list]. rewrite IH.
    now rewrite (Hs _ _ (same_set_app_l (later rest) V W H)).
  - reflexivity.
Qed.

(* Shape of the stack: frames below the last one never change; the last frame
   grows by the labels the statement declares in its own block. *)
Lemma push_last_snoc fs f l : push_last l (fs ++ [f]) = fs ++ [f ++ [l]].
Proof.
  induction fs as [|g fs IH]; [reflexivity|].
  change ((g :: fs) ++ [f]) with (g :: (fs ++ [f])).
  change ((g :: fs) ++ [f ++ [l]]) with (g :: (fs ++ [f ++ [l]])).
  rewrite <- IH. destruct (fs ++ [f]) eqn:E; [destruct fs; discriminate|reflexivity].
Qed.

Lemma in_stack_app l a b : in_stack l (a ++ b) = in_stack l a || in_stack l b.
Proof. unfold in_stack. apply existsb_app. Qed.

Lemma in_stack_concat l st : in_stack l st = mem_name l (concat st).
Proof.
  induction st as [|f st IH]; [reflexivity|].
  cbn [in_stack existsb concat]. rewrite mem_name_app. now rewrite <- IH.
Qed.

Lemma removelast_snoc {A} (l : list A) x : removelast (l ++ [x]) = l.
Proof. apply removelast_last. Qed.

(* Flat view of a stack as a set of visible names. *)
Definition vis (st : stack) : list name := concat st.

Lemma vis_snoc fs f : vis (fs ++ [f]) = vis fs ++ f.
Proof. unfold vis. rewrite concat_app. cbn. now rewrite app_nil_r. Qed.

Lemma same_set_refl V : same_set V V.
Proof. intros l; reflexivity. Qed.

Lemma same_set_perm_tail A B C : same_set (A ++ B ++ C) (C ++ A ++ B) .
Proof. intros l. rewrite !mem_name_app. destruct (mem_name l A), (mem_name l B), (mem_name l C); reflexivity. Qed.

(* Main lemma: on a non-empty stack, scanning statement [s] extends the last
   frame by [rev (labels_of s)] and emits the specification's codes for the set
   of names on the stack. *)
Theorem scan_stmt_spec : forall s fs f,
  scan_stmt s (fs ++ [f]) =
    (fs ++ [f ++ rev (labels_of s)], spec_stmt s (vis (fs ++ [f]))).
Proof.
  induction s as [l|l|t IHt|t e IHt IHe|b IHb|] using stmt_ind2; intros fs f.
  - cbn [scan_stmt labels_of spec_stmt rev app]. unfold declare_label.
    rewrite push_last_snoc. now rewrite in_stack_concat.
  - cbn [scan_stmt labels_of spec_stmt rev app]. unfold use_label.
    rewrite app_nil_r. now rewrite in_stack_concat.
  - cbn [scan_stmt labels_of spec_stmt]. rewrite IHt. cbn [app]. now rewrite app_nil_r.
  - cbn [scan_stmt labels_of spec_stmt]. rewrite IHt, IHe.
    rewrite rev_app_distr, app_assoc. f_equal. f_equal.
    apply spec_stmt_ext. intros l. rewrite !vis_snoc, !mem_name_app.
    rewrite mem_name_rev.
    destruct (mem_name l (vis fs)), (mem_name l f), (mem_name l (labels_of t)); reflexivity.
  - rewrite scan_block, spec_block. cbn [labels_of rev app]. rewrite app_nil_r.
    assert (H : forall g, scan_rev b ((fs ++ [f]) ++ [g]) =
                 ((fs ++ [f]) ++ [g ++ rev (later b)],
                  spec_list b (vis ((fs ++ [f]) ++ [g])))).
    { induction IHb as [|s rest Hs _ IH]; intros g.
      - cbn [scan_rev later flat_map rev spec_list]. now rewrite app_nil_r.
      - cbn [scan_rev spec_list later flat_map]. fold (later rest).
        rewrite IH, Hs. rewrite rev_app_distr, app_assoc. f_equal. f_equal.
        apply spec_stmt_ext. intros l.
        rewrite !vis_snoc, !mem_name_app.
        rewrite mem_name_rev.
        destruct (mem_name l (vis fs)), (mem_name l f), (mem_name l g),
                 (mem_name l (later rest)); reflexivity. }
    rewrite H. rewrite removelast_snoc. f_equal.
    rewrite vis_snoc with (f := []). now rewrite app_nil_r.
  - cbn [scan_stmt labels_of rev spec_stmt]. now rewrite app_nil_r.
Qed.

Lemma scan_rev_spec : forall b fs f,
  scan_rev b (fs ++ [f]) =
    (fs ++ [f ++ rev (later b)], spec_list b (vis (fs ++ [f]))).
Proof.
  induction b as [|s rest IH]; intros fs f.
  - cbn [scan_rev later flat_map rev spec_list]. now rewrite app_nil_r.
  - cbn [scan_rev spec_list later flat_map]. fold (later rest).
    rewrite IH, scan_stmt_spec. rewrite rev_app_distr, app_assoc. f_equal. f_equal.
    apply spec_stmt_ext. intros l.
    rewrite !vis_snoc, !mem_name_app.
    rewrite mem_name_rev.
    destruct (mem_name l (vis fs)), (mem_name l f), (mem_name l (later rest)); reflexivity.
Qed.

(* The analyzer's verdict on a function body is the specification's. *)
Theorem scan_body_eq_spec : forall body, scan_body body = spec_body body.
Proof.
  intros body. unfold scan_body, spec_body.
  change [[]] with (@nil (list name) ++ [[]]). now rewrite scan_rev_spec.
Qed.

(* One analyzer for a whole program: nothing leaks between functions. *)
Theorem scan_program_eq_spec : forall bodies,
  scan_program bodies [] = spec_program bodies.
Proof.
  induction bodies as [|b rest IH]; [reflexivity|].
  cbn [scan_program spec_program flat_map].
  rewrite (scan_rev_spec b [] []), removelast_snoc. fold (spec_program rest).
  now rewrite IH.
Qed.


(* ---- Declarative reading -------------------------------------------------- *)
(* [V] is the set of labels that appear later in the same block or later in an
   enclosing block.  [legal_stmt s V]: every goto in [s] names a member of the V
   of its own position, and no label's name is in the V of its position. *)
Fixpoint legal_stmt (s : stmt) (V : list name) {struct s} : Prop :=
  match s with
  | SLabel l => ~ In l V
  | SGoto l => In l V
  | SIf t e =>
      legal_stmt t V /\
      match e with Some e' => legal_stmt e' (labels_of t ++ V) | None => True end
  | SBlock b =>
      let fix legal_list (ss : list stmt) : Prop :=
        match ss with
        | [] => True
        | s :: rest => legal_stmt s (later rest ++ V) /\ legal_list rest
        end in
      legal_list b
  | SOther => True
  end.

Fixpoint legal_list (ss : list stmt) (V : list name) : Prop :=
  match ss with
  | [] => True
  | s :: rest => legal_stmt s (later rest ++ V) /\ legal_list rest V
  end.

Lemma legal_block b V : legal_stmt (SBlock b) V <-> legal_list b V.
Proof.
  cbn [legal_stmt]. induction b as [|s rest IH]; cbn [legal_list]; [reflexivity|].
  now rewrite IH.
Qed.

Lemma app_nil_iff {A} (a b : list A) : a ++ b = [] <-> a = [] /\ b = [].
Proof. split; [apply app_eq_nil|intros [-> ->]; reflexivity]. Qed.

Lemma spec_nil_iff_legal : forall s V, spec_stmt s V = [] <-> legal_stmt s V.
Proof.
  induction s as [l|l|t IHt|t e IHt IHe|b IHb|] using stmt_ind2; intros V.
  - cbn [spec_stmt legal_stmt]. rewrite <- mem_name_false.
    destruct (mem_name l V); split; intros; congruence.
  - cbn [spec_stmt legal_stmt]. rewrite <- mem_name_In.
    destruct (mem_name l V); split; intros; congruence.
  - cbn [spec_stmt legal_stmt]. rewrite app_nil_r, IHt. tauto.
  - cbn [spec_stmt legal_stmt]. now rewrite app_nil_iff, IHt, IHe.
  - rewrite spec_block, legal_block.
    induction IHb as [|s rest Hs _ IH]; cbn [spec_list legal_list]; [tauto|].
    now rewrite app_nil_iff, Hs, IH.
  - cbn. tauto.
Qed.

Lemma spec_list_nil_iff_legal : forall b V, spec_list b V = [] <-> legal_list b V.
Proof. intros b V. rewrite <- spec_block, <- legal_block. apply spec_nil_iff_legal. Qed.

Theorem accept_iff_legal : forall body, scan_body body = [] <-> legal_list body [].
Proof. intros. rewrite scan_body_eq_spec. apply spec_list_nil_iff_legal. Qed.

(* Only E400 and E420 are ever produced, one per offending goto / label. *)
Fixpoint count_gotos (s : stmt) : nat :=
  match s with
  | SGoto _ => 1
  | SIf t e => count_gotos t + match e with Some e' => count_gotos e' | None => 0 end
  | SBlock b => (fix go (ss : list stmt) := match ss with [] => 0 | s :: r => count_gotos s + go r end) b
  | _ => 0
  end.

Lemma spec_codes_are_E400_E420 : forall s V c, In c (spec_stmt s V) -> c = E400 \/ c = E420.
Proof.
  induction s as [l|l|t IHt|t e IHt IHe|b IHb|] using stmt_ind2; intros V c.
  - cbn [spec_stmt]. destruct (mem_name l V); cbn; intuition.
  - cbn [spec_stmt]. destruct (mem_name l V); cbn; intuition.
  - cbn [spec_stmt]. rewrite app_nil_r. apply IHt.
  - cbn [spec_stmt]. rewrite in_app_iff. intros [H|H]; eauto.
  - rewrite spec_block. revert V. induction IHb as [|s rest Hs _ IH]; intros V; cbn [spec_list].
    + intros [].
    + rewrite in_app_iff. intros [H|H]; eauto.
  - intros [].
Qed.

(* Backward, inward and sibling jumps, stated on concrete shapes for every
   choice of surrounding statements. *)
Lemma backward_jump_rejected : forall pre mid post l,
  ~ In l (later post) ->
  In E400 (spec_body (pre ++ [SLabel l] ++ mid ++ [SGoto l] ++ post)).
Proof.
  intros pre mid post l Hl. unfold spec_body.
  induction pre as [|p pre IH].
  - cbn [app spec_list]. apply in_or_app. right.
    induction mid as [|m mid IHm].
    + cbn [app spec_list spec_stmt]. rewrite app_nil_r.
      apply mem_name_false in Hl. rewrite Hl. now left.
    + cbn [app spec_list]. apply in_or_app. now right.
  - cbn [app spec_list]. apply in_or_app. now right.
Qed.

Lemma inward_jump_rejected : forall pre inner post l,
  ~ In l (later post) ->
  In E400 (spec_body (pre ++ [SGoto l] ++ [SBlock inner] ++ post)).
Proof.
  intros pre inner post l Hl. unfold spec_body.
  induction pre as [|p pre IH].
  - cbn [app spec_list spec_stmt later flat_map labels_of]. rewrite app_nil_r.
    apply mem_name_false in Hl. fold (later post). rewrite Hl. now left.
  - cbn [app spec_list]. apply in_or_app. now right.
Qed.

Lemma forward_jump_accepted : forall mid post l,
  ~ In l (later mid) -> ~ In l (later post) ->
  (forall s, In s mid -> s = SOther) ->
  (forall s, In s post -> s = SOther) ->
  spec_body ([SGoto l] ++ mid ++ [SLabel l] ++ post) = [].
Proof.
  intros mid post l Hm Hp Om Op. unfold spec_body.
  assert (Hpost : forall V, spec_list post V = []).
  { induction post as [|p post IH]; intros V; [reflexivity|].
    cbn [spec_list]. rewrite (Op p (or_introl eq_refl)). cbn [spec_stmt app].
    apply IH; [|intros; apply Op; now right].
    cbn [later flat_map] in Hp. rewrite in_app_iff in Hp. tauto. }
  assert (Hlp : later post = []).
  { clear -Op. induction post as [|p post IH]; [reflexivity|].
    cbn [later flat_map]. rewrite (Op p (or_introl eq_refl)). cbn [labels_of app].
    apply IH. intros; apply Op; now right. }
  cbn [app spec_list spec_stmt].
  assert (Hin : mem_name l (later (mid ++ SLabel l :: post) ++ []) = true).
  { apply mem_name_In. rewrite app_nil_r. unfold later. rewrite flat_map_app.
    apply in_or_app. right. cbn [flat_map labels_of app]. now left. }
  rewrite Hin. cbn [app].
  induction mid as [|m mid IH].
  - cbn [app spec_list spec_stmt]. rewrite Hlp. cbn [app mem_name existsb]. apply Hpost.
  - cbn [app spec_list]. rewrite (Om m (or_introl eq_refl)). cbn [spec_stmt app].
    apply IH.
    + cbn [later flat_map] in Hm. rewrite in_app_iff in Hm. tauto.
    + intros; apply Om; now right.
    + apply mem_name_In. rewrite app_nil_r. unfold later. rewrite flat_map_app.
      apply in_or_app. right. cbn [flat_map labels_of app]. now left.
Qed.
