(* Proofs about Model/Containers.v (property C11). *)
From PV Require Import Base.Common Model.Containers.
From Coq Require Import Permutation Sorted.

Local Open Scope N_scope.

(* ------------------------------------------------------------------------- *)
(* Sets                                                                       *)
(* ------------------------------------------------------------------------- *)

Lemma In_set_union x a b : In x (set_union a b) <-> In x a \/ In x b.
Proof.
  unfold set_union. rewrite in_app_iff, filter_In. split.
  - intros [H|[H _]]; auto.
  - intros [H|H]; [now left|].
    destruct (mem_name x a) eqn:E.
    + left. now apply mem_name_In.
    + right. split; [assumption|reflexivity].
Qed.

Lemma In_set_insert x y a : In x (set_insert y a) <-> x = y \/ In x a.
Proof.
  unfold set_insert. destruct (mem_name y a) eqn:E.
  - apply mem_name_In in E. split; [auto|]. intros [->|H]; assumption.
  - rewrite in_app_iff. cbn [In]. split.
    + intros [H|[H|[]]]; auto.
    + intros [H|H]; auto.
Qed.

Lemma In_set_diff x a b : In x (set_diff a b) <-> In x a /\ ~ In x b.
Proof.
  unfold set_diff. rewrite filter_In. rewrite negb_true_iff, mem_name_false. tauto.
Qed.

(* ------------------------------------------------------------------------- *)
(* find_c / update_first / propagate                                          *)
(* ------------------------------------------------------------------------- *)

Lemma find_c_In id st c : find_c id st = Some c -> In c st /\ c_id c = id.
Proof.
  induction st as [|y r IH]; cbn [find_c]; [discriminate|].
  destruct (N.eqb (c_id y) id) eqn:E.
  - intros [= <-]. apply N.eqb_eq in E. split; [now left|assumption].
  - intros H. destruct (IH H) as [H1 H2]. split; [now right|assumption].
Qed.

Lemma find_c_None id st : find_c id st = None <-> ~ In id (map c_id st).
Proof.
  induction st as [|y r IH]; cbn [find_c map In]; [tauto|].
  destruct (N.eqb (c_id y) id) eqn:E.
  - apply N.eqb_eq in E. split; [discriminate|]. intros H. exfalso. apply H. now left.
  - apply N.eqb_neq in E. rewrite IH. tauto.
Qed.

Lemma find_c_Some_ids id st : In id (map c_id st) -> exists c, find_c id st = Some c.
Proof.
  intros H. destruct (find_c id st) as [c|] eqn:E; [now exists c|].
  apply find_c_None in E. contradiction.
Qed.

Lemma find_c_NoDup st c :
  NoDup (map c_id st) -> In c st -> find_c (c_id c) st = Some c.
Proof.
  induction st as [|y r IH]; cbn [map find_c In]; [tauto|].
  intros Hnd [->|Hin].
  - now rewrite N.eqb_refl.
  - inversion Hnd as [|? ? Hni Hnd']; subst.
    destruct (N.eqb (c_id y) (c_id c)) eqn:E.
    + apply N.eqb_eq in E. exfalso. apply Hni. rewrite E. now apply in_map.
    + now apply IH.
Qed.

Lemma map_id_update id ids st : map c_id (update_first id ids st) = map c_id st.
Proof.
  induction st as [|y r IH]; [reflexivity|]. cbn [update_first].
  destruct (N.eqb (c_id y) id); cbn [map c_id]; [reflexivity|now rewrite IH].
Qed.

Lemma propagate1_id cid tr o : c_id (propagate1 cid tr o) = c_id o.
Proof. unfold propagate1. now destruct (mem_name cid (c_ids o)). Qed.

Lemma map_id_propagate cid tr st : map c_id (propagate cid tr st) = map c_id st.
Proof.
  unfold propagate. rewrite map_map. apply map_ext. intros; apply propagate1_id.
Qed.

Lemma find_c_update id id' ids st :
  find_c id (update_first id' ids st) =
  if N.eqb id id'
  then option_map (fun c => mkC (c_id c) ids (c_struct c)) (find_c id st)
  else find_c id st.
Proof.
  induction st as [|y r IH]; cbn [update_first find_c].
  - now destruct (N.eqb id id').
  - destruct (N.eqb (c_id y) id') eqn:E1.
    + apply N.eqb_eq in E1. subst id'. cbn [find_c c_id].
      rewrite (N.eqb_sym (c_id y) id). destruct (N.eqb id (c_id y)); reflexivity.
    + cbn [find_c]. destruct (N.eqb (c_id y) id) eqn:E2.
      * apply N.eqb_eq in E2. subst id. now rewrite E1.
      * exact IH.
Qed.

Lemma find_c_propagate id cid tr st :
  find_c id (propagate cid tr st) = option_map (propagate1 cid tr) (find_c id st).
Proof.
  induction st as [|y r IH]; [reflexivity|].
  cbn [propagate map find_c]. rewrite propagate1_id.
  destruct (N.eqb (c_id y) id); [reflexivity|exact IH].
Qed.

Lemma map_id_init cs : map c_id (init cs) = map fst cs.
Proof. unfold init. rewrite map_map. reflexivity. Qed.

Lemma find_c_init id cs c : find_c id (init cs) = Some c -> c_ids c = [].
Proof.
  intros H. apply find_c_In in H. destruct H as [H _]. unfold init in H.
  apply in_map_iff in H. destruct H as [p [<- _]]. reflexivity.
Qed.

(* ------------------------------------------------------------------------- *)
(* found1: a complete case analysis                                           *)
(* ------------------------------------------------------------------------- *)

Definition is_cycle_code (c : code) : Prop := c = E413 \/ c = E415 \/ c = E416.

Lemma cycle_code_is via cyc st : is_cycle_code (cycle_code via cyc st).
Proof.
  unfold cycle_code, is_cycle_code. destruct via; [|now left].
  destruct (existsb _ st); auto.
Qed.

Lemma cycle_code_413 via cyc st : cycle_code via cyc st = E413 <-> via = false.
Proof.
  unfold cycle_code. destruct via; [|tauto].
  destruct (existsb _ st); split; discriminate.
Qed.

(* What the new state looks like after an Ok step. *)
Definition ok_update (c e : N) (ce : container) (st st' : state) : Prop :=
  map c_id st' = map c_id st /\
  forall id o, find_c id st = Some o ->
    exists o', find_c id st' = Some o' /\ c_struct o' = c_struct o /\
      forall x, In x (c_ids o') <->
        In x (c_ids o) \/ ((id = c \/ In c (c_ids o)) /\ (x = e \/ In x (c_ids ce))).

Lemma found1_spec via c e st cc ce :
  find_c c st = Some cc -> find_c e st = Some ce ->
  exists st' r, found1 via c e st = (st', r) /\ map c_id st' = map c_id st /\
    match r with
    | Ok => ~ In c (c_ids cc) /\ ~ (c = e \/ In c (c_ids ce)) /\ ok_update c e ce st st'
    | Err code => ~ In c (c_ids cc) /\ (c = e \/ In c (c_ids ce)) /\
                  code = cycle_code via (set_union (c_ids cc) (set_insert e (c_ids ce))) st'
    | Poisoned => In c (c_ids cc) /\ st' = st
    | Panic => False
    end.
Proof.
  intros Hc He. unfold found1. rewrite He, Hc.
  destruct (mem_name c (c_ids cc)) eqn:E1.
  { exists st, Poisoned. apply mem_name_In in E1. auto. }
  apply mem_name_false in E1.
  destruct (mem_name c (set_union (c_ids cc) (set_insert e (c_ids ce)))) eqn:E2.
  - apply mem_name_In in E2. rewrite In_set_union, In_set_insert in E2.
    eexists _, (Err _). split; [reflexivity|]. split; [apply map_id_update|].
    split; [assumption|]. split; [tauto|reflexivity].
  - apply mem_name_false in E2. rewrite In_set_union, In_set_insert in E2.
    eexists _, Ok. split; [reflexivity|].
    split; [now rewrite map_id_propagate, map_id_update|].
    split; [assumption|]. split; [tauto|].
    split; [now rewrite map_id_propagate, map_id_update|].
    intros id o Ho. rewrite find_c_propagate, find_c_update.
    destruct (N.eqb id c) eqn:E3.
    + apply N.eqb_eq in E3. subst id. rewrite Hc in Ho. injection Ho as <-.
      rewrite Hc. cbn [option_map]. eexists. split; [reflexivity|].
      unfold propagate1. cbn [c_ids c_id c_struct].
      destruct (mem_name c (set_union (c_ids cc) (set_insert e (c_ids ce)))) eqn:E4.
      { apply mem_name_In in E4. rewrite In_set_union, In_set_insert in E4. tauto. }
      cbn [c_ids c_struct]. split; [reflexivity|].
      intros x. rewrite In_set_union, In_set_insert. tauto.
    + apply N.eqb_neq in E3. rewrite Ho. cbn [option_map]. eexists. split; [reflexivity|].
      unfold propagate1. destruct (mem_name c (c_ids o)) eqn:E4.
      * apply mem_name_In in E4. cbn [c_ids c_struct]. split; [reflexivity|].
        intros x. rewrite In_set_union, In_set_insert. tauto.
      * apply mem_name_false in E4. split; [reflexivity|]. intros x. tauto.
Qed.

Lemma found1_panic via c e st :
  find_c c st = None \/ find_c e st = None -> found1 via c e st = (st, Panic).
Proof.
  unfold found1. intros [H|H].
  - destruct (find_c e st); [|reflexivity]. now rewrite H.
  - now rewrite H.
Qed.

(* Inversion of an Ok step (no hypothesis on predeclaration needed). *)
Lemma found1_Ok_inv via c e st st' :
  found1 via c e st = (st', Ok) ->
  exists cc ce, find_c c st = Some cc /\ find_c e st = Some ce /\
    ~ In c (c_ids cc) /\ ~ (c = e \/ In c (c_ids ce)) /\ ok_update c e ce st st'.
Proof.
  intros H.
  destruct (find_c c st) as [cc|] eqn:Hc;
    [|rewrite found1_panic in H by (now left); discriminate].
  destruct (find_c e st) as [ce|] eqn:He;
    [|rewrite found1_panic in H by (now right); discriminate].
  destruct (found1_spec via c e st cc ce Hc He) as [st1 [r [H1 [_ H2]]]].
  rewrite H1 in H. injection H as -> ->. exists cc, ce. tauto.
Qed.

(* ------------------------------------------------------------------------- *)
(* Reachability in the graph of processed edges                               *)
(* ------------------------------------------------------------------------- *)

(* [reach es a b]: there is a path of >= 1 edges of [es] from a to b
   ("a transitively contains b"). *)
Inductive reach (es : list edge) : N -> N -> Prop :=
| reach_one a b m : In (a, b, m) es -> reach es a b
| reach_cons a b c m : In (a, b, m) es -> reach es b c -> reach es a c.

Definition cyclic (es : list edge) : Prop := exists x, reach es x x.
Definition acyclic (es : list edge) : Prop := forall x, ~ reach es x x.
Definition declared (ids : list N) (es : list edge) : Prop :=
  forall a b m, In (a, b, m) es -> In a ids /\ In b ids.

Lemma reach_trans es a b c : reach es a b -> reach es b c -> reach es a c.
Proof.
  induction 1 as [a b m H|a b b' m H H1 IH]; intros H2.
  - eapply reach_cons; eassumption.
  - eapply reach_cons; [eassumption|]. now apply IH.
Qed.

Lemma reach_mono es es' a b :
  (forall x, In x es -> In x es') -> reach es a b -> reach es' a b.
Proof.
  intros Hi. induction 1 as [a b m H|a b c m H H1 IH].
  - eapply reach_one. apply Hi. eassumption.
  - eapply reach_cons; [apply Hi; eassumption|assumption].
Qed.

Lemma reach_ext es es' a b :
  (forall x, In x es <-> In x es') -> reach es a b <-> reach es' a b.
Proof. intros H. split; apply reach_mono; intros x; apply H. Qed.

Lemma reach_src es a b : reach es a b -> exists b' m, In (a, b', m) es.
Proof. destruct 1; eauto. Qed.

Lemma reach_dst es a b : reach es a b -> exists a' m, In (a', b, m) es.
Proof. induction 1; eauto. Qed.

Lemma reach_nil a b : ~ reach [] a b.
Proof. intros H. apply reach_src in H. destruct H as [? [? []]]. Qed.

(* Adding one edge. *)
Lemma reach_add es c e m x y :
  reach (es ++ [(c, e, m)]) x y <->
  reach es x y \/ ((x = c \/ reach es x c) /\ (y = e \/ reach es e y)).
Proof.
  split.
  - induction 1 as [a b m' H|a b y m' H H1 IH].
    + apply in_app_iff in H. destruct H as [H|[H|[]]].
      * left. eapply reach_one; eassumption.
      * injection H as -> -> ->. right. auto.
    + apply in_app_iff in H. destruct H as [H|[H|[]]].
      * destruct IH as [IH|[[->|IH1] IH2]].
        -- left. eapply reach_cons; eassumption.
        -- right. split; [|assumption]. right. eapply reach_one; eassumption.
        -- right. split; [|assumption]. right. eapply reach_cons; eassumption.
      * injection H as -> -> ->. destruct IH as [IH|[_ IH2]].
        -- right. auto.
        -- right. auto.
  - assert (Hm : forall a b, reach es a b -> reach (es ++ [(c, e, m)]) a b).
    { intros a b. apply reach_mono. intros z Hz. apply in_app_iff. now left. }
    assert (He : reach (es ++ [(c, e, m)]) c e).
    { eapply reach_one. apply in_app_iff. right. now left. }
    intros [H|[[->|H1] [->|H2]]].
    + now apply Hm.
    + exact He.
    + eapply reach_trans; [exact He|now apply Hm].
    + eapply reach_trans; [apply Hm; eassumption|exact He].
    + eapply reach_trans; [apply Hm; eassumption|].
      eapply reach_trans; [exact He|now apply Hm].
Qed.

Lemma cyclic_mono es es' : (forall x, In x es -> In x es') -> cyclic es -> cyclic es'.
Proof. intros Hi [x Hx]. exists x. eapply reach_mono; eassumption. Qed.

Lemma acyclic_not_cyclic es : acyclic es <-> ~ cyclic es.
Proof.
  unfold acyclic, cyclic. split.
  - intros H [x Hx]. exact (H x Hx).
  - intros H x Hx. apply H. now exists x.
Qed.

(* ------------------------------------------------------------------------- *)
(* 1. closure invariant                                                       *)
(* ------------------------------------------------------------------------- *)

(* Every container's contained_ids is exactly the set of nodes reachable in
   >= 1 steps in the graph [done] of the edges processed so far. *)
Definition closed_for (done : list edge) (st : state) : Prop :=
  forall id o, find_c id st = Some o -> forall x, In x (c_ids o) <-> reach done id x.

Lemma closed_for_init cs : closed_for [] (init cs).
Proof.
  intros id o Ho x. rewrite (find_c_init _ _ _ Ho). split; [intros []|].
  intros H. exfalso. eapply reach_nil; eassumption.
Qed.

Lemma closed_for_step done st c e m ce st' :
  closed_for done st -> find_c e st = Some ce -> ok_update c e ce st st' ->
  closed_for (done ++ [(c, e, m)]) st'.
Proof.
  intros Hcl He [Hids Hup] id o' Ho' x.
  destruct (find_c id st) as [o|] eqn:Ho.
  - destruct (Hup id o Ho) as [o2 [Ho2 [_ Hx]]]. rewrite Ho' in Ho2. injection Ho2 as <-.
    rewrite Hx, reach_add. rewrite !(Hcl id o Ho). rewrite (Hcl e ce He). tauto.
  - apply find_c_None in Ho. rewrite <- Hids in Ho. apply find_c_None in Ho. congruence.
Qed.

Definition all_ok (rs : list result) : Prop := Forall (fun r => r = Ok) rs.

Lemma process_closed : forall rest done st st' rs,
  closed_for done st -> process rest st = (st', rs) -> all_ok rs ->
  closed_for (done ++ rest) st' /\ map c_id st' = map c_id st.
Proof.
  induction rest as [|[[c e] m] rest IH]; intros done st st' rs Hcl Hp Hok.
  - cbn [process] in Hp. injection Hp as <- <-. rewrite app_nil_r. auto.
  - cbn [process] in Hp. destruct (found1 m c e st) as [st1 r] eqn:E1.
    destruct (process rest st1) as [st2 rs2] eqn:E2. injection Hp as <- <-.
    inversion Hok as [|? ? Hr Hok']; subst.
    destruct (found1_Ok_inv _ _ _ _ _ E1) as [cc [ce [Hc [He [_ [_ Hup]]]]]].
    pose proof (closed_for_step done st c e m ce st1 Hcl He Hup) as Hcl1.
    destruct (IH _ _ _ _ Hcl1 E2 Hok') as [H1 H2].
    rewrite <- app_assoc in H1. cbn [app] in H1. split; [assumption|].
    rewrite H2. apply Hup.
Qed.

(* Theorem 1.  No hypothesis beyond "no error so far" is needed for the
   find-based reading; the reading "for every container of the list" needs the
   ids to be distinct (they are: resolution ids come from a counter). *)
Theorem closure_invariant cs edges st rs :
  process edges (init cs) = (st, rs) -> all_ok rs ->
  closed_for edges st.
Proof.
  intros Hp Hok.
  exact (proj1 (process_closed edges [] (init cs) st rs (closed_for_init cs) Hp Hok)).
Qed.

Corollary closure_invariant_In cs edges st rs :
  NoDup (map fst cs) ->
  process edges (init cs) = (st, rs) -> all_ok rs ->
  forall c, In c st -> forall x, In x (c_ids c) <-> reach edges (c_id c) x.
Proof.
  intros Hnd Hp Hok c Hc.
  destruct (process_closed edges [] (init cs) st rs (closed_for_init cs) Hp Hok) as [H1 H2].
  apply (H1 (c_id c) c). apply find_c_NoDup; [|assumption].
  rewrite H2, map_id_init. assumption.
Qed.

(* ------------------------------------------------------------------------- *)
(* 2. a cycle code is returned iff the graph has a cycle                      *)
(* ------------------------------------------------------------------------- *)

Lemma declared_cons ids x rest : declared ids (x :: rest) -> declared ids rest.
Proof. intros H a b m Hin. apply (H a b m). now right. Qed.

Lemma closed_acyclic_step done st c e m cc ce :
  closed_for done st -> acyclic done ->
  find_c c st = Some cc -> find_c e st = Some ce ->
  (c = e \/ In c (c_ids ce)) <-> cyclic (done ++ [(c, e, m)]).
Proof.
  intros Hcl Hac Hc He. rewrite (Hcl e ce He). split.
  - intros H. exists c. apply reach_add. right. split; [now left|].
    destruct H as [->|H]; auto.
  - intros [x Hx]. apply reach_add in Hx.
    destruct Hx as [Hx|[[->|H1] [H2|H2]]].
    + exfalso. exact (Hac x Hx).
    + now left.
    + now right.
    + subst x. now right.
    + right. eapply reach_trans; eassumption.
Qed.

Definition has_cycle_code (rs : list result) : Prop :=
  exists code, In code (codes_of rs) /\ is_cycle_code code.

Lemma codes_of_cons r rs :
  codes_of (r :: rs) = match r with Err c => [c] | _ => [] end ++ codes_of rs.
Proof. reflexivity. Qed.

Lemma codes_of_all_ok rs : all_ok rs -> codes_of rs = [].
Proof.
  induction 1 as [|r rs Hr _ IH]; [reflexivity|]. rewrite codes_of_cons, IH. now subst r.
Qed.

Lemma process_cases : forall rest done st st' rs,
  closed_for done st -> acyclic done -> declared (map c_id st) rest ->
  process rest st = (st', rs) ->
  (all_ok rs /\ acyclic (done ++ rest)) \/ (has_cycle_code rs /\ cyclic (done ++ rest)).
Proof.
  induction rest as [|[[c e] m] rest IH]; intros done st st' rs Hcl Hac Hde Hp.
  - cbn [process] in Hp. injection Hp as <- <-. left. rewrite app_nil_r.
    split; [constructor|assumption].
  - cbn [process] in Hp. destruct (found1 m c e st) as [st1 r] eqn:E1.
    destruct (process rest st1) as [st2 rs2] eqn:E2. injection Hp as <- <-.
    destruct (Hde c e m (or_introl eq_refl)) as [Hdc Hdee].
    destruct (find_c_Some_ids _ _ Hdc) as [cc Hc].
    destruct (find_c_Some_ids _ _ Hdee) as [ce He].
    destruct (found1_spec m c e st cc ce Hc He) as [st1' [r' [E1' [Hids Hr]]]].
    rewrite E1 in E1'. injection E1' as <- <-.
    assert (Hncc : ~ In c (c_ids cc)).
    { rewrite (Hcl c cc Hc). apply Hac. }
    pose proof (closed_acyclic_step done st c e m cc ce Hcl Hac Hc He) as Hiff.
    destruct r as [| |code|].
    + destruct Hr as [_ [Hn Hup]].
      assert (Hac1 : acyclic (done ++ [(c, e, m)])).
      { apply acyclic_not_cyclic. rewrite <- Hiff. assumption. }
      pose proof (closed_for_step done st c e m ce st1 Hcl He Hup) as Hcl1.
      assert (Hde1 : declared (map c_id st1) rest).
      { rewrite Hids. eapply declared_cons; eassumption. }
      destruct (IH _ _ _ _ Hcl1 Hac1 Hde1 E2) as [[H1 H2]|[H1 H2]];
        rewrite <- app_assoc in H2; cbn [app] in H2.
      * left. split; [constructor; [reflexivity|assumption]|assumption].
      * right. split; [|assumption]. destruct H1 as [k [Hk1 Hk2]]. exists k.
        split; [|assumption]. rewrite codes_of_cons. assumption.
    + destruct Hr as [Hr _]. contradiction.
    + destruct Hr as [_ [Hy Hcode]]. right. split.
      * exists code. split; [rewrite codes_of_cons; now left|].
        subst code. apply cycle_code_is.
      * apply Hiff in Hy. eapply cyclic_mono; [|exact Hy].
        intros x Hx. apply in_app_iff in Hx. apply in_app_iff.
        destruct Hx as [Hx|[<-|[]]]; [now left|right; now left].
    + contradiction.
Qed.

(* Theorem 2.  Hypothesis: every endpoint of an edge is a predeclared container
   (true in the compiler: otherwise found_container_1 panics).  No hypothesis on
   multiplicity or order of edges is needed. *)
Theorem cycle_detected_iff cs edges :
  declared (map fst cs) edges ->
  has_cycle_code (snd (process edges (init cs))) <-> cyclic edges.
Proof.
  intros Hde. destruct (process edges (init cs)) as [st rs] eqn:Hp. cbn [snd].
  assert (Hde' : declared (map c_id (init cs)) edges) by now rewrite map_id_init.
  assert (Hac0 : acyclic []) by (intros x Hx; eapply reach_nil; eassumption).
  destruct (process_cases edges [] (init cs) st rs (closed_for_init cs) Hac0 Hde' Hp)
    as [[H1 H2]|[H1 H2]]; cbn [app] in H2.
  - split.
    + intros [k [Hk _]]. rewrite (codes_of_all_ok _ H1) in Hk. destruct Hk.
    + intros Hc. apply acyclic_not_cyclic in H2. contradiction.
  - tauto.
Qed.

(* Soundness, in the form used below: acyclic graphs are processed without any
   error, poison or panic. *)
Corollary acyclic_all_ok cs edges st rs :
  declared (map fst cs) edges -> acyclic edges ->
  process edges (init cs) = (st, rs) -> all_ok rs.
Proof.
  intros Hde Hac Hp.
  assert (Hde' : declared (map c_id (init cs)) edges) by now rewrite map_id_init.
  assert (Hac0 : acyclic []) by (intros x Hx; eapply reach_nil; eassumption).
  destruct (process_cases edges [] (init cs) st rs (closed_for_init cs) Hac0 Hde' Hp)
    as [[H1 _]|[_ H2]]; [assumption|].
  cbn [app] in H2. apply acyclic_not_cyclic in Hac. contradiction.
Qed.

(* Every code ever produced by the pass is one of the three cycle codes, and
   it is E413 exactly when the offending edge does not come from a member. *)
Lemma found1_codes via c e st st' k :
  found1 via c e st = (st', Err k) -> is_cycle_code k /\ (k = E413 <-> via = false).
Proof.
  unfold found1. destruct (find_c e st); [|discriminate].
  destruct (find_c c st); [|discriminate].
  destruct (mem_name c (c_ids c1)); [discriminate|].
  destruct (mem_name c _); [|discriminate].
  intros [= _ <-]. split; [apply cycle_code_is|apply cycle_code_413].
Qed.

Lemma process_codes : forall edges st st' rs k,
  process edges st = (st', rs) -> In k (codes_of rs) -> is_cycle_code k.
Proof.
  induction edges as [|[[c e] m] rest IH]; intros st st' rs k Hp Hk.
  - cbn [process] in Hp. injection Hp as <- <-. destruct Hk.
  - cbn [process] in Hp. destruct (found1 m c e st) as [st1 r] eqn:E1.
    destruct (process rest st1) as [st2 rs2] eqn:E2. injection Hp as <- <-.
    rewrite codes_of_cons in Hk. apply in_app_iff in Hk. destruct Hk as [Hk|Hk].
    + destruct r; try destruct Hk as [<-|[]]; try destruct Hk.
      eapply found1_codes; eassumption.
    + eapply IH; eassumption.
Qed.

(* ------------------------------------------------------------------------- *)
(* 3. determine_container_depths on a transitively closed, irreflexive state   *)
(* ------------------------------------------------------------------------- *)

(* What the depth pass needs from the state: distinct ids; everything contained
   is itself a declared container whose contained set is included (transitivity)
   and does not contain itself (irreflexivity). *)
Definition wf_state (st : state) : Prop :=
  NoDup (map c_id st) /\
  forall x c, find_c x st = Some c -> forall e, In e (c_ids c) ->
    exists ce, find_c e st = Some ce /\ incl (c_ids ce) (c_ids c) /\ ~ In e (c_ids ce).

Lemma sup_ge l x : In x l -> x <= sup l.
Proof.
  induction l as [|y l IH]; cbn [sup fold_right In]; [tauto|].
  intros [<-|H]; [lia|]. specialize (IH H). unfold sup in IH. lia.
Qed.

Lemma sup_le l b : (forall x, In x l -> x <= b) -> sup l <= b.
Proof.
  induction l as [|y l IH]; cbn [sup fold_right]; intros H; [lia|].
  assert (H1 : y <= b) by (apply H; now left).
  assert (H2 : sup l <= b) by (apply IH; intros; apply H; now right).
  unfold sup in H2. lia.
Qed.

Lemma sup_attained l : sup l = 0 \/ In (sup l) l.
Proof.
  induction l as [|y l IH]; cbn [sup fold_right In]; [now left|].
  fold (sup l). destruct (N.max_spec y (sup l)) as [[_ ->]|[_ ->]].
  - destruct IH as [IH|IH]; [now left|right; now right].
  - right. now left.
Qed.

Definition msz (st : state) (x : N) : nat := length (nodup N.eq_dec (orig st x)).

Lemma nodup_strict (a b : list N) e :
  incl a b -> In e b -> ~ In e a ->
  (length (nodup N.eq_dec a) < length (nodup N.eq_dec b))%nat.
Proof.
  intros Hi Hb Ha.
  assert (H : (length (e :: nodup N.eq_dec a) <= length (nodup N.eq_dec b))%nat).
  { apply NoDup_incl_length.
    - constructor; [now rewrite nodup_In|apply NoDup_nodup].
    - intros y [<-|Hy]; apply nodup_In; [assumption|]. apply Hi. now apply nodup_In in Hy. }
  cbn [length] in H. lia.
Qed.

Lemma orig_find st x c : find_c x st = Some c -> orig st x = c_ids c.
Proof. unfold orig. now intros ->. Qed.

Lemma orig_In_find st x e : In e (orig st x) -> exists c, find_c x st = Some c /\ In e (c_ids c).
Proof. unfold orig. destruct (find_c x st) as [c|]; [eauto|intros []]. Qed.

Lemma msz_lt st x c e :
  wf_state st -> find_c x st = Some c -> In e (c_ids c) -> (msz st e < msz st x)%nat.
Proof.
  intros [_ Hwf] Hx He. destruct (Hwf x c Hx e He) as [ce [Hce [Hincl Hirr]]].
  unfold msz. rewrite (orig_find _ _ _ Hx), (orig_find _ _ _ Hce).
  eapply nodup_strict; eassumption.
Qed.

Lemma Hf_zero st f x : orig st x = [] -> Hf st f x = 0.
Proof. intros H. destruct f; cbn [Hf]; [reflexivity|]. now rewrite H. Qed.

Lemma msz_zero st x : msz st x = O -> orig st x = [].
Proof.
  unfold msz. destruct (orig st x) as [|y l]; [reflexivity|]. intros H.
  assert (Hy : In y (nodup N.eq_dec (y :: l))) by (apply nodup_In; now left).
  destruct (nodup N.eq_dec (y :: l)); [destruct Hy|discriminate].
Qed.

Lemma Hf_le_msz st : wf_state st -> forall f x, Hf st f x <= N.of_nat (msz st x).
Proof.
  intros Hwf. induction f as [|f IH]; intros x; cbn [Hf]; [lia|].
  apply sup_le. intros y Hy. apply in_map_iff in Hy. destruct Hy as [e [<- He]].
  destruct (orig_In_find _ _ _ He) as [c [Hc Hec]].
  pose proof (msz_lt _ _ _ _ Hwf Hc Hec). specialize (IH e). lia.
Qed.

Lemma Hf_stable st : wf_state st -> forall f f' x,
  (msz st x <= f)%nat -> (msz st x <= f')%nat -> Hf st f x = Hf st f' x.
Proof.
  intros Hwf. induction f as [|f IH]; intros f' x H1 H2.
  - assert (H0 : orig st x = []) by (apply msz_zero; lia). now rewrite !Hf_zero.
  - destruct f' as [|f'].
    + assert (H0 : orig st x = []) by (apply msz_zero; lia). now rewrite !Hf_zero.
    + cbn [Hf]. f_equal. apply map_ext_in. intros e He. f_equal.
      destruct (orig_In_find _ _ _ He) as [c [Hc Hec]].
      pose proof (msz_lt _ _ _ _ Hwf Hc Hec). apply IH; lia.
Qed.

Lemma msz_lt_len st x c :
  wf_state st -> find_c x st = Some c -> (msz st x < length st)%nat.
Proof.
  intros [Hnd Hwf] Hx. unfold msz. rewrite (orig_find _ _ _ Hx).
  rewrite <- (map_length c_id st).
  replace (length (map c_id st)) with (length (nodup N.eq_dec (map c_id st)))
    by (now rewrite (nodup_fixed_point N.eq_dec Hnd)).
  apply nodup_strict with (e := x).
  - intros e He. destruct (Hwf x c Hx e He) as [ce [Hce _]].
    apply find_c_In in Hce. destruct Hce as [Hce <-]. now apply in_map.
  - apply find_c_In in Hx. destruct Hx as [Hx <-]. now apply in_map.
  - intros Hin. destruct (Hwf x c Hx x Hin) as [ce [Hce [_ Hirr]]].
    rewrite Hx in Hce. injection Hce as <-. contradiction.
Qed.

Lemma msz_le_len st x : wf_state st -> (msz st x <= length st)%nat.
Proof.
  intros Hwf. destruct (find_c x st) as [c|] eqn:Hx.
  - pose proof (msz_lt_len _ _ _ Hwf Hx). lia.
  - unfold msz, orig. rewrite Hx. cbn. lia.
Qed.

(* The defining recurrence of the height. *)
Lemma height_rec st x : wf_state st ->
  height st x = sup (map (fun e => N.succ (height st e)) (orig st x)).
Proof.
  intros Hwf. unfold height.
  rewrite (Hf_stable st Hwf (length st) (S (length st)) x); [reflexivity| |].
  - now apply msz_le_len.
  - pose proof (msz_le_len st x Hwf). lia.
Qed.

Lemma height_lt_len st x c :
  wf_state st -> find_c x st = Some c -> height st x < N.of_nat (length st).
Proof.
  intros Hwf Hx. pose proof (msz_lt_len _ _ _ Hwf Hx).
  pose proof (Hf_le_msz st Hwf (length st) x). unfold height. lia.
Qed.

Lemma height_gt st x c e :
  wf_state st -> find_c x st = Some c -> In e (c_ids c) -> height st e < height st x.
Proof.
  intros Hwf Hx He. rewrite (height_rec st x Hwf), (orig_find _ _ _ Hx).
  assert (H : N.succ (height st e) <= sup (map (fun e => N.succ (height st e)) (c_ids c))).
  { apply sup_ge. apply in_map_iff. now exists e. }
  lia.
Qed.

Lemma height_pred st x c :
  wf_state st -> find_c x st = Some c ->
  height st x = 0 \/ exists e, In e (c_ids c) /\ height st x = N.succ (height st e).
Proof.
  intros Hwf Hx. rewrite (height_rec st x Hwf), (orig_find _ _ _ Hx).
  destruct (sup_attained (map (fun e => N.succ (height st e)) (c_ids c))) as [H|H];
    [now left|right].
  apply in_map_iff in H. destruct H as [e [H1 H2]]. exists e. split; [assumption|].
  now rewrite <- H1.
Qed.

Lemma height_down st : wf_state st -> forall (j : nat) x c k,
  find_c x st = Some c -> height st x = k + N.of_nat j ->
  exists y cy, find_c y st = Some cy /\ height st y = k.
Proof.
  intros Hwf. induction j as [|j IH]; intros x c k Hx Hh.
  - exists x, c. split; [assumption|lia].
  - destruct (height_pred st x c Hwf Hx) as [H0|[e [He1 He2]]]; [lia|].
    destruct (proj2 Hwf x c Hx e He1) as [ce [Hce _]].
    apply (IH e ce k Hce). lia.
Qed.

(* Exact description of the loop state at the start of round k. *)
Definition entry (st : state) (k : N) (c : container) : dcont :=
  mkD (c_id c)
      (filter (fun e => N.leb k (height st e)) (c_ids c))
      (if N.ltb (height st (c_id c)) k then Some (height st (c_id c)) else None).

Definition snap (st : state) (k : N) : list dcont := map (entry st k) st.

Definition final_entry (st : state) (c : container) : dcont :=
  mkD (c_id c) [] (Some (height st (c_id c))).

Lemma filter_nil_iff {A} (f : A -> bool) l :
  filter f l = [] <-> forall x, In x l -> f x = false.
Proof.
  induction l as [|y l IH]; cbn [filter In]; [tauto|].
  destruct (f y) eqn:E.
  - split; [discriminate|]. intros H. rewrite (H y (or_introl eq_refl)) in E. discriminate.
  - rewrite IH. split.
    + intros H x [<-|Hx]; auto.
    + intros H x Hx. apply H. now right.
Qed.

Lemma filter_all {A} (f : A -> bool) l : (forall x, In x l -> f x = true) -> filter f l = l.
Proof.
  induction l as [|y l IH]; cbn [filter]; intros H; [reflexivity|].
  rewrite (H y (or_introl eq_refl)). f_equal. apply IH. intros; apply H; now right.
Qed.

Lemma filter_filter {A} (f g : A -> bool) l :
  filter g (filter f l) = filter (fun x => f x && g x) l.
Proof.
  induction l as [|y l IH]; cbn [filter]; [reflexivity|].
  destruct (f y); cbn [filter andb]; [destruct (g y)|]; now rewrite IH.
Qed.

Lemma ready_entry st k c :
  wf_state st -> In c st -> is_ready (entry st k c) = N.eqb (height st (c_id c)) k.
Proof.
  intros Hwf Hc. pose proof (find_c_NoDup st c (proj1 Hwf) Hc) as Hf.
  unfold is_ready, entry. cbn [d_depth d_rem].
  destruct (N.ltb (height st (c_id c)) k) eqn:E1.
  - apply N.ltb_lt in E1. symmetry. apply N.eqb_neq. lia.
  - apply N.ltb_ge in E1.
    destruct (filter (fun e => N.leb k (height st e)) (c_ids c)) as [|e0 l] eqn:E2.
    + symmetry. apply N.eqb_eq.
      rewrite filter_nil_iff in E2.
      destruct (height_pred st (c_id c) c Hwf Hf) as [H0|[e [He1 He2]]]; [lia|].
      specialize (E2 e He1). apply N.leb_gt in E2. lia.
    + symmetry. apply N.eqb_neq.
      assert (He0 : In e0 (filter (fun e => N.leb k (height st e)) (c_ids c)))
        by (rewrite E2; now left).
      apply filter_In in He0. destruct He0 as [He0 Hk]. apply N.leb_le in Hk.
      pose proof (height_gt st (c_id c) c e0 Hwf Hf He0). lia.
Qed.

Lemma In_resolved st k e :
  wf_state st ->
  In e (resolved_ids (snap st k)) <-> (exists c, find_c e st = Some c) /\ height st e = k.
Proof.
  intros Hwf. unfold resolved_ids, snap. rewrite in_map_iff. split.
  - intros [d [Hd1 Hd2]]. apply filter_In in Hd2. destruct Hd2 as [Hd2 Hr].
    apply in_map_iff in Hd2. destruct Hd2 as [c [<- Hc]].
    rewrite (ready_entry st k c Hwf Hc) in Hr. apply N.eqb_eq in Hr.
    cbn [entry d_id] in Hd1. subst e. split; [|assumption].
    exists c. now apply find_c_NoDup; [apply Hwf|].
  - intros [[c Hc] Hh]. pose proof (find_c_In _ _ _ Hc) as [Hin Hid].
    exists (entry st k c). split; [exact Hid|].
    apply filter_In. split; [now apply in_map|].
    rewrite (ready_entry st k c Hwf Hin), Hid. now apply N.eqb_eq.
Qed.

Lemma entry_final st k c :
  wf_state st -> (forall x cx, find_c x st = Some cx -> height st x < k) ->
  In c st -> entry st k c = final_entry st c.
Proof.
  intros Hwf Hlt Hc. pose proof (find_c_NoDup st c (proj1 Hwf) Hc) as Hf.
  unfold entry, final_entry. f_equal.
  - apply filter_nil_iff. intros e He.
    destruct (proj2 Hwf _ _ Hf e He) as [ce [Hce _]].
    apply N.leb_gt. eapply Hlt; eassumption.
  - pose proof (Hlt _ _ Hf) as H. apply N.ltb_lt in H. now rewrite H.
Qed.

Lemma rem_step st k c :
  wf_state st -> In c st ->
  set_diff (filter (fun e => N.leb k (height st e)) (c_ids c)) (resolved_ids (snap st k)) =
  filter (fun e => N.leb (N.succ k) (height st e)) (c_ids c).
Proof.
  intros Hwf Hc. pose proof (find_c_NoDup st c (proj1 Hwf) Hc) as Hf.
  unfold set_diff. rewrite filter_filter. apply filter_ext_in. intros e He.
  destruct (proj2 Hwf _ _ Hf e He) as [ce [Hce _]].
  destruct (mem_name e (resolved_ids (snap st k))) eqn:E.
  - apply mem_name_In in E. apply In_resolved in E; [|assumption]. destruct E as [_ E].
    rewrite E. cbn [negb]. rewrite andb_false_r. symmetry. apply N.leb_gt. lia.
  - apply mem_name_false in E. rewrite In_resolved in E by assumption.
    assert (Hne : height st e <> k) by (intros H; apply E; split; [now exists ce|assumption]).
    cbn [negb]. rewrite andb_true_r.
    destruct (N.leb k (height st e)) eqn:E1; destruct (N.leb (N.succ k) (height st e)) eqn:E2;
      try reflexivity.
    + apply N.leb_le in E1. apply N.leb_gt in E2. lia.
    + apply N.leb_gt in E1. apply N.leb_le in E2. lia.
Qed.

Lemma loop_snap st : wf_state st -> forall f k,
  N.of_nat f + k = N.of_nat (length st) ->
  depth_loop f k (snap st k) = map (final_entry st) st.
Proof.
  intros Hwf. induction f as [|f IH]; intros k Hk.
  - cbn [depth_loop]. unfold snap. apply map_ext_in. intros c Hc.
    apply entry_final; [assumption| |assumption].
    intros x cx Hx. pose proof (height_lt_len st x cx Hwf Hx). lia.
  - cbn [depth_loop]. destruct (resolved_ids (snap st k)) as [|r0 res] eqn:Eres.
    + assert (Hlt : forall x cx, find_c x st = Some cx -> height st x < k).
      { intros x cx Hx. destruct (N.lt_ge_cases (height st x) k) as [H|H]; [assumption|].
        exfalso.
        destruct (height_down st Hwf (N.to_nat (height st x - k)) x cx k Hx) as [y [cy [Hy1 Hy2]]];
          [lia|].
        assert (Hin : In y (resolved_ids (snap st k))).
        { apply In_resolved; [assumption|]. split; [now exists cy|assumption]. }
        rewrite Eres in Hin. destruct Hin. }
      unfold snap. rewrite map_map. apply map_ext_in. intros c Hc.
      rewrite (entry_final st k c Hwf Hlt Hc). reflexivity.
    + rewrite <- Eres. rewrite <- (IH (N.succ k)) by lia.
      unfold snap. rewrite !map_map. f_equal. apply map_ext_in. intros c Hc.
      unfold mark. rewrite (ready_entry st k c Hwf Hc).
      destruct (N.eqb (height st (c_id c)) k) eqn:E.
      * apply N.eqb_eq in E. unfold subtract. cbn [entry d_id d_rem d_depth].
        fold (snap st k). rewrite (rem_step st k c Hwf Hc).
        unfold entry. f_equal.
        assert (Hl : N.ltb (height st (c_id c)) (N.succ k) = true) by (apply N.ltb_lt; lia).
        rewrite Hl. now rewrite E.
      * apply N.eqb_neq in E. unfold subtract. cbn [entry d_id d_rem d_depth].
        fold (snap st k). rewrite (rem_step st k c Hwf Hc).
        unfold entry. f_equal.
        destruct (N.ltb (height st (c_id c)) k) eqn:E1;
          destruct (N.ltb (height st (c_id c)) (N.succ k)) eqn:E2; try reflexivity.
        -- apply N.ltb_lt in E1. apply N.ltb_ge in E2. lia.
        -- apply N.ltb_ge in E1. apply N.ltb_lt in E2. lia.
Qed.

(* Closed form of determine_container_depths. *)
Theorem depths_closed_form st : wf_state st ->
  depths st = map (fun c => (c_id c, Some (height st (c_id c)))) st.
Proof.
  intros Hwf. unfold depths.
  assert (H0 : map (fun c => mkD (c_id c) (c_ids c) None) st = snap st 0).
  { unfold snap. apply map_ext_in. intros c _. unfold entry. f_equal.
    - symmetry. apply filter_all. intros x _. apply N.leb_le. lia.
    - destruct (N.ltb (height st (c_id c)) 0) eqn:E; [|reflexivity].
      apply N.ltb_lt in E. lia. }
  rewrite H0, (loop_snap st Hwf (length st) 0) by lia.
  rewrite map_map. reflexivity.
Qed.

Lemma depth_of_closed (g : N -> N) st x :
  depth_of x (map (fun c => (c_id c, Some (g (c_id c)))) st) =
  match find_c x st with Some _ => Some (g x) | None => None end.
Proof.
  induction st as [|c st IH]; cbn [map depth_of find_c]; [reflexivity|].
  destruct (N.eqb (c_id c) x) eqn:E; [|exact IH].
  apply N.eqb_eq in E. now rewrite E.
Qed.

Lemma depth_of_height st x : wf_state st ->
  depth_of x (depths st) =
  match find_c x st with Some _ => Some (height st x) | None => None end.
Proof. intros Hwf. rewrite (depths_closed_form st Hwf). apply depth_of_closed. Qed.

(* The state produced by processing an acyclic graph is well formed. *)
Lemma closed_wf edges st :
  NoDup (map c_id st) -> declared (map c_id st) edges -> acyclic edges ->
  closed_for edges st -> wf_state st.
Proof.
  intros Hnd Hde Hac Hcl. split; [assumption|].
  intros x c Hx e He. apply (Hcl x c Hx) in He.
  destruct (reach_dst _ _ _ He) as [a [m Ha]]. destruct (Hde _ _ _ Ha) as [_ Hd].
  destruct (find_c_Some_ids _ _ Hd) as [ce Hce]. exists ce. split; [assumption|]. split.
  - intros y Hy. apply (Hcl e ce Hce) in Hy. apply (Hcl x c Hx).
    eapply reach_trans; eassumption.
  - intros H. apply (Hcl e ce Hce) in H. exact (Hac e H).
Qed.

Lemma process_acyclic_wf cs edges st rs :
  NoDup (map fst cs) -> declared (map fst cs) edges -> acyclic edges ->
  process edges (init cs) = (st, rs) ->
  all_ok rs /\ closed_for edges st /\ map c_id st = map fst cs /\ wf_state st.
Proof.
  intros Hnd Hde Hac Hp.
  pose proof (acyclic_all_ok cs edges st rs Hde Hac Hp) as Hok.
  destruct (process_closed edges [] (init cs) st rs (closed_for_init cs) Hp Hok) as [H1 H2].
  cbn [app] in H1. rewrite map_id_init in H2.
  split; [assumption|]. split; [assumption|]. split; [assumption|].
  apply (closed_wf edges st); rewrite ?H2; assumption.
Qed.

(* Theorem 3. *)
Theorem depths_topological cs edges st rs :
  NoDup (map fst cs) -> declared (map fst cs) edges -> acyclic edges ->
  process edges (init cs) = (st, rs) ->
  (forall id, In id (map fst cs) -> exists d, depth_of id (depths st) = Some d) /\
  (forall c e m, In (c, e, m) edges ->
     exists dc de, depth_of c (depths st) = Some dc /\ depth_of e (depths st) = Some de /\
                   de < dc).
Proof.
  intros Hnd Hde Hac Hp.
  destruct (process_acyclic_wf cs edges st rs Hnd Hde Hac Hp) as [Hok [Hcl [Hids Hwf]]].
  split.
  - intros id Hid. rewrite <- Hids in Hid. destruct (find_c_Some_ids _ _ Hid) as [c Hc].
    rewrite (depth_of_height st id Hwf), Hc. eauto.
  - intros c e m Hin. destruct (Hde _ _ _ Hin) as [Hc He]. rewrite <- Hids in Hc, He.
    destruct (find_c_Some_ids _ _ Hc) as [cc Hcc]. destruct (find_c_Some_ids _ _ He) as [ce Hce].
    exists (height st c), (height st e).
    rewrite !(depth_of_height st _ Hwf), Hcc, Hce. repeat split.
    apply (height_gt st c cc e Hwf Hcc). apply (Hcl c cc Hcc).
    eapply reach_one; eassumption.
Qed.

(* ------------------------------------------------------------------------- *)
(* 4. the depths depend only on the graph                                     *)
(* ------------------------------------------------------------------------- *)

(* Declarative characterisation of a height function of the graph [es] over the
   nodes [ids]: h x = 0 if x contains nothing, else 1 + max of h over everything
   x transitively contains. *)
Definition is_height_fn (ids : list N) (es : list edge) (h : N -> N) : Prop :=
  forall x, In x ids ->
    (forall e, reach es x e -> h e < h x) /\
    (h x = 0 \/ exists e, reach es x e /\ h x = N.succ (h e)).

Lemma reach_declared ids es x e : declared ids es -> reach es x e -> In x ids /\ In e ids.
Proof.
  intros Hde H. destruct (reach_src _ _ _ H) as [b [m Hb]]. destruct (reach_dst _ _ _ H) as [a [m' Ha]].
  split; [exact (proj1 (Hde _ _ _ Hb))|exact (proj2 (Hde _ _ _ Ha))].
Qed.

Lemma height_fn_unique ids es h h' :
  declared ids es -> is_height_fn ids es h -> is_height_fn ids es h' ->
  forall x, In x ids -> h x = h' x.
Proof.
  intros Hde Hh Hh'.
  assert (H : forall (n : nat) x, In x ids -> (N.to_nat (h x) < n)%nat -> h x = h' x).
  { induction n as [|n IH]; intros x Hx Hn; [lia|].
    destruct (Hh x Hx) as [H1 H2]. destruct (Hh' x Hx) as [H1' H2'].
    assert (Heq : forall e, reach es x e -> h e = h' e).
    { intros e He. apply IH.
      - exact (proj2 (reach_declared _ _ _ _ Hde He)).
      - specialize (H1 e He). lia. }
    assert (Hle : h x <= h' x).
    { destruct H2 as [H2|[e [He H2]]]; [lia|].
      specialize (H1' e He). rewrite <- (Heq e He) in H1'. lia. }
    assert (Hge : h' x <= h x).
    { destruct H2' as [H2'|[e [He H2']]]; [lia|].
      specialize (H1 e He). rewrite <- (Heq e He) in H2'. lia. }
    lia. }
  intros x Hx. apply (H (S (N.to_nat (h x))) x Hx). lia.
Qed.

Lemma is_height_fn_ext ids ids' es es' h :
  (forall x, In x ids <-> In x ids') -> (forall x, In x es <-> In x es') ->
  is_height_fn ids es h -> is_height_fn ids' es' h.
Proof.
  intros Hi He Hh x Hx. apply Hi in Hx. destruct (Hh x Hx) as [H1 H2]. split.
  - intros e Hr. apply H1. now apply (reach_ext es es' x e He).
  - destruct H2 as [H2|[e [Hr H2]]]; [now left|right]. exists e. split; [|assumption].
    now apply (reach_ext es es' x e He).
Qed.

(* The depth assigned by the compiler is the height function of the graph. *)
Theorem depths_characterisation cs edges st rs :
  NoDup (map fst cs) -> declared (map fst cs) edges -> acyclic edges ->
  process edges (init cs) = (st, rs) ->
  is_height_fn (map fst cs) edges (height st) /\
  (forall x, In x (map fst cs) -> depth_of x (depths st) = Some (height st x)) /\
  (forall x, ~ In x (map fst cs) -> depth_of x (depths st) = None).
Proof.
  intros Hnd Hde Hac Hp.
  destruct (process_acyclic_wf cs edges st rs Hnd Hde Hac Hp) as [Hok [Hcl [Hids Hwf]]].
  split; [|split].
  - intros x Hx. rewrite <- Hids in Hx. destruct (find_c_Some_ids _ _ Hx) as [c Hc]. split.
    + intros e He. apply (height_gt st x c e Hwf Hc). now apply (Hcl x c Hc).
    + destruct (height_pred st x c Hwf Hc) as [H|[e [He1 He2]]]; [now left|right].
      exists e. split; [|assumption]. now apply (Hcl x c Hc).
  - intros x Hx. rewrite <- Hids in Hx. destruct (find_c_Some_ids _ _ Hx) as [c Hc].
    now rewrite (depth_of_height st x Hwf), Hc.
  - intros x Hx. rewrite <- Hids in Hx. apply find_c_None in Hx.
    now rewrite (depth_of_height st x Hwf), Hx.
Qed.

(* Theorem 4, general form: same set of container ids, same set of edges
   (any order, any multiplicity, any is_structure flags) => same id -> depth map. *)
Theorem depths_set_invariant cs cs' edges edges' :
  NoDup (map fst cs) -> NoDup (map fst cs') ->
  (forall x, In x (map fst cs) <-> In x (map fst cs')) ->
  (forall x, In x edges <-> In x edges') ->
  declared (map fst cs) edges -> acyclic edges ->
  forall x, depth_of x (depths (fst (process edges (init cs)))) =
            depth_of x (depths (fst (process edges' (init cs')))).
Proof.
  intros Hnd Hnd' Hi He Hde Hac x.
  assert (Hde' : declared (map fst cs') edges').
  { intros a b m H. apply He in H. destruct (Hde _ _ _ H). split; now apply Hi. }
  assert (Hac' : acyclic edges').
  { intros y Hy. apply (Hac y). now apply (reach_ext edges edges' y y He). }
  destruct (process edges (init cs)) as [st rs] eqn:Hp.
  destruct (process edges' (init cs')) as [st' rs'] eqn:Hp'. cbn [fst].
  destruct (depths_characterisation cs edges st rs Hnd Hde Hac Hp) as [Hh [Hs Hn]].
  destruct (depths_characterisation cs' edges' st' rs' Hnd' Hde' Hac' Hp') as [Hh' [Hs' Hn']].
  destruct (in_dec N.eq_dec x (map fst cs)) as [Hx|Hx].
  - rewrite (Hs x Hx), (Hs' x (proj1 (Hi x) Hx)). f_equal.
    apply (height_fn_unique (map fst cs) edges); try assumption.
    apply (is_height_fn_ext (map fst cs') (map fst cs) edges' edges); try assumption.
    + intros y. symmetry. apply Hi.
    + intros y. symmetry. apply He.
  - rewrite (Hn x Hx). symmetry. apply Hn'. intros H. apply Hx. now apply Hi.
Qed.

(* Theorem 4 as asked: permuting the predeclaration order and/or the order in
   which the edges are processed does not change any depth. *)
Theorem depths_perm_invariant cs cs' edges edges' :
  NoDup (map fst cs) -> Permutation cs cs' -> Permutation edges edges' ->
  declared (map fst cs) edges -> acyclic edges ->
  forall x, depth_of x (depths (fst (process edges (init cs)))) =
            depth_of x (depths (fst (process edges' (init cs')))).
Proof.
  intros Hnd Hpc Hpe Hde Hac.
  pose proof (Permutation_map fst Hpc) as Hpm.
  apply depths_set_invariant; try assumption.
  - eapply Permutation_NoDup; eassumption.
  - intros x. split; apply Permutation_in; [assumption|now apply Permutation_sym].
  - intros x. split; apply Permutation_in; [assumption|now apply Permutation_sym].
Qed.

(* Longest-path reading of a height function. *)
Inductive path_len (es : list edge) : N -> nat -> Prop :=
| pl_nil x : path_len es x O
| pl_cons a b m n : In (a, b, m) es -> path_len es b n -> path_len es a (S n).

Lemma path_len_prefix es x n : path_len es x n -> forall k, (k <= n)%nat -> path_len es x k.
Proof.
  induction 1 as [x|a b m n Hin Hp IH]; intros k Hk.
  - assert (k = O) by lia. subst. constructor.
  - destruct k as [|k]; [constructor|]. econstructor; [eassumption|]. apply IH. lia.
Qed.

Lemma reach_path es x e : reach es x e -> forall n, path_len es e n ->
  exists n', (S n <= n')%nat /\ path_len es x n'.
Proof.
  induction 1 as [a b m Hin|a b c m Hin Hr IH]; intros n Hn.
  - exists (S n). split; [lia|]. econstructor; eassumption.
  - destruct (IH n Hn) as [n' [Hle Hp]]. exists (S n'). split; [lia|].
    econstructor; eassumption.
Qed.

Theorem height_is_longest_path ids es h :
  declared ids es -> is_height_fn ids es h ->
  forall x, In x ids ->
    path_len es x (N.to_nat (h x)) /\ forall n, path_len es x n -> (n <= N.to_nat (h x))%nat.
Proof.
  intros Hde Hh x Hx. split.
  - assert (H : forall (k : nat) y, In y ids -> (N.to_nat (h y) < k)%nat ->
                  path_len es y (N.to_nat (h y))).
    { induction k as [|k IH]; intros y Hy Hk; [lia|].
      destruct (Hh y Hy) as [H1 [H2|[e [He H2]]]].
      - rewrite H2. constructor.
      - assert (Hpe : path_len es e (N.to_nat (h e))).
        { apply IH; [exact (proj2 (reach_declared _ _ _ _ Hde He))|]. lia. }
        destruct (reach_path es y e He _ Hpe) as [n' [Hle Hp]].
        apply (path_len_prefix es y n' Hp). lia. }
    apply (H (S (N.to_nat (h x))) x Hx). lia.
  - intros n Hp. induction Hp as [x|a b m n Hin Hp IH]; [lia|].
    destruct (Hde _ _ _ Hin) as [Ha Hb]. specialize (IH Hb).
    destruct (Hh a Ha) as [H1 _].
    assert (Hlt : h b < h a) by (apply H1; eapply reach_one; eassumption). lia.
Qed.

Corollary depth_is_longest_path cs edges st rs :
  NoDup (map fst cs) -> declared (map fst cs) edges -> acyclic edges ->
  process edges (init cs) = (st, rs) ->
  forall x, In x (map fst cs) ->
    exists d, depth_of x (depths st) = Some d /\
      path_len edges x (N.to_nat d) /\ forall n, path_len edges x n -> (n <= N.to_nat d)%nat.
Proof.
  intros Hnd Hde Hac Hp x Hx.
  destruct (depths_characterisation cs edges st rs Hnd Hde Hac Hp) as [Hh [Hs _]].
  exists (height st x). split; [now apply Hs|].
  now apply (height_is_longest_path (map fst cs) edges (height st) Hde Hh x Hx).
Qed.

(* ------------------------------------------------------------------------- *)
(* 5. analyze_and_resolve: stable sort + partition                            *)
(* ------------------------------------------------------------------------- *)

Definition before {A} (a b : A) (l : list A) : Prop :=
  exists l1 l2 l3, l = l1 ++ a :: l2 ++ b :: l3.

Section Sort.
  Variable key : decl -> N.

  Definition key_sorted (l : list decl) : Prop :=
    StronglySorted (fun a b => key a <= key b) l.

  Definition with_key (k : N) (l : list decl) : list decl :=
    filter (fun d => N.eqb (key d) k) l.

  Lemma insert_perm x l : Permutation (x :: l) (insert_by key x l).
  Proof.
    induction l as [|y r IH]; cbn [insert_by]; [reflexivity|].
    destruct (N.leb (key x) (key y)); [reflexivity|].
    rewrite perm_swap. now apply perm_skip.
  Qed.

  Lemma sort_perm l : Permutation l (stable_sort key l).
  Proof.
    induction l as [|x r IH]; cbn [stable_sort]; [reflexivity|].
    rewrite <- insert_perm. now apply perm_skip.
  Qed.

  Lemma insert_sorted x l : key_sorted l -> key_sorted (insert_by key x l).
  Proof.
    induction 1 as [|y r Hs IH Hall]; cbn [insert_by].
    - constructor; constructor.
    - destruct (N.leb (key x) (key y)) eqn:E.
      + apply N.leb_le in E. constructor; [now constructor|].
        constructor; [assumption|].
        eapply Forall_impl; [|exact Hall]. cbn beta. intros z Hz. lia.
      + apply N.leb_gt in E. constructor; [assumption|].
        eapply Permutation_Forall; [apply insert_perm|].
        constructor; [lia|assumption].
  Qed.

  Lemma sort_sorted l : key_sorted (stable_sort key l).
  Proof.
    induction l as [|x r IH]; cbn [stable_sort]; [constructor|now apply insert_sorted].
  Qed.

  Lemma insert_stable k x l : with_key k (insert_by key x l) = with_key k (x :: l).
  Proof.
    unfold with_key. induction l as [|y r IH]; cbn [insert_by]; [reflexivity|].
    destruct (N.leb (key x) (key y)) eqn:E; [reflexivity|]. apply N.leb_gt in E.
    cbn [filter] in *. rewrite IH.
    destruct (N.eqb (key y) k) eqn:E1; destruct (N.eqb (key x) k) eqn:E2; try reflexivity.
    apply N.eqb_eq in E1, E2. lia.
  Qed.

  (* Stability: the declarations having any given key keep their relative order. *)
  Lemma sort_stable k l : with_key k (stable_sort key l) = with_key k l.
  Proof.
    induction l as [|x r IH]; cbn [stable_sort]; [reflexivity|].
    rewrite insert_stable. unfold with_key in *. cbn [filter]. now rewrite IH.
  Qed.

  Lemma key_sorted_app_l a b : key_sorted (a ++ b) -> key_sorted a.
  Proof.
    induction a as [|x a IH]; cbn [app]; intros H; [constructor|].
    inversion H as [|? ? Hs Hall]; subst. constructor; [now apply IH|].
    apply Forall_app in Hall. tauto.
  Qed.

  Lemma key_sorted_after p b q a :
    key_sorted (p ++ b :: q) -> In a q -> key b <= key a.
  Proof.
    induction p as [|y p IH]; cbn [app]; intros H Ha.
    - inversion H as [|? ? _ Hall]; subst. rewrite Forall_forall in Hall. now apply Hall.
    - inversion H; subst. now apply IH.
  Qed.

  Lemma sorted_before l a b :
    key_sorted l -> In a l -> In b l -> key a < key b -> before a b l.
  Proof.
    intros Hs Ha Hb Hlt. destruct (in_split b l Hb) as [p [q ->]].
    apply in_app_iff in Ha. destruct Ha as [Ha|[Ha|Ha]].
    - destruct (in_split a p Ha) as [p1 [p2 ->]]. exists p1, p2, q.
      now rewrite <- app_assoc.
    - subst. lia.
    - pose proof (key_sorted_after p b q a Hs Ha). lia.
  Qed.
End Sort.

Lemma before_filter {A} (f : A -> bool) a b l :
  before a b l -> f a = true -> f b = true -> before a b (filter f l).
Proof.
  intros [l1 [l2 [l3 ->]]] Ha Hb.
  exists (filter f l1), (filter f l2), (filter f l3).
  rewrite filter_app. cbn [filter]. rewrite Ha, filter_app. cbn [filter]. now rewrite Hb.
Qed.

Lemma before_cons {A} (y a b : A) l : before a b l -> before a b (y :: l).
Proof. intros [l1 [l2 [l3 ->]]]. now exists (y :: l1), l2, l3. Qed.

Lemma before_filter_inv {A} (f : A -> bool) a b l :
  before a b (filter f l) -> before a b l.
Proof.
  induction l as [|y l IH]; cbn [filter].
  - intros [l1 [l2 [l3 H]]]. destruct l1; discriminate.
  - destruct (f y).
    + intros [l1 [l2 [l3 H]]]. destruct l1 as [|z l1]; cbn [app] in H.
      * injection H as -> H.
        assert (Hb : In b (filter f l)).
        { rewrite H. apply in_app_iff. right. now left. }
        apply filter_In in Hb. destruct Hb as [Hb _].
        destruct (in_split b l Hb) as [p [q ->]]. now exists [], p, q.
      * injection H as -> H. apply before_cons. apply IH. now exists l1, l2, l3.
    + intros H. apply before_cons. now apply IH.
Qed.

(* Stability, order-theoretic reading: two declarations with equal keys appear in
   the output in the order in which they appear in the input. *)
Lemma sort_stable_before key a b l :
  before a b l -> key a = key b -> before a b (stable_sort key l).
Proof.
  intros Hb Hk.
  apply (before_filter_inv (fun d => N.eqb (key d) (key a))).
  fold (with_key key (key a) (stable_sort key l)). rewrite sort_stable.
  apply before_filter; [assumption|apply N.eqb_refl|]. rewrite Hk. apply N.eqb_refl.
Qed.

Lemma partition_point_spec key (p : decl -> bool) l :
  key_sorted key l ->
  (forall a b, key a <= key b -> p a = false -> p b = false) ->
  Forall (fun d => p d = true) (firstn (partition_point p l) l) /\
  Forall (fun d => p d = false) (skipn (partition_point p l) l).
Proof.
  intros Hs Hmono. induction Hs as [|x r Hs IH Hall]; cbn [partition_point].
  - cbn. split; constructor.
  - destruct (p x) eqn:E.
    + cbn [firstn skipn]. destruct IH as [IH1 IH2]. split; [now constructor|assumption].
    + cbn [firstn skipn]. split; [constructor|]. constructor; [assumption|].
      eapply Forall_impl; [|exact Hall]. cbn beta. intros z Hz. now apply (Hmono x z).
Qed.

(* Theorem 5a: what analyze_and_resolve's sort + partition produce. *)
Theorem sorted_spec dm ds conts funs :
  sorted dm ds = (conts, funs) ->
  conts ++ funs = stable_sort (sort_key dm) ds /\
  Permutation ds (conts ++ funs) /\
  key_sorted (sort_key dm) (conts ++ funs) /\
  Forall (fun d => is_container dm d = true) conts /\
  Forall (fun d => is_container dm d = false) funs /\
  (forall k, with_key (sort_key dm) k (conts ++ funs) = with_key (sort_key dm) k ds) /\
  (forall a b, before a b ds -> sort_key dm a = sort_key dm b -> before a b (conts ++ funs)).
Proof.
  unfold sorted. intros [= <- <-]. rewrite firstn_skipn.
  split; [reflexivity|]. split; [apply sort_perm|]. split; [apply sort_sorted|].
  assert (Hpp := partition_point_spec (sort_key dm) (is_container dm)
                   (stable_sort (sort_key dm) ds) (sort_sorted _ ds)).
  destruct Hpp as [H1 H2].
  { unfold is_container. intros a b Hab Ha. apply N.ltb_ge in Ha. apply N.ltb_ge. lia. }
  split; [assumption|]. split; [assumption|]. split; [intros k; apply sort_stable|].
  intros a b. apply sort_stable_before.
Qed.

Lemma function_key dm id : is_container dm (id, KFunction) = false.
Proof. reflexivity. Qed.

(* All functions (and imports, poisoned declarations, and constants/structures
   without a depth) end up in the second part. *)
Corollary functions_after_containers dm ds conts funs :
  sorted dm ds = (conts, funs) ->
  forall d, In d ds ->
    (is_container dm d = false -> In d funs /\ ~ In d conts) /\
    (is_container dm d = true -> In d conts /\ ~ In d funs).
Proof.
  intros Hs d Hd.
  destruct (sorted_spec dm ds conts funs Hs) as [_ [Hperm [_ [Hc [Hf _]]]]].
  rewrite Forall_forall in Hc, Hf.
  pose proof (Permutation_in d Hperm Hd) as Hin. apply in_app_iff in Hin.
  split; intros Hk.
  - assert (Hn : ~ In d conts) by (intros H; apply Hc in H; congruence). tauto.
  - assert (Hn : ~ In d funs) by (intros H; apply Hf in H; congruence). tauto.
Qed.

(* Theorem 5b: in the sorted container list every container comes after
   everything it contains.  [length cs < u32::MAX] is the assert! at the top of
   determine_container_depths. *)
Theorem sorted_respects_dependencies cs edges st rs ds conts funs :
  NoDup (map fst cs) -> declared (map fst cs) edges -> acyclic edges ->
  N.of_nat (length cs) < U32MAX ->
  process edges (init cs) = (st, rs) ->
  sorted (depths st) ds = (conts, funs) ->
  forall c e m, In (c, e, m) edges ->
    In (c, KContainer) ds -> In (e, KContainer) ds ->
    before (e, KContainer) (c, KContainer) conts /\
    ~ In (c, KContainer) funs /\ ~ In (e, KContainer) funs.
Proof.
  intros Hnd Hde Hac Hlen Hp Hs c e m Hin Hdc Hdee.
  destruct (process_acyclic_wf cs edges st rs Hnd Hde Hac Hp) as [Hok [Hcl [Hids Hwf]]].
  destruct (Hde _ _ _ Hin) as [Hc He]. rewrite <- Hids in Hc, He.
  destruct (find_c_Some_ids _ _ Hc) as [cc Hcc]. destruct (find_c_Some_ids _ _ He) as [ce Hce].
  assert (Hkc : sort_key (depths st) (c, KContainer) = height st c).
  { unfold sort_key. cbn [fst snd]. now rewrite (depth_of_height st c Hwf), Hcc. }
  assert (Hke : sort_key (depths st) (e, KContainer) = height st e).
  { unfold sort_key. cbn [fst snd]. now rewrite (depth_of_height st e Hwf), Hce. }
  assert (Hlt : height st e < height st c).
  { apply (height_gt st c cc e Hwf Hcc). apply (Hcl c cc Hcc). eapply reach_one; eassumption. }
  assert (Hlen' : length st = length cs).
  { rewrite <- (map_length c_id st), Hids. apply map_length. }
  pose proof (height_lt_len st c cc Hwf Hcc) as Hb1. rewrite Hlen' in Hb1.
  assert (Hic : is_container (depths st) (c, KContainer) = true).
  { unfold is_container. rewrite Hkc. apply N.ltb_lt. lia. }
  assert (Hie : is_container (depths st) (e, KContainer) = true).
  { unfold is_container. rewrite Hke. apply N.ltb_lt. lia. }
  destruct (functions_after_containers _ _ _ _ Hs _ Hdc) as [_ Hc2].
  destruct (functions_after_containers _ _ _ _ Hs _ Hdee) as [_ He2].
  destruct (Hc2 Hic) as [Hc3 Hc4]. destruct (He2 Hie) as [He3 He4].
  split; [|tauto].
  destruct (sorted_spec _ _ _ _ Hs) as [_ [_ [Hso _]]].
  apply key_sorted_app_l in Hso.
  apply (sorted_before (sort_key (depths st))); try assumption. rewrite Hkc, Hke. assumption.
Qed.

(* ------------------------------------------------------------------------- *)
(* 6. cyclic containers, and everything that depends on them, get no depth     *)
(*    (Poisoned), whatever happened after the first error                     *)
(* ------------------------------------------------------------------------- *)

Lemma found1_mono via c e st st' r :
  found1 via c e st = (st', r) ->
  map c_id st' = map c_id st /\
  forall id o, find_c id st = Some o ->
    exists o', find_c id st' = Some o' /\ incl (c_ids o) (c_ids o').
Proof.
  intros H.
  destruct (find_c c st) as [cc|] eqn:Hc;
    [|rewrite found1_panic in H by (now left); injection H as <- <-; eauto using incl_refl].
  destruct (find_c e st) as [ce|] eqn:He;
    [|rewrite found1_panic in H by (now right); injection H as <- <-; eauto using incl_refl].
  destruct (found1_spec via c e st cc ce Hc He) as [st1 [r1 [H1 [Hids Hr]]]].
  rewrite H in H1. injection H1 as <- <-. split; [assumption|].
  intros id o Ho. destruct r as [| |code|].
  - destruct Hr as [_ [_ [_ Hup]]]. destruct (Hup id o Ho) as [o' [Ho' [_ Hx]]].
    exists o'. split; [assumption|]. intros x Hin. apply Hx. now left.
  - destruct Hr as [_ ->]. eauto using incl_refl.
  - (* Err: only the first container with id c was updated *)
    unfold found1 in H. rewrite He, Hc in H.
    destruct (mem_name c (c_ids cc)); [discriminate|].
    destruct (mem_name c _); [|discriminate]. injection H as <- _.
    rewrite find_c_update. destruct (N.eqb id c) eqn:E.
    + apply N.eqb_eq in E. subst id. rewrite Ho. cbn [option_map]. eexists. split; [reflexivity|].
      cbn [c_ids]. rewrite Hc in Ho. injection Ho as <-.
      intros x Hin. apply In_set_union. now left.
    + eauto using incl_refl.
  - contradiction.
Qed.

Lemma found1_adds via c e st st' r :
  found1 via c e st = (st', r) -> r <> Panic ->
  exists o', find_c c st' = Some o' /\ (In e (c_ids o') \/ In c (c_ids o')).
Proof.
  intros H Hnp.
  destruct (find_c c st) as [cc|] eqn:Hc;
    [|rewrite found1_panic in H by (now left); injection H as <- <-; congruence].
  destruct (find_c e st) as [ce|] eqn:He;
    [|rewrite found1_panic in H by (now right); injection H as <- <-; congruence].
  unfold found1 in H. rewrite He, Hc in H.
  destruct (mem_name c (c_ids cc)) eqn:E1.
  { injection H as <- <-. exists cc. split; [assumption|]. right. now apply mem_name_In. }
  assert (Hfind : find_c c (update_first c (set_union (c_ids cc) (set_insert e (c_ids ce))) st)
                  = Some (mkC (c_id cc) (set_union (c_ids cc) (set_insert e (c_ids ce))) (c_struct cc))).
  { rewrite find_c_update, N.eqb_refl, Hc. reflexivity. }
  assert (Hine : In e (set_union (c_ids cc) (set_insert e (c_ids ce)))).
  { apply In_set_union. right. apply In_set_insert. now left. }
  destruct (mem_name c (set_union _ _)) eqn:E2.
  - injection H as <- <-. eexists. split; [exact Hfind|]. left. exact Hine.
  - injection H as <- <-. rewrite find_c_propagate, Hfind. cbn [option_map].
    eexists. split; [reflexivity|]. left.
    unfold propagate1. cbn [c_ids]. rewrite E2. cbn [c_ids]. exact Hine.
Qed.

Lemma process_mono : forall edges st st' rs,
  process edges st = (st', rs) ->
  map c_id st' = map c_id st /\
  forall id o, find_c id st = Some o ->
    exists o', find_c id st' = Some o' /\ incl (c_ids o) (c_ids o').
Proof.
  induction edges as [|[[c e] m] rest IH]; intros st st' rs Hp.
  - cbn [process] in Hp. injection Hp as <- <-. eauto using incl_refl.
  - cbn [process] in Hp. destruct (found1 m c e st) as [st1 r] eqn:E1.
    destruct (process rest st1) as [st2 rs2] eqn:E2. injection Hp as <- <-.
    destruct (found1_mono _ _ _ _ _ _ E1) as [Hi1 Hm1]. destruct (IH _ _ _ E2) as [Hi2 Hm2].
    split; [congruence|]. intros id o Ho.
    destruct (Hm1 id o Ho) as [o1 [Ho1 Hs1]]. destruct (Hm2 id o1 Ho1) as [o2 [Ho2 Hs2]].
    exists o2. split; [assumption|]. eapply incl_tran; eassumption.
Qed.

Lemma process_adds : forall edges st st' rs,
  declared (map c_id st) edges -> process edges st = (st', rs) ->
  forall c e m, In (c, e, m) edges ->
    exists o', find_c c st' = Some o' /\ (In e (c_ids o') \/ In c (c_ids o')).
Proof.
  induction edges as [|[[c0 e0] m0] rest IH]; intros st st' rs Hde Hp c e m Hin; [destruct Hin|].
  cbn [process] in Hp. destruct (found1 m0 c0 e0 st) as [st1 r] eqn:E1.
  destruct (process rest st1) as [st2 rs2] eqn:E2. injection Hp as <- <-.
  destruct (found1_mono _ _ _ _ _ _ E1) as [Hi1 _].
  destruct Hin as [Heq|Hin].
  - injection Heq as -> -> ->.
    destruct (Hde c e m (or_introl eq_refl)) as [Hc He].
    destruct (find_c_Some_ids _ _ Hc) as [cc Hcc]. destruct (find_c_Some_ids _ _ He) as [ce Hce].
    assert (Hnp : r <> Panic).
    { destruct (found1_spec m c e st cc ce Hcc Hce) as [st1' [r' [E1' [_ Hr]]]].
      rewrite E1 in E1'. injection E1' as <- <-. intros ->. exact Hr. }
    destruct (found1_adds _ _ _ _ _ _ E1 Hnp) as [o1 [Ho1 Hor]].
    destruct (process_mono _ _ _ _ E2) as [_ Hm]. destruct (Hm c o1 Ho1) as [o2 [Ho2 Hs]].
    exists o2. split; [assumption|]. destruct Hor as [H|H]; [left|right]; now apply Hs.
  - assert (Hde1 : declared (map c_id st1) rest)
      by (rewrite Hi1; eapply declared_cons; eassumption).
    exact (IH st1 st2 rs2 Hde1 E2 c e m Hin).
Qed.

(* A set T of ids such that every container of T still has an element of T in
   its remaining set is never resolved by the peeling loop. *)
Definition stuck_d (T : N -> Prop) (ds : list dcont) : Prop :=
  forall d, In d ds -> T (d_id d) -> d_depth d = None /\ exists e, In e (d_rem d) /\ T e.

Lemma stuck_not_ready (T : N -> Prop) ds d : stuck_d T ds -> In d ds -> T (d_id d) -> is_ready d = false.
Proof.
  intros Hst Hd HS. destruct (Hst d Hd HS) as [H1 [e [He _]]].
  unfold is_ready. rewrite H1. destruct (d_rem d); [destruct He|reflexivity].
Qed.

Lemma loop_stuck (T : N -> Prop) : forall f k ds, stuck_d T ds -> stuck_d T (depth_loop f k ds).
Proof.
  induction f as [|f IH]; intros k ds Hst; [exact Hst|]. cbn [depth_loop].
  assert (Hmark : stuck_d T (map (mark k) ds)).
  { intros d' Hd' HS. apply in_map_iff in Hd'. destruct Hd' as [d [<- Hd]].
    unfold mark in *. destruct (is_ready d) eqn:E.
    - cbn [d_id] in HS. rewrite (stuck_not_ready T ds d Hst Hd HS) in E. discriminate.
    - now apply Hst. }
  destruct (resolved_ids ds) as [|r0 res] eqn:Eres; [exact Hmark|]. rewrite <- Eres.
  apply IH. intros d' Hd' HS. apply in_map_iff in Hd'. destruct Hd' as [d [<- Hd]].
  cbn [subtract d_id d_depth d_rem] in *. destruct (Hmark d Hd HS) as [H1 [e [He HSe]]].
  split; [assumption|]. exists e. split; [|assumption].
  apply In_set_diff. split; [assumption|].
  unfold resolved_ids. intros Hin. apply in_map_iff in Hin. destruct Hin as [d0 [Hid Hd0]].
  apply filter_In in Hd0. destruct Hd0 as [Hd0 Hr]. rewrite <- Hid in HSe.
  rewrite (stuck_not_ready T ds d0 Hst Hd0 HSe) in Hr. discriminate.
Qed.

Lemma depth_of_None x dm :
  (forall p, In p dm -> fst p = x -> snd p = None) -> depth_of x dm = None.
Proof.
  induction dm as [|[i d] dm IH]; cbn [depth_of]; intros H; [reflexivity|].
  destruct (N.eqb i x) eqn:E.
  - apply N.eqb_eq in E. exact (H (i, d) (or_introl eq_refl) E).
  - apply IH. intros p Hp. apply H. now right.
Qed.

Lemma depths_stuck (T : N -> Prop) st :
  (forall c, In c st -> T (c_id c) -> exists e, In e (c_ids c) /\ T e) ->
  forall x, T x -> depth_of x (depths st) = None.
Proof.
  intros Hst x HS. apply depth_of_None. intros p Hp Hx. unfold depths in Hp.
  apply in_map_iff in Hp. destruct Hp as [d [<- Hd]]. cbn [fst snd] in *.
  eapply (loop_stuck T (length st) 0); [|exact Hd|now rewrite Hx].
  intros d0 Hd0 HS0. apply in_map_iff in Hd0. destruct Hd0 as [c [<- Hc]].
  cbn [d_id d_depth d_rem] in *. split; [reflexivity|]. now apply Hst.
Qed.

(* x is on a cycle or depends (transitively) on something that is. *)
Definition tainted (es : list edge) (x : N) : Prop :=
  exists y, reach es y y /\ (x = y \/ reach es x y).

Lemma tainted_edge es x : tainted es x -> exists e m, In (x, e, m) es /\ tainted es e.
Proof.
  intros [y [Hy [->|Hx]]].
  - inversion Hy as [a b m Hin|a b c m Hin Hr]; subst.
    + exists y, m. split; [assumption|]. exists y. auto.
    + exists b, m. split; [assumption|]. exists y. auto.
  - inversion Hx as [a b m Hin|a b c m Hin Hr]; subst.
    + exists y, m. split; [assumption|]. exists y. auto.
    + exists b, m. split; [assumption|]. exists y. auto.
Qed.

Theorem cyclic_rejected cs edges st rs :
  NoDup (map fst cs) -> declared (map fst cs) edges ->
  process edges (init cs) = (st, rs) ->
  forall x, tainted edges x ->
    depth_of x (depths st) = None /\
    sort_key (depths st) (x, KContainer) = U32MAX /\
    is_container (depths st) (x, KContainer) = false.
Proof.
  intros Hnd Hde Hp x Hx.
  assert (Hde' : declared (map c_id (init cs)) edges) by now rewrite map_id_init.
  destruct (process_mono _ _ _ _ Hp) as [Hids _]. rewrite map_id_init in Hids.
  assert (H : depth_of x (depths st) = None).
  { apply (depths_stuck (tainted edges)); [|assumption].
    intros c Hc HS. destruct (tainted_edge _ _ HS) as [e [m [Hin He]]].
    destruct (process_adds _ _ _ _ Hde' Hp _ _ _ Hin) as [o' [Ho' Hor]].
    rewrite find_c_NoDup in Ho' by (rewrite ?Hids; assumption). injection Ho' as <-.
    destruct Hor as [H|H]; [exists e|exists (c_id c)]; auto. }
  split; [assumption|]. unfold is_container, sort_key. cbn [fst snd]. rewrite H. split; reflexivity.
Qed.

(* ------------------------------------------------------------------------- *)
(* Examples                                                                   *)
(* ------------------------------------------------------------------------- *)

(* chain: structure 1 contains structure 2 contains constant 3;
   predeclared and processed "backwards" and "forwards". *)
Example ex_chain :
  run [(1, true); (2, true); (3, false)] [(1, 2, true); (2, 3, true)]
  = ([(1, Some 2); (2, Some 1); (3, Some 0)], []).
Proof. vm_compute. reflexivity. Qed.

Example ex_chain_perm :
  run [(3, false); (1, true); (2, true)] [(2, 3, true); (1, 2, true)]
  = ([(3, Some 0); (1, Some 2); (2, Some 1)], []).
Proof. vm_compute. reflexivity. Qed.

Example ex_chain_state :
  fst (process [(2, 3, true); (1, 2, true)] (init [(1, true); (2, true); (3, false)]))
  = [mkC 1 [3; 2] true; mkC 2 [3] true; mkC 3 [] false].
Proof. vm_compute. reflexivity. Qed.

(* propagation loop at work: 1 -> 2 is known before 2 -> 3 is found *)
Example ex_chain_state' :
  fst (process [(1, 2, true); (2, 3, true)] (init [(1, true); (2, true); (3, false)]))
  = [mkC 1 [2; 3] true; mkC 2 [3] true; mkC 3 [] false].
Proof. vm_compute. reflexivity. Qed.

(* diamond 1 -> {2,3} -> 4, plus a shortcut 1 -> 4 *)
Example ex_diamond :
  run [(1, true); (2, true); (3, true); (4, false)]
      [(1, 2, true); (1, 3, true); (1, 4, true); (2, 4, true); (3, 4, true)]
  = ([(1, Some 2); (2, Some 1); (3, Some 1); (4, Some 0)], []).
Proof. vm_compute. reflexivity. Qed.

(* 2-cycle through a structure (1) and a constant (2): which code is reported
   depends on which declaration comes first in the source. *)
Example ex_cycle_struct_first :
  run [(1, true); (2, false)] [(1, 2, true); (2, 1, false)]
  = ([(1, None); (2, None)], [E413]).
Proof. vm_compute. reflexivity. Qed.

Example ex_cycle_const_first :
  run [(2, false); (1, true)] [(2, 1, false); (1, 2, true)]
  = ([(2, None); (1, None)], [E416]).
Proof. vm_compute. reflexivity. Qed.

(* a pure structure cycle 1 -> 2 -> 1 and a bystander 3 depending on it *)
Example ex_cycle_structs :
  run [(1, true); (2, true); (3, true); (4, true)] [(3, 1, true); (1, 2, true); (2, 1, true)]
  = ([(1, None); (2, None); (3, None); (4, Some 0)], [E415]).
Proof. vm_compute. reflexivity. Qed.

(* Quirk: `cycle` is the whole contained set, so a structure that contains
   itself and, unrelatedly, uses a constant (2) as an array length is reported as
   CyclicalStructureWithConstant although no constant is on the cycle. *)
Example ex_quirk_416 :
  run [(1, true); (2, false)] [(1, 2, true); (1, 1, true)]
  = ([(1, None); (2, Some 0)], [E416]).
Proof. vm_compute. reflexivity. Qed.

(* ... and the code depends on member order: self-reference first gives E415. *)
Example ex_quirk_415 :
  run [(1, true); (2, false)] [(1, 1, true); (1, 2, true)]
  = ([(1, None); (2, Some 0)], [E415]).
Proof. vm_compute. reflexivity. Qed.

(* After a container has been reported once, later edges of the same container
   are silently Poisoned (no second code). *)
Example ex_poisoned_silent :
  snd (process [(1, 1, true); (1, 2, true); (1, 1, true)] (init [(1, true); (2, false)]))
  = [Err E415; Poisoned; Poisoned].
Proof. vm_compute. reflexivity. Qed.

(* An undeclared containee is a panic in the compiler. *)
Example ex_panic :
  snd (process [(1, 7, true)] (init [(1, true)])) = [Panic].
Proof. vm_compute. reflexivity. Qed.

(* sort + partition: functions keep their relative order and go last;
   containers are ordered by depth, ties in source order. *)
Example ex_sorted :
  let dm := fst (run [(1, true); (2, true); (3, true); (4, false)]
                     [(1, 2, true); (1, 3, true); (2, 4, true); (3, 4, true)]) in
  sorted dm [(10, KFunction); (1, KContainer); (3, KContainer); (11, KFunction);
             (2, KContainer); (4, KContainer)]
  = ([(4, KContainer); (3, KContainer); (2, KContainer); (1, KContainer)],
     [(10, KFunction); (11, KFunction)]).
Proof. vm_compute. reflexivity. Qed.

(* cyclic containers are sorted among the functions *)
Example ex_sorted_cyclic :
  let dm := fst (run [(1, true); (2, false); (3, false)] [(1, 2, true); (2, 1, false)]) in
  sorted dm [(10, KFunction); (1, KContainer); (2, KContainer); (3, KContainer)]
  = ([(3, KContainer)], [(10, KFunction); (1, KContainer); (2, KContainer)]).
Proof. vm_compute. reflexivity. Qed.

(* Acceptance and depths are order-independent, but WHICH cycle code is reported
   is not: the natural statement "a permutation of the edges gives the same
   codes" is refuted. *)
Example codes_perm_invariant_refuted :
  exists cs es es', Permutation es es' /\
    snd (run cs es) <> snd (run cs es').
Proof.
  exists [(1, true); (2, false)], [(1, 2, true); (2, 1, false)], [(2, 1, false); (1, 2, true)].
  split; [apply perm_swap|]. vm_compute. discriminate.
Qed.

(* the hypotheses of the theorems are satisfiable by a non-trivial graph *)
Example ex_hyps :
  let cs := [(1, true); (2, true); (3, true); (4, false)] in
  let es := [(1, 2, true); (1, 3, true); (2, 4, true); (3, 4, true)] in
  NoDup (map fst cs) /\ declared (map fst cs) es /\ acyclic es.
Proof.
  cbn zeta.
  assert (Hde : declared (map fst [(1, true); (2, true); (3, true); (4, false)])
                  [(1, 2, true); (1, 3, true); (2, 4, true); (3, 4, true)]).
  { intros a b m Hin. cbn [In map fst] in *.
    intuition (match goal with Heq : (_, _, _) = (_, _, _) |- _ => injection Heq as <- <- <- end; tauto). }
  split; [|split].
  - cbn [map fst]. repeat constructor; cbn [In]; intuition discriminate.
  - exact Hde.
  - apply acyclic_not_cyclic. intros Hc.
    apply (cycle_detected_iff _ _ Hde) in Hc.
    destruct Hc as [k [Hk _]]. vm_compute in Hk. exact Hk.
Qed.

Print Assumptions closure_invariant.
Print Assumptions closure_invariant_In.
Print Assumptions cycle_detected_iff.
Print Assumptions depths_topological.
Print Assumptions depths_characterisation.
Print Assumptions depths_perm_invariant.
Print Assumptions depth_is_longest_path.
Print Assumptions sorted_spec.
Print Assumptions sorted_respects_dependencies.
Print Assumptions cyclic_rejected.
